"""C47 — named entities have unique names within their namespace.

Model:    lean/IofloModel/Model/Registry.lean (Registrar.__init__/Clear, House.__init__/assignRegistries,
          housing.ClearRegistries, Framer.assignFrameRegistry; class attributes Names/Counter with inheritance)
Theorems: lean/IofloModel/Props/C47.lean
Tie:      the same history on the real classes (House, Store, Tasker, Framer, Logger, Log, Frame; the
          `random` of registering.py replaced by a supply of letters) and on the Lean model (engine
          `registry`); after EVERY operation: the result (assigned name / ParameterError), which dict each
          class's `Names` is, and the full content of every registry dict ever made (name -> instance).
Oracle:   (independent of the model) registries only ever grow; a successful creation adds exactly one
          entry (chosen name -> the new instance) to the dict that was current for the class, and nothing
          anywhere else; an explicit name already present is rejected; an automatic name is never rejected,
          begins with the preface and is new; every entry's instance carries the entry's key as its name.

A case is {"ops": [...]}:
  ["new", cls, name, letters]      cls in store|tasker|framer|logger|log|frame; name "" = automatic
  ["newHouse", name, letters]
  ["clear", cls] ["clearRegistries"] ["assignRegistries", k] ["assignFrameRegistry", k]
`letters` (a string a..z) is what `random.randint` will deliver to this operation.

A *calls* case is {"calls": [...]}: direct use of the classes in the builder's discipline
  ["house", name] (created and made current) ["assign", k] ["framer", name] ["frame", name] ["tasker", name]
  ["log", name] ["clone", k, name]   (Framer.clone of the k-th framer made so far, whatever house is current)
  ["prune", k]                       (Framer.prune of the k-th framer made so far, whatever house is current)
run under the same event recording as a program case.

A *program* case is {"script": [FloScript lines]}: the script is built AND RUN (at most 32 ticks) with the real
Skedder, so that run-time `rear` clones are made while the last built house's namespace is current; the harness
records every registry event (Registrar.__init__ with its class and explicit name, Clear, House.assignRegistries,
Framer.assignFrameRegistry) by wrapping those methods inside the harness process; the recorded event sequence is
the operation history given to the model (and to the oracle), and the registries are compared after every event.
"""
import json, os, tempfile
import core

CLASSES = ["house", "store", "tasker", "log", "frame", "framer", "logger"]
ROOTS = ["house", "store", "tasker", "log", "frame"]
PREFACE = {"house": "House", "store": "Store", "tasker": "Tasker", "log": "Log", "frame": "Frame",
           "framer": "Framer", "logger": "Logger"}


def hx(s):
    b = s.encode("utf-8")
    return b.hex() if b else "-"


def unhx(h):
    return "" if h == "-" else bytes.fromhex(h).decode("utf-8")


class OutOfLetters(Exception):
    pass


class Letters:
    """stands in for the module `random` inside registering.py"""
    def __init__(self):
        self.supply = []

    def randint(self, a, b):
        if not self.supply:
            raise OutOfLetters()
        return self.supply.pop(0)


class Impl:
    def __init__(self):
        core.import_ioflo()
        from ioflo.base import registering, housing, storing, tasking, framing, logging, excepting
        self.mods = dict(registering=registering, housing=housing)
        self.excepting = excepting
        self.cls = {"house": housing.House, "store": storing.Store, "tasker": tasking.Tasker,
                    "log": logging.Log, "frame": framing.Frame, "framer": framing.Framer,
                    "logger": logging.Logger}
        self.registering = registering
        # a store for the constructors that need one, made BEFORE the reset (its registration is wiped)
        self.scratch = storing.Store(name="scratchstore%d" % id(self))
        # fresh-interpreter class state: roots cleared, no shadowing attributes on the subclasses
        for r in ROOTS:
            self.cls[r].Clear()
        for sname in ("framer", "logger"):
            for a in ("Names", "Counter"):
                if a in self.cls[sname].__dict__:
                    delattr(self.cls[sname], a)
        self.dicts = {}     # id(dict) -> label
        self.dict_objs = []
        self.insts = {}     # id(obj) -> label
        self.keep = []
        self.houses = []
        self.framers = []
        for r in ROOTS:
            self.label_dict(self.cls[r].Names)
        self.letters = Letters()
        self.saved_random = registering.random
        registering.random = self.letters

    def close(self):
        self.registering.random = self.saved_random

    def label_dict(self, d):
        if id(d) not in self.dicts:
            self.dicts[id(d)] = len(self.dict_objs)
            self.dict_objs.append(d)

    def label_inst(self, o):
        if id(o) not in self.insts:
            self.insts[id(o)] = len(self.keep)
            self.keep.append(o)

    def state(self):
        b = ",".join("%s=%s" % (c, self.dicts.get(id(self.cls[c].Names), "?")) for c in CLASSES)
        ds = []
        for i, d in enumerate(self.dict_objs):
            ents = []
            for k, o in dict.items(d):
                lab = self.insts.get(id(o), "?")
                e = "%s=%s" % (hx(k) if isinstance(k, str) else "?", lab)
                nm = getattr(o, "name", None)
                if nm != k:
                    e += "!" + (hx(nm) if isinstance(nm, str) else "?")
                ents.append(e)
            ds.append("%d:%s" % (i, ",".join(sorted(ents))))
        return b + " | " + ";".join(ds)

    def do(self, op):
        k = op[0]
        ParameterError = self.excepting.ParameterError
        try:
            if k == "new":
                c, name, letters = op[1], op[2], op[3]
                self.letters.supply = [ord(ch) - 97 for ch in letters]
                cur = self.cls[c].Names
                kw = dict(name=name)
                if c in ("framer", "logger", "log", "tasker", "frame"):
                    kw["store"] = self.scratch
                try:
                    o = self.cls[c](**kw)
                finally:
                    self.letters.supply = []
                self.label_inst(o)
                if c == "framer":
                    self.label_dict(o.frameNames)
                    self.framers.append(o)
                out = "NAME %s %d" % (hx(o.name), self.insts[id(o)])
            elif k == "newHouse":
                name, letters = op[1], op[2]
                self.letters.supply = [ord(ch) - 97 for ch in letters]
                hcur = self.cls["house"].Names
                before = set(dict.keys(hcur))
                try:
                    try:
                        h = self.cls["house"](name=name)
                    finally:
                        self.letters.supply = []
                    self.label_inst(h)
                    self.houses.append(h)
                    for key in ("store", "tasker", "log"):
                        self.label_dict(h.names[key])
                    self.label_inst(h.store)
                    out = "NAME %s %d" % (hx(h.name), self.insts[id(h)])
                except ParameterError:
                    # the house may have been registered before its Store was refused
                    new = [kk for kk in dict.keys(hcur) if kk not in before]
                    for kk in new:
                        z = hcur[kk]
                        self.label_inst(z)
                        self.houses.append(z)
                        for key in ("store", "tasker", "log"):
                            self.label_dict(z.names[key])
                    raise
            elif k == "clear":
                self.cls[op[1]].Clear()
                self.label_dict(self.cls[op[1]].Names)
                out = "unit"
            elif k == "clearRegistries":
                self.mods["housing"].ClearRegistries()
                for c in ("store", "tasker", "log"):
                    self.label_dict(self.cls[c].Names)
                out = "unit"
            elif k == "assignRegistries":
                if op[1] >= len(self.houses):
                    out = "NO-SUCH"
                else:
                    self.houses[op[1]].assignRegistries()
                    out = "unit"
            elif k == "assignFrameRegistry":
                if op[1] >= len(self.framers):
                    out = "NO-SUCH"
                else:
                    self.framers[op[1]].assignFrameRegistry()
                    out = "unit"
            else:
                out = "HARNESS bad op"
        except ParameterError:
            out = "ERR ParameterError"
        except OutOfLetters:
            out = "NEED-LETTERS"
        except Exception as ex:
            out = "ERR " + type(ex).__name__
        return out + " | " + self.state()


class TraceImpl(Impl):
    """builds a FloScript with the real Builder and turns the registry events into an operation history"""

    def __init__(self):
        super().__init__()
        self.lines = []
        self.ops = []
        self.pending = None
        self.drawn = []
        self.unmodelled = None

    def kind_of(self, obj):
        for k in ("house", "store", "framer", "logger", "tasker", "log", "frame"):
            if type(obj) is self.cls[k]:
                return k
        return None

    def flush(self):
        if self.pending is None:
            return
        op, objs, err = self.pending
        self.pending = None
        if op[0] == "new":
            if err is None:
                o = objs[0]
                self.label_inst(o)
                if op[1] == "framer":
                    self.label_dict(o.frameNames)
                    self.framers.append(o)
                out = "NAME %s %d" % (hx(o.name), self.insts[id(o)])
                if not self.owner_ok(op[1], o):
                    out += " !owner"
            else:
                out = err
        elif op[0] == "newHouse":
            h = objs[0]
            if h is not None:
                self.label_inst(h)
                self.houses.append(h)
                for key in ("store", "tasker", "log"):
                    self.label_dict(h.names[key])
                if len(objs) > 1 and objs[1] is not None:
                    self.label_inst(objs[1])
            out = err if err is not None else "NAME %s %d" % (hx(h.name), self.insts[id(h)])
        elif op[0] == "clear":
            self.label_dict(self.cls[op[1]].Names)
            out = "unit"
        else:
            out = "unit"
        self.ops.append(op)
        self.lines.append(json.dumps(op) + " ## " + out + " | " + self.state())

    def owner_ok(self, kind, o):
        """in a program every framer/logger/log belongs to the house of its store and every frame to the framer
        it names: it must be registered in THAT house's / framer's registry, not in whichever was current"""
        house = getattr(getattr(o, "store", None), "house", None)
        if not isinstance(house, self.cls["house"]):
            return True
        if kind in ("framer", "logger", "tasker"):
            return house.names["tasker"].get(o.name) is o
        if kind == "log":
            return house.names["log"].get(o.name) is o
        if kind == "frame":
            fr = o.framer if isinstance(o.framer, self.cls["framer"]) else house.names["tasker"].get(o.framer)
            if isinstance(fr, self.cls["framer"]):
                return fr.frameNames.get(o.name) is o
        return True

    def event(self, op, objs=(), err=None):
        self.flush()
        self.pending = (op, list(objs), err)

    def _traced(self, fn):
        """run fn() with the registry methods wrapped; returns a result word"""
        registering = self.registering
        ParameterError = self.excepting.ParameterError
        housing = self.mods["housing"]
        from ioflo.base import framing, building
        me = self
        orig_init = registering.Registrar.__init__
        orig_clear = registering.Registrar.__dict__["Clear"]
        orig_assign = housing.House.assignRegistries
        orig_fassign = framing.Framer.assignFrameRegistry

        class Supply:
            def randint(self_, a, b):
                v = (len(me.drawn) * 7 + 1) % 2       # a, b, a, b … deterministic
                me.drawn.append(v)
                return v

        def traced_init(obj, name='', preface='', **kw):
            k = me.kind_of(obj)
            if k is None:
                me.unmodelled = type(obj).__name__
                return orig_init(obj, name=name, preface=preface, **kw)
            pend = me.pending
            merge = (k == "store" and pend is not None and pend[0][0] == "newHouse" and pend[2] is None
                     and len(pend[1]) == 1 and pend[1][0] is not None and getattr(pend[1][0], "name", None) == name)
            if not merge:
                me.flush()
            start = len(me.drawn)
            try:
                orig_init(obj, name=name, preface=preface, **kw)
            except ParameterError:
                letters = "".join(chr(97 + v) for v in me.drawn[start:])
                if merge:
                    me.pending = (me.pending[0], me.pending[1] + [None], "ERR ParameterError")
                elif k == "house":
                    me.pending = (["newHouse", name if isinstance(name, str) else "?", letters], [None], "ERR ParameterError")
                else:
                    me.pending = (["new", k, name if isinstance(name, str) else "?", letters], [], "ERR ParameterError")
                raise
            letters = "".join(chr(97 + v) for v in me.drawn[start:])
            if k == "house":
                me.pending = (["newHouse", name, letters], [obj], None)
            elif merge:
                me.pending = (me.pending[0], me.pending[1] + [obj], None)
            else:
                me.pending = (["new", k, name, letters], [obj], None)

        def traced_clear(cls):
            k = None
            for kk in CLASSES:
                if cls is me.cls[kk]:
                    k = kk
            me.flush()
            orig_clear.__func__(cls)
            if k is None:
                me.unmodelled = "Clear on " + cls.__name__
            else:
                me.pending = (["clear", k], [], None)
                me.flush()

        def traced_assign(house):
            me.flush()
            orig_assign(house)
            me.pending = (["assignRegistries", me.houses.index(house) if house in me.houses else 999], [], None)
            me.flush()

        def traced_fassign(framer):
            me.flush()
            orig_fassign(framer)
            me.pending = (["assignFrameRegistry", me.framers.index(framer) if framer in me.framers else 999], [], None)
            me.flush()

        orig_prune = framing.Framer.prune

        def traced_prune(framer):
            me.flush()                  # whatever is pending is snapshotted before anything is removed
            orig_prune(framer)          # nested prunes and the assignRegistries of D47a are events of their own
            me.flush()
            me.pending = (["prune", me.framers.index(framer) if framer in me.framers else 999], [], None)
            me.flush()

        from ioflo.base import skedding, storing
        orig_change = storing.Store.changeStamp

        def bounded_change(store, stamp):
            if stamp is not None and stamp > 4.0:      # 32 ticks of 1/8 s: enough for every generated plan
                raise KeyboardInterrupt()              # Skedder.run turns this into an orderly shutdown
            return orig_change(store, stamp)

        registering.random = Supply()
        registering.Registrar.__init__ = traced_init
        registering.Registrar.Clear = classmethod(traced_clear)
        housing.House.assignRegistries = traced_assign
        framing.Framer.assignFrameRegistry = traced_fassign
        framing.Framer.prune = traced_prune
        storing.Store.changeStamp = bounded_change
        try:
            try:
                result = fn()
            except Exception as ex:
                result = "raised " + type(ex).__name__
            self.flush()
        finally:
            registering.Registrar.__init__ = orig_init
            registering.Registrar.Clear = orig_clear
            housing.House.assignRegistries = orig_assign
            framing.Framer.assignFrameRegistry = orig_fassign
            framing.Framer.prune = orig_prune
            storing.Store.changeStamp = orig_change
            registering.random = self.saved_random
        if self.unmodelled:
            self.lines.append("HARNESS unmodelled registrar class: %s" % self.unmodelled)
        return result

    def build(self, script, run=True):
        from ioflo.base import skedding
        d = tempfile.mkdtemp(prefix="c47-", dir=core.SCRATCH if os.path.isdir(core.SCRATCH) else None)
        path = os.path.join(d, "prog.flo")
        with open(path, "w") as f:
            f.write("\n".join(script).replace("@LOGDIR@", d) + "\n")

        def fn():
            sk = skedding.Skedder(name="c47", period=0.125, real=False, filepath=path)
            if not sk.build():
                return "build-failed"
            if run:
                sk.run()
                return "ran"
            return "built"
        cwd = os.getcwd()
        os.chdir(d)                     # whatever a logger writes with a relative path lands in the scratch directory
        try:
            return self._traced(fn)
        finally:
            os.chdir(cwd)
            import shutil
            shutil.rmtree(d, ignore_errors=True)

    def run_calls(self, calls):
        """direct use of the classes the way the builder uses them (a house is made current when it is created,
        instances get the store of the current house, a frame names the current framer), plus `clone`: a direct
        Framer.clone() of ANY earlier framer, also one of a house that is not the current one"""
        housing = self.mods["housing"]
        from ioflo.base import framing, tasking, logging
        CloneError = self.excepting.CloneError
        ParameterError = self.excepting.ParameterError
        st = {"house": None, "framer": None, "framers": []}

        def fn():
            for c in calls:
                try:
                    if c[0] == "house":
                        h = housing.House(name=c[1])
                        h.assignRegistries()
                        st["house"], st["framer"] = h, None
                    elif c[0] == "assign":
                        self.flush()                       # the list of registered houses is filled on flush
                        hs = self.houses
                        if c[1] < len(hs):
                            hs[c[1]].assignRegistries()
                            st["house"], st["framer"] = hs[c[1]], None
                    elif st["house"] is None:
                        continue
                    elif c[0] == "framer":
                        f = framing.Framer(name=c[1], store=st["house"].store)
                        f.assignFrameRegistry()
                        st["framer"] = f
                        st["framers"].append(f)
                    elif c[0] == "frame":
                        if st["framer"] is not None:
                            framing.Frame(name=c[1], store=st["house"].store, framer=st["framer"].name)
                    elif c[0] == "tasker":
                        tasking.Tasker(name=c[1], store=st["house"].store)
                    elif c[0] == "log":
                        logging.Log(name=c[1], store=st["house"].store)
                    elif c[0] == "prune":
                        if c[1] < len(st["framers"]):
                            f = st["framers"][c[1]]
                            st["house"], st["framer"] = f.store.house, None      # prune makes its own house current
                            f.prune()
                    elif c[0] == "clone":
                        if c[1] < len(st["framers"]):
                            orig = st["framers"][c[1]]
                            # clone() makes the original's house (and then the clone's frame registry) current
                            st["house"], st["framer"] = orig.store.house, None
                            cl = orig.clone(name=c[2], tag=c[2])
                            st["framers"].append(cl)
                except (CloneError, ParameterError):
                    pass
            return "done"
        return self._traced(fn)


class CHECK(core.Check):
    PROPERTY = "C47"
    LEAN_MODULES = ["IofloModel.Props.C47"]
    ENGINE = "registry"
    N_QUICK = 400
    N_THOROUGH = 8000
    N_SEARCH = 800
    RULE = ("histories of 1..50 operations on the real classes House, Store, Tasker, Framer, Logger, Log, Frame: "
            "explicit and automatic creations (explicit names deliberately of the automatic pattern "
            "<Preface><n>[letters], letter supplies chosen to run into existing names), duplicates, Clear on the root "
            "classes, housing.ClearRegistries, House creation (with its Store), assignRegistries / "
            "assignFrameRegistry switches between several houses / framers; non-trivial = an automatic name needed "
            "at least one random letter, an explicit duplicate was rejected and a namespace switch occurred. "
            "12% of the cases are generated FloScript programs (1-3 houses, framers, frames, moot framers cloned at "
            "build time as named and insular auxiliaries, also from other moots, and at RUN time by `rear` while the "
            "last built house's namespace is current; inactive loggers, logs; a planted duplicate in a quarter of "
            "them) built and run (<= 32 ticks) with the real Skedder, and 10% are direct-call histories in the "
            "builder's discipline with Framer.clone() of framers of a house that is not the current one, half of them "
            "under a name taken in the clone's own house; the harness records every registry event and the recorded "
            "event sequence drives the model (non-trivial: >= 12 events with framers, frames and a switch, resp. a "
            "clone and a switch); distinct by content")
    TRUSTED = ["correspondence: the real registering/housing/framing/tasking/logging/storing classes in-process vs the "
               "Lean model (driver engine 'registry'); compared after every operation: result, the dict each class's "
               "Names is bound to, the content of every registry dict ever made",
               "registering.random replaced by a letter supply (harness stub); class state reset to that of a fresh "
               "interpreter before each case (Clear on the roots, shadow attributes of Framer/Logger removed)",
               "CPython class-attribute lookup and augmented assignment on a class attribute",
               "program cases: the registry events of a real Builder run are recorded by wrapping Registrar.__init__, "
               "Registrar.Clear, House.assignRegistries and Framer.assignFrameRegistry inside the harness process "
               "(nothing in /repo is edited); the recorded events are the model's input, its predictions are compared "
               "after each event"]
    PARTIAL = ["not modelled: the non-registry parts of Framer.prune (exitAll, aux bookkeeping); Clear() called on a subclass by hand is "
               "modelled but not generated, Monitor/Server taskers, Registrar subclasses outside ioflo.base, "
               "non-string names (ParameterError), building a FloScript (names come from the script)"]
    TECHNIQUE = ("Lean 4 theorems (invariant over all histories; induction over the letter supply) + differential "
                 "correspondence after every step")
    LEVEL_TEXT = ("Full proof on the model for every history of creations, clears and namespace switches: every registry "
                  "dict is a map with one instance per name and every instance ever registered is still found under its "
                  "own name in the dict it registered in until it is pruned and in no other (C47_names_injective, C47_registered_stays, "
                  "C47_one_namespace_per_instance), a pruned (razed) framer frees its name in its own namespace and only there "
                  "(C47_prune_frees_own_name, C47_prune_elsewhere_noop), an explicit "
                  "duplicate is rejected and no dict changes (C47_duplicate_rejected), the automatic-name loop ends for "
                  "EVERY sequence of random letters within maxLen(Names)+1-len(start) letters on a name not in Names "
                  "(C47_autoname_terminates_fresh, C47_auto_never_rejected), a creation touches only the dict current "
                  "for its class (C47_namespace_isolation).")
    LEVEL_NOTE = ("Trusted: Lean kernel; axioms propext, Classical.choice, Quot.sound; the hand transcription of "
                  "Registrar.__init__/Clear, House.__init__/assignRegistries, Framer.assignFrameRegistry validated by "
                  "the correspondence runs; CPython's class attribute semantics; random.randint replaced by a stub.")

    # ---- generation
    def _name(self, rng, c, used):
        r = rng.random()
        if r < 0.40:
            return ""                                   # automatic
        if r < 0.70:                                    # explicit, of the automatic pattern
            return PREFACE[c] + str(rng.randrange(1, 6)) + rng.choice(["", "", "a", "b", "ab", "aa"])
        if r < 0.85 and used:
            return rng.choice(used)                     # likely duplicate
        return rng.choice(["x", "y", "main", "box", "House1", "Store1", "h", "S"])

    def _letters(self, rng):
        return "".join(rng.choice("ab") for _ in range(rng.choice([6, 8, 10])))

    def _script(self, rng):
        """a FloScript program with 1-3 houses, each with active framers whose frames step on every tick and end
        in `bid stop all`, moot framers cloned at BUILD time (`aux … as tag/mine`, also from other moots; the clone
        graph is acyclic) and at RUN time (`rear … in frame …`, executed while the LAST built house's namespace is
        the current one; `raze … in frame …` prunes reared clones again), inactive loggers with logs; in a quarter of the programs one duplicate name is planted
        (house, framer, frame, log, a framer named like a build-time clone or like a run-time clone)"""
        L = []
        fault = rng.choice(["house", "framer", "frame", "log", "clonename", "rearname"]) if rng.random() < 0.25 else None
        houses = rng.sample(["h1", "h2", "box", "sea"], rng.choice([1, 2, 2, 3]))
        if fault == "house" and len(houses) > 1:
            houses[-1] = houses[0]
        for h in houses:
            L.append("house " + h)
            moots = ["orig%d" % i for i in range(rng.choice([0, 1, 2, 3]))]
            mains = rng.sample(["main", "nav", "work", "pilot"], rng.choice([1, 2, 3]))
            if fault == "framer" and rng.random() < 0.7:
                mains.append(rng.choice(mains + moots))
            tags = iter("c%d" % i for i in range(100))
            planted, reared = [], []
            for fi, f in enumerate(mains):
                frames = rng.sample(["start", "run", "fin", "A", "B", "wait"], rng.choice([2, 3, 4, 5]))
                if fault == "frame" and rng.random() < 0.6:
                    frames.append(frames[0])
                L.append("framer %s be %s first %s" % (f, "active" if fi == 0 else rng.choice(["active", "inactive"]),
                                                       frames[0]))
                targets = []
                for j, fr in enumerate(frames):
                    L.append("  frame " + fr)
                    L.append("    print " + fr)
                    if moots and rng.random() < 0.5:
                        m = rng.choice(moots)
                        if rng.random() < 0.5:
                            tg = next(tags)
                            L.append("    aux %s as %s" % (m, tg))
                            planted.append("%s_%s" % (f, tg))
                        else:
                            L.append("    aux %s as mine" % m)
                    if targets and rng.random() < 0.5:
                        # raze what an earlier frame reared (the clone is pruned: it takes its name out of the
                        # registry); a later rear of the same moot asks for the same name again
                        L.append("    raze %s in frame %s" % (rng.choice(["all", "last", "first"]), rng.choice(targets)))
                    if moots and j + 1 < len(frames) and rng.random() < 0.6:
                        m = rng.choice(moots)
                        others = [x for x in frames if x != fr]
                        tgt = rng.choice(others)
                        L.append("    rear %s in frame %s" % (m, tgt))
                        targets.append(tgt)
                        reared.append("%s_%s1" % (f, m))
                    if j + 1 < len(frames):
                        L.append("    go next")
                    else:
                        L.append("    bid stop all")
            if fault == "clonename" and planted:
                L.append("framer %s be inactive first x" % rng.choice(planted))
                L.append("  frame x")
            if fault == "rearname" and reared:
                L.append("framer %s be inactive first x" % rng.choice(reared))
                L.append("  frame x")
            for i, m in enumerate(moots):
                frames = rng.sample(["A", "B", "C", "start"], rng.choice([1, 2, 3]))
                L.append("framer %s be moot first %s" % (m, frames[0]))
                for fr in frames:
                    L.append("  frame " + fr)
                    L.append("    print " + fr)
                    later = moots[i + 1:]
                    if later and rng.random() < 0.4:
                        L.append("    aux %s as %s" % (rng.choice(later), rng.choice(["mine", next(tags)])))
                    L.append("    go next")
                L.append("  frame Z")
                L.append("    done")
            lognames = ["l1", "l2", "l3", "nav"]
            for lg in rng.sample(["lg", "rec"], rng.choice([0, 1, 2])):
                L.append("logger %s to @LOGDIR@ at 0.5 be inactive" % lg)
                logs = [x + lg for x in rng.sample(lognames, rng.choice([0, 1, 2, 3]))]
                if fault == "log" and logs:
                    logs.append(logs[0])
                for l in logs:
                    L.append("  log %s on %s" % (l, rng.choice(["update", "never", "once"])))
        return L

    def _calls(self, rng):
        """direct calls in the builder's discipline with 2-3 houses, then clones of framers of ANY house — half of
        them under a name already used by a framer of the clone's own house — while another house is current"""
        calls, per_house, owner = [], [], []       # owner[i] = house index of framer i
        cur = None
        for _ in range(rng.choice([8, 15, 25, 40])):
            r = rng.random()
            if cur is None or (r < 0.12 and len(per_house) < 3):
                calls.append(["house", "h%d" % len(per_house)])
                per_house.append([])
                cur = len(per_house) - 1
            elif r < 0.40:
                nm = rng.choice(["main", "nav", "work", "w%d" % rng.randrange(4), "main_x", "nav_x"])
                calls.append(["framer", nm])
                if nm not in per_house[cur]:
                    per_house[cur].append(nm); owner.append(cur)
            elif r < 0.55:
                calls.append(["frame", rng.choice(["start", "run", "fin", "A"])])
            elif r < 0.62:
                calls.append([rng.choice(["tasker", "log"]), rng.choice(["t1", "t2", "main", "l1"])])
            elif r < 0.75:
                k = rng.randrange(len(per_house))
                calls.append(["assign", k]); cur = k
            elif owner and r < 0.82:
                calls.append(["prune", rng.randrange(len(owner))])
            elif owner:
                k = rng.randrange(len(owner))
                own = per_house[owner[k]]
                nm = rng.choice(own) if rng.random() < 0.5 else rng.choice(["main_x", "nav_x", "c%d" % rng.randrange(5)])
                calls.append(["clone", k, nm])
                if nm not in own:
                    own.append(nm); owner.append(owner[k])
        return calls

    def generate(self, rng, n, tier):
        for _ in range(n):
            r0 = rng.random()
            if r0 < 0.12:
                yield {"script": self._script(rng)}
                continue
            if r0 < 0.22:
                yield {"calls": self._calls(rng)}
                continue
            L = rng.choice([1, 3, 8, 15, 30, 50])
            ops, used, nh, nf = [], [], 0, 0
            for _ in range(L):
                r = rng.random()
                if r < 0.55:
                    c = rng.choice(["tasker", "tasker", "framer", "framer", "logger", "log", "frame", "frame", "store"])
                    nm = self._name(rng, c, used)
                    ops.append(["new", c, nm, self._letters(rng)])
                    if nm:
                        used.append(nm)
                    if c == "framer":
                        nf += 1
                elif r < 0.67:
                    nm = self._name(rng, "house", used)
                    ops.append(["newHouse", nm, self._letters(rng)])
                    nh += 1
                    if nm:
                        used.append(nm)
                elif r < 0.80:
                    ops.append(["assignRegistries", rng.randrange(0, nh + 1)])
                elif r < 0.90:
                    ops.append(["assignFrameRegistry", rng.randrange(0, nf + 1)])
                elif r < 0.96:
                    ops.append(["clear", rng.choice(ROOTS)])
                else:
                    ops.append(["clearRegistries"])
            yield {"ops": ops}

    def exhaustive(self, tier):
        """the automatic-name loop against arrangements of taken names <base>, <base>a, <base>b, <base>aa … and every
        letter supply over {a,b}: quick 7 arrangements x 8 supplies, thorough all 64 arrangements x 16 supplies.
        (<base> = Tasker<k+1> where k names are taken: every explicit creation also advances the counter.)"""
        import itertools
        sufs = ["a", "b", "aa", "ab", "ba", "bb"]
        if tier == "thorough":
            arrangements = [[""] + [x for x, on in zip(sufs, bits) if on] for bits in itertools.product([0, 1], repeat=6)]
            supplies = ["".join(t) for t in itertools.product("ab", repeat=4)]
        else:
            arrangements = [[""], ["", "a"], ["", "b"], ["", "a", "b"], ["", "a", "aa", "ab"],
                            ["", "a", "b", "aa", "ab", "ba", "bb"], ["", "b", "ba"]]
            supplies = ["".join(t) for t in itertools.product("ab", repeat=3)]
        for arr in arrangements:
            base = "Tasker%d" % (len(arr) + 1)
            for sup in supplies:
                yield {"ops": [["new", "tasker", base + x, ""] for x in arr] + [["new", "tasker", "", sup]]}

    # ---- both sides
    def impl(self, case):
        if "script" in case or "calls" in case:
            im = TraceImpl()
            try:
                result = im.build(case["script"]) if "script" in case else im.run_calls(case["calls"])
            finally:
                im.close()
            self.__dict__.setdefault("_traces", {})[core.case_key(case)] = im.ops
            self.__dict__.setdefault("_last_result", {})[core.case_key(case)] = "RESULT " + result
            return im.lines + ["RESULT " + result]
        im = Impl()
        try:
            return [im.do(op) for op in case["ops"]]
        finally:
            im.close()

    def _trace_ops(self, case):
        key = core.case_key(case)
        tr = self.__dict__.setdefault("_traces", {})
        if key not in tr:
            self.safe_impl(case)
        return tr.get(key, [])

    def requests(self, case):
        reqs = ["reset"]
        for op in (self._trace_ops(case) if ("script" in case or "calls" in case) else case["ops"]):
            k = op[0]
            if k == "new":
                reqs.append("new %s %s %s" % (op[1], hx(op[2]), op[3] or "-"))
            elif k == "newHouse":
                reqs.append("newHouse %s %s" % (hx(op[1]), op[2] or "-"))
            elif k == "clear":
                reqs.append("clear %s" % op[1])
            elif k in ("assignRegistries", "assignFrameRegistry", "prune"):
                reqs.append("%s %d" % (k, op[1]))
            else:
                reqs.append(k)
        return reqs

    def model_post(self, case, replies):
        out = self._model_post(replies)
        if "script" in case or "calls" in case:
            # the event and the build result are inputs, not predictions: copy them from the trace
            ops = self._trace_ops(case)
            out = [json.dumps(op) + " ## " + line for op, line in zip(ops, out)]
            out.append(self.__dict__.get("_last_result", {}).get(core.case_key(case), "RESULT ?"))
        return out

    def _model_post(self, replies):
        out = []
        for r in replies[1:]:
            parts = r.split(" | ")
            if len(parts) != 3:
                out.append(r)
                continue
            ds = []
            for d in parts[2].split(";"):
                lab, _, ents = d.partition(":")
                ds.append(lab + ":" + ",".join(sorted(e for e in ents.split(",") if e)))
            out.append(parts[0] + " | " + parts[1] + " | " + ";".join(ds))
        return out

    # ---- the property on the implementation's outputs
    @staticmethod
    def _parse(line):
        parts = line.split(" | ")
        if len(parts) != 3:
            return None
        binds = dict(x.split("=") for x in parts[1].split(","))
        dicts = {}
        for d in parts[2].split(";"):
            lab, _, ents = d.partition(":")
            m = {}
            for e in ents.split(","):
                if e:
                    kk, _, v = e.partition("=")
                    m[kk] = v
            dicts[lab] = m
        return parts[0], binds, dicts

    def oracle(self, case, out):
        if "script" in case or "calls" in case:
            if not out or not out[-1].startswith("RESULT "):
                return "harness: %s" % (out[-1:] or "no output")
            body = out[:-1]
            for line in body:
                if line.startswith("HARNESS"):
                    return line
            ops = [json.loads(line.split(" ## ", 1)[0]) for line in body]
            out = [line.split(" ## ", 1)[1] for line in body]
        else:
            ops = case["ops"]
        if len(out) != len(ops):
            return "harness: %d ops, %d outputs: %s" % (len(ops), len(out), out[:1])
        binds = {c: str(i) for i, c in enumerate(ROOTS)}
        binds["framer"] = binds["logger"] = binds["tasker"]
        dicts = {str(i): {} for i in range(5)}
        seen_insts = set()
        framer_insts = []     # per registered framer (in order): its instance label
        registered = {}       # instance label -> (registry label, name) where it registered
        house_dicts = []      # per registered house: the labels of its own store/tasker/log registries
        framer_dict = []      # per registered framer: the label of its own frame registry
        case = {"ops": ops}
        for i, (op, line) in enumerate(zip(ops, out)):
            p = self._parse(line)
            if p is None:
                return "op %d %s: %s" % (i, op, line)
            res, b2, d2 = p
            where = "op %d %s -> %s: " % (i, op[:3], res)
            if res.startswith("ERR ") and res != "ERR ParameterError":
                return where + "unexpected exception"
            if res.startswith("HARNESS") or res == "NEED-LETTERS":
                return where + "harness could not drive the operation"
            # registries only grow, entry by entry — except that a pruned (razed) framer takes itself out of the
            # registry it registered in, i.e. its own house's: afterwards its name is free there, and only there
            gone = None
            if op[0] == "prune" and op[1] < len(framer_insts):
                inst = framer_insts[op[1]]
                lab0, kk0 = registered.get(inst, (None, None))
                if lab0 is not None and dicts.get(lab0, {}).get(kk0) == inst:
                    gone = (lab0, kk0)
                    if d2.get(lab0, {}).get(kk0) == inst:
                        return where + "the razed framer %r is still registered in its own house's registry %s" % (
                            unhx(kk0), lab0)
            for lab, m in dicts.items():
                if lab not in d2:
                    return where + "registry dict %s vanished" % lab
                for kk, v in m.items():
                    if (lab, kk) == gone:
                        continue
                    if d2[lab].get(kk) != v:
                        return where + "entry %s of registry %s was lost or now names another instance" % (unhx(kk), lab)
            for lab, m in d2.items():
                for kk, v in m.items():
                    if "!" in v:
                        return where + "registry %s lists an instance under %r whose own name differs" % (lab, unhx(kk))
                    if v == "?":
                        return where + "registry %s holds an unknown object under %r" % (lab, unhx(kk))
            added = [(lab, kk, v) for lab, m in d2.items() for kk, v in m.items() if kk not in dicts.get(lab, {})]
            newdicts = [lab for lab in d2 if lab not in dicts]
            if any(d2[lab] for lab in newdicts if op[0] not in ("newHouse",)) and op[0] != "new":
                return where + "a new registry dict is born non-empty"
            k = op[0]
            expect_added = []
            if k in ("new", "newHouse"):
                c = op[1] if k == "new" else "house"
                name = op[2] if k == "new" else op[1]
                cur = binds[c]
                taken = dicts[cur]
                if name:
                    if hx(name) in taken:
                        if res != "ERR ParameterError":
                            return where + "explicit duplicate %r in registry %s was not rejected" % (name, cur)
                    elif res == "ERR ParameterError" and k == "new":
                        return where + "explicit name %r is free in registry %s but was rejected" % (name, cur)
                else:
                    if res == "ERR ParameterError" and k == "new":
                        return where + "an automatic name was rejected"
                if res.endswith(" !owner"):
                    return where + "the instance is not registered in the registry of the house / framer it belongs to"
                if res.startswith("NAME "):
                    _, hn, inst = res.split(" ")
                    got = unhx(hn)
                    if name and got != name:
                        return where + "explicit name %r became %r" % (name, got)
                    if not name and not got.startswith(PREFACE[c]):
                        return where + "automatic name %r does not start with %s" % (got, PREFACE[c])
                    if hn in taken:
                        return where + "name %r was already in registry %s" % (got, cur)
                    if inst in seen_insts:
                        return where + "instance label reused"
                    expect_added.append((cur, hn, inst))
                    if k == "newHouse":
                        # its Store registers under the same name in the current store registry
                        scur = binds["store"]
                        sa = [(lab, kk, v) for (lab, kk, v) in added if lab == scur]
                        if len(sa) != 1 or sa[0][1] != hn:
                            return where + "the house's store is not registered under the house's name"
                        expect_added.append(sa[0])
                elif k == "newHouse" and res == "ERR ParameterError":
                    # either the house name was taken (nothing added) or the store name was (house stays registered)
                    if name and hx(name) in taken:
                        pass
                    else:
                        sname = hx(name) if name else None
                        ha = [(lab, kk, v) for (lab, kk, v) in added if lab == cur]
                        if len(ha) != 1 or (sname and ha[0][1] != sname):
                            return where + "house creation was rejected without a duplicate name"
                        if ha[0][1] not in dicts[binds["store"]]:
                            return where + "house creation was rejected although neither name was taken"
                        expect_added.append(ha[0])
            # every house owns three registries of its own, every framer one: born empty, shared with nobody
            if k == "newHouse" and any(lab == binds["house"] for (lab, _, _) in added):
                if len(newdicts) != 3 or any(d2[lab] for lab in newdicts):
                    return where + "a house must bring three new empty registries of its own, got %d" % len(newdicts)
                house_dicts.append(sorted(newdicts, key=int))
            elif k == "new" and op[1] == "framer" and res.startswith("NAME "):
                if len(newdicts) != 1 or d2[newdicts[0]]:
                    return where + "a framer must bring one new empty frame registry of its own"
                framer_dict.append(newdicts[0])
            elif newdicts and k not in ("clear", "clearRegistries"):
                return where + "unexpected new registry"
            if sorted(added) != sorted(expect_added):
                extra = [x for x in added if x not in expect_added][:3]
                return where + "registries changed beyond the creation's own entry: %s" % (
                    "; ".join("%s[%s]=%s" % (lab, unhx(kk), v) for lab, kk, v in extra) or "entry missing")
            for (lab, kk, v) in added:
                seen_insts.add(v)
                registered[v] = (lab, kk)
            if k == "new" and op[1] == "framer" and res.startswith("NAME "):
                framer_insts.append(res.split(" ")[2])
            # bindings
            want = dict(binds)
            if k == "clear":
                nd = [lab for lab in newdicts]
                if len(nd) != 1 or d2[nd[0]]:
                    return where + "Clear did not make exactly one new empty registry"
                want[op[1]] = nd[0]
                if op[1] == "tasker":
                    for sname in ("framer", "logger"):
                        if binds[sname] == binds["tasker"]:
                            want[sname] = nd[0]
            elif k == "clearRegistries":
                if len(newdicts) != 3:
                    return where + "ClearRegistries did not make three new registries"
                for c in ("store", "tasker", "log"):
                    want[c] = b2[c]
                    if b2[c] not in newdicts:
                        return where + "%s is not bound to a new registry" % c
                for sname in ("framer", "logger"):
                    if binds[sname] == binds["tasker"]:
                        want[sname] = b2["tasker"]
            elif k == "assignRegistries":
                if op[1] < len(house_dicts):
                    if res != "unit":
                        return where + "switching to an existing house failed"
                    # the house's own registries become the current ones
                    want["store"], want["tasker"], want["log"] = house_dicts[op[1]]
                    for sname in ("framer", "logger"):
                        if binds[sname] == binds["tasker"]:
                            want[sname] = want["tasker"]
            elif k == "assignFrameRegistry":
                if op[1] < len(framer_dict):
                    if res != "unit":
                        return where + "switching to an existing framer failed"
                    want["frame"] = framer_dict[op[1]]
            if b2 != want:
                return where + "class registries are %s, expected %s" % (b2, want)
            binds, dicts = b2, d2
        return None

    # ---- statistics
    def _split(self, case, out):
        """(ops, result lines) for both kinds of case"""
        if "script" in case or "calls" in case:
            body = [l for l in out[:-1] if " ## " in l]
            return [json.loads(l.split(" ## ", 1)[0]) for l in body], [l.split(" ## ", 1)[1] for l in body]
        return case["ops"], out

    def _stats(self, case, out):
        looped = dup = switch = False
        ops, out = self._split(case, out)
        for op, line in zip(ops, out):
            res = line.split(" | ")[0]
            if op[0] in ("new", "newHouse") and res.startswith("NAME "):
                name = op[2] if op[0] == "new" else op[1]
                got = unhx(res.split(" ")[1])
                if not name and got[-1:].isalpha() and got[-1:].islower() and any(ch.isdigit() for ch in got) \
                        and not got[-1:].isdigit() and got.rstrip("ab") != got:
                    looped = True
            if res == "ERR ParameterError":
                dup = True
            if op[0] in ("assignRegistries", "assignFrameRegistry") and res == "unit":
                switch = True
        return looped, dup, switch

    def nontrivial(self, case, out):
        if "calls" in case:
            ops, _ = self._split(case, out)
            return any(c[0] == "clone" for c in case["calls"]) and self._stats(case, out)[2] and len(ops) >= 8
        if "script" in case:
            ops, _ = self._split(case, out)
            kinds = set(op[1] for op in ops if op[0] == "new")
            return len(ops) >= 12 and {"framer", "frame"} <= kinds and self._stats(case, out)[2]
        return all(self._stats(case, out))

    def bucket(self, case, out):
        looped, dup, switch = self._stats(case, out)
        if "calls" in case:
            n = len(self._split(case, out)[0])
            return "calls ev%s %s" % ("<20" if n < 20 else "20+", "dup " if dup else "")
        if "script" in case:
            n = len(self._split(case, out)[0])
            return "program ev%s %s%s" % ("<20" if n < 20 else "20-59" if n < 60 else "60+", "dup " if dup else "",
                                          out[-1].split(" ")[1] if out else "")
        n = len(case["ops"])
        return "ops%s %s%s%s" % ("1-5" if n <= 5 else "6-20" if n <= 20 else "21+",
                                 "loop " if looped else "", "dup " if dup else "", "switch" if switch else "")

    def shrink_candidates(self, case):
        if "calls" in case:
            cs = case["calls"]
            for i in range(len(cs)):
                yield {"calls": cs[:i] + cs[i + 1:]}
            return
        if "script" in case:
            lines = case["script"]
            for i in range(len(lines)):
                yield {"script": lines[:i] + lines[i + 1:]}
            return
        ops = case["ops"]
        for i in range(len(ops)):
            yield {"ops": ops[:i] + ops[i + 1:]}
