"""
Doubles for the HTTP checks of agent http-b (C34, C30, C31).

* `Net` is a tiny in-process "internet": a DNS table (name -> ip), a set of listening
  endpoints (ip, port, tls) and, for every accepted connection, the server end of a real
  `socket.socketpair()`.  What arrives at each server end is logged by the stub server.
* `client_classes(net)` returns subclasses of the REAL `ioflo.aio.tcp.clienting.Client`
  whose `open/accept/connect` obtain their socket from the `Net` instead of the kernel's TCP
  stack; `receive/send/serviceReceives/serviceTxes/tx/close` are the real methods working on a real
  non-blocking socket (one end of the pair).  The "TLS" variant is the same transport with
  a `context` attribute and the `connected` flag of the real `ClientTls`; no cryptography.
* `patched(net)` installs the doubles (`clienting.Client`, `clienting.ClientTls`,
  `aioing.normalizeHost`) for the duration of a `with` block and restores the originals.
Nothing here looks at the Lean model.
"""
import socket, contextlib, errno, re


class Net:
    def __init__(self, dns=None, listening=None):
        self.dns = dict(dns or {})
        self.listening = listening  # None = every endpoint listens; else set of (ip, port, tls)
        self.log = []               # event tuples, in order
        self.conns = []             # dicts: id, ip, port, tls, sock, buf, open
        self.resolved = []          # names asked of the DNS double, in order

    # ---- DNS double (stands for aioing.normalizeHost)
    def resolve(self, host):
        self.resolved.append(host)
        if host == "":
            return "0.0.0.0"
        if host in self.dns:
            return self.dns[host]
        if re.fullmatch(r"\d{1,3}(\.\d{1,3}){3}", host or ""):
            return host
        raise socket.gaierror(socket.EAI_NONAME, "Name or service not known")

    # ---- connection establishment
    def connect(self, ha, tls):
        ip, port = ha
        if self.listening is not None and (ip, port, tls) not in self.listening:
            return None
        a, b = socket.socketpair()
        a.setblocking(False)
        b.setblocking(False)
        srv = getattr(self, "servers", {}).get((ip, port))
        if srv is not None:        # a server double (a real ioflo Server subclass) listens here
            self.nextport = getattr(self, "nextport", 50000) + 1
            ca = ("10.9.9.9", self.nextport)
            if getattr(self, "relayed", False):
                # a wire in between: what either side sends waits in the relay until `move_*` lets (part of) it through
                a2, b2 = socket.socketpair()
                for x in (a2, b2):
                    x.setblocking(False)
                self.links = getattr(self, "links", [])
                self.links.append({"cside": b, "sside": a2, "c2s": bytearray(), "s2c": bytearray()})
                b = b2
            srv.pending.append((SockDouble(b, peer=ca, name=(ip, port), tap=self.tap if hasattr(self, "tap") else None, net=self), ca))
            self.log.append(("CONNECT", len(self.conns), ip, port, tls))
            self.conns.append({"id": len(self.conns), "ip": ip, "port": port, "tls": tls, "sock": None, "buf": bytearray(),
                               "open": False})
            return ClientSock(a, self)
        cid = len(self.conns)
        self.conns.append({"id": cid, "ip": ip, "port": port, "tls": tls, "sock": b, "buf": bytearray(),
                           "open": True})
        self.log.append(("CONNECT", cid, ip, port, tls))
        return ClientSock(a, self)

    # ---- a socket that takes only part of a request (a large upload, a peer that does not read)
    def arm_cap(self, k):
        """the next client socket that sends takes the head of what it is given (through the first blank line) and `k`
        more bytes, then blocks (EAGAIN) until `lift_cap`; other sockets are not limited"""
        self.cap = {"k": k, "sock": None, "seen": bytearray(), "blocked": False}

    def lift_cap(self):
        self.cap = None

    def pump(self):
        """read what has arrived at every server end; returns list of (conn, closed_now)"""
        out = []
        for c in self.conns:
            if not c["open"]:
                continue
            closed = False
            while True:
                try:
                    d = c["sock"].recv(65536)
                except (BlockingIOError, InterruptedError):
                    break
                except OSError as ex:
                    if ex.errno in (errno.ECONNRESET, errno.ENOTCONN, errno.EPIPE):
                        closed = True
                        break
                    raise
                if not d:
                    closed = True
                    break
                c["buf"].extend(d)
            if closed:
                c["open"] = False
                c["sock"].close()
                self.log.append(("CLOSE", c["id"]))
            out.append((c, closed))
        return out

    @staticmethod
    def _drain(sock, buf):
        """returns True when the sender has closed (end of stream)"""
        while True:
            try:
                d = sock.recv(65536)
            except (BlockingIOError, InterruptedError):
                return False
            except OSError:
                return True
            if not d:
                return True
            buf.extend(d)

    def move(self, direction, quota=None):
        """relayed wires only: let up to `quota` bytes (None = all) of what has been sent in `direction`
        ('c2s' or 's2c') through to the receiver"""
        for l in getattr(self, "links", []):
            src, dst, buf = (l["cside"], l["sside"], l["c2s"]) if direction == "c2s" else (l["sside"], l["cside"], l["s2c"])
            before = len(buf)
            if self._drain(src, buf):
                l["eof_" + direction] = True
            if direction == "s2c" and hasattr(self, "wiretap") and len(buf) > before:
                self.wiretap(bytes(buf[before:]))
            n = len(buf) if quota is None or quota < 0 else min(quota, len(buf))
            if n:
                try:
                    dst.sendall(bytes(buf[:n]))
                except OSError:
                    pass
                del buf[:n]
            if l.get("eof_" + direction) and not buf and not l.get("closed_" + direction):
                # the sender closed and everything it wrote has been passed on: the receiver sees the close
                l["closed_" + direction] = True
                try:
                    dst.close()        # the receiver reads the end of the stream; what it sends from now on meets EPIPE
                except OSError:
                    pass

    def send(self, conn, data):
        if conn["open"] and data:
            try:
                conn["sock"].sendall(data)
            except OSError:
                pass

    def shutdown(self):
        for c in self.conns:
            if c["open"]:
                c["open"] = False
                try:
                    c["sock"].close()
                except OSError:
                    pass


class ClientSock:
    """client end of a socket pair; `send` honours the Net's cap (see `Net.arm_cap`), everything else is the socket's"""
    def __init__(self, sock, net):
        self._s, self._net = sock, net

    def send(self, data):
        cap = getattr(self._net, "cap", None)
        if cap is None or cap["sock"] not in (None, self):
            return self._s.send(data)
        cap["sock"] = self
        stream = bytes(cap["seen"]) + bytes(data)
        i = stream.find(b"\r\n\r\n")
        allowed = len(data) if i < 0 else (i + 4 + cap["k"]) - len(cap["seen"])
        if allowed < len(data):
            cap["blocked"] = True
        if allowed <= 0:
            raise BlockingIOError(errno.EAGAIN, "send capped by the double")
        n = self._s.send(bytes(data[:allowed]))
        cap["seen"].extend(data[:n])
        return n

    def __getattr__(self, k):
        return getattr(self._s, k)


class SockDouble:
    """server end of a socket pair that reports TCP-like addresses (a Unix socket pair has none)"""
    def __init__(self, sock, peer, name, tap=None, net=None):
        self._s, self._peer, self._name, self._tap, self._net = sock, peer, name, tap, net

    def getpeername(self):
        return self._peer

    def getsockname(self):
        return self._name

    def send(self, data):
        # a throttled server-side socket: `net.server_send_cap` = bytes one non-blocking send takes (None: all);
        # `net.server_send_eagain`: every other send takes nothing at all (EAGAIN)
        cap = getattr(self._net, "server_send_cap", None)
        if cap is not None:
            if getattr(self._net, "server_send_eagain", False):
                self._turn = not getattr(self, "_turn", False)
                if self._turn:
                    raise BlockingIOError(errno.EAGAIN, "send refused by the double")
            data = bytes(data[:cap])
        n = self._s.send(data)
        if self._tap is not None and n:
            self._tap(self._peer, bytes(data[:n]))
        return n

    def __getattr__(self, k):
        return getattr(self._s, k)


def server_class(net):
    """subclass of the REAL ioflo.aio.tcp.serving.Server whose listen socket is the Net"""
    from ioflo.aio.tcp import serving as tcps

    class FakeServer(tcps.Server):
        def open(self):
            self.pending = []
            net.servers = getattr(net, "servers", {})
            net.servers[(net.resolve(self.ha[0]) if self.ha[0] else "0.0.0.0", self.ha[1])] = self
            self.opened = True
            return True

        def close(self):
            self.opened = False

        def accept(self):
            if self.pending:
                return self.pending.pop(0)
            return (None, None)

    return FakeServer


def split_request(buf):
    """take one complete HTTP request off the front of bytearray `buf` (an independent, minimal
    reader used only by the stub servers): returns (startline, headers-list, body) or None"""
    i = buf.find(b"\r\n\r\n")
    if i < 0:
        return None
    head = bytes(buf[:i]).split(b"\r\n")
    start, hdrs = head[0], []
    for h in head[1:]:
        k, _, v = h.partition(b":")
        hdrs.append((k.strip().lower().decode("latin-1"), v.strip().decode("latin-1")))
    n = 0
    for k, v in hdrs:
        if k == "content-length":
            n = int(v)
    if len(buf) < i + 4 + n:
        return None
    body = bytes(buf[i + 4:i + 4 + n])
    del buf[:i + 4 + n]
    return start, hdrs, body


def client_classes(net):
    from ioflo.aio.tcp import clienting as tcpc

    class FakeClient(tcpc.Client):
        TLS = False

        def open(self):
            self.accepted = False
            self.connected = False
            self.cutoff = False
            self.cs = None
            self.opened = True
            net.log.append(("OPEN", self.ha[0], self.ha[1], self.TLS))
            return True

        def shutclose(self):
            if self.opened:
                net.log.append(("CLIENT-CLOSE",))
            if self.cs:
                try:
                    self.cs.close()
                except OSError:
                    pass
                self.cs = None
            self.accepted = False
            self.connected = False
            self.opened = False

        close = shutclose

        def reopen(self):
            self.close()
            return self.open()

        def accept(self):
            if self.cs is None:
                s = net.connect(self.ha, self.TLS)
                if s is None:
                    return False
                self.cs = s
            self.accepted = True
            self.cutoff = False
            return True

        def connect(self):
            return self.accept()

    class FakeClientTls(FakeClient):
        TLS = True

        def __init__(self, context=None, version=None, certify=None, hostify=None, certedhost="",
                     keypath=None, certpath=None, cafilepath=None, **kwa):
            super().__init__(**kwa)
            self._connected = False
            self.context = context if context is not None else "default-context"
            self.certedhost = certedhost or self.hostname

        @property
        def connected(self):
            return self._connected

        @connected.setter
        def connected(self, value):
            self._connected = value

        def connect(self):
            if not self.accepted:
                self.accept()
            if self.accepted and not self.connected:
                self.connected = True
            return self.connected

    return FakeClient, FakeClientTls


@contextlib.contextmanager
def patched(net):
    from ioflo.aio import aioing
    from ioflo.aio.http import clienting as hc
    C, T = client_classes(net)
    saved = (hc.Client, hc.ClientTls, aioing.normalizeHost)
    hc.Client, hc.ClientTls, aioing.normalizeHost = C, T, net.resolve
    try:
        yield C, T
    finally:
        hc.Client, hc.ClientTls, aioing.normalizeHost = saved
        net.shutdown()


@contextlib.contextmanager
def recorded(calls, modules, names=("urlsplit", "urljoin", "unquote", "quote", "quote_plus", "unquote_plus")):
    """pass-through wrappers around the urllib.parse functions that the given ioflo modules imported by
    name; every call is appended to `calls` as (name, positional-args, result)"""
    saved = []

    def wrap(name, fn):
        def w(*a, **k):
            try:
                r = fn(*a, **k)
            except ValueError as ex:      # a raising call is recorded under its own name: "<name>/raise"
                calls.append((name + "/raise", a, ex))
                raise
            calls.append((name if not k else name + "/kw", a, r))
            return r
        return w
    for m in modules:
        for n in names:
            if hasattr(m, n):
                f = getattr(m, n)
                saved.append((m, n, f))
                setattr(m, n, wrap(n, f))
    try:
        yield
    finally:
        for m, n, f in saved:
            setattr(m, n, f)
