"""Adapter for the crash-point check (C03): generated multi-framer programs with nested frames, recorder deeds in
every frame, bids, and a crash plan; written as FloScript, built by the real Builder, run by the real Skedder.
Crash injection and observation are done by the harness:
  * deeds `do sked rec` / `do sked step` (doify) and wrappers around Want*.action count executed actions and raise
    the planned exception when the count reaches the planned number (before the action has any effect);
  * `store.changeStamp` raises the planned boundary exception after the planned pass;
  * a proxy around `framer.runner` records every scheduler send (phase from the caller frame) and its result.

Case format (JSON):
  {"P": "1/8", "stamp": "0/1",
   "framers": [{"sched": "active"|"inactive", "order": "front"|"mid"|"back", "period": "p/q", "first": k,
                "frames": [{"over": j|null, "en": [act…], "re": [act…], "ex": [act…], "tr": [[n, target], …]}, …]}, …],
   "crash": null | [k, kind, name],        # the k-th executed action raises
   "bcrash": null | [pass, kind, name]}    # raised while the stamps are advanced after pass `pass`
  act = "r" | "s" | ["b", ctl, "me"|"all"|[ids]]
"""
import os, sys, shutil
from fractions import Fraction
import core
from props import sked_doubles as sd

CTL = {0: "stop", 1: "start", 2: "run", 3: "abort", 4: "ready"}
FUEL = 120
_state = {"run": None, "deeds": False}


def taskables(case):
    out = []
    for order in ("front", "mid", "back"):
        out += [i for i, f in enumerate(case["framers"]) if f.get("order", "mid") == order]
    return out


def targets_of(case, me, tg):
    if tg == "me":
        return [me]
    if tg == "all":
        return taskables(case)
    return list(tg)


def act_text(a):
    if a == "r":
        return "do sked rec"
    if a == "s":
        return "do sked step"
    tg = a[2]
    names = tg if isinstance(tg, str) else " ".join("f%d" % t for t in tg)
    return "bid %s %s" % (CTL[a[1]], names)


def floscript(case):
    L = ["house h"]
    for i, f in enumerate(case["framers"]):
        L.append("  framer f%d be %s in %s at %s first s%d" % (i, f["sched"], f.get("order", "mid"),
                                                                repr(float(Fraction(f["period"]))), f.get("first", 0)))
        for j, fr in enumerate(f["frames"]):
            L.append("    frame s%d%s" % (j, "" if fr.get("over") is None else " in s%d" % fr["over"]))
            for key, verb in (("en", "enter"), ("re", "recur"), ("ex", "exit")):
                if fr.get(key):
                    L.append("      " + verb)
                    for a in fr[key]:
                        L.append("        " + act_text(a))
            if fr.get("tr"):
                L.append("      native")
                for n, target in fr["tr"]:
                    L.append("      go s%d if recurred >= %d" % (target, n))
    return "\n".join(L) + "\n"


class Run:
    def __init__(self, case):
        self.case = case
        self.events, self.trace = [], []
        self.tick = 0
        self.count = 0
        self.crash = case.get("crash")
        self.bcrash = case.get("bcrash")
        self.idx = {}

    def show(self, x):
        fr = Fraction(x)
        return "%d/%d" % (fr.numerator, fr.denominator)

    def action(self):
        """called at the start of every action"""
        self.count += 1
        if self.crash and self.crash[0] == self.count:
            raise sd.EXC[self.crash[1]](self.crash[2])


def ensure_deeds():
    if _state["deeds"]:
        return
    from ioflo.base import doing

    @doing.doify('SkedRec')
    def skedrec(self, **kw):
        run = _state["run"]
        run.action()
        fr = self._act.frame
        run.trace.append("m %d.%s.%s" % (run.idx.get(fr.framer, -1), fr.name[1:],
                                          {"enter": "e", "recur": "r", "exit": "x"}.get(self._act.context, "?")))

    @doing.doify('SkedStep')
    def skedstep(self, **kw):
        _state["run"].action()
    _state["deeds"] = True


def run_case(case):
    core.import_ioflo()
    from ioflo.base import skedding, housing, wanting
    ensure_deeds()
    run = Run(case)
    _state["run"] = run
    d = os.path.join(core.SCRATCH, "c03-%d" % os.getpid())
    os.makedirs(d, exist_ok=True)
    fn = os.path.join(d, "p.flo")
    with open(fn, "w") as f:
        f.write(floscript(case))
    housing.ClearRegistries()
    housing.House.Clear()
    sk = skedding.Skedder(name="sk", period=float(Fraction(case["P"])), stamp=float(Fraction(case["stamp"])),
                          real=False, filepath=fn)
    patched = []
    try:
        if not sk.build():
            return ["build-failed"]
        house = sk.houses[0]
        framers = list(house.taskers)
        run.idx = {fr: i for i, fr in enumerate(framers)}
        idx = run.idx
        if [fr.name for fr in framers] != ["f%d" % i for i in range(len(case["framers"]))]:
            return ["build-order-unexpected"]
        sked_file = skedding.__file__.rstrip("c")

        class Proxy:
            def __init__(self, fr):
                self.fr, self.gen = fr, fr.runner

            def send(self, c):
                i = idx[self.fr]
                ph = sd.caller_phase()
                tick, stamp = run.tick, self.fr.store.stamp
                run.trace.append("r %s %d %s" % (ph, i, c))
                try:
                    st = self.gen.send(c)
                    res = "y%d" % st
                    return st
                except StopIteration:
                    res = "stop"
                    raise
                except BaseException as ex:
                    res = "raise:" + sd.exc_name(ex)
                    raise
                finally:
                    run.trace.append("e %d %s" % (i, res))
                    run.events.append("%s %d %d %s %s %s %s" % (ph, tick, i, c, run.show(stamp), res, run.show(self.fr.period)))

        for fr in framers:
            fr.runner = Proxy(fr)

        for cls in (wanting.WantStop, wanting.WantStart, wanting.WantRun, wanting.WantAbort, wanting.WantReady):
            orig = cls.action

            def waction(self, _orig=orig, **kw):
                run.action()
                return _orig(self, **kw)
            cls.action = waction
            patched.append((cls, orig))

        store = house.store
        orig_cs = store.changeStamp
        seen = [0]

        def counting(stamp):
            seen[0] += 1
            if seen[0] > 1:
                run.tick += 1
                if run.bcrash and run.bcrash[0] == run.tick - 1:
                    raise sd.EXC[run.bcrash[1]](run.bcrash[2])
                if run.tick >= FUEL:
                    raise sd.Budget("tick budget exceeded")
            return orig_cs(stamp)
        store.changeStamp = counting

        try:
            sk.run()
            outcome = "returned"
        except core.HarnessTimeout:
            raise
        except sd.Budget:
            outcome = "fuel"
        except BaseException as ex:
            outcome = "raised " + sd.exc_name(ex)
        lines = [outcome]
        lines += ["E " + e for e in run.events]
        lines += ["T " + t for t in run.trace]
        fin = []
        for fr in framers:
            gen = fr.runner.gen
            alive = 1 if gen.gi_frame is not None else 0
            fin.append("%d:%s:%d:%s" % (fr.status, fr.desire, alive, ",".join(a.name[1:] for a in fr.actives)))
        lines.append("final " + " ".join(fin))
        lines.append("ticks %d" % run.tick)
        lines.append("count %d" % run.count)
        return lines
    finally:
        for cls, orig in patched:
            cls.action = orig
        shutil.rmtree(d, ignore_errors=True)
        _state["run"] = None


# ------------------------------------------------------------------ driver text

def num(s):
    fr = Fraction(s)
    return "%d/%d" % (fr.numerator, fr.denominator)


def plan_toks(p):
    return ["-"] if p is None else [str(p[0]), p[1], p[2]]


def request(case):
    out = ["run", str(FUEL), num(case["P"]), num(case["stamp"]), "1"]
    for order in ("front", "mid", "back"):
        ids = [i for i, f in enumerate(case["framers"]) if f.get("order", "mid") == order]
        out += [str(len(ids))] + [str(i) for i in ids]
    out += plan_toks(case.get("crash")) + plan_toks(case.get("bcrash"))
    out.append(str(len(case["framers"])))
    for me, f in enumerate(case["framers"]):
        out += [f["sched"][0], num(f["period"]), str(f.get("first", 0)), str(len(f["frames"]))]
        for fr in f["frames"]:
            out.append("-" if fr.get("over") is None else str(fr["over"]))
            for key in ("en", "re", "ex"):
                acts = fr.get(key, [])
                out.append(str(len(acts)))
                for a in acts:
                    if a == "r":
                        out.append("r")
                    elif a == "s":
                        out.append("s")
                    else:
                        tg = targets_of(case, me, a[2])
                        out += ["b", str(a[1]), str(len(tg))] + [str(t) for t in tg]
            tr = fr.get("tr", [])
            out.append(str(len(tr)))
            for n, target in tr:
                out += [str(n), str(target)]
    return " ".join(out)


def parse_reply(reply):
    if " | " not in reply:
        return [reply]
    head, evs, trace, final, ticks, count = reply.split(" | ")
    lines = ["returned" if head.startswith("returned") else head]
    lines += ["E " + e for e in evs.split(";") if e]
    lines += ["T " + t for t in trace.split(";") if t]
    lines += [final, ticks, count]
    return lines
