"""Test doubles and adapters shared by the scheduler checks (C02, C03, C04): real `Skedder`, real
`House`, real `Store`, real base `Tasker` runner table and real `Want*` actors; the only invented
parts are the scripted tasker wrapper (`ScriptTasker`) and the recorder.

Case format (JSON):
  {"mode": "x"|"f",                 # x: dyadic numbers, compared with the exact model; f: any rationals,
                                    #    run as binary64 and compared with the Float model
   "P": "1/8", "stamp": "0/1",      # rationals "p/q"
   "houses": [{"f": [ids], "m": [ids], "b": [ids]}, ...],
   "taskers": [{"active": bool, "period": "p/q", "script": [[sendIndex, [act, ...]], ...],
                "tail": null | [fromIndex, [act, ...]]}, ...]}
  act = ["b", ctl 0..5, "p/q"|null, [target ids]] | ["r"] | ["x", "k"|"s"|"e"|"b", name]
"""
import struct
from fractions import Fraction
import core

FUEL = 400          # tick budget, the same for the model and the implementation


class Budget(BaseException):
    """the tick / send budget shared with the model ran out: the run is cut and reported as outcome `fuel`
    (the model says `fuel` as well when its own budget runs out; otherwise the two sides disagree)"""


class FakeBase(BaseException):
    """a BaseException that is neither KeyboardInterrupt nor SystemExit nor an Exception"""


EXC = {"k": lambda n: KeyboardInterrupt(), "s": lambda n: SystemExit(),
       "e": lambda n: {"RuntimeError": RuntimeError, "ValueError": ValueError, "KeyError": KeyError}.get(n, RuntimeError)("scripted"),
       "b": lambda n: FakeBase()}


def exc_name(ex):
    if isinstance(ex, FakeBase):
        return "FakeBase"
    return type(ex).__name__


def fbits(x):
    return struct.pack(">d", float(x)).hex()


def frac(s):
    return Fraction(s)


_FINALLY = {}


def finally_range():
    """(code object of Skedder.run, first line, last line of its outermost `finally:` body), from the
    source of the tree under test; used to tell the abort sweep from the main loop"""
    from ioflo.base import skedding
    import ast, inspect
    code = skedding.Skedder.run.__code__
    if code not in _FINALLY:
        src = open(inspect.getsourcefile(skedding)).read()
        lo = hi = -1
        for node in ast.walk(ast.parse(src)):
            if isinstance(node, ast.FunctionDef) and node.name == "run" and node.lineno == code.co_firstlineno:
                for sub in ast.walk(node):
                    if isinstance(sub, ast.Try) and sub.finalbody:
                        a, b = sub.finalbody[0].lineno, max(getattr(x, "end_lineno", x.lineno) for x in sub.finalbody)
                        if lo < 0 or a < lo:
                            lo, hi = a, b
                        break
        _FINALLY.clear()
        _FINALLY[code] = (lo, hi)
    return (code,) + _FINALLY[code]


def caller_phase():
    """'F' if the scheduler frame that resumed the current tasker is inside its `finally:` clause, else 'L'
    ('?' when no Skedder.run frame is on the stack)"""
    import sys
    code, lo, hi = finally_range()
    f = sys._getframe(1)
    while f is not None:
        if f.f_code is code:
            return "F" if lo <= f.f_lineno <= hi else "L"
        f = f.f_back
    return "?"


class Ctx:
    """one scheduler run: numbers, recorder, tick counter"""

    def __init__(self, case):
        self.case = case
        self.mode = case["mode"]
        self.events = []          # [tick, id, ctl, stamp, result, periodAfter, phase]
        self.tick = 0
        self.nsend = 0
        self.seen = 0             # calls of the first store's changeStamp in the current run()

    def num(self, s):
        """case number -> the Python number handed to ioflo"""
        return float(Fraction(s))

    def show(self, x):
        """number seen in ioflo -> protocol text"""
        if self.mode == "f":
            return fbits(x)
        fr = Fraction(x)            # exact: a float is a dyadic rational
        return "%d/%d" % (fr.numerator, fr.denominator)


def build(case, ctx=None, tasker_factory=None):
    """real House/Store/Skedder objects for `case`; returns (skedder, taskers, ctx)"""
    core.import_ioflo()
    from ioflo.base import skedding, tasking, housing, wanting
    from ioflo.base import globaling as g
    ctx = ctx or Ctx(case)
    housing.ClearRegistries()
    housing.House.Clear()
    houses = [housing.House(name="house%d" % i) for i in range(max(1, len(case["houses"])))]
    home = {}
    for hi, h in enumerate(case["houses"]):
        for i in h["f"] + h["m"] + h["b"]:
            home[i] = hi
    want = {0: wanting.WantStop, 1: wanting.WantStart, 2: wanting.WantRun, 3: wanting.WantAbort,
            4: wanting.WantReady}

    class ScriptTasker(tasking.Tasker):
        def __init__(self, tid, spec, **kw):
            self.tid = tid
            self.script = {k: acts for k, acts in spec.get("script", [])}
            self.tail = spec.get("tail")
            super(ScriptTasker, self).__init__(**kw)

        def acts_at(self, n):
            if self.tail is not None and n >= self.tail[0]:
                return self.tail[1]
            return self.script.get(n, ())

        def makeRunner(self):
            inner = tasking.Tasker.makeRunner(self)      # the real base runner table
            status = inner.send(None)
            n = 0
            while True:
                control = yield status
                ctx.nsend += 1
                if ctx.nsend > 40 * core_fuel():
                    raise Budget("send budget exceeded")
                rec = [ctx.tick, self.tid, control, self.store.stamp, None, None, caller_phase()]
                ctx.events.append(rec)
                acts = self.acts_at(n)
                n += 1
                try:
                    status = inner.send(control)
                    for a in acts:
                        if a[0] == "b":
                            do_bid(self, a)
                        elif a[0] == "r":
                            rec[4], rec[5] = "stop", self.period
                            return
                        else:
                            raise EXC[a[1]](a[2])
                except (core.HarnessTimeout, Budget):
                    raise
                except BaseException as ex:
                    rec[4], rec[5] = "raise:" + exc_name(ex), self.period
                    raise
                rec[4], rec[5] = "y%d" % status, self.period

    def do_bid(me, a):
        _, ctl, period, targets = a
        tgts = [taskers[t] for t in targets]
        if ctl == 5:                                  # a control that is none of the five
            for t in tgts:
                t.desire = 99
            return
        actor = want[ctl](name="bid", store=me.store)
        p = None if period is None else ctx.num(period)
        actor.action(taskers=tgts, period=p, source=None, sourceField=None)

    taskers = []
    factory = tasker_factory or ScriptTasker
    for i, spec in enumerate(case["taskers"]):
        store = houses[home.get(i, 0)].store
        t = factory(i, spec, name="t%d" % i, store=store, period=ctx.num(spec["period"]),
                    schedule=g.ACTIVE if spec["active"] else g.INACTIVE)
        taskers.append(t)
    for hi, h in enumerate(case["houses"]):
        H = houses[hi]
        H.fronts = [taskers[i] for i in h["f"]]
        H.mids = [taskers[i] for i in h["m"]]
        H.backs = [taskers[i] for i in h["b"]]
        H.taskers = list(H.fronts + H.mids + H.backs)
        H.orderTaskables()
    sk = skedding.Skedder(name="sk", period=ctx.num(case["P"]), stamp=ctx.num(case["stamp"]),
                          houses=houses[:len(case["houses"])])
    # tick counter: the first house's store is stamped once in the prologue and once per completed pass
    if sk.houses:
        st0 = sk.houses[0].store
        orig = st0.changeStamp

        def counting(stamp, _orig=orig):
            ctx.seen += 1
            if ctx.seen > 1:
                ctx.tick += 1
                if ctx.tick >= core_fuel():
                    raise Budget("tick budget exceeded")
                hook = getattr(ctx, "boundary_hook", None)
                if hook is not None:
                    hook(ctx.tick - 1)
            return _orig(stamp)
        st0.changeStamp = counting

    class Runner:
        """around tasker.runner: a send to a generator that has already finished raises StopIteration without
        running any tasker code, so it is recorded here"""

        def __init__(self, t):
            self.t, self.gen = t, t.runner

        def send(self, c):
            if self.gen.gi_frame is None:
                t = self.t
                ctx.events.append([ctx.tick, t.tid, c, t.store.stamp, "stop", t.period, caller_phase()])
            return self.gen.send(c)

        def close(self):
            return self.gen.close()

    ctx.Runner = Runner
    for t in taskers:
        t.runner = Runner(t)
    return sk, taskers, ctx


def core_fuel():
    return FUEL


def run_case(case, tasker_factory=None, prepare=None):
    """run the real scheduler; canonical lines: outcome, one line per send, aborted ids, pass count.
    With "reruns" in the case the SAME Skedder is run again (after `remake()` of the listed taskers) and the
    lines of each run follow a line `run <k>`."""
    sk, taskers, ctx = build(case, tasker_factory=tasker_factory)
    if prepare:
        prepare(sk, taskers, ctx)
    again = case.get("reruns")
    lines = []
    for k, remake in enumerate([None] + list(again or [])):
        if remake is not None:
            for i in remake:
                taskers[i].remake()
                taskers[i].runner = ctx.Runner(taskers[i])
            ctx.events, ctx.tick, ctx.seen, ctx.nsend = [], 0, 0, 0
        try:
            sk.run()
            outcome = "returned"
        except core.HarnessTimeout:
            raise
        except Budget:
            outcome = "fuel"
        except BaseException as ex:
            outcome = "raised " + exc_name(ex)
        if again is not None:
            lines.append("run %d" % k)
        lines.append(outcome)
        for tick, tid, ctl, stamp, res, per, ph in ctx.events:
            lines.append("%s %d %d %s %s %s %s" % (ph, tick, tid, ctl if ctl in (0, 1, 2, 3, 4) else 5, ctx.show(stamp),
                                                    res, ctx.show(per) if per is not None else "?"))
        lines.append("aborted " + " ".join(str(t.tid) for t, _, _ in sk.aborted))
        lines.append("ticks %d" % ctx.tick)
        if outcome == "fuel":
            break
    return lines


# ---------------------------------------------------------------- protocol text for the driver

def num_tok(mode, s):
    if mode == "f":
        return fbits(Fraction(s))
    fr = Fraction(s)
    return "%d/%d" % (fr.numerator, fr.denominator)


def act_toks(mode, a):
    if a[0] == "b":
        return ["b", str(a[1]), "-" if a[2] is None else num_tok(mode, a[2]), str(len(a[3]))] + [str(t) for t in a[3]]
    if a[0] == "r":
        return ["r"]
    return ["x", a[1], a[2]]


def config_toks(case, mode):
    out = [num_tok(mode, case["P"]), num_tok(mode, case["stamp"]), str(len(case["houses"]))]
    for h in case["houses"]:
        for key in ("f", "m", "b"):
            out.append(str(len(h[key])))
            out += [str(i) for i in h[key]]
    out.append(str(len(case["taskers"])))
    for t in case["taskers"]:
        out += ["a" if t["active"] else "i", num_tok(mode, t["period"]), str(len(t.get("script", [])))]
        for k, acts in t.get("script", []):
            out += [str(k), str(len(acts))]
            for a in acts:
                out += act_toks(mode, a)
        tail = t.get("tail")
        if tail is None:
            out.append("-")
        else:
            out += [str(tail[0]), str(len(tail[1]))]
            for a in tail[1]:
                out += act_toks(mode, a)
    return out


def run_request(case):
    if case.get("reruns") is not None:
        again = [str(len(case["reruns"]))]
        for ids in case["reruns"]:
            again += [str(len(ids))] + [str(i) for i in ids]
        return "runs %s %d %s %s" % (case["mode"], FUEL, " ".join(config_toks(case, case["mode"])), " ".join(again))
    return "run %s %d %s" % (case["mode"], FUEL, " ".join(config_toks(case, case["mode"])))


def soft_request(case):
    """the same decimal configuration, rounded to binary64 and run by the kernel-evaluable F64 model"""
    return "run r %d %s" % (FUEL, " ".join(config_toks(case, "x")))


def drift_request(case):
    return "drift %d %s @ %s" % (FUEL, " ".join(config_toks(case, "f")), " ".join(config_toks(case, "x")))


def parse_one(reply):
    if " | " not in reply:
        return [reply]
    head, evs, ab, ticks = reply.split(" | ")
    head = head.split()
    outcome = "returned" if head[0] == "returned" else " ".join(head)
    lines = [outcome]
    for e in evs.split(";"):
        if e:
            lines.append(" ".join(e.split()))
    lines.append(ab)
    lines.append(ticks)
    return lines


def parse_reply(reply, multi=False):
    """driver reply -> the same canonical lines as run_case (the reason of a normal return is dropped:
    the implementation cannot observe it)"""
    if not multi:
        return parse_one(reply)
    lines = []
    for k, part in enumerate(reply.split(" || ")):
        one = parse_one(part)
        lines.append("run %d" % k)
        lines += one
        if one and one[0] == "fuel":
            break
    return lines
