#!/venv/bin/python
"""seed_accept.py <worktree> <outdir> <PROP>  — confirm a sub-agent's seeded breaking changes and keep them.
For each <outdir>/<i>/{patch.diff,demo.py,meta.json}: demo passes on the clean worktree, fails with the patch,
the pinned test suite (BASELINE.json stable_pass) still passes with the patch. Accepted → /verif/seeded/<PROP>-<i>/."""
import sys, os, json, subprocess, shutil, re
wt, out, prop = sys.argv[1:4]
VERIF = os.path.dirname(os.path.dirname(os.path.abspath(__file__)))
base = json.load(open("/root/.vp/BASELINE.json"))
stable = set(base["stable_pass"])

def run(cmd, **kw):
    return subprocess.run(cmd, stdout=subprocess.PIPE, stderr=subprocess.STDOUT, text=True, **kw)

sys.path.insert(0, os.path.dirname(os.path.abspath(__file__)))
import pinned
def suite():
    return pinned.lost_tests(wt)

head = run(['git','-C','/repo','rev-parse','HEAD']).stdout.strip()
run(['git','checkout','--','.'], cwd=wt); run(['git','checkout','-q','--detach',head], cwd=wt)
for i in sorted(os.listdir(out)):
    d = os.path.join(out, i)
    if not os.path.exists(os.path.join(d, "patch.diff")):
        continue
    run(["git", "checkout", "--", "."], cwd=wt)
    r0 = run(["/venv/bin/python", os.path.join(d, "demo.py"), wt], timeout=600)
    a = run(["git", "apply", os.path.join(d, "patch.diff")], cwd=wt)
    if a.returncode:
        print(i, "REJECT patch does not apply", a.stdout[-300:]); continue
    r1 = run(["/venv/bin/python", os.path.join(d, "demo.py"), wt], timeout=600)
    missing = suite()
    run(["git", "checkout", "--", "."], cwd=wt)
    run(["git", "clean", "-fdq"], cwd=wt)
    ok = r0.returncode == 0 and r1.returncode != 0 and not missing
    print(i, "ACCEPT" if ok else "REJECT", "demo clean rc=%d patched rc=%d; pinned tests lost: %s" % (r0.returncode, r1.returncode, sorted(missing)[:5]))
    if ok:
        dst = os.path.join(VERIF, "seeded", "%s-%s" % (prop, i))
        # next free index if taken
        n = 0
        while os.path.exists(dst):
            n += 1
            dst = os.path.join(VERIF, "seeded", "%s-%s%s" % (prop, i, chr(ord('a') + n)))
        shutil.copytree(d, dst)
        meta = json.load(open(os.path.join(dst, "meta.json")))
        meta["verified"] = {"demo_on_clean_rc": r0.returncode, "demo_on_patched_rc": r1.returncode,
                            "pinned_suite_with_patch": "all %d stable tests pass" % len(stable),
                            "how": "harness/seed_accept.py in a scratch worktree of /repo HEAD"}
        json.dump(meta, open(os.path.join(dst, "meta.json"), "w"), indent=1)
