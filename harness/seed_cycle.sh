#!/bin/sh
# seed_cycle.sh <round-tag e.g. 2> Cnn...  — accept finished seeds of a round, remove worktrees, run the checks against them
tag=$1; shift
ids=""
for p in "$@"; do
  [ -d /tmp/seed$tag-$p-out ] || { echo "no output for $p"; continue; }
  /venv/bin/python /verif/harness/seed_accept.py /tmp/seed$tag-$p /tmp/seed$tag-$p-out $p | sed "s/^/$p /"
  for i in $(ls /tmp/seed$tag-$p-out); do [ -d /verif/seeded/$p-$i ] && ids="$ids $p-$i"; done
  git -C /repo worktree remove --force /tmp/seed$tag-$p 2>/dev/null; rm -rf /tmp/seed$tag-$p-out /tmp/seed${tag}prompt-$p.txt
done
[ -n "$ids" ] && /venv/bin/python /verif/harness/seeded.py $ids
