#!/venv/bin/python
"""seed_prompt.py Cnn — create the scratch worktree /tmp/seed-Cnn and print the prompt for a fresh seeding sub-agent
(property text only; nothing from /verif)."""
import sys, json, subprocess
pid = sys.argv[1]
rnd = int(sys.argv[2]) if len(sys.argv) > 2 else 1
first = 2 * rnd - 1
tagr = "" if rnd == 1 else str(rnd)
p = [json.loads(l) for l in open("/verif/properties.jsonl") if json.loads(l)["id"] == pid][0]
wt = "/tmp/seed%s-%s" % (tagr, pid)
subprocess.run(["git", "-C", "/repo", "worktree", "remove", "--force", wt], capture_output=True)
subprocess.run(["git", "-C", "/repo", "worktree", "add", "--detach", wt, "HEAD"], capture_output=True, check=True)
print(f"""You are testing how robust a Python project's guarantees are. Work ONLY inside the git worktree {wt} (a checkout of the project `ioflo`; run python as `/venv/bin/python` and put `import sys; sys.path.insert(0, '{wt}')` at the very top of any script so that THIS checkout is imported, not the installed one). Do not look at or touch /verif or /repo. No network.

Property that the code is supposed to satisfy ({pid}: {p['title']}):
"{p['statement']}"
Scope of the quantifier: {p['quantifier']['text']}
Code involved: {', '.join(p['anchors']['files'])}

{'An earlier reviewer already tried simple slips in the most obvious function of this code; look for something SUBTLER or ELSEWHERE: an interaction between two functions or classes, an error or edge path, state carried across calls or across restarts, a helper or a less central file from the list above, or a caller that feeds the central code. ' if rnd == 2 else ('Two earlier reviewers already tried (a) simple slips in the most obvious function and (b) interactions between two functions, error paths and state carried across calls. Look for what is left: behaviour under unusual but legal CONFIGURATIONS or constructor arguments, alternative entry points and subclasses that share the code, ordering assumptions between independent components, resource re-use after close/stop/restart, values at type boundaries (empty, zero, None, negative, very large, non-ASCII), and defaults that differ between sibling classes. ' if rnd > 2 else '')}Task: produce TWO different, realistic changes to the project's source (the kind of slip a maintainer could make in a refactor, clean-up or 'optimisation' — not sabotage with magic constants), each of which BREAKS this property while the code still imports and the project's existing test suite still passes. Ask for changes that need something specific to manifest — a particular interleaving, a fault at a particular point, a multi-step sequence of operations, an unusual input, or two cooperating sites that each look fine alone — NOT ones that ordinary use would expose at once. To check the existing tests run the test files of the packages you touched inside a private network namespace (other people on this machine use the same fixed ports), e.g. `unshare -n sh -c 'ip link set lo up; cd {wt} && /venv/bin/python -m pytest -q -p no:cacheprovider --timeout=600 ioflo/base'` (or ioflo/aid, ioflo/aio/http, ioflo/aio/tcp, ioflo/aio/proto ...); tests named testTcpClientServer*, testTLSConnectionVerifyNeither, testTLSConnectionVerifyBothTLSv1 fail on the unmodified code too and do not count.

For each change i in {{{first},{first+1}}} write into /tmp/seed{tagr}-{pid}-out/<i>/: `patch.diff` (output of `git diff` in the worktree for that change alone), `demo.py` (a small program that exits 0 on the original code and non-zero on the changed code, printing what differs; it must take the checkout path as argv[1] and insert it at the front of sys.path before importing ioflo), and `meta.json` with keys "property": "{pid}", "summary", "needs_to_manifest" (what specific input/sequence/condition exposes it), "files_changed". Verify yourself: demo exits 0 on the unmodified worktree (`git checkout -- .`), non-zero with the patch applied, and the relevant tests pass with the patch applied. Never use `git stash` (stashes are shared between worktrees of other people); use `git diff > file`, `git checkout -- .` and `git apply file`. Leave the worktree clean (`git checkout -- .`) at the end. Final message: a two-line summary per change.""")
