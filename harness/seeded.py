#!/venv/bin/python
"""Run the registered checks against the seeded breaking changes kept in /verif/seeded/<id>/.

  seeded.py [--tier quick|thorough] [id ...]

Each seeded change is applied to a scratch git worktree of /repo (never to /repo itself), the check of the
property it breaks is run with IOFLO_REPO pointing at that worktree, and the worktree is removed again.
Writes seeded/RESULTS.json and prints one line per change: CAUGHT / MISSED / ERROR.
"""
import sys, os, json, subprocess, shutil, argparse, time
HERE = os.path.dirname(os.path.abspath(__file__))
VERIF = os.path.dirname(HERE)
SEEDED = os.path.join(VERIF, "seeded")


def run(cmd, **kw):
    return subprocess.run(cmd, stdout=subprocess.PIPE, stderr=subprocess.STDOUT, text=True, **kw)


def one(sid, tier, seeds):
    d = os.path.join(SEEDED, sid)
    meta = json.load(open(os.path.join(d, "meta.json")))
    props = meta["property"] if isinstance(meta["property"], list) else [meta["property"]]
    wt = "/tmp/seeded-wt-%s-%d" % (sid, os.getpid())
    run(["git", "-C", "/repo", "worktree", "remove", "--force", wt])
    r = run(["git", "-C", "/repo", "worktree", "add", "--detach", wt, "HEAD"])
    if r.returncode:
        return {"id": sid, "status": "ERROR", "detail": r.stdout[-500:]}
    try:
        r = run(["git", "-C", wt, "apply", os.path.join(d, "patch.diff")])
        if r.returncode:
            return {"id": sid, "status": "ERROR", "detail": "patch does not apply: " + r.stdout[-500:]}
        res = {"id": sid, "property": props, "runs": []}
        caught = False
        for p in props:
            for seed in seeds:
                env = dict(os.environ, IOFLO_REPO=wt, VERIF_SEED=str(seed), VERIF_EVIDENCE_DIR=os.path.join(VERIF, ".scratch", "seeded-evidence"))
                t0 = time.time()
                r = run(["/venv/bin/python", os.path.join(HERE, "vcheck.py"), p, "--tier", tier], cwd=VERIF, env=env)
                viol = [l for l in r.stdout.splitlines() if l.startswith("VIOLATION")]
                res["runs"].append({"property": p, "seed": seed, "tier": tier, "rc": r.returncode,
                                    "violation": viol[:1], "wall_s": round(time.time() - t0, 1),
                                    "tail": r.stdout.splitlines()[-4:]})
                if r.returncode == 1 and viol:
                    caught = True
                    break
            if caught:
                break
        res["status"] = "CAUGHT" if caught else ("ERROR" if any(x["rc"] == 2 for x in res["runs"]) else "MISSED")
        return res
    finally:
        run(["git", "-C", "/repo", "worktree", "remove", "--force", wt])
        shutil.rmtree(wt, ignore_errors=True)


def main():
    ap = argparse.ArgumentParser()
    ap.add_argument("--tier", default="quick")
    ap.add_argument("--seeds", default="0")
    ap.add_argument("ids", nargs="*")
    a = ap.parse_args()
    ids = a.ids or sorted(x for x in os.listdir(SEEDED) if os.path.isdir(os.path.join(SEEDED, x)))
    seeds = [int(s) for s in a.seeds.split(",")]
    path = os.path.join(SEEDED, "RESULTS.json")
    import fcntl
    for sid in ids:
        res = one(sid, a.tier, seeds)
        print("%-8s %s %s" % (res["status"], sid, (res.get("runs") or [{}])[-1].get("violation", "")))
        # merge under a lock: several engineers run this script at the same time
        with open(path + ".lock", "w") as lk:
            fcntl.flock(lk, fcntl.LOCK_EX)
            results = json.load(open(path)) if os.path.exists(path) else {}
            results[sid + ":" + a.tier] = res
            with open(path + ".tmp", "w") as f:
                json.dump(results, f, indent=1, sort_keys=True)
            os.replace(path + ".tmp", path)


if __name__ == "__main__":
    main()
