#!/bin/sh
# seeded_par.sh <shards> [tier]  — run every seeded change through its checks, <shards> processes in parallel,
# seeds partitioned by property so that one property's check is not run twice at the same moment.
n=${1:-4}; tier=${2:-quick}
cd /verif
mkdir -p .scratch/seeded-logs
i=0
for p in $(ls seeded | grep -v RESULTS | sed 's/-.*//' | sort -u); do
  s=$((i % n)); i=$((i+1))
  ls seeded | grep "^$p-" >> .scratch/seeded-logs/shard$s.ids
done
for s in $(seq 0 $((n-1))); do
  ( /venv/bin/python harness/seeded.py --tier $tier $(cat .scratch/seeded-logs/shard$s.ids) > .scratch/seeded-logs/shard$s.log 2>&1 ) &
done
wait
cat .scratch/seeded-logs/shard*.log | grep -v Warning | sort -k2 > .scratch/seeded-logs/all.log
rm -f .scratch/seeded-logs/shard*.ids
grep -c CAUGHT .scratch/seeded-logs/all.log; grep -v CAUGHT .scratch/seeded-logs/all.log
