#!/venv/bin/python
"""sweep.py [--tier quick] [-j N] [ids...] — run the claimed checks (default: all in claimed.txt) in parallel, print a table."""
import sys, os, subprocess, time, argparse, concurrent.futures as cf
HERE = os.path.dirname(os.path.abspath(__file__)); VERIF = os.path.dirname(HERE)
ap = argparse.ArgumentParser(); ap.add_argument("--tier", default="quick"); ap.add_argument("-j", type=int, default=4)
ap.add_argument("--seed", default="0"); ap.add_argument("ids", nargs="*")
a = ap.parse_args()
ids = a.ids or open(os.path.join(HERE, "claimed.txt")).read().split()
def one(p):
    t = time.time()
    r = subprocess.run(["/venv/bin/python", os.path.join(HERE, "vcheck.py"), p, "--tier", a.tier], cwd=VERIF,
                       env=dict(os.environ, VERIF_SEED=a.seed), stdout=subprocess.PIPE, stderr=subprocess.STDOUT, text=True)
    last = [l for l in r.stdout.splitlines() if l.startswith(("OK", "VIOLATION", "INFRA"))]
    return p, r.returncode, time.time() - t, (last[-1] if last else r.stdout[-300:])
bad = 0
with cf.ThreadPoolExecutor(a.j) as ex:
    for p, rc, dt, line in ex.map(one, ids):
        print("%-4s rc=%d %6.1fs %s" % (p, rc, dt, line[:160]), flush=True)
        bad += rc != 0
sys.exit(1 if bad else 0)
