"""
Translator for C14: extracts from the builder-side modules of ioflo
  * every message construction  "<literal>" % args   and   "<literal>".format(args)
    (file, function, line, kind, number of conversion specs / highest field index + 1, number of arguments,
     whether the right operand of % is written as a tuple), and
  * every name loaded in a function body that no enclosing scope, module global (including the names a
    `from x import *` really provides), or builtin binds,
and writes them, sorted, to lean/IofloModel/Generated/ErrSites.lean (only when the content changes).
"""
import ast, os, re, sys, builtins, importlib, string

FILES = ["ioflo/base/building.py", "ioflo/base/framing.py", "ioflo/base/acting.py", "ioflo/base/needing.py",
         "ioflo/base/completing.py", "ioflo/base/fiating.py", "ioflo/base/wanting.py"]

PCT = re.compile(r"%(?:\((\w+)\))?[#0\- +]*(\*|\d+)?(?:\.(\*|\d+))?[hlL]?([diouxXeEfFgGcrsa%])")


def pct_specs(s):
    """number of values a %-format string consumes; None if it uses %(name)s mapping keys"""
    n = 0
    for m in PCT.finditer(s):
        if m.group(4) == "%":
            continue
        if m.group(1):
            return None
        n += 1 + (m.group(2) == "*") + (m.group(3) == "*")
    return n


MALFORMED = 999


def format_needs(s):
    """number of positional arguments str.format needs (highest index + 1, or count of auto fields); None for names;
    MALFORMED (more than any call supplies) for a text str.format cannot parse, such as `{1)` — it raises ValueError"""
    auto, top = 0, -1
    try:
        for lit, field, spec, conv in string.Formatter().parse(s):
            if field is None:
                continue
            head = re.split(r"[.\[]", field, 1)[0]
            if head == "":
                auto += 1
            elif head.isdigit():
                top = max(top, int(head))
            else:
                return None
    except ValueError:
        return MALFORMED
    return max(auto, top + 1)


def const_str(node):
    """the literal text of a (possibly implicitly or '+'-concatenated) string expression, else None"""
    if isinstance(node, ast.Constant) and isinstance(node.value, str):
        return node.value
    if isinstance(node, ast.BinOp) and isinstance(node.op, ast.Add):
        a, b = const_str(node.left), const_str(node.right)
        if a is not None and b is not None:
            return a + b
    return None


class Scope(object):
    def __init__(self, kind, parent, name):
        self.kind, self.parent, self.name = kind, parent, name
        self.bound = set()
        self.globals_ = set()


class Walker(ast.NodeVisitor):
    def __init__(self, rel, module_names):
        self.rel = rel
        self.fmt = []
        self.unbound = []
        self.module_names = module_names
        self.scope = Scope("module", None, "<module>")
        self.func = ["<module>"]

    # ---- scopes
    def bind_targets(self, t):
        for n in ast.walk(t):
            if isinstance(n, ast.Name) and isinstance(n.ctx, (ast.Store, ast.Del)):
                self.scope.bound.add(n.id)

    def collect_bound(self, node, scope):
        """names bound anywhere in this function body (Python scoping: binding anywhere makes the name local)"""
        for n in ast.walk(node):
            if n is not node and isinstance(n, (ast.FunctionDef, ast.AsyncFunctionDef, ast.ClassDef)):
                scope.bound.add(n.name)
            if isinstance(n, ast.Name) and isinstance(n.ctx, (ast.Store, ast.Del)):
                scope.bound.add(n.id)
            elif isinstance(n, ast.arg):
                scope.bound.add(n.arg)
            elif isinstance(n, (ast.Import, ast.ImportFrom)):
                for a in n.names:
                    scope.bound.add((a.asname or a.name).split(".")[0])
            elif isinstance(n, ast.ExceptHandler) and n.name:
                scope.bound.add(n.name)
            elif isinstance(n, ast.Global):
                scope.globals_.update(n.names)

    def visit_FunctionDef(self, node):
        sc = Scope("function", self.scope, node.name)
        self.collect_bound(node, sc)
        old = self.scope
        self.scope = sc
        self.func.append(node.name)
        for d in node.args.defaults + node.args.kw_defaults + node.decorator_list:
            if d is not None:
                self.scope = old
                self.visit(d)
                self.scope = sc
        for st in node.body:
            self.visit(st)
        self.func.pop()
        self.scope = old
    visit_AsyncFunctionDef = visit_FunctionDef

    def visit_Lambda(self, node):
        sc = Scope("function", self.scope, "<lambda>")
        self.collect_bound(node, sc)
        old, self.scope = self.scope, sc
        self.visit(node.body)
        self.scope = old

    def visit_ClassDef(self, node):
        sc = Scope("class", self.scope, node.name)
        old = self.scope
        for b in node.bases + node.decorator_list:
            self.visit(b)
        self.scope = sc
        self.func.append(node.name)
        for st in node.body:
            if isinstance(st, (ast.Assign, ast.AnnAssign, ast.AugAssign)):
                self.bind_targets(st)
            elif isinstance(st, (ast.FunctionDef, ast.ClassDef)):
                sc.bound.add(st.name)
            self.visit(st)
        self.func.pop()
        self.scope = old

    def comp(self, node):
        sc = Scope("function", self.scope, "<comp>")
        for g in node.generators:
            for n in ast.walk(g.target):
                if isinstance(n, ast.Name):
                    sc.bound.add(n.id)
        old, self.scope = self.scope, sc
        self.generic_visit(node)
        self.scope = old
    visit_ListComp = visit_SetComp = visit_DictComp = visit_GeneratorExp = comp

    def resolves(self, name):
        sc = self.scope
        first = True
        while sc is not None:
            if sc.kind == "class" and not first:
                sc = sc.parent
                continue
            if name in sc.bound and name not in sc.globals_:
                return True
            first = False
            sc = sc.parent
        return name in self.module_names or hasattr(builtins, name)

    def visit_Name(self, node):
        if isinstance(node.ctx, ast.Load) and self.func[-1] != "<module>" and self.scope.kind != "module":
            if not self.resolves(node.id):
                self.unbound.append((self.rel, ".".join(self.func[1:]), node.id, node.lineno))

    # ---- format sites
    def visit_BinOp(self, node):
        if isinstance(node.op, ast.Mod):
            s = const_str(node.left)
            if s is not None:
                n = pct_specs(s)
                if n is not None:
                    if isinstance(node.right, ast.Tuple):
                        k, tup = len(node.right.elts), True
                    elif isinstance(node.right, ast.Dict):
                        k, tup = None, False
                    else:
                        k, tup = 1, False
                    if k is not None:
                        self.fmt.append((self.rel, ".".join(self.func[1:]) or "<module>", node.lineno, "percent", n, k, tup, s))
        self.generic_visit(node)

    def visit_Call(self, node):
        f = node.func
        if isinstance(f, ast.Attribute) and f.attr == "format":
            s = const_str(f.value)
            if s is not None and not node.keywords and not any(isinstance(a, ast.Starred) for a in node.args):
                need = format_needs(s)
                if need is not None:
                    self.fmt.append((self.rel, ".".join(self.func[1:]) or "<module>", node.lineno, "format", need, len(node.args), True, s))
        self.generic_visit(node)


def module_names(repo, rel):
    """the global names the module really has at run time (covers `from x import *`)"""
    if repo not in sys.path:
        sys.path.insert(0, repo)
    import collections.abc  # noqa
    mod = importlib.import_module(rel[:-3].replace("/", "."))
    return set(vars(mod))


def extract(repo):
    fmt, unbound = [], []
    for rel in FILES:
        path = os.path.join(repo, rel)
        with open(path, encoding="utf-8") as f:
            tree = ast.parse(f.read(), path)
        w = Walker(rel, module_names(repo, rel))
        w.visit(tree)
        fmt += w.fmt
        unbound += w.unbound
    return sorted(fmt), sorted(set(unbound))


def site_ok(kind, need, have, tup):
    """percent: exactly as many values as specs (a non-tuple right operand is one value);
    format: at least as many arguments as the highest index needs"""
    return need == have if kind == "percent" else need <= have


def lean_str(s):
    out = []
    for ch in s:
        if ch == "\\":
            out.append("\\\\")
        elif ch == '"':
            out.append('\\"')
        elif ch == "\n":
            out.append("\\n")
        elif ch == "\t":
            out.append("\\t")
        elif 32 <= ord(ch) < 127:
            out.append(ch)
        else:
            out.append("\\u{%x}" % ord(ch))
    return '"' + "".join(out) + '"'


def render(fmt, unbound):
    L = ["/- GENERATED by harness/translate/errsites.py from the working tree of ioflo — do not edit.",
         "   Message constructions (`\"…\" % args`, `\"…\".format(args)`) and unbound names of the builder-side modules. -/",
         "namespace Ioflo.ErrSites", "",
         "structure FmtSite where",
         "  file : String", "  func : String", "  line : Nat", "  percent : Bool   -- `%` operator (else `str.format`)",
         "  need : Nat       -- values the format text consumes", "  have_ : Nat      -- values supplied",
         "  tuple : Bool     -- the arguments are written as a tuple / argument list",
         "  text : String", "deriving DecidableEq, Repr", "",
         "structure Unbound where", "  file : String", "  func : String", "  name : String", "  line : Nat",
         "deriving DecidableEq, Repr", "",
         "def fmtSites : List FmtSite := ["]
    rows = ["  ⟨%s, %s, %d, %s, %d, %d, %s, %s⟩" % (lean_str(f), lean_str(fn), ln, "true" if k == "percent" else "false",
                                                     need, have, "true" if tup else "false", lean_str(s))
            for (f, fn, ln, k, need, have, tup, s) in fmt]
    L.append(",\n".join(rows))
    L += ["]", "", "def unbound : List Unbound := ["]
    L.append(",\n".join("  ⟨%s, %s, %s, %d⟩" % (lean_str(f), lean_str(fn), lean_str(n), ln) for f, fn, n, ln in unbound))
    L += ["]", "", "end Ioflo.ErrSites", ""]
    return "\n".join(L)


def write(repo, verif):
    fmt, unbound = extract(repo)
    text = render(fmt, unbound)
    d = os.path.join(verif, "lean", "IofloModel", "Generated")
    os.makedirs(d, exist_ok=True)
    path = os.path.join(d, "ErrSites.lean")
    if not os.path.exists(path) or open(path, encoding="utf-8").read() != text:
        with open(path, "w", encoding="utf-8") as f:
            f.write(text)
    return fmt, unbound


if __name__ == "__main__":
    repo = sys.argv[1] if len(sys.argv) > 1 else os.environ.get("IOFLO_REPO", "/repo")
    fmt, unbound = extract(repo)
    bad = [r for r in fmt if not site_ok(r[3], r[4], r[5], r[6])]
    print(len(fmt), "format sites,", len(bad), "mismatching;", len(unbound), "unbound names")
    for r in bad:
        print("  FMT", r[:7], repr(r[7][:60]))
    for u in unbound:
        print("  UNBOUND", u)
