"""
Translator for C01 (engine `imports`).

Walks every ioflo/**/*.py of the tree under test ($IOFLO_REPO) with `ast`, extracts the ordered
*import-time events* of every module, measures the interpreter the cold imports run on
(`/venv/bin/python -I`: what is preloaded, which stdlib / third-party modules exist, what importing
them loads and binds) and writes lean/IofloModel/Generated/ImportGraph.lean (only when the content
changes; the output is a pure function of the source tree and the interpreter).

Nothing here decides whether an import succeeds: that is the job of the hand-written interpreter
Model/Imports.lean run over this data.  What IS trusted here: the extraction of events from the
syntax tree (docstring of `Extractor`), the constant folding of module-level conditions, and the
measurements of non-ioflo modules.

Event forms (JSON lists, mirrored by `Ioflo.Imports.Ev`):
  ["imp", line, target, bind|None, asTarget]   import a.b.c [as x]  /  importlib.import_module (bind None)
  ["from", line, target, [[name, asname], ..]] from target import name as asname
  ["star", line, target]                       from target import *
  ["use", line, root, [attr, ..]]              evaluation of the name `root` / the chain root.attr... at import time
  ["def", name]  ["defall", [names]]  ["del", line, name]
  ["ext", [modules]]                           (non-ioflo modules only) modules made present by this one's C/py body
  ["raise", line, exc]                         module-level raise / relative import beyond top level / measured failure
  ["try", body, [[catches, body], ..], orelse, final]
  ["unknown", line]                            an import under a condition the translator could not decide
"""
import ast, os, sys, json, subprocess, builtins, concurrent.futures, hashlib

PY = "/venv/bin/python"
HERE = os.path.dirname(os.path.abspath(__file__))
VERIF = os.path.dirname(os.path.dirname(HERE))
OUT = os.path.join(VERIF, "lean", "IofloModel", "Generated", "ImportGraph.lean")

SRC_DUNDERS = ["__builtins__", "__cached__", "__doc__", "__file__", "__loader__", "__name__", "__package__", "__spec__"]
NS_DUNDERS = ["__doc__", "__file__", "__loader__", "__name__", "__package__", "__path__", "__spec__"]
BUILTIN_EXC = sorted(n for n in dir(builtins) if isinstance(getattr(builtins, n), type)
                     and issubclass(getattr(builtins, n), BaseException))
EXC_CODE = {n: i + 1 for i, n in enumerate(BUILTIN_EXC)}     # 0 = a class the translator does not know


def raise_class(name):
    """model exception for `raise <builtin exception class>`"""
    c = getattr(builtins, name, None) if name in EXC_CODE else None
    if c is None:
        return "other:0"
    if issubclass(c, ModuleNotFoundError):
        return "moduleNotFound"
    if issubclass(c, ImportError):
        return "importError"
    if issubclass(c, AttributeError):
        return "attributeError"
    if issubclass(c, NameError):
        return "nameError"
    return "other:%d" % EXC_CODE[name]


def catch_classes(name):
    """what `except <builtin exception class>` catches, in the model's terms"""
    h = getattr(builtins, name, None) if name in EXC_CODE else None
    if h is None:
        return []
    if h in (BaseException, Exception):
        return ["all"]
    out = []
    if issubclass(ImportError, h):
        out.append("importError")
    elif issubclass(ModuleNotFoundError, h):
        out.append("moduleNotFound")
    if issubclass(AttributeError, h):
        out.append("attributeError")
    if issubclass(NameError, h):
        out.append("nameError")
    for k in BUILTIN_EXC:
        kc = getattr(builtins, k)
        if issubclass(kc, h) and not issubclass(kc, (ImportError, AttributeError, NameError)):
            out.append("named:%d" % EXC_CODE[k])
    return out


# ----------------------------------------------------------------------------------------------- discovery

def discover(repo):
    """{dotted name: {"path": file or None, "pkg": bool, "ns": bool}} for everything below <repo>/ioflo"""
    mods = {}
    root = os.path.join(repo, "ioflo")
    for d, ds, fs in os.walk(root):
        ds[:] = sorted(x for x in ds if x != "__pycache__")
        rel = os.path.relpath(d, repo).replace(os.sep, ".")
        if "__init__.py" in fs:
            mods[rel] = {"path": os.path.join(d, "__init__.py"), "pkg": True, "ns": False}
        else:
            # a directory without __init__.py is a namespace package of python 3
            mods[rel] = {"path": None, "pkg": True, "ns": True}
        for f in sorted(fs):
            if f.endswith(".py") and f != "__init__.py":
                name = rel + "." + f[:-3]
                if os.path.isdir(os.path.join(d, f[:-3])):
                    continue  # the directory wins over the file
                mods[name] = {"path": os.path.join(d, f), "pkg": False, "ns": False}
    # a directory is only importable when all its ancestors are packages (they are: every dir is at least ns)
    return mods


# ----------------------------------------------------------------------------------------------- constants

class Unknown(Exception):
    pass


def const_eval(node, env):
    """value of a side-effect free constant expression, else raise Unknown"""
    if isinstance(node, ast.Constant):
        return node.value
    if isinstance(node, ast.Name):
        if node.id in env:
            return env[node.id]
        raise Unknown
    if isinstance(node, (ast.List, ast.Tuple)):
        vals = [const_eval(e, env) for e in node.elts]
        return vals if isinstance(node, ast.List) else tuple(vals)
    if isinstance(node, ast.Attribute) and isinstance(node.value, ast.Name):
        key = node.value.id + "." + node.attr
        if key in ("sys.version", "sys.version_info", "sys.platform", "os.name") and env.get("@" + node.value.id):
            return {"sys.version": sys.version, "sys.version_info": tuple(sys.version_info),
                    "sys.platform": sys.platform, "os.name": os.name}[key]
        raise Unknown
    if isinstance(node, ast.UnaryOp) and isinstance(node.op, ast.Not):
        return not const_eval(node.operand, env)
    if isinstance(node, ast.BoolOp):
        vals = [const_eval(v, env) for v in node.values]
        if isinstance(node.op, ast.And):
            r = True
            for v in vals:
                r = v
                if not v:
                    break
            return r
        r = False
        for v in vals:
            r = v
            if v:
                break
        return r
    if isinstance(node, ast.Compare) and len(node.ops) == 1:
        a, b = const_eval(node.left, env), const_eval(node.comparators[0], env)
        op = node.ops[0]
        try:
            if isinstance(op, ast.Eq): return a == b
            if isinstance(op, ast.NotEq): return a != b
            if isinstance(op, ast.Lt): return a < b
            if isinstance(op, ast.LtE): return a <= b
            if isinstance(op, ast.Gt): return a > b
            if isinstance(op, ast.GtE): return a >= b
            if isinstance(op, ast.Is) and (a is None or b is None): return a is b
            if isinstance(op, ast.IsNot) and (a is None or b is None): return a is not b
            if isinstance(op, ast.In): return a in b
            if isinstance(op, ast.NotIn): return a not in b
        except TypeError:
            raise Unknown
        raise Unknown
    if isinstance(node, ast.BinOp) and isinstance(node.op, (ast.Add, ast.Mod)):
        a, b = const_eval(node.left, env), const_eval(node.right, env)
        try:
            return a + b if isinstance(node.op, ast.Add) else a % b
        except Exception:
            raise Unknown
    if isinstance(node, ast.Subscript):
        a, i = const_eval(node.value, env), const_eval(node.slice, env)
        try:
            return a[i]
        except Exception:
            raise Unknown
    if (isinstance(node, ast.Call) and isinstance(node.func, ast.Name) and node.func.id == "range"
            and "range" not in env and not node.keywords and 1 <= len(node.args) <= 3):
        args = [const_eval(a, env) for a in node.args]
        if all(isinstance(a, int) and not isinstance(a, bool) for a in args):
            r = range(*args)
            if len(r) <= 64:
                return list(r)
        raise Unknown
    if (isinstance(node, ast.Call) and isinstance(node.func, ast.Attribute) and node.func.attr == "format"
            and not node.keywords):
        s = const_eval(node.func.value, env)
        args = [const_eval(a, env) for a in node.args]
        if isinstance(s, str):
            try:
                return s.format(*args)
            except Exception:
                raise Unknown
    raise Unknown


# ----------------------------------------------------------------------------------------------- extraction

class Extractor:
    """
    Events of one module, in execution order of its top-level code.

    Executed at import time (and therefore translated): module-level statements; bodies of `if` whose test
    folds to a constant (sys.version, sys.platform, os.name, __name__, literal module constants), the taken
    branch only; `for` over a constant list (unrolled, the loop variable is a constant inside);
    `with`, `try` (structured); class headers and class bodies (class-local names shadow); decorators,
    default values and annotations of `def`.  NOT executed at import time: function and lambda bodies.
    Blocks under a condition that does not fold ("maybe" blocks: other `if`/`while`/`for`/`match`): their
    name bindings are recorded optimistically, their name uses are not checked, an import inside becomes
    `unknown` (the model then refuses to predict).
    """

    def __init__(self, modname, info, allmods):
        self.mod = modname
        self.info = info
        self.allmods = allmods
        self.package = modname if info["pkg"] else modname.rpartition(".")[0]
        self.env = {"__name__": modname, "__package__": self.package}
        self.notes = []
        self.rebound = set()     # builtin exception class names the module rebinds itself
        self.dynamic = False
        self.future_annotations = False
        self.importlib_names = set()      # names bound to the importlib module
        self.import_module_names = set()  # names bound to importlib.import_module

    # -- helpers
    def resolve(self, level, module):
        """absolute name of a relative import, None when it goes beyond the top-level package"""
        if level == 0:
            return module
        bits = self.package.split(".") if self.package else []
        if level - 1 > len(bits) - 1 or not self.package:
            return None
        base = ".".join(bits[:len(bits) - (level - 1)])
        return base + "." + module if module else base

    def uses(self, node, shadow):
        """events for evaluating expression `node`: name/chain uses and importlib calls, in source order"""
        out = []
        if node is None:
            return out
        if isinstance(node, ast.Attribute):
            path, n = [], node
            while isinstance(n, ast.Attribute):
                path.append(n.attr)
                n = n.value
            path.reverse()
            if isinstance(n, ast.Name):
                if n.id not in shadow:
                    out.append(["use", node.lineno, n.id, path])
                return out
            return self.uses(n, shadow)
        if isinstance(node, ast.Name):
            if isinstance(node.ctx, ast.Load) and node.id not in shadow:
                out.append(["use", node.lineno, node.id, []])
            return out
        if isinstance(node, ast.Lambda):
            for d in node.args.defaults + [k for k in node.args.kw_defaults if k is not None]:
                out += self.uses(d, shadow)
            return out
        if isinstance(node, (ast.ListComp, ast.SetComp, ast.GeneratorExp, ast.DictComp)):
            sh = set(shadow)
            first = True
            for g in node.generators:
                out += self.uses(g.iter, shadow if first else sh)
                first = False
                for t in ast.walk(g.target):
                    if isinstance(t, ast.Name):
                        sh.add(t.id)
                for c in g.ifs:
                    out += self.uses(c, sh)
            if isinstance(node, ast.DictComp):
                out += self.uses(node.key, sh) + self.uses(node.value, sh)
            else:
                out += self.uses(node.elt, sh)
            return out
        if isinstance(node, ast.Call):
            if isinstance(node.func, ast.Name) and node.func.id in ("globals", "locals", "vars", "exec", "eval", "setattr", "delattr"):
                self.dynamic = True     # may bind names behind the translator's back
            out += self.uses(node.func, shadow)
            for a in node.args:
                out += self.uses(a, shadow)
            for k in node.keywords:
                out += self.uses(k.value, shadow)
            tgt = self.import_call(node)
            if tgt is not None:
                out.append(tgt)
            return out
        if isinstance(node, ast.IfExp):
            out += self.uses(node.test, shadow)
            try:
                out += self.uses(node.body if const_eval(node.test, self.env) else node.orelse, shadow)
            except Unknown:
                pass                       # which branch is evaluated is not known: neither is checked
            return out
        if isinstance(node, ast.BoolOp):
            return out + self.uses(node.values[0], shadow)        # the other operands may be skipped
        if isinstance(node, ast.Compare):
            return out + self.uses(node.left, shadow) + self.uses(node.comparators[0], shadow)
        if isinstance(node, ast.NamedExpr):
            out += self.uses(node.value, shadow)
            out.append(["def", node.target.id])
            return out
        for child in ast.iter_child_nodes(node):
            if isinstance(child, (ast.expr, ast.keyword, ast.comprehension, ast.Starred)):
                out += self.uses(child, shadow)
            elif isinstance(child, ast.AST) and not isinstance(child, (ast.expr_context, ast.operator, ast.boolop,
                                                                        ast.unaryop, ast.cmpop)):
                out += self.uses(child, shadow)
        return out

    def import_call(self, call):
        """importlib.import_module(name, package=...) / __import__(name) with constant arguments"""
        f = call.func
        is_im = (isinstance(f, ast.Attribute) and f.attr == "import_module" and isinstance(f.value, ast.Name)
                 and f.value.id in self.importlib_names) or (isinstance(f, ast.Name) and f.id in self.import_module_names)
        is_dunder = isinstance(f, ast.Name) and f.id == "__import__"
        if not (is_im or is_dunder):
            return None
        try:
            name = const_eval(call.args[0], self.env) if call.args else None
            pkg = None
            if is_im:
                if len(call.args) > 1:
                    pkg = const_eval(call.args[1], self.env)
                for k in call.keywords:
                    if k.arg == "package":
                        pkg = const_eval(k.value, self.env)
            elif len(call.args) > 1 or call.keywords:
                raise Unknown
            if not isinstance(name, str) or not name:
                raise Unknown
        except Unknown:
            self.notes.append("%s:%d import call with non-constant arguments" % (self.mod, call.lineno))
            return ["unknown", call.lineno]
        if name.startswith("."):
            if not isinstance(pkg, str):
                return ["raise", call.lineno, "other:%d" % EXC_CODE["TypeError"]]   # package argument required
            level = len(name) - len(name.lstrip("."))
            bits = pkg.split(".")
            if level - 1 > len(bits) - 1:
                return ["raise", call.lineno, "importError"]
            base = ".".join(bits[:len(bits) - (level - 1)])
            rest = name[level:]
            # importlib first imports `package` itself when it is not in sys.modules? no: _gcd_import resolves the
            # name only; the parent chain is imported by _find_and_load
            name = base + "." + rest if rest else base
        return ["imp", call.lineno, name, None, False]

    def bind_targets(self, t, out, shadow, classlocals):
        if isinstance(t, ast.Name):
            if classlocals is not None:
                classlocals.add(t.id)
            else:
                out.append(["def", t.id])
                if t.id in EXC_CODE:
                    self.rebound.add(t.id)
        elif isinstance(t, (ast.Tuple, ast.List)):
            for e in t.elts:
                self.bind_targets(e, out, shadow, classlocals)
        elif isinstance(t, ast.Starred):
            self.bind_targets(t.value, out, shadow, classlocals)
        elif isinstance(t, (ast.Attribute, ast.Subscript)):
            out += self.uses(t.value, shadow)
            if isinstance(t, ast.Subscript):
                out += self.uses(t.slice, shadow)

    # -- statements
    def block(self, stmts, classlocals=None, maybe=False):
        out = []
        for s in stmts:
            ev = self.stmt(s, classlocals, maybe)
            if maybe:
                ev = self.weaken(ev)
            out += ev
        return out

    def weaken(self, evs):
        """events of a block that may or may not run: keep bindings, drop checks, imports become unknown"""
        out = []
        for e in evs:
            k = e[0]
            if k in ("def", "defall"):
                self.dynamic = True      # a binding that may or may not happen: the namespace is not exact
                out.append(["def", e[1]] if k == "def" else ["def", "__all__"])
            elif k in ("imp", "from", "star", "unknown"):
                out.append(["unknown", e[1]])
            elif k == "try":
                out += self.weaken(e[1]) + sum((self.weaken(h[1]) for h in e[2]), []) + self.weaken(e[3]) + self.weaken(e[4])
        return out

    def stmt(self, s, cl, maybe):
        shadow = cl if cl is not None else frozenset()
        out = []
        if isinstance(s, ast.Import):
            for a in s.names:
                bind = a.asname or a.name.partition(".")[0]
                if a.name == "importlib" or a.name.startswith("importlib."):
                    if not a.asname or a.name == "importlib":
                        self.importlib_names.add(bind)
                ev = ["imp", s.lineno, a.name, None if cl is not None else bind, bool(a.asname)]
                if cl is not None:
                    cl.add(bind)
                out.append(ev)
                self.env["@" + bind] = a.name == bind and bind in ("sys", "os")
                self.env.pop(bind, None)
            return out
        if isinstance(s, ast.ImportFrom):
            target = self.resolve(s.level, s.module)
            if target is None:
                return [["raise", s.lineno, "importError"]]
            if target == "__future__" and any(a.name == "annotations" for a in s.names):
                self.future_annotations = True
            if any(a.name == "*" for a in s.names):
                return [["star", s.lineno, target]]
            items = []
            for a in s.names:
                bind = a.asname or a.name
                if target == "importlib" and a.name == "import_module":
                    self.import_module_names.add(bind)
                if cl is not None:
                    cl.add(bind)
                items.append([a.name, None if cl is not None else bind])
                self.env.pop(bind, None)
                self.env.pop("@" + bind, None)
            return [["from", s.lineno, target, items]]
        if isinstance(s, ast.Assign):
            out += self.uses(s.value, shadow)
            for t in s.targets:
                self.bind_targets(t, out, shadow, cl)
            if cl is None and len(s.targets) == 1 and isinstance(s.targets[0], ast.Name):
                name = s.targets[0].id
                try:
                    self.env[name] = const_eval(s.value, self.env)
                except Unknown:
                    self.env.pop(name, None)
                self.env.pop("@" + name, None)
                if name == "__all__":
                    v = self.env.get("__all__")
                    if isinstance(v, (list, tuple)) and all(isinstance(x, str) for x in v):
                        out = [e for e in out if e != ["def", "__all__"]] + [["defall", list(v)]]
                    else:
                        self.notes.append("%s:%d __all__ is not a literal list of strings" % (self.mod, s.lineno))
            return out
        if isinstance(s, ast.AugAssign):
            if isinstance(s.target, ast.Name):
                if s.target.id not in shadow:
                    out.append(["use", s.lineno, s.target.id, []])
                self.env.pop(s.target.id, None)
            else:
                out += self.uses(s.target, shadow)
            out += self.uses(s.value, shadow)
            self.bind_targets(s.target, out, shadow, cl) if isinstance(s.target, ast.Name) else None
            return out
        if isinstance(s, ast.AnnAssign):
            if not self.future_annotations:
                out += self.uses(s.annotation, shadow)
            if s.value is not None:
                out += self.uses(s.value, shadow)
                self.bind_targets(s.target, out, shadow, cl)
                if isinstance(s.target, ast.Name):
                    self.env.pop(s.target.id, None)
            return out
        if isinstance(s, ast.Expr):
            return self.uses(s.value, shadow)
        if isinstance(s, (ast.FunctionDef, ast.AsyncFunctionDef)):
            for d in s.decorator_list:
                out += self.uses(d, shadow)
            a = s.args
            for d in a.defaults + [k for k in a.kw_defaults if k is not None]:
                out += self.uses(d, shadow)
            if not self.future_annotations:
                for arg in a.posonlyargs + a.args + a.kwonlyargs + [x for x in (a.vararg, a.kwarg) if x]:
                    out += self.uses(arg.annotation, shadow)
                out += self.uses(s.returns, shadow)
            if cl is not None:
                cl.add(s.name)
            else:
                out.append(["def", s.name])
                self.env.pop(s.name, None)
            return out
        if isinstance(s, ast.ClassDef):
            for d in s.decorator_list:
                out += self.uses(d, shadow)
            for b in s.bases:
                out += self.uses(b, shadow)
            for k in s.keywords:
                out += self.uses(k.value, shadow)
            inner = set(shadow) | {"__module__", "__qualname__", "__doc__"}
            out += self.block(s.body, classlocals=inner, maybe=maybe)
            if cl is not None:
                cl.add(s.name)
            else:
                out.append(["def", s.name])
                self.env.pop(s.name, None)
            return out
        if isinstance(s, ast.If):
            try:
                taken = bool(const_eval(s.test, self.env))
            except Unknown:
                out += self.uses(s.test, shadow)
                self.notes.append("%s:%d condition not decided: %s" % (self.mod, s.lineno, ast.unparse(s.test)[:60]))
                saved = dict(self.env)
                out += self.block(s.body, cl, True) + self.block(s.orelse, cl, True)
                self.env = {k: v for k, v in saved.items() if self.env.get(k, Unknown) == v}
                return out
            out += self.uses(s.test, shadow)
            return out + self.block(s.body if taken else s.orelse, cl, maybe)
        if isinstance(s, (ast.For, ast.AsyncFor)):
            out += self.uses(s.iter, shadow)
            try:
                seq = const_eval(s.iter, self.env)
                if not isinstance(seq, (list, tuple)) or not isinstance(s.target, ast.Name):
                    raise Unknown
                if any(isinstance(x, (ast.Break, ast.Continue, ast.Return)) for b in s.body for x in ast.walk(b)):
                    raise Unknown
            except Unknown:
                self.notes.append("%s:%d loop not unrolled" % (self.mod, s.lineno))
                self.bind_targets(s.target, out, shadow, cl)
                out += self.block(s.body, cl, True) + self.block(s.orelse, cl, True)
                return out
            for v in seq:
                self.bind_targets(s.target, out, shadow, cl)
                self.env[s.target.id] = v
                out += self.block(s.body, cl, maybe)
            out += self.block(s.orelse, cl, maybe)
            return out
        if isinstance(s, ast.While):
            out += self.uses(s.test, shadow)
            try:
                if not const_eval(s.test, self.env):
                    return out + self.block(s.orelse, cl, maybe)
            except Unknown:
                pass
            self.notes.append("%s:%d while loop at import time" % (self.mod, s.lineno))
            return out + self.block(s.body, cl, True) + self.block(s.orelse, cl, True)
        if isinstance(s, (ast.With, ast.AsyncWith)):
            for it in s.items:
                out += self.uses(it.context_expr, shadow)
                if it.optional_vars is not None:
                    self.bind_targets(it.optional_vars, out, shadow, cl)
            return out + self.block(s.body, cl, maybe)
        if isinstance(s, ast.Try) or s.__class__.__name__ == "TryStar":
            body = self.block(s.body, cl, maybe)
            handlers = []
            for h in s.handlers:
                hb = []
                if h.name and cl is None:
                    hb.append(["def", h.name])
                hb += self.block(h.body, cl, maybe)
                if h.name and cl is None:
                    hb.append(["del", h.lineno, h.name])
                handlers.append([self.catches(h.type), hb])
            return [["try", body, handlers, self.block(s.orelse, cl, maybe), self.block(s.finalbody, cl, maybe)]]
        if isinstance(s, ast.Delete):
            for t in s.targets:
                if isinstance(t, ast.Name):
                    if cl is not None:
                        cl.discard(t.id)
                    else:
                        out.append(["del", s.lineno, t.id])
                        self.env.pop(t.id, None)
                else:
                    self.bind_targets(t, out, shadow, cl)
            return out
        if isinstance(s, ast.Raise):
            out += self.uses(s.exc, shadow) + self.uses(s.cause, shadow)
            x = s.exc.func if isinstance(s.exc, ast.Call) else s.exc
            cls = raise_class(x.id) if isinstance(x, ast.Name) and x.id not in self.rebound else "other:0"
            return out + [["raise", s.lineno, cls]]
        if isinstance(s, ast.Assert):
            return self.uses(s.test, shadow)
        if isinstance(s, ast.Match):
            out += self.uses(s.subject, shadow)
            self.notes.append("%s:%d match statement at import time" % (self.mod, s.lineno))
            for c in s.cases:
                out += self.block(c.body, cl, True)
            return out
        return out   # pass, global, nonlocal, break, continue

    def catches(self, t):
        if t is None:
            return ["all"]
        elts = t.elts if isinstance(t, ast.Tuple) else [t]
        out = []
        for e in elts:
            if isinstance(e, ast.Name) and e.id not in self.rebound:
                for c in catch_classes(e.id):
                    if c not in out:
                        out.append(c)
        return out

    def run(self):
        if self.info["path"] is None:
            return []
        with open(self.info["path"], "rb") as f:
            src = f.read()
        import warnings
        with warnings.catch_warnings():
            warnings.simplefilter("ignore")
            tree = ast.parse(src, self.info["path"])
        pre = []
        if self.module_level_annotation(tree.body):
            pre.append(["def", "__annotations__"])       # SETUP_ANNOTATIONS runs before the first statement
        return pre + self.block(tree.body)

    def module_level_annotation(self, stmts):
        for s in stmts:
            if isinstance(s, ast.AnnAssign):
                return True
            if isinstance(s, (ast.FunctionDef, ast.AsyncFunctionDef, ast.ClassDef)):
                continue
            for f in ("body", "orelse", "finalbody"):
                if self.module_level_annotation(getattr(s, f, []) or []):
                    return True
            for h in getattr(s, "handlers", []) or []:
                if self.module_level_annotation(h.body):
                    return True
        return False


# ----------------------------------------------------------------------------------------------- measurement

PROBE = r'''
import sys, json
pre = list(sys.modules)
cfg = json.loads(sys.stdin.read())
target, cands, names = cfg["target"], cfg["cands"], cfg["names"]
full = set(cfg.get("full") or [])
res = {"target": target, "ok": True, "exc": None}
if target is not None:
    import importlib
    try:
        importlib.import_module(target)
    except BaseException as ex:
        res["ok"] = False
        res["exc"] = [c.__name__ for c in type(ex).__mro__]
        res["excname"] = getattr(ex, "name", None)
post = dict(sys.modules)
res["pre"] = [m for m in pre]
res["new"] = [m for m in post if m not in set(pre)]
import types
attrs = {}
for m in (cands if target is None else [target]):
    mod = post.get(m)
    if mod is None:
        continue
    d = {}
    for n in (sorted(set(names) | set(dir(mod))) if m in full else names):
        try:
            v = getattr(mod, n)
        except BaseException:
            continue
        if isinstance(v, types.ModuleType):
            child = post.get(m + "." + n)
            d[n] = ["child", m + "." + n] if child is v else ["mod", getattr(v, "__name__", "?")]
        else:
            d[n] = ["obj"]
    attrs[m] = {"attrs": d, "pkg": hasattr(mod, "__path__"),
                "all": (list(mod.__all__) if isinstance(getattr(mod, "__all__", None), (list, tuple))
                        and all(isinstance(x, str) for x in mod.__all__) else None)}
res["attrs"] = attrs
res["builtins"] = sorted(dir(__import__("builtins")))
sys.stdout.write(json.dumps(res))
'''


def probe(target, cands, names, full=()):
    p = subprocess.run([PY, "-I", "-c", PROBE],
                       input=json.dumps({"target": target, "cands": cands, "names": names, "full": sorted(full)}),
                       capture_output=True, text=True, cwd="/", timeout=300)
    if p.returncode != 0 or not p.stdout:
        raise RuntimeError("probe of %r failed: %s" % (target, p.stderr[-800:]))
    return json.loads(p.stdout)


CACHE_DIR = os.path.join(VERIF, ".scratch", "imports-cache")


def _cache_key(base, ext, names, star_ext):
    env = []
    for d in sorted(set(sys.path)):
        if d.endswith("site-packages") and os.path.isdir(d):
            st = os.stat(d)
            env.append((d, st.st_mtime_ns))
            for f in sorted(os.listdir(d)):
                if f.endswith(".pth") or f.endswith(".dist-info") or f.endswith(".egg-link"):
                    st = os.stat(os.path.join(d, f))
                    env.append((f, st.st_mtime_ns, st.st_size))
    exe = os.path.realpath(PY)
    doc = [PROBE, sys.version, exe, os.stat(exe).st_mtime_ns, env, base, ext, names, sorted(star_ext)]
    return hashlib.sha1(json.dumps(doc, sort_keys=True).encode()).hexdigest()


def cache_load(base, ext, names, star_ext):
    try:
        with open(os.path.join(CACHE_DIR, _cache_key(base, ext, names, star_ext) + ".json")) as f:
            return json.load(f)
    except (OSError, ValueError):
        return None


def cache_store(base, ext, names, star_ext, results):
    try:
        os.makedirs(CACHE_DIR, exist_ok=True)
        path = os.path.join(CACHE_DIR, _cache_key(base, ext, names, star_ext) + ".json")
        tmp = path + ".tmp%d" % os.getpid()
        with open(tmp, "w") as f:
            json.dump(results, f)
        os.replace(tmp, path)
    except OSError:
        pass


# ----------------------------------------------------------------------------------------------- assembling

def walk_events(evs):
    for e in evs:
        yield e
        if e[0] == "try":
            yield from walk_events(e[1])
            for h in e[2]:
                yield from walk_events(h[1])
            yield from walk_events(e[3])
            yield from walk_events(e[4])


def MODEL_HAS_OVERRIDE():
    """the `override` field of `Graph` (host variants for optional modules) exists in the model being built against"""
    try:
        with open(os.path.join(VERIF, "lean", "IofloModel", "Model", "Imports.lean")) as f:
            return "override : Option (Mod × Node)" in f.read()
    except OSError:
        return True


def optional_sites(bodies):
    """{optional module: [modules of the tree that try to import it]}: `import X [as y]` of a non-ioflo top-level
    module directly inside a `try` that has handlers (whatever they catch: that is the point of the check)"""
    out = {}
    for m in sorted(bodies):
        for e in walk_events(bodies[m]):
            if e[0] == "try" and e[2]:
                for x in e[1]:
                    if x[0] == "imp" and not (x[2] == "ioflo" or x[2].startswith("ioflo.")):
                        top = x[2].partition(".")[0]
                        if top not in sys.builtin_module_names:
                            out.setdefault(top, [])
                            if m not in out[top]:
                                out[top].append(m)
    return out


STD_STREAMS = ("stdout", "stderr", "stdin")


def std_stream_uses(mods, bodies):
    """Where the tree touches sys.stdout / sys.stderr / sys.stdin.  These objects are None when the host started the
    interpreter with the descriptor closed, so an attribute access on them AT IMPORT TIME makes importing depend on
    the environment.  `module_level`: attribute accesses on a std stream among the translated import-time events (the
    model treats the stream as an opaque object: such a line is an obligation for the host-configuration matrix of
    the check).  `in_functions`: functions and methods that mention a std stream; when one of them runs at import
    time (e.g. getConsole() -> Console.__init__ -> reopen) the effect is outside the model."""
    module_level, in_functions = [], []
    for m in sorted(bodies):
        for e in walk_events(bodies[m]):
            if e[0] == "use" and e[2] == "sys" and len(e[3]) >= 2 and e[3][0] in STD_STREAMS:
                module_level.append("%s:%d sys.%s" % (m, e[1], ".".join(e[3])))
        path = mods[m]["path"]
        if not path:
            continue
        import warnings
        with warnings.catch_warnings():
            warnings.simplefilter("ignore")
            try:
                tree = ast.parse(open(path, "rb").read(), path)
            except SyntaxError:
                continue

        def visit(node, qual):
            for ch in ast.iter_child_nodes(node):
                if isinstance(ch, (ast.FunctionDef, ast.AsyncFunctionDef)):
                    q = qual + [ch.name]
                    hit = sorted({"sys." + a.attr for a in ast.walk(ch)
                                  if isinstance(a, ast.Attribute) and a.attr in STD_STREAMS
                                  and isinstance(a.value, ast.Name) and a.value.id == "sys"})
                    if hit:
                        in_functions.append("%s:%d %s (%s)" % (m, ch.lineno, ".".join(q), ", ".join(hit)))
                    visit(ch, q)
                elif isinstance(ch, ast.ClassDef):
                    visit(ch, qual + [ch.name])
        visit(tree, [])
    return {"module_level": module_level, "in_functions": in_functions}


def build(repo):
    """the whole graph as a JSON-able dict"""
    mods = discover(repo)
    bodies, notes, dynamic = {}, [], []
    for m in sorted(mods):
        ex = Extractor(m, mods[m], mods)
        bodies[m] = ex.run()
        notes += ex.notes
        if ex.dynamic:
            dynamic.append(m)
    domain = sorted(m for m in mods if mods[m]["path"] is not None)
    std_uses = std_stream_uses(mods, bodies)
    optional = optional_sites(bodies)

    def is_ioflo(name):
        return name == "ioflo" or name.startswith("ioflo.")

    # referenced dotted names and identifiers
    nodes, idents = set(mods), set(SRC_DUNDERS) | {"__path__", "__all__"}
    for m in list(mods):
        if mods[m]["ns"] and not any(x.startswith(m + ".") and mods[x]["path"] for x in mods):
            nodes.discard(m)    # directories holding no python module at all are only nodes when referenced
    for m, evs in bodies.items():
        for e in walk_events(evs):
            k = e[0]
            if k == "imp":
                nodes.add(e[2])
                if e[3]:
                    idents.add(e[3])
            elif k == "from":
                nodes.add(e[2])
                for n, a in e[3]:
                    idents.add(n)
                    nodes.add(e[2] + "." + n)
                    if a:
                        idents.add(a)
            elif k == "star":
                nodes.add(e[2])
            elif k == "use":
                idents.add(e[2]); idents.update(e[3])
            elif k in ("def",):
                idents.add(e[1])
            elif k == "defall":
                idents.update(e[1])
                if mods[m]["pkg"]:
                    for n_ in e[1]:
                        nodes.add(m + "." + n_)
            elif k == "del":
                idents.add(e[2])
    # chains rooted at a name bound by `import x.y` in the same module name further candidate modules
    for m, evs in bodies.items():
        roots = {}
        for e in walk_events(evs):
            if e[0] == "imp" and e[3]:
                roots[e[3]] = e[2] if e[4] else e[2].partition(".")[0]
            elif e[0] == "use" and e[2] in roots:
                cur = roots[e[2]]
                for a in e[3][:3]:
                    cur = cur + "." + a
                    if not is_ioflo(cur):
                        nodes.add(cur)

    def close(ns):
        for n in list(ns):
            while "." in n:
                n = n.rpartition(".")[0]
                ns.add(n)
    close(nodes)
    for n in nodes:
        idents.add(n.rpartition(".")[2])

    ext = sorted(n for n in nodes if not is_ioflo(n))

    def ext_names():
        # identifiers that can be looked up on a non-ioflo module: names of from-imports, chain components,
        # last components of candidate modules, the dunders the machinery reads
        ns = {"__path__", "__all__"}
        for evs in bodies.values():
            for e in walk_events(evs):
                if e[0] == "from":
                    ns.update(n for n, _ in e[3])
                elif e[0] == "use":
                    ns.update(e[3])
        ns.update(n.rpartition(".")[2] for n in nodes)
        return sorted(ns)
    names = ext_names()
    star_ext = {e[2] for evs in bodies.values() for e in walk_events(evs) if e[0] == "star" and not is_ioflo(e[2])}
    # measurements: the fresh interpreter (always live), then every non-ioflo node on its own, in a clean process
    # each.  The per-module measurements are cached on disk, keyed by the interpreter, its site configuration, the
    # fresh-interpreter measurement itself and the question asked; the key changing re-measures everything.
    results = {}
    base = probe(None, ext, names, star_ext)
    for rnd in range(4):
        cached = cache_load(base, ext, names, star_ext)
        if cached is not None:
            results = cached
        todo = [x for x in ext if x not in results]
        with concurrent.futures.ThreadPoolExecutor(16) as pool:
            for x, r in zip(todo, pool.map(lambda t: probe(t, ext, names, star_ext), todo)):
                results[x] = r
        if todo:
            cache_store(base, ext, names, star_ext, results)
        # sub-modules that show up bound on a measured module become nodes too (and get measured)
        more = set()
        for r in [base] + list(results.values()):
            for m, a in r["attrs"].items():
                for n, v in a["attrs"].items():
                    if v[0] == "child" and v[1] not in nodes and not is_ioflo(v[1]):
                        more.add(v[1])
        close(more)
        more -= nodes
        if not more:
            break
        nodes |= more
        for n in more:
            idents.add(n.rpartition(".")[2])
        ext = sorted(n for n in nodes if not is_ioflo(n))
        names = ext_names()
        base = probe(None, ext, names, star_ext)
        results = {}
    preloaded = [m for m in ext if m in set(base["pre"])]
    extset = set(ext)

    def ext_body(x):
        r = results[x]
        if x in base["attrs"]:
            a = base["attrs"][x]            # preloaded: as found in the fresh interpreter
            loads = []
        elif not r["ok"]:
            return None, r
        else:
            a = r["attrs"].get(x)
            if a is None:
                return None, r
            loads = sorted(m for m in r["new"] if m in extset and m != x)
        evs = []
        if loads:
            evs.append(["ext", loads])
        for n in sorted(a["attrs"]):
            v = a["attrs"][n]
            if v[0] == "child":
                continue                     # bound by the import machinery when the child is loaded
            evs.append(["def", n] if v[0] == "obj" or v[1] not in nodes else ["defmod", n, v[1]])
        if x in star_ext:
            for e in evs:
                if e[0] in ("def", "defmod"):
                    idents.add(e[1])
            if a["all"] is not None:
                evs = [e for e in evs if e != ["def", "__all__"]]
                evs.append(["defall", [n for n in a["all"]]])
                idents.update(a["all"])
        return evs, a

    graph_nodes = {}
    for n in sorted(nodes):
        parent = n.rpartition(".")[0] or None
        if is_ioflo(n):
            info = mods.get(n)
            exists = info is not None
            graph_nodes[n] = {"parent": parent, "exists": exists, "pkg": bool(info and info["pkg"]),
                              "ns": bool(info and info["ns"]), "ioflo": True, "body": bodies.get(n, []),
                              "fail": None}
        else:
            r = results[n]
            evs, a = ext_body(n)
            if evs is None:
                mro = r.get("exc") or []
                en = r.get("excname") or ""
                if "ModuleNotFoundError" in mro and (en == n or n.startswith(en + ".")):
                    graph_nodes[n] = {"parent": parent, "exists": False, "pkg": False, "ns": False, "ioflo": False,
                                      "body": [], "fail": None}
                else:
                    cls = ("moduleNotFound" if "ModuleNotFoundError" in mro else "importError" if "ImportError" in mro
                           else "attributeError" if "AttributeError" in mro else "nameError" if "NameError" in mro
                           else "other:%d" % EXC_CODE.get(mro[0] if mro else "", 0))
                    graph_nodes[n] = {"parent": parent, "exists": True, "pkg": False, "ns": False, "ioflo": False,
                                      "body": [["raise", 0, cls]], "fail": mro[:1]}
            else:
                graph_nodes[n] = {"parent": parent, "exists": True, "pkg": bool(a["pkg"]), "ns": False, "ioflo": False,
                                  "body": evs, "fail": None}
    return {"nodes": graph_nodes, "domain": domain, "preloaded": preloaded, "idents": sorted(idents),
            "builtins": [b for b in base["builtins"] if b in idents], "notes": sorted(set(notes)),
            "dynamic": dynamic, "std_stream_uses": std_uses,
            "optional": {x: {"modules": ms, "exists": graph_nodes[x]["exists"]} for x, ms in sorted(optional.items())},
            "python": sys.version.split()[0]}


# ----------------------------------------------------------------------------------------------- Lean output

def classify_names(g):
    """identifier order: names that may be bound to a module (MN) first, then the other names some event looks
    up (relevant), then the rest; inside each class sorted"""
    nodes = g["nodes"]
    mn, rel = set(), {"__path__", "__all__"}
    for n, nd in nodes.items():
        if nd["exists"]:
            mn.add(n.rpartition(".")[2])
        for e in walk_events(nd["body"]):
            k = e[0]
            if k == "imp" and e[3]:
                mn.add(e[3])
            elif k == "defmod":
                mn.add(e[1])
            elif k == "from":
                rel.update(n_ for n_, _ in e[3])
            elif k == "use":
                rel.add(e[2]); rel.update(e[3])
            elif k == "del":
                rel.add(e[2])
            elif k == "defall":
                rel.update(e[1])
    changed = True
    while changed:          # `from t import n as b` hands a module value on to b
        changed = False
        for n, nd in nodes.items():
            for e in walk_events(nd["body"]):
                if e[0] == "from":
                    for a, b in e[3]:
                        if b and b not in mn and (a in mn or nodes[e[2] + "." + a]["exists"]):
                            mn.add(b); changed = True
    rel |= mn
    return mn, rel


def lean_text(g):
    mn, rel = classify_names(g)
    allid = set(g["idents"]) | mn | rel
    idents = sorted(mn) + sorted(rel - mn) + sorted(allid - rel)
    n_mn, n_rel = len(mn), len(rel)
    iid = {s: i for i, s in enumerate(idents)}
    names = sorted(g["nodes"], key=lambda n: (not g["nodes"][n]["exists"], n))
    nid = {s: i for i, s in enumerate(names)}
    CH = 20

    def L(xs):
        return "[" + ", ".join(xs) + "]"

    def opt(x):
        return "none" if x is None else "(some %s)" % x

    def exc(c):
        if c.startswith("other:"):
            return "(.other %s)" % c[6:]
        # a measured ModuleNotFoundError naming some module outside the graph: an id no node has
        return "." + c if c != "moduleNotFound" else "(.moduleNotFound %d)" % len(names)

    def catch(c):
        return "(.named %s)" % c[6:] if c.startswith("named:") else "." + c

    def chain(t):
        out = []
        while t is not None:
            out.append(str(nid[t]))
            t = g["nodes"][t]["parent"]
        return L(out)

    owner_box = [""]

    def ev(e):
        owner = owner_box[0]
        k = e[0]
        if k == "imp":
            return ".imp %d %s %s %s" % (e[1], chain(e[2]), opt(None if e[3] is None else iid[e[3]]), "true" if e[4] else "false")
        if k == "from":
            return ".from_ %d %s %s" % (e[1], chain(e[2]), L("(%d, %s, %d)" % (iid[n], opt(None if a is None else iid[a]), nid[e[2] + "." + n]) for n, a in e[3]))
        if k == "star":
            return ".star %d %s" % (e[1], chain(e[2]))
        if k == "use":
            return ".use %d %d %s" % (e[1], iid[e[2]], L(str(iid[a]) for a in e[3]))
        if k == "defs":
            ids = sorted({iid[n] for n in e[1]})
            return ".defs %s %s" % (L(str(i) for i in ids if i < n_rel), L(str(i) for i in ids if i >= n_rel))
        if k == "defmod":
            return ".defMod %d %d" % (iid[e[1]], nid[e[2]])
        if k == "defall":
            return ".defAll %s" % L("(%d, %d)" % (iid[n], nid.get(owner + "." + n, len(names))) for n in e[1])
        if k == "del":
            return ".del_ %d %d" % (e[1], iid[e[2]])
        if k == "ext":
            return ".ext %s" % L(str(nid[m]) for m in e[1])
        if k == "raise":
            return ".raise_ %d %s" % (e[1], exc(e[2]))
        if k == "unknown":
            return ".unknown %d" % e[1]
        if k == "try":
            hs = L("(%s, %s)" % (L(catch(c) for c in h[0]), evs(h[1])) for h in e[2])
            return ".try_ %s %s %s %s" % (evs(e[1]), hs, evs(e[3]), evs(e[4]))
        raise ValueError(e)

    def merge(es):
        """consecutive plain bindings become one `defs` event"""
        out = []
        for e in es:
            if e[0] == "def":
                if out and out[-1][0] == "defs":
                    out[-1][1].append(e[1])
                else:
                    out.append(["defs", [e[1]]])
            else:
                out.append(e)
        return out

    def evs(es):
        return L(ev(e) for e in merge(es))

    def mask(pred, lo, hi):
        return sum(1 << (i - lo) for i in range(lo, hi) if pred(idents[i]))

    out = []
    out.append("import IofloModel.Model.Imports")
    out.append("/-! GENERATED by harness/translate/imports.py from the ioflo source tree under test — do not edit.")
    out.append("Module ids index the node table (`modNames`), identifier ids index `identNames`: the first `nMN` may be")
    out.append("bound to modules, the first `nRel` are looked up by some event. -/")
    out.append("namespace Ioflo.Imports.Gen")
    out.append("open Ioflo.Imports")
    out.append("set_option maxRecDepth 100000")
    out.append("")
    out.append("/-- names bound by the loader before the body of a source module / regular package / namespace package runs -/")
    for nm, ds in (("src", SRC_DUNDERS), ("pkg", SRC_DUNDERS + ["__path__"]), ("ns", NS_DUNDERS)):
        ids = sorted(iid[d] for d in ds)
        out.append("def %sInit : List Name := %s" % (nm, L(str(i) for i in ids if i < n_rel)))
        out.append("def %sInitOther : List Name := %s" % (nm, L(str(i) for i in ids if i >= n_rel)))
    for n in names:
        nd = g["nodes"][n]
        i = nid[n]
        out.append("/-- %s -/" % n)
        owner_box[0] = n
        body = merge(nd["body"])
        chunks = [body[j:j + 40] for j in range(0, len(body), 40)] or [[]]
        for c, ch in enumerate(chunks):
            out.append("def b%d_%d : List Ev := %s" % (i, c, L(ev(e) for e in ch)))
        init = None if not nd["ioflo"] or not nd["exists"] else "ns" if nd["ns"] else "pkg" if nd["pkg"] else "src"
        init = "init := [], initOther := []" if init is None else "init := %sInit, initOther := %sInitOther" % (init, init)
        out.append("def n%d : Node := { parent := %s, last := %d, exists_ := %s, ioflo := %s, %s, body := %s }" % (
            i, opt(None if nd["parent"] is None else nid[nd["parent"]]),
            iid[n.rpartition(".")[2]], "true" if nd["exists"] else "false",
            "true" if nd["ioflo"] else "false", init,
            " ++ ".join("b%d_%d" % (i, c) for c in range(len(chunks)))))
    out.append("")
    nchunks = (len(names) + CH - 1) // CH
    for c in range(nchunks):
        out.append("def c%d : List Node := %s" % (c, L("n%d" % i for i in range(c * CH, min(len(names), (c + 1) * CH)))))
    out.append("def nodes : List (List Node) := %s" % L("c%d" % c for c in range(nchunks)))
    bset = set(g["builtins"])
    out.append(("def graph : Graph := { nodes := nodes, chunk := %d, nNodes := %d, preloaded := %s, builtins := %d, "
               "nMN := %d, nRel := %d, nHi := %d, publicLo := %d, publicHi := %d, pathName := %d, allName := %d, domain := %s"
               + (", override := none }" if MODEL_HAS_OVERRIDE() else " }")) % (
                   CH, len(names), L(str(nid[m]) for m in sorted(g["preloaded"], key=lambda m: nid[m])),
                   mask(lambda s_: s_ in bset, 0, len(idents)), n_mn, n_rel, len(idents) - n_rel,
                   mask(lambda s_: not s_.startswith("_"), 0, n_rel), mask(lambda s_: not s_.startswith("_"), n_rel, len(idents)),
                   iid["__path__"], iid["__all__"], L(str(nid[m]) for m in g["domain"])))
    dom = [nid[m] for m in g["domain"]]
    NCH = 8
    out.append("/-- the domain dealt round-robin into %d chunks (table theorems are proved per chunk, in parallel) -/" % NCH)
    out.append("def domainChunks : List (List Mod) := %s" % L(L(str(x) for x in dom[c::NCH]) for c in range(NCH)))
    # ordered pairs inside a package: for every module its siblings (same parent package), dealt over the chunks
    sib = {}
    for m in g["domain"]:
        sib.setdefault(m.rpartition(".")[0], []).append(m)
    # ... and the modules that (transitively, statically) import it: "the dependency was imported first"
    domset = set(g["domain"])
    direct = {}
    for m in g["domain"]:
        d = set()
        for e in walk_events(g["nodes"][m]["body"]):
            if e[0] in ("imp", "from", "star"):
                t = e[2]
                while t:
                    d.add(t)
                    t = t.rpartition(".")[0]
                if e[0] == "from":
                    d.update(e[2] + "." + n for n, _ in e[3])
        direct[m] = {x for x in d if x in domset and x != m}
    users = {m: set() for m in g["domain"]}
    for m in g["domain"]:
        seen, todo = set(), list(direct[m])
        while todo:
            x = todo.pop()
            if x not in seen:
                seen.add(x)
                todo.extend(direct[x])
        for x in seen:
            users[x].add(m)
    prs = []
    for m in g["domain"]:
        ms = [x for x in sib[m.rpartition(".")[0]] if x != m]
        ms += sorted(users[m] - set(ms) - {m})
        prs.append((m, ms))
    prs = [p for p in prs if p[1]]
    out.append("/-- table of ordered pairs (a, then m): for every module `a` the other modules of its package and the modules "
               "that statically (transitively) import `a`; in %d chunks -/" % NCH)
    out.append("def pairChunks : List (List (Mod × List Mod)) := %s" % L(
        L("(%d, %s)" % (nid[a], L(str(nid[x]) for x in ms)) for a, ms in prs[c::NCH]) for c in range(NCH)))
    # two more total orders of the domain (for the sweep theorems): by a hash of the name, and by the reversed name
    o1 = sorted(g["domain"], key=lambda m: hashlib.sha1(m.encode()).hexdigest())
    o2 = sorted(g["domain"], key=lambda m: m[::-1])
    out.append("/-- two further total orders of the domain: by the sha1 of the name, by the reversed name -/")
    out.append("def sweepOrders : List (List Mod) := %s" % L(L(str(nid[m]) for m in o) for o in (o1, o2)))
    opt = sorted(g.get("optional", {}).items())
    out.append("/-- optional third-party modules: `import X` inside a `try` with handlers; with the modules of the tree that "
               "try to import them; in 4 chunks -/")
    out.append("def optChunks : List (List (Mod × List Mod)) := %s" % L(
        L("(%d, %s)" % (nid[x], L(str(nid[m]) for m in d["modules"])) for x, d in opt[c::4]) for c in range(4)))
    out.append("/-- the top-level package of the tree under test -/")
    out.append("def root : Mod := %d" % nid["ioflo"])
    out.append("namespace Mid")
    for m in g["domain"]:
        out.append("def «%s» : Mod := %d" % (m, nid[m]))
    out.append("end Mid")
    out.append("")
    out.append("def modNames : Array String := #%s" % L(json.dumps(n) for n in names))
    out.append("def identNames : Array String := #%s" % L(json.dumps(n, ensure_ascii=True) for n in idents))
    out.append("")
    out.append("end Ioflo.Imports.Gen")
    return "\n".join(out) + "\n"


def translate(repo, out=OUT):
    g = build(repo)
    txt = lean_text(g)
    os.makedirs(os.path.dirname(out), exist_ok=True)
    old = None
    if os.path.exists(out):
        with open(out) as f:
            old = f.read()
    if old != txt:
        tmp = out + ".tmp%d" % os.getpid()
        with open(tmp, "w") as f:
            f.write(txt)
        os.replace(tmp, out)
    g["sha1"] = hashlib.sha1(txt.encode()).hexdigest()
    g["changed"] = old != txt
    return g


if __name__ == "__main__":
    repo = sys.argv[1] if len(sys.argv) > 1 else os.environ.get("IOFLO_REPO", "/repo")
    if len(sys.argv) > 2 and sys.argv[2] == "--json":
        json.dump(build(repo), sys.stdout, indent=1)
    else:
        g = translate(repo)
        print("nodes %d (ioflo domain %d) idents %d preloaded %d changed=%s notes=%d" % (
            len(g["nodes"]), len(g["domain"]), len(g["idents"]), len(g["preloaded"]), g["changed"], len(g["notes"])))
