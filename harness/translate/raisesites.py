"""
Translator for C14 (second table): the exception flow of ioflo/base/building.py, from its AST.

  * raise sites: every `raise X(...)` (class X), every bare `raise` / `raise ex` in a handler (the classes that handler
    catches), and every subscript `tokens[<index>]` (IndexError) — with the function it is in and the `try` statements
    whose BODY encloses it inside that function, innermost first, each given by the classes its `except` clauses name;
  * call sites between the functions of building.py: `self.<method>(...)`, `<module function>(...)`, and the dynamic
    `getattr(self, 'build' + Verb)(...)` of Builder.dispatch (every build<Verb> method), with the same enclosing tries;
  * the class hierarchy of every class named (itself and all its bases, from the running interpreter and
    ioflo.base.excepting);
  * a certificate: for every function the classes that can leave it (least fixed point, computed here);
  * exception attributes: every `<name>.<attr>` where <name> is bound by `except … as <name>`, in all builder-side
    modules, with the classes caught and whether every one of them has that attribute (class attributes from dir(),
    instance attributes from the `self.<attr> = …` assignments of its `__init__` chain).

Lean (Props/C14.lean) checks that the certificate is closed under the raise and call sites (so it bounds every finite
propagation), and that what leaves Builder.build is ParseError or ValueError only; the attribute table must have no
missing attribute.  Written to lean/IofloModel/Generated/RaiseSites.lean (only when the content changes).
"""
import ast, os, sys, builtins, importlib, inspect

BUILD_FILE = "ioflo/base/building.py"
# `tokens[0]` in these two functions reads a command the read loop has just checked to be non-empty
# (`if (not tokens): … continue`; Lean: C16_commands_nonempty) — not an IndexError site
NONEMPTY_IN = ("Builder.build", "Builder.dispatch")
ATTR_FILES = ["ioflo/base/building.py", "ioflo/base/framing.py", "ioflo/base/acting.py", "ioflo/base/needing.py",
              "ioflo/base/completing.py", "ioflo/base/fiating.py", "ioflo/base/wanting.py", "ioflo/base/housing.py"]


def cls_name(node):
    """last component of a (dotted) class expression, or None"""
    if isinstance(node, ast.Call):
        node = node.func
    if isinstance(node, ast.Attribute):
        return node.attr
    if isinstance(node, ast.Name):
        return node.id
    return None


def handler_classes(h):
    if h.type is None:
        return ["BaseException"]
    if isinstance(h.type, ast.Tuple):
        return [cls_name(e) or "?" for e in h.type.elts]
    return [cls_name(h.type) or "?"]


class FuncWalker(object):
    """one function body: sites with their enclosing try frames"""

    def __init__(self, qual, methods, functions):
        self.qual, self.methods, self.functions = qual, methods, functions
        self.raises, self.calls, self.nonempty = [], [], []

    def walk(self, stmts, tries, handler):
        for st in stmts:
            self.stmt(st, tries, handler)

    def stmt(self, st, tries, handler):
        """tries: enclosing frames innermost first; handler: (classes, name) of the except clause we are inside, if any"""
        if isinstance(st, (ast.FunctionDef, ast.AsyncFunctionDef, ast.ClassDef)):
            return          # nested definitions are not executed here
        if isinstance(st, ast.Try):
            frame = [c for h in st.handlers for c in handler_classes(h)]
            self.walk(st.body, [frame] + tries, handler)
            for h in st.handlers:
                self.walk(h.body, tries, (handler_classes(h), h.name))
            self.walk(st.orelse, tries, handler)
            self.walk(st.finalbody, tries, handler)
            return
        if isinstance(st, ast.Raise):
            if st.exc is None or (isinstance(st.exc, ast.Name) and handler and st.exc.id == handler[1]):
                for c in (handler[0] if handler else ["?"]):
                    self.raises.append((st.lineno, c, tries, "reraise"))
            else:
                self.raises.append((st.lineno, cls_name(st.exc) or "?", tries, "raise"))
        # expressions of this statement (not of nested statements, which are walked with their own context)
        for field, value in ast.iter_fields(st):
            if field in ("body", "orelse", "finalbody", "handlers"):
                continue
            for v in (value if isinstance(value, list) else [value]):
                if isinstance(v, ast.AST):
                    self.expr(v, tries)
        for field in ("body", "orelse"):
            sub = getattr(st, field, None)
            if isinstance(sub, list) and sub and isinstance(sub[0], ast.stmt):
                self.walk(sub, tries, handler)

    def expr(self, e, tries):
        for n in ast.walk(e):
            if isinstance(n, ast.Lambda):
                continue
            if isinstance(n, ast.Subscript) and isinstance(n.ctx, ast.Load) and isinstance(n.value, ast.Name) \
                    and n.value.id == "tokens" and not isinstance(n.slice, ast.Slice):
                first = isinstance(n.slice, ast.Constant) and n.slice.value == 0
                if first and self.qual in NONEMPTY_IN:
                    self.nonempty.append(n.lineno)     # the read loop dispatches non-empty commands only
                else:
                    self.raises.append((n.lineno, "IndexError", tries, "tokens[]"))
            if isinstance(n, ast.Call):
                f = n.func
                if isinstance(f, ast.Attribute) and isinstance(f.value, ast.Name) and f.value.id == "self" \
                        and f.attr in self.methods:
                    self.calls.append((n.lineno, "Builder." + f.attr, tries))
                elif isinstance(f, ast.Name) and f.id in self.functions:
                    self.calls.append((n.lineno, f.id, tries))
                elif isinstance(f, ast.Call) and isinstance(f.func, ast.Name) and f.func.id == "getattr":
                    for m in sorted(self.methods):
                        if m.startswith("build") and m[5:6].isupper():
                            self.calls.append((n.lineno, "Builder." + m, tries))


def class_info(repo, names):
    """{name: (ancestors incl. itself, attributes)} for the class names met"""
    if repo not in sys.path:
        sys.path.insert(0, repo)
    import collections.abc  # noqa
    excepting = importlib.import_module("ioflo.base.excepting")
    out = {}
    for n in sorted(names):
        c = getattr(excepting, n, None) or getattr(builtins, n, None)
        if not (isinstance(c, type) and issubclass(c, BaseException)):
            out[n] = ([n], [])
            continue
        attrs = set(a for a in dir(c) if not a.startswith("__"))
        for k in c.__mro__:
            init = k.__dict__.get("__init__")
            if init is not None and inspect.isfunction(init):
                try:
                    tree = ast.parse(inspect.getsource(k))
                except (OSError, TypeError):
                    continue
                for node in ast.walk(tree):
                    if isinstance(node, ast.FunctionDef) and node.name == "__init__":
                        for a in ast.walk(node):
                            if isinstance(a, ast.Attribute) and isinstance(a.ctx, ast.Store) \
                                    and isinstance(a.value, ast.Name) and a.value.id == "self":
                                attrs.add(a.attr)
        out[n] = ([k.__name__ for k in c.__mro__ if k is not object], sorted(attrs))
    return out


def extract(repo):
    with open(os.path.join(repo, BUILD_FILE), encoding="utf-8") as f:
        tree = ast.parse(f.read())
    functions = [n.name for n in tree.body if isinstance(n, ast.FunctionDef)]
    builder = next(n for n in tree.body if isinstance(n, ast.ClassDef) and n.name == "Builder")
    methods = [n.name for n in builder.body if isinstance(n, ast.FunctionDef)]
    raises, calls, nonempty = [], [], []
    for node, qual in [(n, n.name) for n in tree.body if isinstance(n, ast.FunctionDef)] + \
                      [(n, "Builder." + n.name) for n in builder.body if isinstance(n, ast.FunctionDef)]:
        w = FuncWalker(qual, set(methods), set(functions))
        w.walk(node.body, [], None)
        raises += [(qual, ln, c, tr, kind) for ln, c, tr, kind in w.raises]
        calls += [(qual, callee, ln, tr) for ln, callee, tr in w.calls]
        nonempty += [(qual, ln) for ln in w.nonempty]
    raises = sorted(set((f, ln, c, tuple(tuple(fr) for fr in tr), k) for f, ln, c, tr, k in raises))
    calls = sorted(set((f, g, ln, tuple(tuple(fr) for fr in tr)) for f, g, ln, tr in calls))

    # exception attributes (all builder-side modules)
    attrs = []
    for rel in ATTR_FILES:
        path = os.path.join(repo, rel)
        if not os.path.exists(path):
            continue
        with open(path, encoding="utf-8") as f:
            t = ast.parse(f.read())
        for h in ast.walk(t):
            if isinstance(h, ast.ExceptHandler) and h.name:
                for st in h.body:
                    for n in ast.walk(st):
                        if isinstance(n, ast.Attribute) and isinstance(n.value, ast.Name) and n.value.id == h.name \
                                and isinstance(n.ctx, ast.Load):
                            attrs.append((rel, n.lineno, tuple(handler_classes(h)), n.attr))
    attrs = sorted(set(attrs))

    names = set(c for _, _, c, _, _ in raises) | set(c for _, _, _, tr, _ in raises for fr in tr for c in fr) | \
        set(c for _, _, _, tr in calls for fr in tr for c in fr) | set(c for _, _, cs, _ in attrs for c in cs)
    info = class_info(repo, names)
    for n in list(info):
        for a in info[n][0]:
            if a not in info:
                info[a] = class_info(repo, [a])[a]
    funcs = sorted(set(functions) | set("Builder." + m for m in methods))

    def catches(h, c):
        return h in info[c][0]

    def caught(tr, c):
        return any(catches(h, c) for fr in tr for h in fr)

    esc = {f: set() for f in funcs}
    changed = True
    while changed:
        changed = False
        for f, ln, c, tr, k in raises:
            if not caught(tr, c) and c not in esc[f]:
                esc[f].add(c)
                changed = True
        for f, g, ln, tr in calls:
            for c in list(esc[g]):
                if not caught(tr, c) and c not in esc[f]:
                    esc[f].add(c)
                    changed = True
    return {"funcs": funcs, "classes": sorted(info), "info": info, "raises": raises, "calls": calls,
            "cert": {f: sorted(esc[f]) for f in funcs}, "attrs": attrs, "nonempty": sorted(set(nonempty))}


def lean_str(s):
    return '"' + s.replace("\\", "\\\\").replace('"', '\\"') + '"'


def render(d):
    fid = {f: i for i, f in enumerate(d["funcs"])}
    cid = {c: i for i, c in enumerate(d["classes"])}

    def nats(xs):
        return "[" + ", ".join(str(x) for x in xs) + "]"

    def tries(tr):
        return "[" + ", ".join(nats(cid[c] for c in fr) for fr in tr) + "]"
    L = ["/- GENERATED by harness/translate/raisesites.py from ioflo/base/building.py of the working tree — do not edit.",
         "   Exception flow: raise sites, call sites, class hierarchy, the certificate of escaping classes per function,",
         "   exception attribute accesses.  Functions and classes are numbered (`funcNames`, `classNames`). -/",
         "namespace Ioflo.RaiseSites", "",
         "structure RaiseSite where",
         "  func : Nat", "  line : Nat", "  cls : Nat",
         "  tries : List (List Nat)   -- enclosing `try` bodies inside the function, innermost first: classes of their handlers",
         "deriving DecidableEq, Repr", "",
         "structure CallSite where",
         "  caller : Nat", "  callee : Nat", "  line : Nat", "  tries : List (List Nat)",
         "deriving DecidableEq, Repr", "",
         "structure ExcAttr where",
         "  file : String", "  line : Nat", "  classes : List Nat   -- the classes the handler catches",
         "  attr : String", "  missing : List Nat   -- those of them that have no such attribute",
         "deriving DecidableEq, Repr", "",
         "def funcNames : List String := [" + ", ".join(lean_str(f) for f in d["funcs"]) + "]", "",
         "def classNames : List String := [" + ", ".join(lean_str(c) for c in d["classes"]) + "]", "",
         "/-- class ↦ itself and all its bases -/",
         "def ancestors : List (List Nat) := [" +
         ", ".join(nats(cid[a] for a in d["info"][c][0] if a in cid) for c in d["classes"]) + "]", "",
         "/-- function ↦ the classes that can leave it (computed by the translator; checked in Props/C14.lean) -/",
         "def cert : List (List Nat) := [" + ", ".join(nats(cid[c] for c in d["cert"][f]) for f in d["funcs"]) + "]", "",
         "def raiseSites : List RaiseSite := ["]
    L.append(",\n".join("  ⟨%d, %d, %d, %s⟩" % (fid[f], ln, cid[c], tries(tr)) for f, ln, c, tr, k in d["raises"]))
    L += ["]", "", "def callSites : List CallSite := ["]
    L.append(",\n".join("  ⟨%d, %d, %d, %s⟩" % (fid[f], fid[g], ln, tries(tr)) for f, g, ln, tr in d["calls"]))
    L += ["]", "", "def excAttrs : List ExcAttr := ["]
    L.append(",\n".join("  ⟨%s, %d, %s, %s, %s⟩" % (lean_str(rel), ln, nats(cid[c] for c in cs), lean_str(a),
                                                   nats(cid[c] for c in cs if a not in d["info"][c][1]))
                        for rel, ln, cs, a in d["attrs"]))
    L += ["]", "",
          "/-- `tokens[0]` reads in the read loop and in dispatch (function, line): the command is non-empty there -/",
          "def nonEmptyReads : List (Nat × Nat) := [" + ", ".join("(%d, %d)" % (fid[f], ln) for f, ln in d["nonempty"]) + "]", "",
          "def buildFunc : Nat := %d   -- Builder.build" % fid["Builder.build"],
          "def clsParseError : Nat := %d" % cid["ParseError"],
          "def clsValueError : Nat := %d" % cid["ValueError"], "",
          "end Ioflo.RaiseSites", ""]
    return "\n".join(L)


def write(repo, verif):
    d = extract(repo)
    text = render(d)
    path = os.path.join(verif, "lean", "IofloModel", "Generated", "RaiseSites.lean")
    if not os.path.exists(path) or open(path, encoding="utf-8").read() != text:
        with open(path, "w", encoding="utf-8") as f:
            f.write(text)
    return d


if __name__ == "__main__":
    repo = sys.argv[1] if len(sys.argv) > 1 else os.environ.get("IOFLO_REPO", "/repo")
    d = extract(repo)
    print(len(d["funcs"]), "functions,", len(d["raises"]), "raise sites,", len(d["calls"]), "call sites,",
          len(d["classes"]), "classes,", len(d["attrs"]), "exception attribute accesses")
    print("leaves Builder.build:", d["cert"]["Builder.build"])
    for f in d["funcs"]:
        odd = [c for c in d["cert"][f] if c not in ("ParseError", "ValueError")]
        if odd:
            print("  ", f, odd)
    for rel, ln, cs, a in d["attrs"]:
        print("  ATTR", rel, ln, cs, a, [c for c in cs if a not in d["info"][c][1]])
