#!/venv/bin/python
"""vcheck.py Cnn [--tier quick|thorough] [--replay file]  — see core.py"""
import sys, os
sys.path.insert(0, os.path.dirname(os.path.abspath(__file__)))
import core
if __name__ == "__main__":
    sys.exit(core.main(sys.argv[1:]))
