import Lean
/-!
Axiom audit: `lake env lean --run Audit.lean <Module> [<Module> ...]`
For every theorem declared in each named module (property theorems live in
`IofloModel.Props.Cnn`) print one line
  THEOREM <module> <name> AXIOMS <a1> <a2> ...
computed by walking the kernel terms in the compiled environment (own traversal,
independent of `#print axioms`).  Obligations are counted from this output.
-/
open Lean

partial def collect (env : Environment) (c : Name) : StateM (NameSet × NameSet) Unit := do
  let (seen, _) ← get
  if seen.contains c then return
  modify fun (s, a) => (s.insert c, a)
  let go (e : Expr) : StateM (NameSet × NameSet) Unit := e.getUsedConstants.forM (collect env)
  match env.find? c with
  | some (.axiomInfo v)  => modify (fun (s, a) => (s, a.insert c)); go v.type
  | some (.defnInfo v)   => go v.type *> go v.value
  | some (.thmInfo v)    => go v.type *> go v.value
  | some (.opaqueInfo v) => go v.type *> go v.value
  | some (.quotInfo _)   => pure ()
  | some (.ctorInfo v)   => go v.type
  | some (.recInfo v)    => go v.type
  | some (.inductInfo v) => go v.type *> v.ctors.forM (collect env)
  | none                 => pure ()

def main (args : List String) : IO UInt32 := do
  initSearchPath (← findSysroot)
  let mods := args.map (fun s => s.toName)
  let env ← importModules (mods.toArray.map (fun m => {module := m})) {} (loadExts := false)
  let mut bad : UInt32 := 0
  for m in mods do
    match env.getModuleIdx? m with
    | none => IO.println s!"NOMODULE {m}"; bad := 2
    | some idx =>
      let names := env.header.moduleData[idx.toNat]!.constNames
      for n in names do
        if n.isInternal then continue
        match env.find? n with
        | some (.thmInfo _) =>
          let ((), (_, axs)) := (collect env n).run ({}, {})
          let axs := (axs.toList.map toString).mergeSort (· ≤ ·)
          IO.println s!"THEOREM {m} {n} AXIOMS {" ".intercalate axs}"
        | _ => pure ()
  return bad
