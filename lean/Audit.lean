import Lean
/-!
Axiom audit: `lake env .lake/build/bin/audit <Module> [<Module> ...]`
For every theorem declared in each named module (property theorems live in
`IofloModel.Props.Cnn`) print one line
  THEOREM <module> <name> AXIOMS <a1> <a2> ...
computed by walking the kernel terms in the compiled environment (own traversal,
independent of `#print axioms`).  Obligations are counted from this output.

The axioms of a constant are memoised.  Definitions and theorems cannot be cyclic in the
kernel environment; the only cycles are inside an inductive block (type ↔ constructors ↔
recursors), which is therefore treated as one unit.
-/
open Lean

abbrev M := StateM (Std.HashMap Name NameSet)

def union (a b : NameSet) : NameSet := b.foldl (fun s n => s.insert n) a

/-- names of an inductive block: the mutual inductives, their constructors and recursors -/
def blockOf (env : Environment) (c : Name) : Option (List Name) :=
  let ofInd (v : InductiveVal) : List Name :=
    v.all.foldl (fun acc i =>
      match env.find? i with
      | some (.inductInfo iv) => acc ++ [i] ++ iv.ctors ++ [mkRecName i]
      | _ => acc ++ [i]) []
  match env.find? c with
  | some (.inductInfo v) => some (ofInd v)
  | some (.ctorInfo v) =>
    match env.find? v.induct with
    | some (.inductInfo iv) => some (ofInd iv)
    | _ => none
  | some (.recInfo v) =>
    match v.all.head? >>= env.find? with
    | some (.inductInfo iv) => some (ofInd iv)
    | _ => none
  | _ => none

partial def axiomsOf (env : Environment) (c : Name) : M NameSet := do
  if let some r := (← get)[c]? then return r
  match blockOf env c with
  | some block =>
    -- avoid re-entry while the block is being computed
    for b in block do modify (·.insert b {})
    let mut acc : NameSet := {}
    for b in block do
      let ty := match env.find? b with
        | some ci => some ci.type
        | none => none
      if let some ty := ty then
        for u in ty.getUsedConstants do
          if !block.contains u then acc := union acc (← axiomsOf env u)
    for b in block do modify (·.insert b acc)
    return acc
  | none =>
    let exprs : List Expr := match env.find? c with
      | some (.axiomInfo v)  => [v.type]
      | some (.defnInfo v)   => [v.type, v.value]
      | some (.thmInfo v)    => [v.type, v.value]
      | some (.opaqueInfo v) => [v.type, v.value]
      | _ => []
    let mut acc : NameSet := {}
    if let some (.axiomInfo _) := env.find? c then acc := acc.insert c
    for e in exprs do
      for u in e.getUsedConstants do
        acc := union acc (← axiomsOf env u)
    modify (·.insert c acc)
    return acc

def main (args : List String) : IO UInt32 := do
  initSearchPath (← findSysroot)
  let mods := args.map (fun s => s.toName)
  let env ← importModules (mods.toArray.map (fun m => {module := m})) {} (loadExts := false)
  let mut bad : UInt32 := 0
  let mut memo : Std.HashMap Name NameSet := {}
  for m in mods do
    match env.getModuleIdx? m with
    | none => IO.println s!"NOMODULE {m}"; bad := 2
    | some idx =>
      let names := env.header.moduleData[idx.toNat]!.constNames
      for n in names do
        if n.isInternal then continue
        match env.find? n with
        | some (.thmInfo _) =>
          let (axs, memo') := (axiomsOf env n).run memo
          memo := memo'
          let axs := (axs.toList.map toString).mergeSort (· ≤ ·)
          IO.println s!"THEOREM {m} {n} AXIOMS {" ".intercalate axs}"
        | _ => pure ()
  return bad
