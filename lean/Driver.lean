import IofloModel.Drv.Crc
/-!
Line-protocol driver over the executable models.  `driver <engine>` reads requests on
stdin and writes one reply line per request.  Imports only `Model/*` and `Drv/*`
(core Lean), so it links as a native executable.
-/
def engines : List (String × IO Unit) := [
  ("crc", Ioflo.Drv.Crc.run)
]

def main (args : List String) : IO UInt32 := do
  match args with
  | [e] =>
    match engines.lookup e with
    | some run => run; return 0
    | none => IO.eprintln s!"unknown engine {e}"; return 2
  | _ => IO.eprintln "usage: driver <engine>"; return 2
