-- root of the library: models, lemmas and property theorems
import IofloModel.Model.Crc
import IofloModel.Lemmas.Crc
