def hello := "world"
