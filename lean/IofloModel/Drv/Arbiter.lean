import IofloModel.Model.Arbiter
import IofloModel.Drv.RatProto
/-!
driver for the arbiter models (engine `arbiter`).

    q|f <switch|priority|trusted|trusted0|weighted> <default value> <default truth as found by __init__> <input>*

`q`: exact rationals `p/q`; `f`: doubles as 16 hex digits (same generic definitions at Float).
value: `N` | `B0` `B1` | `#<number>` | `S<id>`;  truth: `N` | `B0` `B1` | `#<number>`
input: `<sel 0|1>:<imp number>:<truth>:<value>`
    q d25region <default truth> <input>*      → 1|0  (Ioflo.Arbiter.nonPosCandidate, region of finding D25)
reply: `<value> <truth>` of the output share, or `E NameError` (trusted0 = unrepaired ArbiterTrusted)
The default truth is passed through `FixTruth` as `Arbiter.__init__` does.
-/
namespace Ioflo.Drv.Arbiter
open Ioflo.Proto Ioflo.Arbiter Ioflo.RatProto

class Codec (τ : Type) where
  parse : String → Option τ
  render : τ → String

instance : Codec Rat where
  parse := parseRat?
  render := renderRat

def parseHex64? (s : String) : Option Nat :=
  if s.length ≠ 16 then none else
  s.toList.foldl (fun acc c => match acc, hexDigit? c with
    | some n, some d => some (n * 16 + d)
    | _, _ => none) (some 0)

instance : Codec Float where
  parse s := (parseHex64? s).map (fun n => Float.ofBits (UInt64.ofNat n))
  render x := natToHex 16 x.toBits.toNat

section generic
variable {τ : Type} [Add τ] [Mul τ] [Div τ] [LT τ] [DecidableLT τ] [BEq τ] [OfNat τ 0] [OfNat τ 1] [Codec τ]

def parseTruth? (s : String) : Option (Truth τ) :=
  match s.toList with
  | ['N'] => some .none
  | ['B', '0'] => some (.bool false)
  | ['B', '1'] => some (.bool true)
  | '#' :: rest => (Codec.parse (String.ofList rest) : Option τ).map .num
  | _ => none

def parseVal? (s : String) : Option (Val τ) :=
  match s.toList with
  | ['N'] => some .none
  | ['B', '0'] => some (.bool false)
  | ['B', '1'] => some (.bool true)
  | '#' :: rest => (Codec.parse (String.ofList rest) : Option τ).map .num
  | 'S' :: rest => (parseNat? (String.ofList rest)).map .str
  | _ => none

def parseInput? (s : String) : Option (Input τ) :=
  match s.splitOn ":" with
  | [sel, imp, t, v] =>
    match (if sel == "1" then some true else if sel == "0" then some false else none),
          (Codec.parse imp : Option τ), parseTruth? (τ := τ) t, parseVal? (τ := τ) v with
    | some sel, some imp, some t, some v => some { sel := sel, imp := imp, truth := t, value := v }
    | _, _, _, _ => none
  | _ => none

def parseInputs? (ws : List String) : Option (List (Input τ)) :=
  ws.foldr (fun w acc => match parseInput? (τ := τ) w, acc with
    | some i, some l => some (i :: l)
    | _, _ => none) (some [])

def showVal : Val τ → String
  | .none => "N"
  | .bool b => if b then "B1" else "B0"
  | .num x => "#" ++ Codec.render x
  | .str n => "S" ++ toString n

def showTruth : Truth τ → String
  | .none => "N"
  | .bool b => if b then "B1" else "B0"
  | .num x => "#" ++ Codec.render x

def showOut (o : Out τ) : String := showVal o.value ++ " " ++ showTruth o.truth

def run (ws : List String) : Option String :=
  match ws with
  | name :: dv :: dt :: rest =>
    match parseVal? (τ := τ) dv, parseTruth? (τ := τ) dt, parseInputs? (τ := τ) rest with
    | some dv, some dt, some ins =>
      let d : Default τ := { value := dv, truth := fixTruth dt }
      if name == "switch" then some (showOut (switch d ins))
      else if name == "priority" then some (showOut (priority d ins))
      else if name == "trusted" then some (showOut (trusted d ins))
      else if name == "weighted" then some (showOut (weighted d ins))
      else if name == "trusted0" then
        some (match trustedOrig d ins with
          | .ok o => showOut o
          | .error .nameError => "E NameError"
          | .error .typeError => "E TypeError"
          | .error .zeroDivision => "E ZeroDivisionError")
      else none
    | _, _, _ => none
  | _ => none

end generic

def step (_ : Unit) (line : String) : Unit × String :=
  match words line with
  | "q" :: "d25region" :: dt :: rest =>
    match parseTruth? (τ := Rat) dt, parseInputs? (τ := Rat) rest with
    | some dt, some ins => ((), if nonPosCandidate (fixTruth dt) ins then "1" else "0")
    | _, _ => ((), "bad-op")
  | "q" :: rest => ((), (run (τ := Rat) rest).getD "bad-op")
  | "f" :: rest => ((), (run (τ := Float) rest).getD "bad-op")
  | _ => ((), "bad-op")

end Ioflo.Drv.Arbiter

def main : IO Unit := Ioflo.Proto.loop Ioflo.Drv.Arbiter.step ()
