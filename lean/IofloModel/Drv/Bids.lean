import IofloModel.Model.Bids
import IofloModel.Drv.SkedProto
/-!
driver for the bids/fiats model (engine `bids`)

request   `run <fuel> <program>`  → `<outcome> | <event>;… | <obs>;… | final <status>:<desire>:<period> … | ticks n`
          `table <ctl 0-5> <status 0-4> <check 0|1>` → `<status> <desire|->`   (the pure runner table)

program   `<P> <stamp> <nhouses> { <n> id… <n> id… <n> id… } <nframers> { framer }`
framer    `<a|i|s> <period> <nframes> { frame }`
frame     `<over|-> <n> { guard } <n> { act } <n> { act } <n> { act } <n> { trans }`   (beacts enacts reacts exacts preacts)
guard     `c <cond>` | `f <ctl> <slave>`
cond      `A` | `R <n>` | `F <flag> <int>`
act       `b <ctl> <period|-> <n> id…` | `f <ctl> <slave>` | `p <flag> <int>`
trans     `<n> { cond } <target>`
numbers   exact rationals `p/q`
obs       `m id frame <e|x>` | `r <L|F> id ctl` | `y id st` | `w id ctl` | `b by target ctl period|-` | `f by slave ctl st ret` | `k id ok`
-/
namespace Ioflo.Drv.Bids
open Ioflo.Proto Ioflo.Sked Ioflo.Bids Ioflo.Drv.SkedProto

def int : P Int := do
  match (← tok).toInt? with
  | some n => pure n
  | none => failure

def cond : P Cond := do
  match (← tok) with
  | "A" => pure .always
  | "R" => do let n ← nat; pure (.recurredGe n)
  | "F" => do let k ← nat; let v ← int; pure (.flagEq k v)
  | _ => failure

def guard : P Guard := do
  match (← tok) with
  | "c" => do let c ← cond; pure (.cond c)
  | "f" => do let c ← control; let s ← nat; pure (.fiat c s)
  | _ => failure

def act : P (Bids.Act Rat) := do
  match (← tok) with
  | "b" => do
    let c ← control
    let p ← optNumber ratOfString
    let ts ← counted nat
    pure (.bid ts c p)
  | "f" => do let c ← control; let s ← nat; pure (.fiat c s)
  | "p" => do let k ← nat; let v ← int; pure (.put k v)
  | _ => failure

def trans : P Trans := do
  let cs ← counted cond
  let t ← nat
  pure { conds := cs, target := t }

def frame : P (Frame Rat) := do
  let ot ← tok
  let over ← (if ot = "-" then pure none else match ot.toNat? with | some o => pure (some o) | none => failure : P (Option Nat))
  let be ← counted guard
  let en ← counted act
  let re ← counted act
  let ex ← counted act
  let pr ← counted trans
  pure { over := over, beacts := be, enacts := en, reacts := re, exacts := ex, preacts := pr }

def framer : P (Fr Rat) := do
  let s ← tok
  let sched ← (match s with | "a" => pure .active | "i" => pure .inactive | "s" => pure .slave | _ => failure : P Sched)
  let p ← number ratOfString
  let fs ← counted frame
  pure { sched := sched, period := p, frames := fs }

def program : P (Program Rat) := do
  let p ← number ratOfString
  let s ← number ratOfString
  let hs ← counted house
  let fs ← counted framer
  pure { period := p, stamp := s, houses := hs, framers := fs }

def boolCode (b : Bool) : String := if b then "1" else "0"

def showObs : Obs Rat → String
  | .recv ph i c => s!"r {match ph with | .loop => "L" | .final => "F"} {i} {ctlCode c}"
  | .yield i st => s!"y {i} {statusCode st}"
  | .write i c => s!"w {i} {ctlCode c}"
  | .bid b t c p => s!"b {b} {t} {ctlCode c} {match p with | some p => ratToString p | none => "-"}"
  | .fiat b sl c st r => s!"f {b} {sl} {ctlCode c} {statusCode st} {boolCode r}"
  | .check i ok => s!"k {i} {boolCode ok}"
  | .mark i f en => s!"m {i} {f} {if en then "e" else "x"}"

def showRun (p : Program Rat) (fuel : Nat) : String :=
  if !p.wellFormed then "bad-op" else
  let r := p.run fuel
  let w := r.2.world
  if w.unsupported then "unsupported" else
  outcomeCode r.1 ++ " | " ++ ";".intercalate (r.2.events.map (showEvent ratToString))
    ++ " | " ++ ";".intercalate (w.trace.map showObs)
    ++ " | final " ++ " ".intercalate ((List.range w.n).map fun i =>
        statusCode (w.framers i).status ++ ":" ++ ctlCode (w.framers i).desire ++ ":" ++ ratToString (w.framers i).period
          ++ ":" ++ ",".intercalate ((w.framers i).actives.map toString))
    ++ " | ticks " ++ toString r.2.tick

def statusOf : String → Option Status
  | "0" => some .stopped | "1" => some .started | "2" => some .running | "3" => some .aborted
  | "4" => some .readied | _ => none

/-- the runner table on a framer with one empty frame whose entry guard is the flag `check` -/
def tableReply (c : Control) (st : Status) (check : Bool) : String :=
  let f : Fr Rat := { sched := .slave, period := 0, status := st, desire := .other,
                      frames := [{ beacts := [.cond (.flagEq 0 1)] }] }
  let w : Bids.World Rat := { n := 1, framers := fun _ => f, flags := fun _ => if check then 1 else 0, trace := [] }
  let r := table noFiat 0 c w
  statusCode r.1 ++ " " ++ (if (r.2.framers 0).desire = .other then "-" else ctlCode (r.2.framers 0).desire)

def step (_ : Unit) (line : String) : Unit × String :=
  let reply : Option String :=
    match words line with
    | "run" :: rest =>
      match (do let f ← nat; let p ← program; pure (f, p) : P _).run rest with
      | some ((f, p), []) => some (showRun p f)
      | _ => none
    | ["table", c, st, chk] =>
      match (control.run [c]), statusOf st, chk with
      | some (c, []), some st, "0" => some (tableReply c st false)
      | some (c, []), some st, "1" => some (tableReply c st true)
      | _, _, _ => none
    | _ => none
  ((), reply.getD "bad-op")

end Ioflo.Drv.Bids

def main : IO Unit := Ioflo.Proto.loop Ioflo.Drv.Bids.step ()
