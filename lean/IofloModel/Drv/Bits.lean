import IofloModel.Model.Bits
import IofloModel.Drv.Proto
/-!
driver for the byting model (engine `bits`).  Tokens:
  ints      decimal, optional leading `-`
  int lists comma separated, `-` = empty list            (formats, field values)
  bytes     hex pairs, `-` = empty
  strings   comma separated hex code points, `-` = empty (requests); raw text, `-` = empty (replies)
  flags     `0` / `1`;   optional size: `N` = None
Replies: value, or `ERR ValueError|TypeError|IndexError`, or `bad-op`.
-/
namespace Ioflo.Drv.Bits
open Ioflo.Proto Ioflo.Bits

def ints? (s : String) : Option (List Int) :=
  if s == "-" then some [] else (s.splitOn ",").mapM String.toInt?

def nats? (s : String) : Option (List Nat) :=
  if s == "-" then some [] else (s.splitOn ",").mapM String.toNat?

def hexNat? (s : String) : Option Nat :=
  if s.isEmpty then none else
  s.toList.foldlM (fun acc c => (hexDigit? c).map (fun d => acc * 16 + d)) 0

def chars? (s : String) : Option (List Char) :=
  if s == "-" then some [] else
  (s.splitOn ",").mapM (fun t => (hexNat? t).map Char.ofNat)

def bytes? (s : String) : Option (List Byte) := (hexToBytes? s).map (·.map (BitVec.ofNat 8))

def flag? (s : String) : Option Bool :=
  if s == "1" then some true else if s == "0" then some false else none

def size? (s : String) : Option (Option Int) :=
  if s == "N" then some none else s.toInt?.map some

def showBytes (b : List Byte) : String := bytesToHex (b.map BitVec.toNat)
def showStr (cs : List Char) : String := if cs.isEmpty then "-" else String.ofList cs
def showErr : Err → String
  | .valueError => "ERR ValueError"
  | .typeError => "ERR TypeError"
  | .indexError => "ERR IndexError"
def showFld : Fld → String
  | .int n => toString n
  | .bool true => "T"
  | .bool false => "F"
def showFlds (fs : List Fld) : String := if fs.isEmpty then "-" else ",".intercalate (fs.map showFld)

def showE {α} (f : α → String) : Except Err α → String
  | .ok a => f a
  | .error e => showErr e

def reply (ws : List String) : Option String :=
  match ws with
  | ["binize", n, size] => do
      let n ← n.toInt?; let size ← size.toInt?
      pure (showStr (binize n size))
  | ["unbinize", u] => do
      let u ← chars? u
      pure (showE toString (unbinize u))
  | ["hexify", b] => do
      let b ← bytes? b
      pure (showStr (hexify b))
  | ["unhexify", h] => do
      let h ← chars? h
      pure (showBytes (unhexify h))
  | ["bytify", n, size, rev, strict] => do
      let n ← n.toInt?; let size ← size.toNat?; let rev ← flag? rev; let strict ← flag? strict
      pure (showBytes (bytify n size rev strict))
  | ["unbytify", b, rev] => do
      let b ← bytes? b; let rev ← flag? rev
      pure (toString (unbytify b rev))
  | ["packify", fmt, fields, size, rev] => do
      let fmt ← ints? fmt; let fields ← ints? fields; let size ← size? size; let rev ← flag? rev
      pure (showE showBytes (packify fmt fields size rev))
  | ["packinto", b, fmt, fields, size, offset, rev] => do
      let b ← bytes? b; let fmt ← ints? fmt; let fields ← ints? fields; let size ← size? size
      let offset ← offset.toNat?; let rev ← flag? rev
      pure (showE (fun (r : List Byte × Nat) => showBytes r.1 ++ " " ++ toString r.2)
        (packifyInto b fmt fields size offset rev))
  | ["unpackify", fmt, b, boolean, size, rev] => do
      let fmt ← ints? fmt; let b ← bytes? b; let boolean ← flag? boolean; let size ← size? size
      let rev ← flag? rev
      pure (showE showFlds (unpackify fmt b boolean size rev))
  | ["signext", x, n] => do
      let x ← x.toInt?; let n ← n.toInt?
      pure (showE toString (signExtend x n))
  | ["packbyte", fmt, fields] => do
      let fmt ← nats? fmt; let fields ← ints? fields
      pure (showE toString (packByte fmt fields))
  | ["unpackbyte", fmt, byte, boolean] => do
      let fmt ← nats? fmt; let byte ← byte.toInt?; let boolean ← flag? boolean
      pure (showE showFlds (unpackByte fmt byte boolean))
  -- composites (the round trips the property speaks about), same functions chained
  | ["rt-pack", fmt, fields, size, boolean, rev] => do
      let fmt ← ints? fmt; let fields ← ints? fields; let size ← size? size
      let boolean ← flag? boolean; let rev ← flag? rev
      pure (match packify fmt fields size rev with
        | .error e => showErr e
        | .ok b => showE showFlds (unpackify fmt b boolean size rev))
  | ["rt-bytes", n, size, rev, strict] => do
      let n ← n.toInt?; let size ← size.toNat?; let rev ← flag? rev; let strict ← flag? strict
      pure (toString (unbytify (bytify n size rev strict) rev))
  | ["rt-unbytes", b, rev, strict] => do
      let b ← bytes? b; let rev ← flag? rev; let strict ← flag? strict
      pure (showBytes (bytify (unbytify b rev) b.length rev strict))
  | ["rt-hex", b] => do
      let b ← bytes? b
      pure (showBytes (unhexify (hexify b)))
  | ["rt-unhex", h] => do
      let h ← chars? h
      pure (showStr (hexify (unhexify h)))
  | ["rt-bin", n, size] => do
      let n ← n.toInt?; let size ← size.toInt?
      pure (showE toString (unbinize (binize n size)))
  | ["rt-unbin", u] => do
      let u ← chars? u
      pure (match unbinize u with
        | .error e => showErr e
        | .ok n => showStr (binize n u.length))
  | ["rt-byte", fmt, fields, boolean] => do
      let fmt ← nats? fmt; let fields ← ints? fields; let boolean ← flag? boolean
      pure (match packByte fmt fields with
        | .error e => showErr e
        | .ok b => showE showFlds (unpackByte fmt b boolean))
  -- format given as TEXT (code points), parsed by the model's `fmt.split()` / `int()`
  | ["parsefmt", t] => do
      let t ← chars? t
      pure (showE (fun (ws : List Int) => if ws.isEmpty then "-" else ",".intercalate (ws.map toString)) (parseFmt t))
  | ["packify-t", t, fields, size, rev] => do
      let t ← chars? t; let fields ← ints? fields; let size ← size? size; let rev ← flag? rev
      pure (showE showBytes (packifyText t fields size rev))
  | ["rt-pack-t", t, fields, size, boolean, rev] => do
      let t ← chars? t; let fields ← ints? fields; let size ← size? size
      let boolean ← flag? boolean; let rev ← flag? rev
      pure (match packifyText t fields size rev with
        | .error e => showErr e
        | .ok b => showE showFlds (unpackifyText t b boolean size rev))
  -- packifyInto in full: buffer kind (a = bytearray, l = list, b = bytes), any offset; reply = buffer after the call + result
  | ["packinto-t", kind, b, t, fields, size, offset, rev] => do
      let kind ← (if kind == "a" then some BufKind.bytearray else if kind == "l" then some BufKind.list
                  else if kind == "b" then some BufKind.bytes else none)
      let b ← bytes? b; let t ← chars? t; let fields ← ints? fields; let size ← size? size
      let offset ← offset.toInt?; let rev ← flag? rev
      let (b', r) := match parseFmt t with
        | .error e => (b, Except.error (IntoErr.codec e))
        | .ok ws => packifyIntoFull kind b ws fields size offset rev
      pure (showBytes b' ++ " " ++ (match r with
        | .ok n => toString n
        | .error (.codec e) => showErr e
        | .error .attributeError => "ERR AttributeError"
        | .error .typeErrorAssign => "ERR TypeError"))
  | ["region", "negoffset-t", t, size, offset] => do
      let t ← chars? t; let size ← size? size; let offset ← offset.toInt?
      pure (match parseFmt t with
        | .error _ => "0"
        | .ok ws => match checkSize ws size with
          | .error _ => "0"
          | .ok sz => if negOffsetInserts offset sz then "1" else "0")
  | ["region", "negoffset", offset, size] => do
      let offset ← offset.toInt?; let size ← size.toNat?
      pure (if negOffsetInserts offset size then "1" else "0")
  | ["region", "onebit", fmt, fields] => do
      let fmt ← ints? fmt; let fields ← ints? fields
      pure (if oneBitNonBool fmt fields then "1" else "0")
  | _ => none

def step (_ : Unit) (line : String) : Unit × String :=
  ((), (reply (words line)).getD "bad-op")

end Ioflo.Drv.Bits

def main : IO Unit := Ioflo.Proto.loop Ioflo.Drv.Bits.step ()
