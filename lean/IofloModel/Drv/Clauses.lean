import IofloModel.Model.Clauses
import IofloModel.Drv.Proto
/-! driver for the clause-loop model (engine `clauses`).

request  `region <D9|D61|D62|D63> <clauses>`   clause texts `tok,tok;tok,tok`; reply 0|1 (the Lean region predicate)
request  `<verb> <fix 0|1> <tokens>`   verb = framer | frame | do | aux | rear | log | logger | server | marker |
         direct | indirect | indirectnode | fields | relation;  tokens = comma-separated hex (UTF-8), `-` = none
reply    `ERR parse|value|type|index|overflow`  or  `ok key=value …`
         texts are hex (`-` empty); values V = none | bool:0|1 | str:<hex> | int:<n> | float:<F> | complex:<F>/<F>
         | coord:<neg>/<F>/<F> | point:<kind>/<F>/…;  F = f:<neg>:<mant>:<exp> | inf:<neg> | nan;
         dictionaries `k~V;k~V`, field lists `a+b`, `rest=` the tokens left (sub-parser requests)
-/
namespace Ioflo.Drv.Clauses
open Ioflo.Proto Ioflo.Literal Ioflo.Clauses

def decode? (h : String) : Option Str :=
  match hexToBytes? h with
  | none => none
  | some bs =>
    match String.fromUTF8? (ByteArray.mk (bs.map UInt8.ofNat).toArray) with
    | some s => some s.toList
    | none => none

def encode (s : Str) : String :=
  bytesToHex ((String.ofList s).toUTF8.toList.map UInt8.toNat)

def decodeToks (w : String) : Option (List Str) :=
  if w == "-" then some [] else (w.splitOn ",").mapM decode?

def b01 (b : Bool) : String := if b then "1" else "0"

def showF : FloatV → String
  | .fin d => "f:" ++ b01 d.neg ++ ":" ++ toString d.mant ++ ":" ++ toString d.exp
  | .inf n => "inf:" ++ b01 n
  | .nan => "nan"

def kindStr : PointKind → String
  | .xy => "Pxy" | .ne => "Pne" | .fs => "Pfs" | .xyz => "Pxyz" | .ned => "Pned" | .fsb => "Pfsb"

def showV : Val → String
  | .none => "none"
  | .bool b => "bool:" ++ b01 b
  | .str s => "str:" ++ encode s
  | .int i => "int:" ++ toString i
  | .float f => "float:" ++ showF f
  | .complex a b => "complex:" ++ showF a ++ "/" ++ showF b
  | .coord n d m => "coord:" ++ b01 n ++ "/" ++ showF d ++ "/" ++ showF m
  | .point k cs => "point:" ++ kindStr k ++ String.join (cs.map (fun c => "/" ++ showF c))

def showOV : Option Val → String
  | none => "~"
  | some v => showV v

def showDict (d : List (Str × Val)) : String :=
  if d.isEmpty then "-" else ";".intercalate (d.map (fun p => encode p.1 ++ "~" ++ showV p.2))

def showFields (fs : List Str) : String := if fs.isEmpty then "-" else "+".intercalate (fs.map encode)

def showPre (d : List (Str × List Str)) : String :=
  if d.isEmpty then "-" else ";".intercalate (d.map (fun p => encode p.1 ++ "~" ++ showFields p.2))

def showToks (ts : List Str) : String := if ts.isEmpty then "-" else ",".intercalate (ts.map encode)

def showOS : Option Str → String
  | none => "~"
  | some s => encode s

def showErr : Err → String
  | .parse => "ERR parse" | .value => "ERR value" | .type_ => "ERR type" | .index => "ERR index"
  | .overflow => "ERR overflow"

def out {α : Type} (r : P α) (f : α → String) : String :=
  match r with
  | .error e => showErr e
  | .ok a => "ok " ++ f a

def run (verb : String) (fix : Bool) (toks : List Str) : Option String :=
  match verb with
  | "framer" => some (out (buildFramer toks) fun (n, c) =>
      s!"name={encode n} schedule={encode c.schedule} order={encode c.order} period={showV c.period} first={encode c.first} inode={encode c.inode}")
  | "frame" => some (out (buildFrame toks) fun (n, c) =>
      s!"name={encode n} over={showOS c.over} inode={encode c.inode}")
  | "do" => some (out (buildDo fix toks) fun (k, c) =>
      s!"kind={encode k} name={encode c.name} context={showOS c.context} inode={showOS c.inode} parms={showDict c.parms} ioinits={showDict c.ioinits} inits={showDict c.inits} preparms={showPre c.preParms} preioinits={showPre c.preIoinits} preinits={showPre c.preInits}")
  | "aux" => some (out (buildAux toks) fun (n, c) =>
      s!"name={encode n} clone={showOS c.clone} inode={encode c.inode} needs={match c.needs with | none => "~" | some t => showToks t}")
  | "rear" => some (out (buildRear toks) fun (n, c) =>
      s!"name={encode n} clone={encode c.clone} schedule={encode c.schedule} frame={encode c.frame}")
  | "log" => some (out (buildLog toks) fun (n, c) =>
      s!"name={encode n} kind={encode c.kind} file={encode c.file} rule={encode c.rule}")
  | "logger" => some (out (buildLogger toks) fun (n, c) =>
      s!"name={encode n} period={showOV c.period} prefix={encode c.prefix_} schedule={encode c.schedule} order={encode c.order} flush={showOV c.flush} keep={showOV c.keep} cycle={showOV c.cycle} size={showOV c.size} reuse={b01 c.reuse}")
  | "server" => some (out (buildServer toks) fun (n, c) =>
      s!"name={encode n} period={showOV c.period} prefix={encode c.prefix_} schedule={encode c.schedule} order={encode c.order} rx={encode c.rx} tx={encode c.tx} init={showDict c.init} source={match c.source with | none => "~" | some p => encode p.1 ++ "~" ++ showFields p.2}")
  | "marker" => some (out (markerLoop toks {}) fun (c, rest) =>
      s!"frame={encode c.frame} marker={encode c.marker} rest={showToks rest}")
  | "direct" => some (out (parseDirect toks) fun (d, rest) => s!"data={showDict d} rest={showToks rest}")
  | "indirect" => some (out (parseIndirect false toks) fun (p, rest) => s!"path={encode p} rest={showToks rest}")
  | "indirectnode" => some (out (parseIndirect true toks) fun (p, rest) => s!"path={encode p} rest={showToks rest}")
  | "fields" => some (out (parseFields toks) fun (f, rest) => s!"fields={showFields f} rest={showToks rest}")
  | "relation" => some (out (parseRelation toks []) fun (p, rest) => s!"relation={encode p} rest={showToks rest}")
  | _ => none

/-- clause texts: clauses separated by `;`, tokens by `,` -/
def decodeClauses (w : String) : Option (List (List Str)) :=
  if w == "-" then some [] else (w.splitOn ";").mapM decodeToks

def region (id : String) (cs : List (List Str)) : Option Bool :=
  match id with
  | "D9" => some (d9Region cs)
  | "D61" => some (d61Region cs)
  | "D62" => some (d62Region cs)
  | "D63" => some (d63Region cs)
  | _ => none

def step (_ : Unit) (line : String) : Unit × String :=
  match words line with
  | ["region", id, cls] =>
    match decodeClauses cls with
    | some cs => (match region id cs with | some b => ((), b01 b) | none => ((), "bad-op"))
    | none => ((), "bad-op")
  | [verb, fix, toks] =>
    match decodeToks toks with
    | some ts =>
      (match run verb (fix == "1") ts with
       | some r => ((), r)
       | none => ((), "bad-op"))
    | none => ((), "bad-op")
  | _ => ((), "bad-op")

end Ioflo.Drv.Clauses

def main : IO Unit := Ioflo.Proto.loop Ioflo.Drv.Clauses.step ()
