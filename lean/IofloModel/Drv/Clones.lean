import IofloModel.Model.Clones
import IofloModel.Drv.Proto
/-!
driver for the clone model (engine `clones`, C12)

  `run <ticks> <nf> framer^nf`
     framer := `F <house> <name> <active|aux|moot> <first|~> <via|-> <n> frame^n`
     frame  := `R <name> <over|~> <via|-> <n> item^n`
     item   := `x <orig> <clone|~> <via|->`                       aux [as clone] [via inode]
             | `a <ctx> act`       act := `rec <tag>` | `io <ref>` | `put <int> <ref>` | `inc <ref> <int>` | `done`
                                         | `rear <moot> <frame>` | `raze <all|first|last> <frame|me>`
             | `u <frame>`                                              under frame
             | `l <n> need^n`                                           let [me] if need [and need …]
             | `g <far> <n> need^n` need := `<0|1> st <ref> <op> <int>` | `<0|1> all` | `<0|1> any` | `<0|1> aux <tag>`
     → the output lines of the run joined by `|` (format: harness/props/c12.py, `run_real`)
-/
namespace Ioflo.Drv.Clones
open Ioflo.Proto Ioflo.Clones

abbrev P (α : Type) := List String → Option (α × List String)

def tok : P String
  | [] => none
  | t :: r => some (t, r)

def nat : P Nat := fun ts => do
  let (t, r) ← tok ts
  let n ← t.toNat?
  return (n, r)

def int : P Int := fun ts => do
  let (t, r) ← tok ts
  let n ← t.toInt?
  return (n, r)

def rep {α : Type} (p : P α) : Nat → P (List α)
  | 0, ts => some ([], ts)
  | n + 1, ts => do
    let (a, r) ← p ts
    let (as, r) ← rep p n r
    return (a :: as, r)

def many {α : Type} (p : P α) : P (List α) := fun ts => do
  let (n, r) ← nat ts
  rep p n r

/-- `-` is the empty string -/
def str : P String := fun ts => do
  let (t, r) ← tok ts
  return (if t = "-" then "" else t, r)

/-- `~` is None -/
def optStr : P (Option String) := fun ts => do
  let (t, r) ← tok ts
  return (if t = "~" then none else if t = "-" then some "" else some t, r)

def schedP : P Sched := fun ts => do
  let (t, r) ← tok ts
  match t with
  | "active" => some (.active, r) | "aux" => some (.aux, r) | "moot" => some (.moot, r) | _ => none

def ctxP : P Ctxt := fun ts => do
  let (t, r) ← tok ts
  match t with
  | "enter" => some (.enter, r) | "recur" => some (.recur, r) | "exit" => some (.exit, r)
  | "precur" => some (.precur, r) | "renter" => some (.renter, r) | "rexit" => some (.rexit, r) | _ => none

def opP : P Op := fun ts => do
  let (t, r) ← tok ts
  match t with
  | "==" => some (.eq, r) | "!=" => some (.ne, r) | "<" => some (.lt, r) | "<=" => some (.le, r)
  | ">=" => some (.ge, r) | ">" => some (.gt, r) | _ => none

def whoP : P Who := fun ts => do
  let (t, r) ← tok ts
  match t with
  | "all" => some (.all, r) | "first" => some (.first, r) | "last" => some (.last, r) | _ => none

def needP : P Need := fun ts => do
  let (n, r) ← nat ts
  if n > 1 then none
  let neg := n == 1
  let (k, r) ← tok r
  match k with
  | "st" => do
    let (ref, r) ← tok r
    let (op, r) ← opP r
    let (v, r) ← int r
    return (⟨neg, .state ref op v⟩, r)
  | "all" => some (⟨neg, .allDone⟩, r)
  | "any" => some (⟨neg, .anyDone⟩, r)
  | "aux" => do
    let (t, r) ← tok r
    return (⟨neg, .auxTag t⟩, r)
  | _ => none

def actP : P ActK := fun ts => do
  let (k, r) ← tok ts
  match k with
  | "rec" => do let (t, r) ← tok r; return (.record t, r)
  | "io" => do let (p, r) ← tok r; return (.io p, r)
  | "put" => do let (v, r) ← int r; let (p, r) ← tok r; return (.put v p, r)
  | "inc" => do let (p, r) ← tok r; let (v, r) ← int r; return (.inc p v, r)
  | "done" => some (.done, r)
  | "rear" => do let (m, r) ← tok r; let (f, r) ← tok r; return (.rear m f, r)
  | "raze" => do let (w, r) ← whoP r; let (f, r) ← tok r; return (.raze w f, r)
  | _ => none

def itemP : P Item := fun ts => do
  let (k, r) ← tok ts
  match k with
  | "x" => do
    let (o, r) ← tok r
    let (c, r) ← optStr r
    let (v, r) ← str r
    return (.aux o c v, r)
  | "a" => do
    let (c, r) ← ctxP r
    let (a, r) ← actP r
    return (.act c a, r)
  | "g" => do
    let (far, r) ← tok r
    let (ns, r) ← many needP r
    return (.go far ns, r)
  | "u" => do
    let (n, r) ← tok r
    return (.under n, r)
  | "l" => do
    let (ns, r) ← many needP r
    return (.cond ns, r)
  | _ => none

def frameP : P FrameSrc := fun ts => do
  let (k, r) ← tok ts
  if k ≠ "R" then none
  let (n, r) ← tok r
  let (o, r) ← optStr r
  let (v, r) ← str r
  let (items, r) ← many itemP r
  return (⟨n, o, v, items⟩, r)

def framerP : P FramerSrc := fun ts => do
  let (k, r) ← tok ts
  if k ≠ "F" then none
  let (h, r) ← tok r
  let (n, r) ← tok r
  let (sc, r) ← schedP r
  let (first, r) ← optStr r
  let (v, r) ← str r
  let (frames, r) ← many frameP r
  return (⟨h, n, sc, first, v, frames⟩, r)

/-! ### output -/

def b01 (b : Bool) : String := if b then "1" else "0"
def encS (s : String) : String := if s = "" then "-" else s
def joinOr (sep : String) (l : List String) (dflt : String) : String := if l.isEmpty then dflt else sep.intercalate l

def nameOf (s : St) (u : Nat) : String := match s.get? u with | some o => o.name | none => "?"

/-- live framer objects reachable from the hosts: depth first, frames and aux lists in order -/
def walk (s : St) : Nat → List Nat → List Nat
  | 0, _ => []
  | _ + 1, [] => []
  | fuel + 1, u :: rest =>
    match s.get? u with
    | none => walk s fuel rest
    | some o => u :: walk s fuel (o.frames.flatMap (·.auxes) ++ rest)

def itemPaths : List Item → Nat → List (Nat × Nat × String)
  | [], _ => []
  | it :: rest, i =>
    (match it with
     | .act _ (.put _ p) => [(i, 0, p)]
     | .act _ (.inc p _) => [(i, 0, p)]
     | .act _ (.io p) => [(i, 0, p)]
     | .go _ needs =>
       (needs.zipIdx).filterMap (fun (n, j) => match n.k with | .state p _ _ => some (i, j, p) | _ => none)
     | .cond needs =>
       (needs.zipIdx).filterMap (fun (n, j) => match n.k with | .state p _ _ => some (i, j, p) | _ => none)
     | _ => []) ++ itemPaths rest (i + 1)

def announce (s : St) (o : Fr) : List String :=
  let main := match o.main with | none => "~" | some (m, f) => nameOf s m ++ "/" ++ f
  ["F " ++ o.name ++ " house=" ++ o.house ++ " tag=" ++ o.tag ++ " o=" ++ b01 o.original ++ " i=" ++ b01 o.insular ++ " r=" ++ b01 o.razeable
     ++ " main=" ++ main ++ " inode=" ++ encS o.inode ++ " first=" ++ encS o.first]
  ++ o.frames.flatMap (fun f =>
      ("R " ++ o.name ++ " " ++ f.name ++ " over=" ++ (f.over.getD "~") ++ " out=" ++ ">".intercalate f.outline)
      :: (itemPaths f.items 0).map (fun (i, j, p) =>
            "P " ++ o.name ++ " " ++ f.name ++ " " ++ toString i ++ " " ++ toString j ++ " " ++ encS p))

def insertSorted (x : String) : List String → List String
  | [] => [x]
  | y :: ys => if x < y then x :: y :: ys else y :: insertSorted x ys

def sortStrings (l : List String) : List String := l.foldr insertSorted []

/-- announcements of newly reachable objects, then the `S` / `X` / `N` lines -/
def snapshot (hosts : List Nat) (s : St) : St :=
  let live := walk s (4 * s.objs.length + 16) hosts
  let fresh := (live.filter (fun u => !(s.announced.contains u))).eraseDups
  let lines1 := fresh.flatMap (fun u => match s.get? u with | some o => announce s o | none => [])
  let lines2 := live.flatMap (fun u =>
    match s.get? u with
    | none => []
    | some o =>
      ("S " ++ o.name ++ " active=" ++ (o.ctl.active.getD "~") ++ " done=" ++ b01 o.ctl.done
         ++ " actives=" ++ joinOr ">" o.ctl.actives "~")
      :: o.frames.filterMap (fun f =>
           if f.auxes.isEmpty then none
           else some ("X " ++ o.name ++ " " ++ f.name ++ " " ++ ",".intercalate (f.auxes.map (nameOf s)))))
  let names := s.houses.map (fun h => "N " ++ h ++ " " ++ ",".intercalate (sortStrings ((s.regOf h).map (·.1))))
  { s with out := (lines1 ++ lines2 ++ names).reverse ++ s.out, announced := s.announced ++ fresh }

def errName : Err → String
  | .parse => "parse" | .resolve => "resolve" | .clone => "CloneError" | .typeError => "TypeError"
  | .internal => "internal" | .fuel => "fuel" | .depth => "depth"

def runErrName : Err → String
  | .resolve => "ResolveError" | e => errName e

def depth : Nat := 12

/-- ticks `0 … ticks-1` run the hosts, the observer then asks every host to stop; tick `ticks` stops them -/
def ticksLoop (hostIds : List Nat) : Nat → Nat → List Host → St → Except Err St
  | 0, _, _, s => .ok s
  | left + 1, t, hosts, s =>
    match hostsStep (opsAt depth) hosts { s with now := t } with
    | .error e => .error e
    | .ok (hosts, s) =>
      if left = 0 then .ok s                               -- the stopping tick: no observer call
      else
        let s := (snapshot hostIds s).emit ("T " ++ toString t)
        let hosts := if left = 1 then hosts.map (fun h => { h with desire := .stop }) else hosts
        ticksLoop hostIds left (t + 1) hosts s

def runProg (ticks : Nat) (src : List FramerSrc) : List String :=
  match build src with
  | .error e => ["BUILD ERR " ++ errName e]
  | .ok s =>
    let hostIds := (s.objs.filter (fun o => o.sched == .active)).map (·.uid)
    let s := snapshot hostIds (s.emit "BUILD ok")
    let hosts := hostIds.map (fun u => ({ uid := u } : Host))
    match ticksLoop hostIds (ticks + 1) 0 hosts s with
    | .error e => ["BUILD ok", "ERR " ++ runErrName e]
    | .ok s =>
      s.out.reverse ++ ["END"] ++ sortStrings (s.store.filterMap (fun (p, v) => v.map (fun v => "V " ++ p ++ " value=" ++ toString v)))

/-- the ghost flag of finding D12r at the end of the run (`Ioflo.Clones.St.lateRear`): a `rear` made a clone in a frame
whose entry check was over and whose enter was still to come -/
def lateRearOf (ticks : Nat) (src : List FramerSrc) : Bool :=
  match build src with
  | .error _ => false
  | .ok s =>
    let hostIds := (s.objs.filter (fun o => o.sched == .active)).map (·.uid)
    let s := snapshot hostIds (s.emit "BUILD ok")
    let hosts := hostIds.map (fun u => ({ uid := u } : Host))
    match ticksLoop hostIds (ticks + 1) 0 hosts s with
    | .error _ => false
    | .ok s => s.lateRear

def progP : P (Nat × List FramerSrc) := fun ts => do
  let (t, r) ← nat ts
  let (fs, r) ← many framerP r
  return ((t, fs), r)

def step (_ : Unit) (line : String) : Unit × String :=
  match words line with
  | "run" :: rest =>
    match progP rest with
    | some ((t, fs), []) => ((), "|".intercalate (runProg t fs))
    | _ => ((), "bad-op")
  | "region" :: rest =>
    match progP rest with
    | some ((t, fs), []) => ((), if lateRearOf t fs then "1" else "0")
    | _ => ((), "bad-op")
  | _ => ((), "bad-op")

end Ioflo.Drv.Clones

def main : IO Unit := Ioflo.Proto.loop Ioflo.Drv.Clones.step ()
