import IofloModel.Model.Containers
import IofloModel.Model.OsetLinks
import IofloModel.Model.ModictLists
import IofloModel.Drv.Proto
/-!
driver for the container models (keys: strings without ` `, `,`, `=`; values: integers)

  reset                                   → ok            (forget every object)
  d <op> …      odict / lodict heap       → <out> | <dump of every odict/lodict>
  m <op> …      modict heap               → <out> | <dump of every modict>
  s <op> …      oset heap                 → <out> | <dump of every oset>
  l <op> …      modict heap, value lists as objects (Model/ModictLists.lean): new / set / append / replace / del / clear /
                update / updatefrom / copy / newfrom / pickle
  p <op> …      oset heap, cell-level model (sentinel, cells, map): new / add / discard / pop / has / len / iter / rev

lists: `-` = empty, else comma separated; pairs `k=v`; `~` = argument not given / None.
-/
namespace Ioflo.Drv.Containers
open Ioflo.Proto Ioflo.Containers

abbrev K := String
abbrev V := Int

structure St where
  dh : Heap K V := []
  mh : List (OD K (List V)) := []
  sh : List (List K) := []
  ph : List (Links.LL K) := []
  lh : MLists.MH K V := MLists.empty   -- modicts with their value lists as objects
  low : List (K × K) := []      -- `str.lower` on the keys of the case, as sent by `lowtab` (else ASCII lower)

/-! ### parsing -/
def commaList (s : String) : List String := if s == "-" then [] else s.splitOn ","

def okKey (s : String) : Bool := s ≠ "" && s.toList.all (fun c => c.isAlphanum)

def keys? (s : String) : Option (List K) :=
  let l := commaList s
  if l.all okKey then some l else none

def pair? (s : String) : Option (K × V) :=
  match s.splitOn "=" with
  | [k, v] => if okKey k then v.toInt?.map (fun i => (k, i)) else none
  | _ => none

def pairs? (s : String) : Option (List (K × V)) := (commaList s).mapM pair?

def optInt? (s : String) : Option (Option V) := if s == "~" then some none else s.toInt?.map some
def bool? (s : String) : Option Bool := if s == "1" then some true else if s == "0" then some false else none
def cls? (s : String) : Option Cls := if s == "od" then some .od else if s == "lod" then some .lod else none

/-! ### printing -/
def sepBy (l : List String) : String := if l.isEmpty then "-" else ",".intercalate l
def fmtInts (l : List V) : String := sepBy (l.map toString)
def fmtPairs (l : List (K × V)) : String := sepBy (l.map (fun p => p.1 ++ "=" ++ toString p.2))
def fmtList (l : List V) : String := "[" ++ ",".intercalate (l.map toString) ++ "]"
def fmtListPairs (l : List (K × List V)) : String := sepBy (l.map (fun p => p.1 ++ "=" ++ fmtList p.2))
def fmtErr : Err → String
  | .KeyError => "ERR KeyError" | .ValueError => "ERR ValueError" | .TypeError => "ERR TypeError"
  | .IndexError => "ERR IndexError" | .AttributeError => "ERR AttributeError"
def fmtBool (b : Bool) : String := if b then "b True" else "b False"

def fmtOut : Out K V → String
  | .none => "None" | .err e => fmtErr e | .val v => "v " ++ toString v | .bool b => fmtBool b
  | .nat n => "n " ++ toString n | .keys l => "k " ++ sepBy l | .vals l => "vs " ++ fmtInts l
  | .items l => "it " ++ fmtPairs l | .item k v => "p " ++ k ++ "=" ++ toString v
  | .obj _ => "obj"

def dumpOD (c : Cls) (s : OD K V) : String :=
  (match c with | .od => "od" | .lod => "lod") ++ "{" ++
  (match s.items with | .ok l => fmtPairs l | .error e => fmtErr e) ++ "}#" ++ toString s.len

def dumpD (h : Heap K V) : String := " ".intercalate (h.map (fun p => dumpOD p.1 p.2))

def dumpMD (s : OD K (List V)) : String :=
  "mod{" ++ (match MD.listitems s with | .ok l => fmtListPairs l | .error e => fmtErr e) ++ "}#" ++ toString s.len
def dumpM (h : List (OD K (List V))) : String := " ".intercalate (h.map dumpMD)

def dumpS (h : List (List K)) : String :=
  " ".intercalate (h.map (fun l => "os{" ++ sepBy l ++ "}#" ++ toString l.length))

def fmtMOut : MOut K V → String
  | .none => "None" | .err e => fmtErr e | .val v => "v " ++ toString v | .bool b => fmtBool b
  | .nat n => "n " ++ toString n | .keys l => "k " ++ sepBy l | .vals l => "vs " ++ fmtInts l
  | .lists l => "ls " ++ sepBy (l.map fmtList) | .items l => "it " ++ fmtPairs l
  | .listitems l => "lit " ++ fmtListPairs l | .item k v => "p " ++ k ++ "=" ++ toString v
  | .listitem k l => "lp " ++ k ++ "=" ++ fmtList l | .list l => "l " ++ fmtList l
  | .obj _ => "obj"

def fmtSOut : SOut K → String
  | .none => "None" | .err e => fmtErr e | .key k => "e " ++ k | .bool b => fmtBool b
  | .nat n => "n " ++ toString n | .keys l => "k " ++ sepBy l | .obj _ => "obj"

/-! ### odict / lodict requests -/
def dOp? : List String → Option (Nat × Op K V)
  | ["set", i, k, v] => do let i ← i.toNat?; let v ← v.toInt?; if okKey k then some (i, .setitem k v) else none
  | ["del", i, k] => do let i ← i.toNat?; if okKey k then some (i, .delitem k) else none
  | ["getitem", i, k] => do let i ← i.toNat?; if okKey k then some (i, .getitem k) else none
  | ["has", i, k] => do let i ← i.toNat?; if okKey k then some (i, .contains k) else none
  | ["get", i, k, d] => do let i ← i.toNat?; let d ← optInt? d; if okKey k then some (i, .get k d) else none
  | ["len", i] => do let i ← i.toNat?; some (i, .len)
  | ["keys", i] => do let i ← i.toNat?; some (i, .keys)
  | ["values", i] => do let i ← i.toNat?; some (i, .values)
  | ["items", i] => do let i ← i.toNat?; some (i, .items)
  | ["append", i, k, v] => do let i ← i.toNat?; let v ← v.toInt?; if okKey k then some (i, .append k v) else none
  | ["clear", i] => do let i ← i.toNat?; some (i, .clear)
  | ["copy", i] => do let i ← i.toNat?; some (i, .copy)
  -- pickle round trip at protocol >= 2 / copy.copy / copy.deepcopy, and at protocol 0 / 1
  | ["pickle", i] => do let i ← i.toNat?; some (i, .pickle)
  | ["pickle01", i] => do let i ← i.toNat?; some (i, .pickleLegacy)
  | ["createp", i, ps] => do let i ← i.toNat?; let ps ← pairs? ps; some (i, .create ps)
  | ["sift", i, fs] => do
      let i ← i.toNat?
      if fs == "~" then some (i, .sift none) else do let fs ← keys? fs; some (i, .sift (some fs))
  | ["insert", i, idx, k, v] => do
      let i ← i.toNat?; let idx ← idx.toInt?; let v ← v.toInt?
      if okKey k then some (i, .insert idx k v) else none
  | ["pop", i, k, d] => do let i ← i.toNat?; let d ← optInt? d; if okKey k then some (i, .pop k d) else none
  | ["popitem", i] => do let i ← i.toNat?; some (i, .popitem)
  | ["reorderbad", i] => do let i ← i.toNat?; some (i, .reorderBad)
  | ["setdefault", i, k, v] => do let i ← i.toNat?; let v ← v.toInt?; if okKey k then some (i, .setdefault k v) else none
  | ["updatep", i, ps] => do let i ← i.toNat?; let ps ← pairs? ps; some (i, .update ps)
  | ["rev", i] => do let i ← i.toNat?; some (i, .reversed)
  | ["ior", i, ps] => do let i ← i.toNat?; let ps ← pairs? ps; some (i, .ior ps)
  | ["or", i, ps] => do let i ← i.toNat?; let ps ← pairs? ps; some (i, .or ps)
  | _ => none

def dHOp? : List String → Option (HOp K V)
  | ["new", c, ps] => do let c ← cls? c; let ps ← pairs? ps; some (.new c ps)
  | ["newfrom", c, j] => do let c ← cls? c; let j ← j.toNat?; some (.newFrom c j)
  -- `cls.fromkeys(keys, v)`: dict.fromkeys makes `cls()` and stores every key through `__setitem__`
  | ["newfk", c, ks, v] => do let c ← cls? c; let ks ← keys? ks; let v ← v.toInt?; some (.new c (ks.map (fun k => (k, v))))
  | ["reorder", i, j] => do let i ← i.toNat?; let j ← j.toNat?; some (.reorder i j)
  | ["update", i, j] => do let i ← i.toNat?; let j ← j.toNat?; some (.update i j)
  | ["create", i, j] => do let i ← i.toNat?; let j ← j.toNat?; some (.create i j)
  | ["eq", i, j] => do let i ← i.toNat?; let j ← j.toNat?; some (.eq i j)
  | ws => (dOp? ws).map (fun p => .call p.1 p.2)

/-! ### modict requests on the list-object model (who creates which list, who appends to which) -/
def dumpL (h : MLists.MH K V) : String :=
  " ".intercalate ((List.range h.objs.length).map (fun i =>
    "mod{" ++ fmtListPairs (MLists.listitems h i) ++ "}#" ++ toString ((h.objs[i]?).map List.length |>.getD 0)))

def lStep (st : St) (ws : List String) : St × String :=
  let h := st.lh
  let ok (h' : MLists.MH K V) (out : String) : St × String := ({ st with lh := h' }, out ++ " | " ++ dumpL h')
  let has (i : Nat) (k : K) : Bool := match h.objs[i]? with | some o => dhas o k | none => false
  match ws with
  | ["new", ps] => match pairs? ps with
    | some ps => ok (MLists.new h ps) ("ref " ++ toString h.objs.length)
    | none => (st, "bad-op")
  | [op, i, k, v] =>
    match i.toNat?, v.toInt? with
    | some i, some v =>
      if i < h.objs.length && okKey k then
        if op == "set" || op == "append" then ok (MLists.append h i k v) "None"
        else if op == "replace" then ok (MLists.replace h i k v) "None"
        else (st, "bad-op")
      else (st, "bad-op")
    | _, _ => (st, "bad-op")
  | ["del", i, k] =>
    match i.toNat? with
    | some i => if i < h.objs.length && okKey k then
        (if has i k then ok (MLists.remove h i k) "None" else ok h "ERR KeyError") else (st, "bad-op")
    | none => (st, "bad-op")
  | ["clear", i] =>
    match i.toNat? with
    | some i => if i < h.objs.length then ok (MLists.clear h i) "None" else (st, "bad-op")
    | none => (st, "bad-op")
  | ["update", i, ps] =>
    match i.toNat?, pairs? ps with
    | some i, some ps => if i < h.objs.length then ok (MLists.update h i ps) "None" else (st, "bad-op")
    | _, _ => (st, "bad-op")
  | ["updatefrom", i, j] =>
    match i.toNat?, j.toNat? with
    | some i, some j => if i < h.objs.length && j < h.objs.length && i != j then ok (MLists.updateFrom h i j) "None"
                        else (st, "bad-op")
    | _, _ => (st, "bad-op")
  | [op, j] =>
    match j.toNat? with
    | some j => if j < h.objs.length && (op == "copy" || op == "newfrom" || op == "pickle") then
        ok (MLists.copy h j) ("ref " ++ toString h.objs.length) else (st, "bad-op")
    | none => (st, "bad-op")
  | _ => (st, "bad-op")

/-- `key.lower()`: the table of the case if it has the key (non-ASCII keys: the real `str.lower` of the run), else ASCII -/
def lowerOf (tab : List (K × K)) (k : K) : K :=
  match tab.lookup k with
  | some v => v
  | none => lowerStr k

def dStep (st : St) (ws : List String) : St × String :=
  match dHOp? ws with
  | none => (st, "bad-op")
  | some op =>
    match Heap.step (lowerOf st.low) st.dh op with
    | (_, .bad) => (st, "bad-op")
    | (h, .ref n) => ({ st with dh := h }, "ref " ++ toString n ++ " | " ++ dumpD h)
    | (h, .out o) => ({ st with dh := h }, fmtOut o ++ " | " ++ dumpD h)

/-! ### modict requests -/
def mOp? (h : List (OD K (List V))) : List String → Option (Nat × MOp K V)
  | ["set", i, k, v] => do let i ← i.toNat?; let v ← v.toInt?; if okKey k then some (i, .setitem k v) else none
  | ["append", i, k, v] => do let i ← i.toNat?; let v ← v.toInt?; if okKey k then some (i, .append k v) else none
  | ["getitem", i, k] => do let i ← i.toNat?; if okKey k then some (i, .getitem k) else none
  | ["has", i, k] => do let i ← i.toNat?; if okKey k then some (i, .contains k) else none
  | ["del", i, k] => do let i ← i.toNat?; if okKey k then some (i, .delitem k) else none
  | ["len", i] => do let i ← i.toNat?; some (i, .len)
  | ["keys", i] => do let i ← i.toNat?; some (i, .keys)
  | ["clear", i] => do let i ← i.toNat?; some (i, .clear)
  | ["values", i] => do let i ← i.toNat?; some (i, .values)
  | ["listvalues", i] => do let i ← i.toNat?; some (i, .listvalues)
  | ["allvalues", i] => do let i ← i.toNat?; some (i, .allvalues)
  | ["items", i] => do let i ← i.toNat?; some (i, .items)
  | ["listitems", i] => do let i ← i.toNat?; some (i, .listitems)
  | ["allitems", i] => do let i ← i.toNat?; some (i, .allitems)
  | ["copy", i] => do let i ← i.toNat?; some (i, .copy)
  -- modict.__reduce__ (fix D39c): `modict(self.allitems())`
  | ["pickle", i] => do let i ← i.toNat?; some (i, .copy)
  | ["get", i, k, d, idx] => do
      let i ← i.toNat?; let d ← optInt? d; let idx ← idx.toInt?
      if okKey k then some (i, .get k d idx) else none
  | ["getlist", i, k] => do let i ← i.toNat?; if okKey k then some (i, .getlist k) else none
  | ["replace", i, k, v] => do let i ← i.toNat?; let v ← v.toInt?; if okKey k then some (i, .replace k v) else none
  | ["setdefault", i, k, v] => do let i ← i.toNat?; let v ← v.toInt?; if okKey k then some (i, .setdefault k v) else none
  | ["pop", i, k, d, idx] => do
      let i ← i.toNat?; let d ← optInt? d; let idx ← idx.toInt?
      if okKey k then some (i, .pop k d idx) else none
  | ["poplist", i, k, d] => do let i ← i.toNat?; let d ← optInt? d; if okKey k then some (i, .poplist k d) else none
  | ["popitem", i, last, idx] => do let i ← i.toNat?; let last ← bool? last; let idx ← idx.toInt?; some (i, .popitem last idx)
  | ["poplistitem", i, last] => do let i ← i.toNat?; let last ← bool? last; some (i, .poplistitem last)
  | ["fromkeys", i, ks, v] => do let i ← i.toNat?; let ks ← keys? ks; let v ← v.toInt?; some (i, .fromkeys ks v)
  | ["update", i, ps] => do let i ← i.toNat?; let ps ← pairs? ps; some (i, .update ps)
  | ["updatefrom", i, j] => do
      let i ← i.toNat?; let j ← j.toNat?
      -- `m.update(m)` appends to the very lists it iterates over and never returns: not a request
      if i = j then none else do let o ← h[j]?; some (i, .updateFrom o)
  | ["create", i, ps] => do let i ← i.toNat?; let ps ← pairs? ps; some (i, .create ps)
  | ["eq", i, j] => do let i ← i.toNat?; let j ← j.toNat?; let o ← h[j]?; some (i, .eq o)
  | ["rev", i] => do let i ← i.toNat?; some (i, .reversed)
  | ["ior", i, ps] => do let i ← i.toNat?; let ps ← pairs? ps; some (i, .ior ps)
  | ["or", i, ps] => do let i ← i.toNat?; let ps ← pairs? ps; some (i, .or ps)
  | _ => none

def mStep (st : St) (ws : List String) : St × String :=
  let h := st.mh
  match ws with
  | ["new", ps] =>
    match pairs? ps with
    | some ps => let h' := h ++ [MD.init ps]; ({ st with mh := h' }, "ref " ++ toString h.length ++ " | " ++ dumpM h')
    | none => (st, "bad-op")
  | ["newfrom", j] =>
    match j.toNat?.bind (h[·]?) with
    | some o =>
      match MD.copy o with
      | .ok c => let h' := h ++ [c]; ({ st with mh := h' }, "ref " ++ toString h.length ++ " | " ++ dumpM h')
      | .error e => (st, fmtErr e ++ " | " ++ dumpM h)
    | none => (st, "bad-op")
  | _ =>
    match mOp? h ws with
    | none => (st, "bad-op")
    | some (i, op) =>
      match h[i]? with
      | none => (st, "bad-op")
      | some s =>
        let r := MD.step s op
        let h' := h.set i r.1
        match r.2 with
        | .obj o => let h'' := h' ++ [o]; ({ st with mh := h'' }, "ref " ++ toString h'.length ++ " | " ++ dumpM h'')
        | out => ({ st with mh := h' }, fmtMOut out ++ " | " ++ dumpM h')

/-! ### oset requests -/
/-- `S<i>` = the oset object i (`none` in the middle = aliasing with the receiver), `L<list>` = a plain list -/
def sArg? (h : List (List K)) (s : String) : Option (OSet.Arg K × Option Nat) :=
  match s.toList with
  | 'S' :: r => do let j ← (String.ofList r).toNat?; let o ← h[j]?; some (.set o, some j)
  | 'L' :: r => do let l ← keys? (String.ofList r); some (.list l, none)
  | _ => none

def sOp? (h : List (List K)) : List String → Option (Nat × SOp K)
  | ["add", i, k] => do let i ← i.toNat?; if okKey k then some (i, .add k) else none
  | ["discard", i, k] => do let i ← i.toNat?; if okKey k then some (i, .discard k) else none
  | ["remove", i, k] => do let i ← i.toNat?; if okKey k then some (i, .remove k) else none
  | ["pop", i, last] => do let i ← i.toNat?; let last ← bool? last; some (i, .pop last)
  | ["clear", i] => do let i ← i.toNat?; some (i, .clear)
  | ["has", i, k] => do let i ← i.toNat?; if okKey k then some (i, .contains k) else none
  | ["len", i] => do let i ← i.toNat?; some (i, .len)
  | ["iter", i] => do let i ← i.toNat?; some (i, .iter)
  | ["rev", i] => do let i ← i.toNat?; some (i, .reversed)
  -- pickle round trip of an oset: its elements in order
  | ["pickle", i] => do let i ← i.toNat?; some (i, .or (.list []))
  | ["or", i, a] => do let i ← i.toNat?; let a ← sArg? h a; some (i, .or a.1)
  | ["and", i, a] => do let i ← i.toNat?; let a ← sArg? h a; some (i, .and a.1)
  | ["sub", i, a] => do let i ← i.toNat?; let a ← sArg? h a; some (i, .sub a.1)
  | ["rsub", i, a] => do let i ← i.toNat?; let a ← sArg? h a; some (i, .rsub a.1)
  | ["xor", i, a] => do let i ← i.toNat?; let a ← sArg? h a; some (i, .xor a.1)
  | ["ior", i, a] => do let i ← i.toNat?; let a ← sArg? h a; some (i, .ior a.1)
  | ["iand", i, a] => do let i ← i.toNat?; let a ← sArg? h a; some (i, .iand a.1)
  | ["ixor", i, a] => do
      let i ← i.toNat?; let a ← sArg? h a
      if a.2 = some i then some (i, .ixorSelf) else some (i, .ixor a.1)
  | ["isub", i, a] => do
      let i ← i.toNat?; let a ← sArg? h a
      if a.2 = some i then some (i, .isubSelf) else some (i, .isub a.1)
  | ["disjoint", i, a] => do let i ← i.toNat?; let a ← sArg? h a; some (i, .isdisjoint a.1)
  | ["le", i, j] => do let i ← i.toNat?; let j ← j.toNat?; let o ← h[j]?; some (i, .le o)
  | ["lt", i, j] => do let i ← i.toNat?; let j ← j.toNat?; let o ← h[j]?; some (i, .lt o)
  | ["ge", i, j] => do let i ← i.toNat?; let j ← j.toNat?; let o ← h[j]?; some (i, .ge o)
  | ["gt", i, j] => do let i ← i.toNat?; let j ← j.toNat?; let o ← h[j]?; some (i, .gt o)
  | ["eq", i, a] => do let i ← i.toNat?; let a ← sArg? h a; some (i, .eq a.1)
  | _ => none

def sStep (st : St) (ws : List String) : St × String :=
  let h := st.sh
  match ws with
  | ["new", ks] =>
    match keys? ks with
    | some ks => let h' := h ++ [OSet.init ks]; ({ st with sh := h' }, "ref " ++ toString h.length ++ " | " ++ dumpS h')
    | none => (st, "bad-op")
  | _ =>
    match sOp? h ws with
    | none => (st, "bad-op")
    | some (i, op) =>
      match h[i]? with
      | none => (st, "bad-op")
      | some s =>
        let r := OSet.step s op
        let h' := h.set i r.1
        match r.2 with
        | .obj o => let h'' := h' ++ [o]; ({ st with sh := h'' }, "ref " ++ toString h'.length ++ " | " ++ dumpS h'')
        | out => ({ st with sh := h' }, fmtSOut out ++ " | " ++ dumpS h')

/-! ### oset requests on the cell-level model -/
def dumpP (h : List (Links.LL K)) : String :=
  " ".intercalate (h.map (fun s => "os{" ++ sepBy (Links.iter s) ++ "}#" ++ toString (Links.len s)))

def pStep (st : St) (ws : List String) : St × String :=
  let h := st.ph
  let upd (i : Nat) (s' : Links.LL K) (out : String) : St × String :=
    let h' := h.set i s'
    ({ st with ph := h' }, out ++ " | " ++ dumpP h')
  match ws with
  | ["new", ks] =>
    match keys? ks with
    | some ks => let h' := h ++ [Links.init ks]; ({ st with ph := h' }, "ref " ++ toString h.length ++ " | " ++ dumpP h')
    | none => (st, "bad-op")
  | ["add", i, k] =>
    match i.toNat?.bind (fun i => (h[i]?).map (fun s => (i, s))) with
    | some (i, s) => if okKey k then upd i (Links.add s k) "None" else (st, "bad-op")
    | none => (st, "bad-op")
  | ["discard", i, k] =>
    match i.toNat?.bind (fun i => (h[i]?).map (fun s => (i, s))) with
    | some (i, s) => if okKey k then upd i (Links.discard s k) "None" else (st, "bad-op")
    | none => (st, "bad-op")
  | ["pop", i, last] =>
    match i.toNat?.bind (fun i => (h[i]?).map (fun s => (i, s))), bool? last with
    | some (i, s), some last =>
      let r := Links.pop s last
      upd i r.1 (match r.2 with | .ok k => "e " ++ k | .error e => fmtErr e)
    | _, _ => (st, "bad-op")
  | ["has", i, k] =>
    match i.toNat?.bind (h[·]?) with
    | some s => if okKey k then (st, fmtBool (Links.contains s k) ++ " | " ++ dumpP h) else (st, "bad-op")
    | none => (st, "bad-op")
  | ["len", i] =>
    match i.toNat?.bind (h[·]?) with
    | some s => (st, "n " ++ toString (Links.len s) ++ " | " ++ dumpP h)
    | none => (st, "bad-op")
  | ["iter", i] =>
    match i.toNat?.bind (h[·]?) with
    | some s => (st, "k " ++ sepBy (Links.iter s) ++ " | " ++ dumpP h)
    | none => (st, "bad-op")
  | ["rev", i] =>
    match i.toNat?.bind (h[·]?) with
    | some s => (st, "k " ++ sepBy (Links.reversed s) ++ " | " ++ dumpP h)
    | none => (st, "bad-op")
  | _ => (st, "bad-op")

/-! ### calls with an unhashable key (`XL` a list, `XD` a dict, `XS` a set)
The key type of the models has hashable keys only.  What the code does with an unhashable one is decided before
anything is changed — odict/modict/oset hash the key in their first dict operation (TypeError), lodict calls
`key.lower()` first (AttributeError), `modict.get`... is not generated — so the call is answered here as
"raises, state as it was" (C39_rejected_op_is_noop is the same statement for the rejections inside the model).
A multi-pair update stores the pairs before the bad one first, as `dict.update` does; `lodict.update` lowers all
keys into a temporary odict before touching itself, so it changes nothing. -/
def isBadKey (s : String) : Bool := s == "XL" || s == "XD" || s == "XS" || s == "XI"   -- XI: a non-integer index
def hasBad (ws : List String) : Bool :=
  ws.any (fun t => isBadKey t || (t.splitOn ",").any (fun p => isBadKey ((p.splitOn "=").headD "")))
def goodPrefix (ps : String) : String :=
  let l := (commaList ps).takeWhile (fun p => !isBadKey ((p.splitOn "=").headD ""))
  sepBy l

def badStep (st : St) (kind : String) (ws : List String) : St × String :=
  match kind, ws with
  | "d", op :: i :: rest =>
    match i.toNat?.bind (st.dh[·]?) with
    | none => (st, "bad-op")
    | some (c, _) =>
      let err := match c with | .od => "ERR Rejected" | .lod => "ERR Rejected"
      if op == "updatep" then
        match rest, c with
        | [ps], .od =>
          match dStep st ["updatep", i, goodPrefix ps] with
          | (st', _) => (st', err ++ " | " ++ dumpD st'.dh)
        | [_], .lod => (st, err ++ " | " ++ dumpD st.dh)
        | _, _ => (st, "bad-op")
      else if ["set", "del", "getitem", "has", "get", "append", "insert", "pop", "setdefault"].contains op then
        (st, err ++ " | " ++ dumpD st.dh)
      else (st, "bad-op")
  | "m", op :: i :: rest =>
    match i.toNat?.bind (st.mh[·]?) with
    | none => (st, "bad-op")
    | some _ =>
      if op == "update" then
        match rest with
        | [ps] =>
          match mStep st ["update", i, goodPrefix ps] with
          | (st', _) => (st', "ERR Rejected | " ++ dumpM st'.mh)
        | _ => (st, "bad-op")
      else if ["set", "append", "del", "getitem", "has", "replace", "setdefault", "pop", "popitem"].contains op then
        (st, "ERR Rejected | " ++ dumpM st.mh)
      else (st, "bad-op")
  | "l", op :: i :: rest =>
    match i.toNat? with
    | none => (st, "bad-op")
    | some n =>
      if n < st.lh.objs.length then
        if op == "update" then
          match rest with
          | [ps] =>
            match lStep st ["update", i, goodPrefix ps] with
            | (st', _) => (st', "ERR Rejected | " ++ dumpL st'.lh)
          | _ => (st, "bad-op")
        else if ["set", "append", "del", "replace"].contains op then (st, "ERR Rejected | " ++ dumpL st.lh)
        else (st, "bad-op")
      else (st, "bad-op")
  | "s", op :: i :: _ =>
    match i.toNat?.bind (st.sh[·]?) with
    | none => (st, "bad-op")
    | some _ =>
      if ["add", "discard", "remove", "has"].contains op then (st, "ERR Rejected | " ++ dumpS st.sh) else (st, "bad-op")
  | "p", op :: i :: _ =>
    match i.toNat?.bind (st.ph[·]?) with
    | none => (st, "bad-op")
    | some _ =>
      if ["add", "discard", "has"].contains op then (st, "ERR Rejected | " ++ dumpP st.ph) else (st, "bad-op")
  | _, _ => (st, "bad-op")

def step (st : St) (line : String) : St × String :=
  match words line with
  | ["reset"] => ({}, "ok")
  | ["lowtab", t] =>
    match (commaList t).mapM (fun p => match p.splitOn "=" with
        | [a, b] => if okKey a && okKey b then some (a, b) else none
        | _ => none) with
    | some tab => ({ st with low := tab }, "ok")
    | none => (st, "bad-op")
  | kind :: ws =>
    if hasBad ws then badStep st kind ws else
    if kind == "d" then dStep st ws
    else if kind == "m" then mStep st ws
    else if kind == "s" then sStep st ws
    else if kind == "p" then pStep st ws
    else if kind == "l" then lStep st ws
    else (st, "bad-op")
  | _ => (st, "bad-op")

end Ioflo.Drv.Containers

def main : IO Unit := Ioflo.Proto.loop Ioflo.Drv.Containers.step {}
