import IofloModel.Model.Crc
import IofloModel.Drv.Proto
/-! driver for the CRC model:  `crc16 <hex>` → 4 hex digits; `crc64 <hex>` → `<top8> <bot8>` -/
namespace Ioflo.Drv.Crc
open Ioflo.Proto Ioflo.Crc

def step (_ : Unit) (line : String) : Unit × String :=
  match words line with
  | ["crc16", h] =>
    match hexToBytes? h with
    | some bs => ((), natToHex 4 (crc16 (bs.map (BitVec.ofNat 8))).toNat)
    | none => ((), "bad-op")
  | ["crc64", h] =>
    match hexToBytes? h with
    | some bs =>
      let r := crc64 (bs.map (BitVec.ofNat 8))
      ((), natToHex 8 r.1.toNat ++ " " ++ natToHex 8 r.2.toNat)
    | none => ((), "bad-op")
  | ["ref16", h] =>
    match hexToBytes? h with
    | some bs => ((), natToHex 4 (refCrc16 (bs.map (BitVec.ofNat 8))).toNat)
    | none => ((), "bad-op")
  | ["ref64", h] =>
    match hexToBytes? h with
    | some bs => ((), natToHex 16 (refCrc64 (bs.map (BitVec.ofNat 8))).toNat)
    | none => ((), "bad-op")
  | _ => ((), "bad-op")

end Ioflo.Drv.Crc

def main : IO Unit := Ioflo.Proto.loop Ioflo.Drv.Crc.step ()
