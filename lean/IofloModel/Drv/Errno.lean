import IofloModel.Lemmas.Errno
import IofloModel.Drv.Proto
/-!
driver for the error-classification model (engine `errno`, C25)

  errno <NAME>                                      → the model's number for an errno / SSL_ERROR_* name
  classify <site> <cls> <arg0> <cutoff> <open>      → `<outcome> ret=<ret> cut=<b> open=<b> | D26b=<b> D26c=<b>`   (repaired ladders; then the region predicates)
  classify-orig <site> <cls> <arg0> <cutoff> <open> → the same for the ladders as found (D13, D26)
  classify2 <site> <cls> <arg0> <cutoff> <open>     → the same with fixes/D26b as well
  connect <code>                                    → accepted | reopenRetry | retry
  gramseq <version> <entry,entry,…> <id:dest,…> <answers…>   → one `ok|raised sent= q= left=` per pass, joined by ` ; `
  sess <version> <tls 0|1> <reopen|close|r:ok|s:ok|r:cls:arg0|s:cls:arg0 …>  → a client through close/re-open cycles
  gram <version> <entry> <id:dest,…> <ok|cls:arg0 …>  → `ok|raised sent=<id:dest,…> q=<id:dest,…>` (stack transmit entry points)
  region <finding> <site> <cls> <arg0>              → 1 | 0   (Lean region predicate of a known finding)
-/
namespace Ioflo.Drv.Errno
open Ioflo.Proto Ioflo.Errno

def site? : String → Option Site
  | "clientRecv" => some .clientRecv | "clientSend" => some .clientSend
  | "clientTlsRecv" => some .clientTlsRecv | "clientTlsSend" => some .clientTlsSend
  | "incomerRecv" => some .incomerRecv | "incomerSend" => some .incomerSend
  | "incomerTlsRecv" => some .incomerTlsRecv | "incomerTlsSend" => some .incomerTlsSend
  | "clientTlsHandshake" => some .clientTlsHandshake | "incomerTlsHandshake" => some .incomerTlsHandshake
  | "acceptorAccept" => some .acceptorAccept | "udpRecv" => some .udpRecv | "udpSend" => some .udpSend
  | "gramSend" => some .gramSend | "gramRecv" => some .gramRecv
  | _ => none

def cls? : String → Option ExcClass
  | "osError" => some .osError | "sslError" => some .sslError | "sslWantRead" => some .sslWantRead
  | "sslWantWrite" => some .sslWantWrite | "sslEof" => some .sslEof | "sslZeroReturn" => some .sslZeroReturn
  | "notOs" => some .notOs
  | _ => none

def bool? : String → Option Bool
  | "0" => some false
  | "1" => some true
  | _ => none

def b01 (b : Bool) : String := if b then "1" else "0"

def outcomeName : Outcome → String
  | .wouldBlock => "wouldBlock" | .cutoff => "cutoff" | .retry => "retry"
  | .closeRaise => "closeRaise" | .raise => "raise"

def retName : Ret → String
  | .noneVal => "None" | .emptyBytes => "b''" | .zero => "0" | .falseVal => "False"
  | .nonePair => "(None,None)" | .emptyPair => "(b'',None)" | .kept => "kept" | .raised => "raised"

def doClassify (v : Version) (site cls n c o : String) : String :=
  match site? site, cls? cls, n.toNat?, bool? c, bool? o with
  | some site, some cls, some n, some c, some o =>
    let e : Err := ⟨cls, n⟩
    let (s, r) := effect v site ⟨c, o⟩ e
    outcomeName (classify v site e) ++ " ret=" ++ retName r ++ " cut=" ++ b01 s.cutoff ++ " open=" ++ b01 s.sockOpen
      ++ " | D26b=" ++ b01 (tlsNumberClash site e) ++ " D26c=" ++ b01 (handshakeLoss site e)
  | _, _, _, _, _ => "bad-op"

def entry? : String → Option GramEntry
  | "serviceTxPkts" => some .txPkts | "serviceTxPktsOnce" => some .txPktsOnce
  | "serviceAllTx" => some .allTx | "serviceAllTxOnce" => some .allTxOnce | "serviceAll" => some .all
  | _ => none

/-- `id:dest,id:dest` (`.` = empty) -/
def pkts? (w : String) : Option (List Pkt) :=
  if w == "." then some [] else
  (w.splitOn ",").foldr (fun e acc =>
    match acc, e.splitOn ":" with
    | some l, [a, b] => match a.toNat?, b.toNat? with
      | some a, some b => some ((a, b) :: l)
      | _, _ => none
    | _, _ => none) (some [])

/-- answers of the sendto calls: `ok` or `<cls>:<arg0>` -/
def answers? (ws : List String) : Option (List (Option Err)) :=
  ws.foldr (fun w acc =>
    match acc with
    | none => none
    | some l =>
      if w == "ok" then some (none :: l) else
      match w.splitOn ":" with
      | [c, n] => match cls? c, n.toNat? with
        | some c, some n => some (some ⟨c, n⟩ :: l)
        | _, _ => none
      | _ => none) (some [])

def showPkts (l : List Pkt) : String :=
  if l.isEmpty then "." else ",".intercalate (l.map fun p => s!"{p.1}:{p.2}")

def step (_ : Unit) (line : String) : Unit × String :=
  match words line with
  | ["errno", name] =>
    match constant? name with
    | some n => ((), toString n)
    | none => ((), "bad-op")
  | ["classify", site, cls, n, c, o] => ((), doClassify .fixed site cls n c o)
  | ["classify-orig", site, cls, n, c, o] => ((), doClassify .orig site cls n c o)
  | ["classify2", site, cls, n, c, o] => ((), doClassify .fixed2 site cls n c o)
  | "gram" :: ver :: entry :: pk :: ans =>
    match (if ver == "fixed" then some Version.fixed else if ver == "fixed2" then some Version.fixed2
           else if ver == "orig" then some Version.orig else none), entry? entry, pkts? pk, answers? ans with
    | some v, some en, some q, some sc =>
      match gramService v en q sc with
      | .ok sent queue => ((), "ok sent=" ++ showPkts sent ++ " q=" ++ showPkts queue)
      | .raised sent queue => ((), "raised sent=" ++ showPkts sent ++ " q=" ++ showPkts queue)
    | _, _, _, _ => ((), "bad-op")
  | "gramseq" :: ver :: entries :: pk :: ans =>
    match (if ver == "fixed" then some Version.fixed else if ver == "fixed2" then some Version.fixed2
           else if ver == "orig" then some Version.orig else none),
          (entries.splitOn ",").foldr (fun w acc => match acc, entry? w with
            | some l, some e => some (e :: l) | _, _ => none) (some []), pkts? pk, answers? ans with
    | some v, some ens, some q, some sc =>
      ((), " ; ".intercalate ((gramPasses v ens q sc).map fun r =>
        (if r.1.isOk then "ok" else "raised") ++ " sent=" ++ showPkts r.1.sent ++ " q=" ++ showPkts r.1.queue
          ++ " left=" ++ toString r.2))
    | _, _, _, _ => ((), "bad-op")
  | "sess" :: ver :: tls :: toks =>
    let op? (t : String) : Option SessOp :=
      if t == "close" then some .close else if t == "reopen" then some .reopen else
      match t.splitOn ":" with
      | [d, "ok"] => if d == "r" then some (.io false none) else if d == "s" then some (.io true none) else none
      | [d, c, n] =>
        match cls? c, n.toNat? with
        | some c, some n =>
          if d == "r" then some (.io false (some ⟨c, n⟩)) else if d == "s" then some (.io true (some ⟨c, n⟩)) else none
        | _, _ => none
      | _ => none
    match (if ver == "fixed" then some Version.fixed else if ver == "fixed2" then some Version.fixed2
           else if ver == "orig" then some Version.orig else none), bool? tls,
          toks.foldr (fun w acc => match acc, op? w with | some l, some o => some (o :: l) | _, _ => none) (some []) with
    | some v, some tls, some ops =>
      ((), " ; ".intercalate ((sessRun v { tls := tls } ops).map fun o => match o with
        | .done k => s!"done:{k}"
        | .classified k r c => s!"cls:{k}:{retName r}:{b01 c}"
        | .noSocket => "nosock" | .closed => "closed" | .opened k => s!"opened:{k}"))
    | _, _, _ => ((), "bad-op")
  | ["connect", code] =>
    match code.toNat? with
    | some c => ((), match connect c with
        | .accepted => "accepted" | .reopenRetry => "reopenRetry" | .retry => "retry")
    | none => ((), "bad-op")
  | ["region", fid, site, cls, n] =>
    match site? site, cls? cls, n.toNat? with
    | some site, some cls, some n =>
      if fid == "D26b" then ((), b01 (tlsNumberClash site ⟨cls, n⟩))
      else if fid == "D26c" then ((), b01 (handshakeLoss site ⟨cls, n⟩))
      else ((), "bad-op")
    | _, _, _ => ((), "bad-op")
  | _ => ((), "bad-op")

end Ioflo.Drv.Errno

def main : IO Unit := Ioflo.Proto.loop Ioflo.Drv.Errno.step ()
