import IofloModel.Model.Exchange
import IofloModel.Drv.Proto
/-!
driver for the exchange model (engine `exchange`).  Time in ticks of 1/1024 s.

  run <asis|repaired> <op> <op> …   → per call `<queued ids, comma separated, or -> <ok|ERR Name> d=<0|1> f=<0|1>`,
                                       calls separated by ` | `

  runf <asis|repaired> <op> …       → the same with the Float (binary64) instantiation of the definitions: times are
                                       16 hex digits (bit pattern of the float), class defaults 2.0/0.5 s, Exchangent 0.5/0.1 s
ops:  `C<k>:<timeout>:<redo>:<tx>:<rx>`  create, k = e (Exchange) x (Exchanger) n (Exchangent), `N` = not given
      `S<arg>` start (`SN` = no argument)   `A<dt>` advance the stamper   `P` process
      `T<tx>` send (`TN` = send())   `Y<tx>` transmit   `M<tx>` message   `R<rx>` receive   `F` finish   `X` fail   `U` run
-/
namespace Ioflo.Drv.Exchange
open Ioflo.Proto Ioflo.Exchange

def optInt? (s : String) : Option (Option Int) :=
  if s == "N" then some none else s.toInt?.map some

def optNat? (s : String) : Option (Option Nat) :=
  if s == "N" then some none else s.toNat?.map some

def kind? (c : Char) : Option Kind :=
  if c == 'e' then some .exchange else if c == 'x' then some .exchanger
  else if c == 'n' then some .exchangent else none

def op? (w : String) : Option Op :=
  match w.toList with
  | ['P'] => some .process
  | ['F'] => some .finish
  | ['X'] => some .fail
  | ['U'] => some .run
  | 'C' :: k :: ':' :: r =>
    match (String.ofList r).splitOn ":" with
    | [t, rd, tx, rx] => do
        let k ← kind? k; let t ← optInt? t; let rd ← optInt? rd; let tx ← optNat? tx; let rx ← optNat? rx
        pure (.create k t rd tx rx)
    | _ => none
  | 'S' :: r => (optNat? (String.ofList r)).map .start
  | 'A' :: r => (String.ofList r).toInt?.map .advance
  | 'T' :: r => (optNat? (String.ofList r)).map (.send .send)
  | 'Y' :: r => (optNat? (String.ofList r)).map (.send .transmit)
  | 'M' :: r => (optNat? (String.ofList r)).map (.send .message)
  | 'R' :: r => (String.ofList r).toNat?.map .receive
  | _ => none

def showErr : Option Err → String
  | none => "ok"
  | some .nameError => "ERR NameError"
  | some .valueError => "ERR ValueError"
  | some .noExchange => "ERR NoExchange"

def b01 (b : Bool) : String := if b then "1" else "0"

def showRec (w : World) (o : Out) : String :=
  (if o.queued.isEmpty then "-" else ",".intercalate (o.queued.map toString)) ++ " " ++ showErr o.err ++
  (match w.ex with
   | none => " d=- f=-"
   | some e => " d=" ++ b01 e.done ++ " f=" ++ b01 e.failed)

def runShow (v : Variant) : World → List Op → List String
  | _, [] => []
  | w, op :: ops =>
    let (w', o) := Ioflo.Exchange.step v w op
    showRec w' o :: runShow v w' ops

/-! float form: times travel as 16 hex digits = the IEEE binary64 bit pattern -/

def hexNat? (s : String) : Option Nat :=
  if s.isEmpty then none else s.toList.foldlM (fun acc c => (hexDigit? c).map (fun d => acc * 16 + d)) 0

def float? (s : String) : Option Float :=
  if s.length != 16 then none else (hexNat? s).map (fun n => Float.ofBits (UInt64.ofNat n))

def optFloat? (s : String) : Option (Option Float) :=
  if s == "N" then some none else (float? s).map some

def gop? (w : String) : Option (GOp Float) :=
  match w.toList with
  | ['P'] => some .process
  | ['F'] => some .finish
  | ['X'] => some .fail
  | ['U'] => some .run
  | 'C' :: k :: ':' :: r =>
    match (String.ofList r).splitOn ":" with
    | [t, rd, tx, rx] => do
        let k ← kind? k; let t ← optFloat? t; let rd ← optFloat? rd; let tx ← optNat? tx; let rx ← optNat? rx
        pure (.create k t rd tx rx)
    | _ => none
  | 'S' :: r => (optNat? (String.ofList r)).map .start
  | 'A' :: r => (float? (String.ofList r)).map .advance
  | 'T' :: r => (optNat? (String.ofList r)).map (.send .send)
  | 'Y' :: r => (optNat? (String.ofList r)).map (.send .transmit)
  | 'M' :: r => (optNat? (String.ofList r)).map (.send .message)
  | 'R' :: r => (String.ofList r).toNat?.map .receive
  | _ => none

def showGRec (w : GWorld Float) (o : Out) : String :=
  (if o.queued.isEmpty then "-" else ",".intercalate (o.queued.map toString)) ++ " " ++ showErr o.err ++
  (match w.ex with
   | none => " d=- f=-"
   | some e => " d=" ++ b01 e.done ++ " f=" ++ b01 e.failed)

def grunShow (v : Variant) : GWorld Float → List (GOp Float) → List String
  | _, [] => []
  | w, op :: ops =>
    let (w', o) := gstep defsFloat v w op
    showGRec w' o :: grunShow v w' ops

def variant? (s : String) : Option Variant :=
  if s == "asis" then some .asIs else if s == "repaired" then some .repaired else none

def reply (ws : List String) : Option String :=
  match ws with
  | "run" :: v :: ops => do
      let v ← variant? v
      let ops ← ops.mapM op?
      pure (if ops.isEmpty then "-" else " | ".intercalate (runShow v World.init ops))
  | "runf" :: v :: ops => do
      let v ← variant? v
      let ops ← ops.mapM gop?
      pure (if ops.isEmpty then "-" else " | ".intercalate (grunShow v ⟨0.0, none, []⟩ ops))
  | _ => none

def step (_ : Unit) (line : String) : Unit × String :=
  match reply (words line) with
  | some r => ((), r)
  | none => ((), "bad-op")

end Ioflo.Drv.Exchange

def main : IO Unit := Ioflo.Proto.loop Ioflo.Drv.Exchange.step ()
