import IofloModel.Model.FloProg
import IofloModel.Model.FloWf
import IofloModel.Drv.Proto
/-!
driver for the framer interpreter (engine `flo`).  One request = one whole program + run; stateless.

  run <ticks> <period> <depth>
      S <n> <v>*n                         initial share values v0..v(n-1)
      R <n> (<framer> <a|i>)*n            the taskables in `house.taskables` order, active / inactive
      FR <n> framer*n
  framer := F <first (local)> <original 0|1> <nframes> frame*          (original 0: a clone of a moot framer)
  frame  := f <over|-> <nunders> <under>* <nitems> item*          (over/unders: local frame numbers)
  item   := A <ctx> act                                            ctx ∈ e n p r x t  (enter renter precur recur exit rexit)
          | G <far (global)> <nneeds> need* <ntracts> act*         go / timeout / repeat
          | L <nneeds> need*                                       let
          | X <aux framer> <nneeds> need* <ntracts> act*           aux (plain when nneeds = 0)
  act    := rec <tag> <ret> | put <dst> <v> | inc <dst> <v> | incf <dst> <src> | copy <src> <dst>
          | done <k> <framer>*k | bid <control> <k> <framer>*k
          | mku <share> <key> <transit 0|1> | mkc <share> <key>   MarkerUpdate / MarkerChange (key = marked frame)
  need   := <neg 0|1> ( al | cd <share> <op> <v> | ci <share> <op> <share> | bo <share>
                      | el <framer> <op> <t> | re <framer> <op> <n> | dn <framer> | st <framer> <status>
                      | xa <frame> | xl <frame> | xn <frame> <framer>
                      | up <share> <key> | ch <share> <key> )       is updated / is changed

Reply: records joined by `|`:
  `E f<frame> <context> <tag>`   recorder action executed
  `S <k> <framer>*`              state after tick k, per framer `i:status:active:actives:done:main:elapsed:recurred`
  `V <values>`                   store values after tick k
  `K <share>.<key>:<share stamp>:<mark stamp>:<mark used>:<mark data> …`   the marks of the program after tick k
  `Z <framer>*`, `V …`           after the final ABORT of everything still ready
  `G overlap=<b> reenter=<b> shared=<b> left=<b> dbl=<b> wf=<b> both=<b>`  ghost flags of the run, `sharedAux` and
                                 `plainAndCond` of the program (region predicates of the known findings) and
                                 `wfCheck` (Model/FloWf.lean)
  `ERR build <kind>` / `ERR run <kind>`
-/
namespace Ioflo.Drv.Flo
open Ioflo.Proto Ioflo.Flo

structure PS where
  toks : List String
  acts : Array CAct := #[]
  needs : Array NeedC := #[]

abbrev Parser (α : Type) := PS → Option (α × PS)

def tok : Parser String := fun p =>
  match p.toks with
  | [] => none
  | t :: ts => some (t, { p with toks := ts })

def bindP {α β : Type} (m : Parser α) (f : α → Parser β) : Parser β := fun p =>
  match m p with
  | none => none
  | some (a, p') => f a p'

instance : Monad Parser where
  pure a := fun p => some (a, p)
  bind := bindP

def failP {α : Type} : Parser α := fun _ => none

def nat : Parser Nat := do
  let t ← tok
  match t.toNat? with
  | some n => pure n
  | none => failP

def int : Parser Int := do
  let t ← tok
  match t.toInt? with
  | some n => pure n
  | none => failP

def optNat : Parser (Option Nat) := do
  let t ← tok
  if t == "-" then pure none else
  match t.toNat? with
  | some n => pure (some n)
  | none => failP

def expect (s : String) : Parser Unit := do
  let t ← tok
  if t == s then pure () else failP

def many {α : Type} (p : Parser α) : Nat → Parser (List α)
  | 0 => pure []
  | n + 1 => do
    let a ← p
    let rest ← many p n
    pure (a :: rest)

def counted {α : Type} (p : Parser α) : Parser (List α) := do
  let n ← nat
  many p n

def control : Parser Control := do
  let t ← tok
  match t with
  | "ready" => pure .ready | "start" => pure .start | "run" => pure .run
  | "stop" => pure .stop | "abort" => pure .abort
  | _ => failP

def status : Parser Status := do
  let t ← tok
  match t with
  | "readied" => pure .readied | "started" => pure .started | "running" => pure .running
  | "stopped" => pure .stopped | "aborted" => pure .aborted
  | _ => failP

def cmp : Parser Cmp := do
  let t ← tok
  match t with
  | "eq" => pure .eq | "ne" => pure .ne | "lt" => pure .lt
  | "le" => pure .le | "ge" => pure .ge | "gt" => pure .gt
  | _ => failP

def addAct (a : CAct) : Parser Act := fun p =>
  some (.world p.acts.size, { p with acts := p.acts.push a })

def addNeed (n : NeedC) : Parser NeedId := fun p =>
  some (p.needs.size, { p with needs := p.needs.push n })

def act : Parser Act := do
  let t ← tok
  match t with
  | "rec" => do let tag ← nat; let r ← nat; addAct (.record tag (r != 0))
  | "put" => do let d ← nat; let v ← int; addAct (.put d v)
  | "inc" => do let d ← nat; let v ← int; addAct (.inc d v)
  | "incf" => do let d ← nat; let s ← nat; addAct (.incFrom d s)
  | "copy" => do let s ← nat; let d ← nat; addAct (.copy s d)
  | "mku" => do let s ← nat; let k ← nat; let tr ← nat; addAct (.markU s k (tr != 0))
  | "mkc" => do let s ← nat; let k ← nat; addAct (.markC s k)
  | "done" => do let frs ← counted nat; pure (.done frs)
  | "bid" => do let c ← control; let frs ← counted nat; pure (.bid c frs)
  | _ => failP

def need : Parser NeedId := do
  let neg ← nat
  let t ← tok
  let n : CNeed ← (match t with
    | "al" => pure CNeed.always
    | "cd" => do let s ← nat; let o ← cmp; let v ← int; pure (CNeed.cmpD s o v)
    | "ci" => do let a ← nat; let o ← cmp; let b ← nat; pure (CNeed.cmpI a o b)
    | "bo" => do let s ← nat; pure (CNeed.bool s)
    | "el" => do let f ← nat; let o ← cmp; let v ← nat; pure (CNeed.elapsed f o v)
    | "re" => do let f ← nat; let o ← cmp; let v ← nat; pure (CNeed.recurred f o v)
    | "dn" => do let f ← nat; pure (CNeed.done f)
    | "st" => do let f ← nat; let st ← status; pure (CNeed.status f st)
    | "xa" => do let f ← nat; pure (CNeed.auxAny f)
    | "xl" => do let f ← nat; pure (CNeed.auxAll f)
    | "xn" => do let f ← nat; let x ← nat; pure (CNeed.auxNamed f x)
    | "up" => do let s ← nat; let k ← nat; pure (CNeed.updated s k)
    | "ch" => do let s ← nat; let k ← nat; pure (CNeed.changed s k)
    | _ => failP)
  addNeed { neg := neg != 0, need := n }

/-- one item of a frame, added to the frame under construction -/
def item (d : DeclFrame) : Parser DeclFrame := do
  let t ← tok
  match t with
  | "A" => do
    let c ← tok
    let a ← act
    match c with
    | "e" => pure { d with enacts := d.enacts ++ [a] }
    | "n" => pure { d with renacts := d.renacts ++ [a] }
    | "p" => pure { d with preacts := d.preacts ++ [.act a] }
    | "r" => pure { d with reacts := d.reacts ++ [a] }
    | "x" => pure { d with exacts := d.exacts ++ [a] }
    | "t" => pure { d with rexacts := d.rexacts ++ [a] }
    | _ => failP
  | "G" => do
    let far ← nat
    let needs ← counted need
    let tracts ← counted act
    pure { d with preacts := d.preacts ++ [.transit needs far tracts] }
  | "L" => do
    let needs ← counted need
    pure { d with beacts := d.beacts ++ needs }
  | "X" => do
    let aux ← nat
    let needs ← counted need
    let tracts ← counted act
    if needs.isEmpty then pure { d with auxes := d.auxes ++ [aux] }
    else pure { d with preacts := d.preacts ++ [.suspend needs aux tracts] }
  | _ => failP

def items : Nat → DeclFrame → Parser DeclFrame
  | 0, d => pure d
  | n + 1, d => do
    let d' ← item d
    items n d'

def frame : Parser DeclFrame := do
  expect "f"
  let over ← optNat
  let unders ← counted nat
  let n ← nat
  items n { over := over, unders := unders, beacts := [], enacts := [], renacts := [], reacts := [],
            exacts := [], rexacts := [], preacts := [], auxes := [] }

def framer : Parser DeclFramer := do
  expect "F"
  let first ← nat
  let orig ← nat
  let frames ← counted frame
  pure { first := first, frames := frames, original := orig != 0 }

def readyEntry : Parser (Frid × Bool) := do
  let i ← nat
  let t ← tok
  match t with
  | "a" => pure (i, true)
  | "i" => pure (i, false)
  | _ => failP

structure Request where
  ticks : Nat
  period : Nat
  depth : Nat
  shares : List Int
  ready : List (Frid × Bool)
  framers : List DeclFramer

def request : Parser Request := do
  expect "run"
  let ticks ← nat
  let period ← nat
  let depth ← nat
  expect "S"
  let shares ← counted int
  expect "R"
  let ready ← counted readyEntry
  expect "FR"
  let framers ← counted framer
  pure { ticks := ticks, period := period, depth := depth, shares := shares, ready := ready, framers := framers }

/-! ### printing -/

def showList (l : List Nat) : String :=
  if l.isEmpty then "-" else ".".intercalate (l.map toString)

def showOpt : Option Nat → String
  | none => "-"
  | some x => toString x

def showStatus : Status → String
  | .readied => "readied" | .started => "started" | .running => "running"
  | .stopped => "stopped" | .aborted => "aborted"

def showCtx : Ctx → String
  | .benter => "benter" | .enter => "enter" | .renter => "renter" | .precur => "precur"
  | .recur => "recur" | .exit => "exit" | .rexit => "rexit" | .transit => "transit"

def showFr (i : Nat) (x : FramerSt) : String :=
  ":".intercalate [toString i, showStatus x.status, showOpt x.active, showList x.actives,
    (if x.done then "1" else "0"), showOpt x.main, toString x.elapsed, toString x.recurred]

def showEvents (acts : Array CAct) (evs : List Event) : List String :=
  evs.filterMap fun e =>
    match e with
    | .act ctx f id =>
      match acts[id]? with
      | some (.record tag _) => some ("E f" ++ toString f ++ " " ++ showCtx ctx ++ " " ++ toString tag)
      | _ => none
    | _ => none

/-- the (share, key) pairs of the marker acts of the program, sorted, without repetition -/
def markPairs (acts : Array CAct) : List (Nat × Nat) :=
  let raw := acts.toList.filterMap fun a =>
    match a with
    | .markU s k _ => some (s, k)
    | .markC s k => some (s, k)
    | _ => none
  let ins (l : List (Nat × Nat)) (x : Nat × Nat) : List (Nat × Nat) :=
    if l.contains x then l else
      l.filter (fun y => y.1 < x.1 || (y.1 == x.1 && y.2 < x.2)) ++ [x] ++
      l.filter (fun y => !(y.1 < x.1 || (y.1 == x.1 && y.2 < x.2)))
  raw.foldl ins []

def showOptI : Option Int → String
  | none => "-"
  | some x => toString x

def snapshot (tag : String) (nfr nsh : Nat) (acts : Array CAct) (s : St World) : List String :=
  [tag ++ " " ++ " ".intercalate ((List.range nfr).map fun i => showFr i (s.fr i)),
   "V " ++ ",".intercalate ((List.range nsh).map fun i => toString (s.world.val i)),
   "K " ++ " ".intercalate ((markPairs acts).map fun p =>
      let m := s.world.mark p.1 p.2
      toString p.1 ++ "." ++ toString p.2 ++ ":" ++ showOpt (s.world.stamp p.1) ++ ":" ++ showOpt m.stamp ++ ":" ++
        showOpt m.used ++ ":" ++ showOptI m.data)]

/-- events of `s` (newest first) in order of occurrence, then clear -/
def flush (acts : Array CAct) (s : St World) : List String × St World :=
  (showEvents acts s.trace.reverse, { s with trace := [] })

def runLoop (P : Prog) (sem : Sem World) (lo : Ops World) (acts : Array CAct) (nfr nsh period : Nat)
    (shared wf both : Bool) :
    Nat → Nat → Sked → St World → List String → List String
  | 0, _, _, _, out => out ++ ["ERR run ticks"]
  | fuel + 1, k, sk, s, out =>
    match tick P sem lo sk s with
    | .error e => out ++ ["ERR run " ++ (match e with | .depth => "depth" | .noActive => "noActive")]
    | .ok (sk', more, s') =>
      let (evs, s') := flush acts s'
      let out := out ++ evs ++ snapshot ("S " ++ toString k) nfr nsh acts s'
      if sk'.ready.isEmpty || !more || fuel = 0 then
        match finalize P sem lo sk' s' with
        | .error e => out ++ ["ERR run " ++ (match e with | .depth => "depth" | .noActive => "noActive")]
        | .ok s'' =>
          let (evs, s'') := flush acts s''
          out ++ evs ++ snapshot "Z" nfr nsh acts s'' ++
            ["G overlap=" ++ (if s''.overlap then "1" else "0") ++ " reenter=" ++ (if s''.reenter then "1" else "0")
              ++ " shared=" ++ (if shared then "1" else "0") ++ " left=" ++ (if s''.left then "1" else "0")
              ++ " dbl=" ++ (if s''.dbl then "1" else "0") ++ " wf=" ++ (if wf then "1" else "0")
              ++ " both=" ++ (if both then "1" else "0")]
      else runLoop P sem lo acts nfr nsh period shared wf both fuel (k + 1) sk' { s' with now := s'.now + period } out

def showResolveErr : Outline.ResolveErr → String
  | .badOver => "badOver" | .loop => "loop" | .badUnder => "badUnder"
  | .dupUnder => "dupUnder" | .diverge => "diverge"

def execute (r : Request) (acts : Array CAct) (needs : Array NeedC) : String :=
  match buildAll 0 0 r.framers with
  | .error e => "ERR build " ++ showResolveErr e
  | .ok (frames, framers) =>
    let P := mkProg frames framers
    let sem := concreteSem acts.toList needs.toList (fun f => (P.frame f).auxes)
    let lo := opsAt P sem r.depth
    let w : World := { val := fun i => (r.shares[i]?).getD 0 }
    -- a clone's `.main` is fixed when it is made (Frame.resolveAuxLinks): the frame of its clause
    let sC := (List.range frames.length).foldl (fun (s : St World) g =>
      ((P.frame g).auxes ++ suspAuxes (P.frame g).preacts).foldl (fun s x =>
        if (P.framer x).original then s else s.modFr x (fun st => { st with main := some g })) s) (initSt w)
    let s0 := r.ready.foldl (fun s e => addReady e.1 e.2 s) sC
    let sk : Sked := { ready := r.ready.map (·.1) }
    if r.ticks = 0 then "ERR run ticks" else
    "|".intercalate (runLoop P sem lo acts framers.length r.shares.length r.period (sharedAux frames)
      (wfCheck frames framers) (plainAndCond frames)
      r.ticks 0 sk s0 [])

def step (_ : Unit) (line : String) : Unit × String :=
  match request { toks := words line } with
  | some (r, p) => if p.toks.isEmpty then ((), execute r p.acts p.needs) else ((), "bad-op")
  | none => ((), "bad-op")

end Ioflo.Drv.Flo

def main : IO Unit := Ioflo.Proto.loop Ioflo.Drv.Flo.step ()
