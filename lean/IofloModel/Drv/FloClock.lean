import IofloModel.Model.FloClock
import IofloModel.Drv.Proto
/-!
driver for the framer clock model (engine `floclock`, C11)

  `runf <P> <start> <nticks> <nframes> frame*`   τ = Float  (the instance is entered at tick <start>), every number is the 16 hex digit bit pattern
  `runi <P> <start> <nticks> <nframes> frame*`   τ = Int   (exact time in units of a quantum), decimal integers
    frame := `<over idx|-> <nverbs> verb*`      (`frame Fi in Fover`)
  `runfb` / `runib` `<P> <B> <start> <nticks> …`, `runfqb` / `runiqb` `<P> <B> <Q> <nticks> …`: the Skedder starts at
    store stamp B (`Skedder(stamp=B)`)
  `runfq` / `runiq` `<P> <Q> <nticks> …`: the framer has period Q (`framer rd be active at Q`), started at tick 0;
    a tick in which the skedder does not run it shows its unchanged state with `.`
  after the frames: `H <nframes> frame* <ndone> <frame idx>*`   the helper framer of `aux helper if …` and its
    `done me` frames (`H 0 0` when there is none); in a main frame `S <nneeds> need*` is the suspender line
    verb  := `T <num>` (timeout) | `R <num>` (repeat) | `G <far> <nneeds> need*`   far := `next`|`me`|`<idx>`
    need  := `E <cmp> <num>` (elapsed) | `C <cmp> <nat>` (recurred)    cmp := ge gt le lt eq ne
  `runfp` / `runip` `<P> <B> <start> <nticks> <nframes> frame* A <main frame idx> <nframes> frame*`: the timed framer
    (plain verbs only) carries a plain auxiliary `aux pa` in frame <main>; reply per tick `<framer tick>/<aux tick|->`
reply: `ERR build`, or per tick `<active idx><*|.>:<elapsed>:<recurred>:<store stamp>`  (`*` = outline changed in this tick)
-/
namespace Ioflo.Drv.FloClock
open Ioflo.Proto Ioflo.FloClock

abbrev P (α : Type) := List String → Option (α × List String)

def tok : P String
  | [] => none
  | t :: r => some (t, r)

def nat : P Nat := fun ts => do
  let (t, r) ← tok ts
  let n ← t.toNat?
  return (n, r)

def rep {α : Type} (p : P α) : Nat → P (List α)
  | 0, ts => some ([], ts)
  | n + 1, ts => do
    let (a, r) ← p ts
    let (as, r) ← rep p n r
    return (a :: as, r)

def many {α : Type} (p : P α) : P (List α) := fun ts => do
  let (n, r) ← nat ts
  rep p n r

def hexNat? (s : String) : Option Nat :=
  s.toList.foldlM (fun acc c => (hexDigit? c).map (fun d => acc * 16 + d)) 0

def floatP : P Float := fun ts => do
  let (t, r) ← tok ts
  if t.length ≠ 16 then none
  let n ← hexNat? t
  return (Float.ofBits n.toUInt64, r)

def intP : P Int := fun ts => do
  let (t, r) ← tok ts
  let i ← t.toInt?
  return (i, r)

def cmpP : P Cmp := fun ts => do
  let (t, r) ← tok ts
  let c ← (match t with
    | "ge" => some Cmp.ge | "gt" => some Cmp.gt | "le" => some Cmp.le
    | "lt" => some Cmp.lt | "eq" => some Cmp.eq | "ne" => some Cmp.ne | _ => none)
  return (c, r)

def needP {τ : Type} (num : P τ) : P (Need τ) := fun ts => do
  let (t, r) ← tok ts
  let (c, r) ← cmpP r
  match t with
  | "E" => let (g, r) ← num r; return (.elapsed c g, r)
  | "C" => let (g, r) ← nat r; return (.recurred c g, r)
  | _ => none

def farP : P Far := fun ts => do
  let (t, r) ← tok ts
  match t with
  | "next" => return (.next, r)
  | "me" => return (.me, r)
  | t => let i ← t.toNat?; return (.idx i, r)

def verbP {τ : Type} (num : P τ) : P (Verb τ) := fun ts => do
  let (t, r) ← tok ts
  match t with
  | "T" => let (v, r) ← num r; return (.timeout v, r)
  | "R" => let (v, r) ← num r; return (.rep v, r)
  | "G" =>
    let (far, r) ← farP r
    let (ns, r) ← many (needP num) r
    return (.go far ns, r)
  | _ => none

def frameP {τ : Type} (num : P τ) : P (FrameSrc τ) := fun ts => do
  let (o, r) ← tok ts
  let over ← (if o = "-" then some none else o.toNat?.map some)
  let (vs, r) ← many (verbP num) r
  return (⟨over, vs⟩, r)

def verbSP {τ : Type} (num : P τ) : P (VerbS τ) := fun ts =>
  match ts with
  | "S" :: r => do
    let (ns, r) ← many (needP num) r
    return (.susp ns, r)
  | _ => do
    let (v, r) ← verbP num ts
    return (.plain v, r)

def frameSP {τ : Type} (num : P τ) : P (FrameSrcS τ) := fun ts => do
  let (o, r) ← tok ts
  let over ← (if o = "-" then some none else o.toNat?.map some)
  let (vs, r) ← many (verbSP num) r
  return (⟨over, vs⟩, r)

def oversOk {τ : Type} (fr : List (RFrame τ)) : Bool :=
  fr.all (fun f => match f.over with | some o => o < fr.length | none => true) && acyclic fr

def suspCount {τ : Type} (fr : List (SFrame τ)) : Nat :=
  (fr.map (fun f => (f.pres.filter (fun p => match p with | .susp _ => true | _ => false)).length)).sum

def showObs {τ : Type} (sh : τ → String) (o : Obs τ) : String :=
  toString o.after.active ++ (if o.entered then "*" else ".") ++ ":" ++ sh o.after.elapsed ++ ":" ++
    toString o.after.recurred ++ ":" ++ sh o.now

/-- per-tick view of a framer that is not run in every tick: skipped ticks repeat the last state -/
def fillTicks {τ : Type} : List τ → List Bool → List (Obs τ) → Option (Obs τ) → List (Obs τ)
  | now :: ns, true :: rs, o :: os, _ => o :: fillTicks ns rs os (some o)
  | now :: ns, false :: rs, os, some p => { p with now := now, entered := false } :: fillTicks ns rs os (some p)
  | _, _, _, _ => []

def runLine {τ : Type} [Add τ] [Sub τ] [LE τ] [LT τ] [DecidableLE τ] [DecidableLT τ] [OfNat τ 0] [Lit τ]
    (withQ withB : Bool) (num : P τ) (sh : τ → String) (ts : List String) : Option String := do
  let (per, r) ← num ts
  let (base, r) ← (if withB then num r else some (0, r))
  let (q, r) ← (if withQ then num r else some (per, r))
  let (start, r) ← (if withQ then some (0, r) else nat r)
  let (nticks, r) ← nat r
  let (p, r) ← many (frameSP num) r
  let (_, r) ← (match r with | "H" :: r => some ((), r) | _ => none)
  let (hf, r) ← many (frameP num) r
  let (dn, r) ← many nat r
  if r ≠ [] then none
  if p.isEmpty then none
  match resolveS p, resolve hf with
  | .ok prog, .ok hfr =>
    -- over links must point at frames and form a forest (the real builder hangs on a cycle);
    -- one suspender at most, and then a helper framer with a first frame
    if !(oversOk (prog.map SFrame.toR)) || !(oversOk hfr) then none
    if suspCount prog > 1 || (suspCount prog = 1 && hfr.isEmpty) then none
    if withQ then
      let obs := runG (decideS prog ⟨hfr, dn⟩) {} (framerStampsB base per q nticks)
      return " ".intercalate ((fillTicks (stampsB base per nticks) (runsAt per q nticks base base) obs none).map (showObs sh))
    return " ".intercalate ((runG (decideS prog ⟨hfr, dn⟩) {} (stampsFromB base per start nticks)).map (showObs sh))
  | _, _ => return "ERR build"

def runLineP {τ : Type} [Add τ] [Sub τ] [LE τ] [LT τ] [DecidableLE τ] [DecidableLT τ] [OfNat τ 0] [Lit τ]
    (num : P τ) (sh : τ → String) (ts : List String) : Option String := do
  let (per, r) ← num ts
  let (base, r) ← num r
  let (start, r) ← nat r
  let (nticks, r) ← nat r
  let (p, r) ← many (frameP num) r
  let (_, r) ← (match r with | "A" :: r => some ((), r) | _ => none)
  let (m, r) ← nat r
  let (af, r) ← many (frameP num) r
  if r ≠ [] then none
  if p.isEmpty || af.isEmpty || m ≥ p.length then none
  match resolve p, resolve af with
  | .ok prog, .ok afr =>
    if !(oversOk prog) || !(oversOk afr) then none
    return " ".intercalate ((runP prog ⟨m, afr⟩ (stampsFromB base per start nticks)).map
      (fun r => showObs sh r.1 ++ "/" ++ (match r.2 with | some o => showObs sh o | none => "-")))
  | _, _ => return "ERR build"

def step (_ : Unit) (line : String) : Unit × String :=
  match words line with
  | "runfb" :: ts => ((), (runLine false true floatP (fun x => natToHex 16 x.toBits.toNat) ts).getD "bad-op")
  | "runib" :: ts => ((), (runLine false true intP (fun (x : Int) => toString x) ts).getD "bad-op")
  | "runfqb" :: ts => ((), (runLine true true floatP (fun x => natToHex 16 x.toBits.toNat) ts).getD "bad-op")
  | "runiqb" :: ts => ((), (runLine true true intP (fun (x : Int) => toString x) ts).getD "bad-op")
  | "runfq" :: ts => ((), (runLine true false floatP (fun x => natToHex 16 x.toBits.toNat) ts).getD "bad-op")
  | "runiq" :: ts => ((), (runLine true false intP (fun (x : Int) => toString x) ts).getD "bad-op")
  | "runfp" :: ts => ((), (runLineP floatP (fun x => natToHex 16 x.toBits.toNat) ts).getD "bad-op")
  | "runip" :: ts => ((), (runLineP intP (fun (x : Int) => toString x) ts).getD "bad-op")
  | "runf" :: ts => ((), (runLine false false floatP (fun x => natToHex 16 x.toBits.toNat) ts).getD "bad-op")
  | "runi" :: ts => ((), (runLine false false intP (fun (x : Int) => toString x) ts).getD "bad-op")
  | _ => ((), "bad-op")

end Ioflo.Drv.FloClock

def main : IO Unit := Ioflo.Proto.loop Ioflo.Drv.FloClock.step ()
