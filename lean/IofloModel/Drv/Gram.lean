import IofloModel.Model.Gram
import IofloModel.Drv.Proto
/-!
driver for the datagram-stack model (engine `gram`).

  run <asis|repaired> <op> <op> …      → per call `<events or -> ; Q=… M=… o=<0|1>`, calls separated by ` | `
  region D20b <op> <op> …              → `true` / `false`   (`onceReorders .repaired init ops`)
  transient <op> <op> …                → `true` / `false`   (`transientOnlyOps ops`)

ops:  `t<id>@<dst>` transmit   `m<id>@<dst>` message   `M` serviceTxMsgs
      `P<env>` serviceTxPkts   `O<env>` serviceTxPktsOnce   `A<env>` serviceAllTx   `c` close   `o` reopen
  rx <op> <op> …                       → receive side, per call `<ok|x<errno>> ; P=<rxPkts> G=<rxMsgs> T=<datagrams taken> o=<0|1>`
        ops: `r<src>` add a remote   `V<recvs>` serviceReceives   `W<recvs>` serviceReceivesOnce   `K` serviceRxPkts   `c` `o`
        recvs: comma separated `g<src>:<id>` datagram, `z<src>` zero-length datagram, `n` nothing, <errno>
env:  comma separated answers of the socket, `k` = ok, a decimal errno = socket.error; may be empty
events: `s<id>@<dst>` datagram accepted, `f<id>@<dst>!<errno>` send raised, `x<errno>` exception escaped
-/
namespace Ioflo.Drv.Gram
open Ioflo.Proto Ioflo.Gram

def pkt? (s : String) : Option Pkt :=
  match s.splitOn "@" with
  | [a, b] => do let i ← a.toNat?; let d ← b.toNat?; pure ⟨i, d⟩
  | _ => none

def outcome? (s : String) : Option Outcome :=
  if s == "k" then some .ok else s.toNat?.map .err

def env? (s : String) : Option (List Outcome) :=
  if s.isEmpty then some [] else (s.splitOn ",").mapM outcome?

def op? (w : String) : Option Op :=
  match w.toList with
  | ['M'] => some .serviceTxMsgs
  | ['c'] => some .close
  | ['o'] => some .reopen
  | 't' :: r => (pkt? (String.ofList r)).map .transmit
  | 'm' :: r => (pkt? (String.ofList r)).map .message
  | 'P' :: r => (env? (String.ofList r)).map .serviceTxPkts
  | 'O' :: r => (env? (String.ofList r)).map .serviceTxPktsOnce
  | 'A' :: r => (env? (String.ofList r)).map .serviceAllTx
  | _ => none

def showPkt (p : Pkt) : String := toString p.id ++ "@" ++ toString p.dst

def showEvent : Event → String
  | .sent p => "s" ++ showPkt p
  | .failed p e => "f" ++ showPkt p ++ "!" ++ toString e
  | .raised e => "x" ++ toString e

def showPkts (l : List Pkt) : String := ",".intercalate (l.map showPkt)

def showState (s : State) : String :=
  "Q=" ++ showPkts s.txPkts ++ " M=" ++ showPkts s.txMsgs ++ " o=" ++ (if s.opened then "1" else "0")

/-- like `run`, but keeps the events of each call apart and shows the queues after each call -/
def runShow (v : Variant) : State → List Op → List String
  | _, [] => []
  | s, op :: ops =>
    let (s', ev) := Ioflo.Gram.step v s op
    ((if ev.isEmpty then "-" else " ".intercalate (ev.map showEvent)) ++ " ; " ++ showState s')
      :: runShow v s' ops

/-! receive side -/

def recv? (w : String) : Option Recv :=
  match w.toList with
  | ['n'] => some .nothing
  | 'g' :: r =>
    match (String.ofList r).splitOn ":" with
    | [src, i] => do let src ← src.toNat?; let i ← i.toNat?; pure (.dgram ⟨i, src⟩)
    | _ => none
  | 'z' :: r => (String.ofList r).toNat?.map .empty
  | _ => w.toNat?.map .err

def recvs? (s : String) : Option (List Recv) :=
  if s.isEmpty then some [] else (s.splitOn ",").mapM recv?

def rop? (w : String) : Option ROp :=
  match w.toList with
  | ['K'] => some .serviceRxPkts
  | ['c'] => some .close
  | ['o'] => some .reopen
  | 'r' :: r => (String.ofList r).toNat?.map .addRemote
  | 'V' :: r => (recvs? (String.ofList r)).map .serviceReceives
  | 'W' :: r => (recvs? (String.ofList r)).map .serviceReceivesOnce
  | _ => none

def rrunShow : RxState → List ROp → List String
  | _, [] => []
  | s, op :: ops =>
    let (s', e) := rstep s op
    ((match e with | some n => "x" ++ toString n | none => "ok") ++ " ; P=" ++ showPkts s'.rxPkts ++
      " G=" ++ showPkts s'.rxMsgs ++ " T=" ++ showPkts s'.taken ++ " o=" ++ (if s'.opened then "1" else "0"))
      :: rrunShow s' ops

def variant? (s : String) : Option Variant :=
  if s == "asis" then some .asIs else if s == "repaired" then some .repaired else none

def reply (ws : List String) : Option String :=
  match ws with
  | "run" :: v :: ops => do
      let v ← variant? v
      let ops ← ops.mapM op?
      pure (if ops.isEmpty then "-" else " | ".intercalate (runShow v init ops))
  | "rx" :: ops => do
      let ops ← ops.mapM rop?
      pure (if ops.isEmpty then "-" else " | ".intercalate (rrunShow RxState.init ops))
  | "region" :: "D20b" :: ops => do
      let ops ← ops.mapM op?
      pure (toString (onceReorders .repaired init ops))
  | "transient" :: ops => do
      let ops ← ops.mapM op?
      pure (toString (transientOnlyOps ops))
  | _ => none

def step (_ : Unit) (line : String) : Unit × String :=
  match reply (words line) with
  | some r => ((), r)
  | none => ((), "bad-op")

end Ioflo.Drv.Gram

def main : IO Unit := Ioflo.Proto.loop Ioflo.Drv.Gram.step ()
