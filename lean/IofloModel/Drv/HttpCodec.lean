import IofloModel.Model.HttpCodec
import IofloModel.Drv.Proto
/-!
driver for the HTTP codec model (engine `httpcodec`).  Strings travel as hex of their UTF-8 bytes, byte strings
as hex (`-` = empty), Python `None` as `~`.  `begin` clears the table of standard-library results, `std …` lines
fill it (see Drv/Redirect.lean for the idea), then one line per operation:

  packchunk <bytes>                                  → <bytes>
  parsechunk <bytes>                                 → need | err <E> | ok <size> P <parms> T <headers> <data> R <rest>
  packheader <name> (s:<text> | b:<bytes> | i:<n>)*  → <bytes> | err <E>
  parseleader <bytes>                                → need | err <E> | ok H <headers> R <rest>
  build <host> <port> <scheme> <method> <path> <fragment> <body> <json|~> Q <n> (k v)* H <n> (k s:|b:|i:)* F (~ | <n> (k v)*)
                                                     → ok <bytes> <path> Q <n> (k v)* | err <E>
  parsereq <bytes>                                   → need | err <E> | ok …request fields… R <rest>
  environ <scheme> <bytes>                           → need | err <E> | ok <n> (key s:<text>|b:<bytes>)*
  valetenviron <servant ~|0|1> <scheme> <bytes>      → the same for a Valet constructed with servant= / scheme=
  server <servant ~|0|1> <scheme> <port|~>           → err ValueError | ok <scheme> <secured> <port>
  connenviron <servant> <scheme> <bytes>+            → environment held for a connection after these requests (oldest first)
  respond <chunkable 0|1> <date> (~ | <status> <n> (k v)*) items…   → ok <ended 0|1> <bytes> | err <E>
        items: Y <bytes> | S <bytes> | X | E <status> <reason> <title> <detail> <fault|~> <n> (k v)*
  parseresp <method> <closed 0|1> <bytes>            → need | err <E> | ok …response fields… R <rest>
-/
namespace Ioflo.Drv.HttpCodec
open Ioflo.Proto Ioflo.HttpCodec

structure Table where
  urlsplit : List (Str × Split) := []
  unquote : List (Str × Str) := []
  quote : List (Str × Str) := []
  quotePlus : List (Str × Str) := []
  unquotePlus : List (Str × Str) := []

def miss : Str := ['\x00', 'M', 'I', 'S', 'S']
def missSplit : Split := ⟨miss, miss, miss, miss, miss, some miss, some none, miss⟩

def Table.std (t : Table) : Std where
  urlsplit a := (t.urlsplit.lookup a).getD missSplit
  unquote a := (t.unquote.lookup a).getD miss
  quote a := (t.quote.lookup a).getD miss
  quotePlus a := (t.quotePlus.lookup a).getD miss
  unquotePlus a := (t.unquotePlus.lookup a).getD miss

def str? (h : String) : Option Str :=
  match hexToBytes? h with
  | none => none
  | some bs =>
    match String.fromUTF8? (ByteArray.mk (bs.map (fun n => UInt8.ofNat n)).toArray) with
    | some s => some s.toList
    | none => none

def hex (s : Str) : String := bytesToHex ((String.ofList s).toUTF8.toList.map (·.toNat))
def optStr? (h : String) : Option (Option Str) := if h == "~" then some none else (str? h).map some

def fmtErr : Err → String
  | .lineTooLong | .tooManyHeaders | .badRequestLine | .unknownProtocol | .badMethod | .badStatusLine
  | .invalidBody | .invalidHeader | .prematureClosure => "err http"
  | .valueError => "err ValueError"
  | .unicodeError => "err UnicodeError"
  | .assertionError => "err AssertionError"
  | .outOfModel => "err out-of-model"

def fmtHeaders (h : List (Str × Str)) : String :=
  toString h.length ++ String.join (h.map (fun kv => " " ++ hex kv.1 ++ " " ++ hex kv.2))

def fmtParms (p : List (Str × Option Str)) : String :=
  toString p.length ++ String.join (p.map (fun kv => " " ++ hex kv.1 ++ " " ++
    (match kv.2 with | some v => hex v | none => "~")))

def fmtOptBool : Option Bool → String
  | none => "~" | some true => "1" | some false => "0"
def fmtBool (b : Bool) : String := if b then "1" else "0"

def hasMiss (reply : String) : Bool := (reply.splitOn "004d495353").length > 1
def guard (s : String) : String := if hasMiss s then "std-miss" else s

/-- take `2n` tokens as `n` text pairs -/
def takePairs : Nat → List String → Option (List (Str × Str) × List String)
  | 0, rest => some ([], rest)
  | n + 1, k :: v :: rest =>
    match str? k, str? v, takePairs n rest with
    | some k, some v, some (ps, r) => some ((k, v) :: ps, r)
    | _, _, _ => none
  | _, _ => none

def hval? (tok : String) : Option HVal :=
  if tok.startsWith "s:" then (str? (tok.drop 2).toString).map HVal.str
  else if tok.startsWith "b:" then (hexToBytes? (tok.drop 2).toString).map HVal.bytes
  else if tok.startsWith "i:" then ((tok.drop 2).toString.toNat?).map HVal.int
  else none

def takeHPairs : Nat → List String → Option (List (Str × HVal) × List String)
  | 0, rest => some ([], rest)
  | n + 1, k :: v :: rest =>
    match str? k, hval? v, takeHPairs n rest with
    | some k, some v, some (ps, r) => some ((k, v) :: ps, r)
    | _, _, _ => none
  | _, _ => none

def counted {α : Type} (f : Nat → List String → Option (α × List String)) : List String → Option (α × List String)
  | n :: rest => match n.toNat? with
    | some n => f n rest
    | none => none
  | [] => none

def fmtRequest (q : Request) (rest : Bytes) : String :=
  "ok " ++ hex q.method ++ " " ++ hex q.url ++ " " ++ toString q.version.1 ++ "." ++ toString q.version.2 ++ " " ++
  hex q.path ++ " " ++ hex q.scheme ++ " " ++ (match q.hostname with | some h => hex h | none => "~") ++ " " ++
  (match q.port with | some p => toString p | none => "~") ++ " " ++ hex q.query ++ " " ++ hex q.fragment ++
  " H " ++ fmtHeaders q.headers ++ " " ++ fmtBool q.chunked ++ " " ++ bytesToHex q.body ++ " P " ++ fmtParms q.parms ++
  " T " ++ fmtHeaders q.trails ++ " " ++ fmtOptBool q.jsoned ++ " " ++ fmtBool q.persisted ++ " R " ++ bytesToHex rest

def fmtResponse (q : Response) (rest : Bytes) : String :=
  "ok " ++ toString q.version.1 ++ "." ++ toString q.version.2 ++ " " ++ toString q.status ++ " " ++ hex q.reason ++
  " H " ++ fmtHeaders q.headers ++ " " ++ fmtBool q.chunked ++ " " ++ bytesToHex q.body ++ " P " ++ fmtParms q.parms ++
  " T " ++ fmtHeaders q.trails ++ " " ++ fmtOptBool q.jsoned ++ " " ++ fmtBool q.persisted ++ " " ++
  fmtBool q.redirectant ++ " R " ++ bytesToHex rest

def fmtEVal : EVal → String
  | .str s => "s:" ++ hex s
  | .bytes b => "b:" ++ bytesToHex b

/-- items of a `respond` line -/
partial def items? : List String → Option (List AppItem)
  | [] => some []
  | "Y" :: b :: rest => match hexToBytes? b, items? rest with
    | some b, some r => some (.yield b :: r)
    | _, _ => none
  | "S" :: b :: rest => match hexToBytes? b, items? rest with
    | some b, some r => some (.stop b :: r)
    | _, _ => none
  | "X" :: rest => (items? rest).map (fun r => .otherError :: r)
  | "E" :: st :: rs :: ti :: de :: fa :: rest =>
    match st.toNat?, str? rs, str? ti, str? de, counted takePairs rest with
    | some st, some rs, some ti, some de, some (hs, rest') =>
      let fault? : Option (Option Int) := if fa == "~" then some none else (fa.toInt?).map some
      (match fault?, items? rest' with
       | some fault, some r => some (.httpError st rs ti de fault hs :: r)
       | _, _ => none)
    | _, _, _, _, _ => none
  | _ => none

def resStr {α : Type} (r : Res α) (f : α → Bytes → String) : String :=
  match r with
  | .need => "need"
  | .fail e => fmtErr e
  | .done a rest => f a rest

def step (t : Table) (line : String) : Table × String :=
  match words line with
  | ["begin"] => ({}, "ok")
  | ["std", "urlsplit", a, sc, nl, pa, qu, fr, hn, po, gu] =>
    match str? a, str? sc, str? nl, str? pa, str? qu, str? fr, optStr? hn, str? gu with
    | some a, some sc, some nl, some pa, some qu, some fr, some hn, some gu =>
      let port? : Option (Option (Option Nat)) :=
        if po == "!" then some none else if po == "~" then some (some none) else (po.toNat?).map (fun n => some (some n))
      (match port? with
       | some port => ({ t with urlsplit := t.urlsplit ++ [(a, ⟨sc, nl, pa, qu, fr, hn, port, gu⟩)] }, "ok")
       | none => (t, "bad-op"))
    | _, _, _, _, _, _, _, _ => (t, "bad-op")
  | ["std", f, a, r] =>
    match str? a, str? r with
    | some a, some r =>
      if f == "unquote" then ({ t with unquote := t.unquote ++ [(a, r)] }, "ok")
      else if f == "quote" then ({ t with quote := t.quote ++ [(a, r)] }, "ok")
      else if f == "quote_plus" then ({ t with quotePlus := t.quotePlus ++ [(a, r)] }, "ok")
      else if f == "unquote_plus" then ({ t with unquotePlus := t.unquotePlus ++ [(a, r)] }, "ok")
      else (t, "bad-op")
    | _, _ => (t, "bad-op")
  | ["packchunk", b] =>
    match hexToBytes? b with
    | some b => (t, bytesToHex (packChunk b))
    | none => (t, "bad-op")
  | ["parsechunk", b] =>
    match hexToBytes? b with
    | some b => (t, resStr (parseChunk b) (fun c rest =>
        "ok " ++ toString c.size ++ " P " ++ fmtParms c.parms ++ " T " ++ fmtHeaders c.trails ++ " " ++
        bytesToHex c.data ++ " R " ++ bytesToHex rest))
    | none => (t, "bad-op")
  | "packheader" :: name :: vals =>
    match str? name, vals.mapM hval? with
    | some name, some vs =>
      (match packHeader name vs with
       | .ok b => (t, bytesToHex b)
       | .error e => (t, fmtErr e))
    | _, _ => (t, "bad-op")
  | ["parseleader", b] =>
    match hexToBytes? b with
    | some b => (t, resStr (parseLeader b) (fun h rest => "ok H " ++ fmtHeaders h ++ " R " ++ bytesToHex rest))
    | none => (t, "bad-op")
  | "build" :: host :: port :: scheme :: method :: path :: frag :: body :: js :: "Q" :: rest =>
    match str? host, port.toInt?, str? scheme, str? method, str? path, str? frag, hexToBytes? body, optStr? js,
          counted takePairs rest with
    | some host, some port, some scheme, some method, some path, some frag, some body, some js, some (qargs, rest) =>
      (match rest with
       | "H" :: rest =>
         (match counted takeHPairs rest with
          | some (hs, "F" :: rest) =>
            let fargs? : Option (Option (List (Str × Str))) :=
              match rest with
              | ["~"] => some none
              | _ => match counted takePairs rest with
                | some (fa, []) => some (some fa)
                | _ => none
            (match fargs? with
             | some fargs =>
               let r : Requester := ⟨host, port, scheme, method, path, qargs, frag, hs, body, js, fargs⟩
               (match build t.std r with
                | .error e => (t, fmtErr e)
                | .ok (r', msg) => (t, guard ("ok " ++ bytesToHex msg ++ " " ++ hex r'.path ++ " Q " ++ fmtHeaders r'.qargs)))
             | none => (t, "bad-op"))
          | _ => (t, "bad-op"))
       | _ => (t, "bad-op"))
    | _, _, _, _, _, _, _, _, _ => (t, "bad-op")
  | ["parsereq", b] =>
    match hexToBytes? b with
    | some b => (t, guard (resStr (parseRequest t.std b) fmtRequest))
    | none => (t, "bad-op")
  | ["environ", scheme, b] =>
    match str? scheme, hexToBytes? b with
    | some scheme, some b => (t, guard (resStr (parseRequest t.std b) (fun q _ =>
        let env := buildEnviron scheme q
        "ok " ++ toString env.length ++ String.join (env.map (fun kv => " " ++ hex kv.1 ++ " " ++ fmtEVal kv.2)))))
    | _, _ => (t, "bad-op")
  | ["valetenviron", servant, scheme, b] =>
    let sv? : Option (Option Bool) := if servant == "~" then some none else if servant == "1" then some (some true)
      else if servant == "0" then some (some false) else none
    (match sv?, str? scheme, hexToBytes? b with
     | some sv, some scheme, some b => (t, guard (resStr (parseRequest t.std b) (fun q _ =>
        match valetEnviron sv scheme q with
        | .error e => fmtErr e
        | .ok env => "ok " ++ toString env.length ++ String.join (env.map (fun kv => " " ++ hex kv.1 ++ " " ++ fmtEVal kv.2)))))
     | _, _, _ => (t, "bad-op"))
  | "connenviron" :: servant :: scheme :: msgs =>
    -- the environment held for a connection after the requests `msgs` (each a complete request message), oldest first
    let sv? : Option (Option Bool) := if servant == "~" then some none else if servant == "1" then some (some true)
      else if servant == "0" then some (some false) else none
    let qs? : Option (List Request) := msgs.foldr (fun m acc =>
      match acc, hexToBytes? m with
      | some l, some b => (match parseRequest t.std b with
                           | .done q _ => some (q :: l)
                           | _ => none)
      | _, _ => none) (some [])
    (match sv?, str? scheme, qs? with
     | some sv, some scheme, some qs =>
       (match serverScheme sv scheme with
        | .error e => (t, fmtErr e)
        | .ok (sch, _, _) =>
          (match serveConnection sch qs with
           | none => (t, "need")
           | some env => (t, guard ("ok " ++ toString env.length ++
               String.join (env.map (fun kv => " " ++ hex kv.1 ++ " " ++ fmtEVal kv.2))))))
     | _, _, _ => (t, "bad-op"))
  | ["server", servant, scheme, port] =>
    let sv? : Option (Option Bool) := if servant == "~" then some none else if servant == "1" then some (some true)
      else if servant == "0" then some (some false) else none
    let port? : Option (Option Nat) := if port == "~" then some none else port.toNat?.map some
    (match sv?, str? scheme, port? with
     | some sv, some scheme, some port =>
       (match serverScheme sv scheme with
        | .error e => (t, fmtErr e)
        | .ok (sch, sec, dp) => (t, "ok " ++ hex sch ++ " " ++ fmtBool sec ++ " " ++ toString (serverPort port dp)))
     | _, _, _ => (t, "bad-op"))
  | "respond" :: ch :: date :: rest =>
    match str? date with
    | none => (t, "bad-op")
    | some date =>
      if ch != "0" && ch != "1" then (t, "bad-op") else
      let parsed : Option (Option (Str × List (Str × Str)) × List String) :=
        match rest with
        | "~" :: rest => some (none, rest)
        | st :: rest => (match str? st, counted takePairs rest with
          | some st, some (hs, rest) => some (some (st, hs), rest)
          | _, _ => none)
        | [] => none
      (match parsed with
       | some (start, rest) =>
         (match items? rest with
          | some items =>
            (match Responder.run date (items.length + 3) { chunkable := ch == "1" } ⟨start, items⟩ false [] with
             | .error e => (t, fmtErr e)
             | .ok (r, out) => (t, "ok " ++ fmtBool r.ended ++ " " ++ bytesToHex out))
          | none => (t, "bad-op"))
       | none => (t, "bad-op"))
  | ["parseresp", method, closed, b] =>
    match str? method, hexToBytes? b with
    | some method, some b =>
      if closed != "0" && closed != "1" then (t, "bad-op") else
      (t, resStr (parseResponse method (closed == "1") b) fmtResponse)
    | _, _ => (t, "bad-op")
  | _ => (t, "bad-op")

end Ioflo.Drv.HttpCodec

def main : IO Unit := Ioflo.Proto.loop Ioflo.Drv.HttpCodec.step {}
