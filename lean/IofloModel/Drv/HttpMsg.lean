import IofloModel.Model.HttpMsg
import IofloModel.Drv.Proto
/-! driver for the HTTP message parser model (engine `httpmsg`).

request  `<req|rsp>[!] <METHOD> <max> <op> ...`   (`!` = the unrepaired `except HTTPException` of parseMessage)   op = `f<hex>` (msg.extend + parse) | `p` (parse) | `c` (close) |
                                               `n` (makeParser + parse)
reply    the parser fields, ` | ` separated, in the format of harness/props/c29.py `run_impl`
-/
namespace Ioflo.Drv.HttpMsg
open Ioflo.Proto Ioflo.Http

def hx (b : Bytes) : String := bytesToHex b
def ohx : Option Bytes → String
  | none => "N"
  | some b => hx b
def tfn : Option Bool → String
  | none => "N"
  | some true => "T"
  | some false => "F"
def onat : Option Nat → String
  | none => "N"
  | some n => toString n
def ver : Option (Nat × Nat) → String
  | none => "N"
  | some (a, b) => toString a ++ toString b

def excName : Exc → String
  | .valueError => "ValueError"
  | .unicodeDecodeError => "UnicodeDecodeError"
  | _ => "HTTPException"

def render (s : St) : String :=
  let c := s.core
  if c.gen = .unmodelled then "state unmodelled" else
  let esc := match c.escaped with
    | some e => excName e
    | none => if c.stopIter then "StopIteration" else "~"
  let l0 := "state escaped=" ++ esc ++ " ended=" ++ tfn c.ended ++ " errored=" ++ tfn (some c.errored) ++
    " parser=" ++ (if c.gen = .none then "none" else "live")
  let l1 := match c.kind with
    | .req => "start " ++ hx c.method ++ " " ++ hx c.url ++ " " ++ ver c.version
    | .rsp => "start " ++ ver c.version ++ " " ++ onat c.status ++ " " ++ ohx c.reason
  let l2 := "flags chunked=" ++ tfn c.chunked ++ " length=" ++ onat c.length ++ " persisted=" ++ tfn c.persisted
  let hs := match c.headers with
    | none => [ "hdrs N" ]
    | some h => h.map (fun p => "hdr " ++ hx p.1 ++ " " ++ hx p.2)
  let pm := match c.parms with
    | none => [ "parms N" ]
    | some h => h.map (fun p => "parm " ++ hx p.1 ++ " " ++ (match p.2 with | none => "~" | some v => hx v))
  let tr := match c.trails with
    | none => [ "trails N" ]
    | some h => h.map (fun p => "trail " ++ hx p.1 ++ " " ++ hx p.2)
  String.intercalate " | " ([l0, l1, l2] ++ hs ++ ["body " ++ hx c.body] ++ pm ++ tr ++ ["left " ++ hx s.msg])

def runOps : St → List String → Option St
  | s, [] => some s
  | s, op :: ops =>
    if op = "c" then runOps (close s) ops
    else if op = "p" then runOps (parse s) ops
    else if op = "n" then runOps (parse (makeParser s)) ops
    else match op.toList with
      | 'f' :: h => match hexToBytes? (String.ofList h) with
        | some b => runOps (feed s b) ops
        | none => none
      | _ => none

def step (_ : Unit) (line : String) : Unit × String :=
  match words line with
  | k :: m :: mx :: ops =>
    let kind? : Option (Kind × Bool) :=
      if k = "req" then some (.req, true) else if k = "rsp" then some (.rsp, true)
      else if k = "req!" then some (.req, false) else if k = "rsp!" then some (.rsp, false) else none
    match kind?, mx.toNat? with
    | some (kind, cve), some max =>
      let s0 := init kind (m.toList.map Char.toNat) max
      match runOps { s0 with core := { s0.core with catchVE := cve } } ops with
      | some s => ((), render s)
      | none => ((), "bad-op")
    | _, _ => ((), "bad-op")
  | _ => ((), "bad-op")

end Ioflo.Drv.HttpMsg

def main : IO Unit := Ioflo.Proto.loop Ioflo.Drv.HttpMsg.step ()
