import IofloModel.Model.HttpPorter
import IofloModel.Drv.Proto
/-! driver for the HTTP message parser model (engine `httpmsg`).

request  `<req|rsp>[!] <METHOD> <max> <op> ...`   (`!` = the unrepaired `except HTTPException` of parseMessage, `~` = parms/trails not reset: before fixes/D29c)   op = `f<hex>` (msg.extend + parse) | `p` (parse) | `c` (close) |
                                               `n` (makeParser + parse) | `m` (makeParser only)
reply    the parser fields, ` | ` separated, in the format of harness/props/c29.py `run_impl`
request  `valet <max> <0|1> <op> ...`          the connection table of a Valet (`1` = repaired parseMessage):
                                               `k<ca>` connect, `r<ca>:<hex>` receive, `s` serviceAll
request  `client <METHOD> <max> <0|1> <op> ...`  a Patron awaiting one response: `f<hex>` receive + serviceResponse, `c` cutoff
reply    `raised=<T|F> waited=<T|F> responses=<ok|E,...> left=<hex>`
reply    `raised=<T|F> | <ca> closed | <ca> served=<n> parser=<none|live> left=<hex> ...`
-/
namespace Ioflo.Drv.HttpMsg
open Ioflo.Proto Ioflo.Http

def hx (b : Bytes) : String := bytesToHex b
def ohx : Option Bytes → String
  | none => "N"
  | some b => hx b
def tfn : Option Bool → String
  | none => "N"
  | some true => "T"
  | some false => "F"
def onat : Option Nat → String
  | none => "N"
  | some n => toString n
def ver : Option (Nat × Nat) → String
  | none => "N"
  | some (a, b) => toString a ++ toString b

def excName : Exc → String
  | .valueError => "ValueError"
  | .unicodeDecodeError => "UnicodeDecodeError"
  | _ => "HTTPException"

def render (s : St) : String :=
  let c := s.core
  if c.gen = .unmodelled then "state unmodelled" else
  let esc := match c.escaped with
    | some e => excName e
    | none => if c.stopIter then "StopIteration" else "~"
  let l0 := "state escaped=" ++ esc ++ " ended=" ++ tfn c.ended ++ " errored=" ++ tfn (some c.errored) ++
    " parser=" ++ (if c.gen = .none then "none" else "live")
  let l1 := match c.kind with
    | .req => "start " ++ hx c.method ++ " " ++ hx c.url ++ " " ++ ver c.version
    | .rsp => "start " ++ ver c.version ++ " " ++ onat c.status ++ " " ++ ohx c.reason
  let l2 := "flags chunked=" ++ tfn c.chunked ++ " length=" ++ onat c.length ++ " persisted=" ++ tfn c.persisted
  let hs := match c.headers with
    | none => [ "hdrs N" ]
    | some h => h.map (fun p => "hdr " ++ hx p.1 ++ " " ++ hx p.2)
  let pm := match c.parms with
    | none => [ "parms N" ]
    | some h => h.map (fun p => "parm " ++ hx p.1 ++ " " ++ (match p.2 with | none => "~" | some v => hx v))
  let tr := match c.trails with
    | none => [ "trails N" ]
    | some h => h.map (fun p => "trail " ++ hx p.1 ++ " " ++ hx p.2)
  -- an event-stream response: what the Respondent shows of its event source
  let sse := if c.kind = .rsp ∧ c.evented = some true then
      ("sse retry=" ++ toString c.retry ++ " leid=" ++ ohx c.leid) ::
        c.events.map (fun e => "ev " ++ ohx e.id ++ " " ++ hx e.name ++ " " ++ hx e.data)
    else []
  String.intercalate " | " ([l0, l1, l2] ++ hs ++ ["body " ++ hx c.body] ++ pm ++ tr ++ ["left " ++ hx s.msg] ++ sse)

def runOps : St → List String → Option St
  | s, [] => some s
  | s, op :: ops =>
    if op = "c" then runOps (close s) ops
    else if op = "p" then runOps (parse s) ops
    else if op = "n" then runOps (parse (makeParser s)) ops
    else if op = "m" then runOps (makeParser s) ops
    else match op.toList with
      | 'f' :: h => match hexToBytes? (String.ofList h) with
        | some b => runOps (feed s b) ops
        | none => none
      | _ => none

/-- ops of the connection table model: `k<ca>` connect, `r<ca>:<hex>` receive, `s` serviceAll -/
def valetOps (max : Nat) (cve : Bool) : Valet → List Nat → List String → Option (Valet × List Nat)
  | v, cas, [] => some (v, cas)
  | v, cas, op :: ops =>
    if v.raised then some (v, cas) else
    match op.toList with
    | ['s'] => valetOps max cve v.serviceAll cas ops
    | ['t'] => valetOps max cve v.serviceStewards cas ops
    | 'z' :: d => match (String.ofList d).toNat? with
      | some ca => valetOps max cve (v.stall ca true) cas ops
      | none => none
    | 'u' :: d => match (String.ofList d).toNat? with
      | some ca => valetOps max cve (v.stall ca false) cas ops
      | none => none
    | 'k' :: d => match (String.ofList d).toNat? with
      | some ca => valetOps max cve (v.connect ca max cve) (if cas.contains ca then cas else cas ++ [ca]) ops
      | none => none
    | 'r' :: d => match (String.ofList d).splitOn ":" with
      | [a, h] => match a.toNat?, hexToBytes? h with
        | some ca, some b => valetOps max cve (v.recv ca b) cas ops
        | _, _ => none
      | _ => none
    | _ => none

def renderValet (v : Valet) (cas : List Nat) : String :=
  let l0 := "raised=" ++ (if v.raised then "T" else "F")
  let ls := cas.map (fun ca => match lookup ca v.conns with
    | none => toString ca ++ " closed"
    | some c => if c.req.core.gen = .unmodelled then toString ca ++ " unmodelled" else
        toString ca ++ " served=" ++ toString c.served ++ " parser=" ++
        (if c.req.core.gen = .none then "none" else "live") ++ " left=" ++ hx c.req.msg)
  String.intercalate " | " (l0 :: ls)

def clientOps : Client → List String → Option Client
  | c, [] => some c
  | c, op :: ops =>
    if op = "c" then clientOps c.closed ops
    else match op.toList with
      | 'f' :: h => match hexToBytes? (String.ofList h) with
        | some b => clientOps (c.recv b) ops
        | none => none
      | _ => none

def renderClient (c : Client) : String :=
  if c.rsp.core.gen = .unmodelled then "client unmodelled" else
  "raised=" ++ (if c.raised then "T" else "F") ++ " waited=" ++ (if c.waited then "T" else "F") ++
  " responses=" ++ String.intercalate "," (c.responses.map (fun e => if e then "E" else "ok")) ++
  " left=" ++ hx c.rsp.msg

def step (_ : Unit) (line : String) : Unit × String :=
  match words line with
  | "client" :: m :: mx :: cv :: ops =>
    match mx.toNat? with
    | some max =>
      let s0 := init .rsp (m.toList.map Char.toNat) max
      match clientOps { rsp := { s0 with core := { s0.core with catchVE := (cv == "1") } } } ops with
      | some c => ((), renderClient c)
      | none => ((), "bad-op")
    | none => ((), "bad-op")
  | "valet" :: mx :: cv :: ops =>
    match mx.toNat? with
    | some max =>
      match valetOps max (cv == "1") {} [] ops with
      | some (v, cas) => ((), renderValet v cas)
      | none => ((), "bad-op")
    | none => ((), "bad-op")
  | k :: m :: mx :: ops =>
    let base := String.ofList (k.toList.filter (fun ch => ch ≠ '!' && ch ≠ '~'))
    let cve := ¬ k.toList.contains '!'
    let rpt := ¬ k.toList.contains '~'
    let kind? : Option Kind := if base = "req" then some .req else if base = "rsp" then some .rsp else none
    match kind?, mx.toNat? with
    | some kind, some max =>
      let s0 := init kind (m.toList.map Char.toNat) max
      match runOps { s0 with core := { s0.core with catchVE := cve, resetPT := rpt } } ops with
      | some s => ((), render s)
      | none => ((), "bad-op")
    | _, _ => ((), "bad-op")
  | _ => ((), "bad-op")

end Ioflo.Drv.HttpMsg

def main : IO Unit := Ioflo.Proto.loop Ioflo.Drv.HttpMsg.step ()
