import IofloModel.Model.Idle
import IofloModel.Drv.Proto
/-!
driver for the idle-timeout model (engine `idle`, C28)

  reset <orig|fixed> <tls 0|1> <valet|porter> <T>
  tick <d> (servant's store) | ticka <d> (the HTTP server's own store) | arrive | connects | rx <id> <n> | eof <id> | tx <id> <n> | txb <id> <n>
  cp <id> <10|11|xx> <close 0|1> <keepalive 0|1> <chunked 0|1> <length 0|1>
  req <id> <n> <10|11|xx> <close> <keepalive> <chunked> <length>     (n bytes of request arrive and the head is parsed)
reply (every op): `now=<t> conns=<id:timeout:stop:cutoff:persisted,…> closed=<id:at:cutoff,…>`
(`closed` = connections closed by this operation; persisted is N (None), T or F).
-/
namespace Ioflo.Drv.Idle
open Ioflo.Proto Ioflo.Idle

def bool? : String → Option Bool
  | "0" => some false
  | "1" => some true
  | _ => none

def b01 (b : Bool) : String := if b then "1" else "0"

def pers : Option Bool → String
  | none => "N" | some true => "T" | some false => "F"

def showConns (l : List Conn) : String :=
  if l.isEmpty then "." else
  ",".intercalate (l.map fun c => s!"{c.id}:{c.timeout}:{c.stop}:{b01 c.cutoff}:{pers c.persisted}")

def showClosed (l : List Closed) : String :=
  if l.isEmpty then "." else ",".intercalate (l.map fun e => s!"{e.id}:{e.at_}:{b01 e.cutoff}")

def render (old s : State) : String :=
  s!"now={s.now} conns={showConns s.conns} closed={showClosed (s.closedLog.drop old.closedLog.length)}"

def apply (st : Option State) (op : Op) : Option State × String :=
  match st with
  | none => (none, "bad-op")
  | some s => let s' := Ioflo.Idle.step s op; (some s', render s s')

def step (st : Option State) (line : String) : Option State × String :=
  match words line with
  | ["reset", v, tls, front, t] =>
    match (if v == "orig" then some Version.orig else if v == "fixed" then some Version.fixed else none),
          bool? tls,
          (if front == "valet" then some Front.valet else if front == "porter" then some Front.porter else none),
          t.toNat? with
    | some v, some tls, some f, some t => (some (init v tls f t), "ok")
    | _, _, _, _ => (st, "bad-op")
  | ["tick", d] => match d.toNat? with | some d => apply st (.tick d) | none => (st, "bad-op")
  | ["ticka", d] => match d.toNat? with | some d => apply st (.tickApp d) | none => (st, "bad-op")
  | ["arrive"] => apply st .arrive
  | ["connects"] => apply st .serviceConnects
  | ["rx", i, n] => match i.toNat?, n.toNat? with | some i, some n => apply st (.rx i n) | _, _ => (st, "bad-op")
  | ["eof", i] => match i.toNat? with | some i => apply st (.eof i) | none => (st, "bad-op")
  | ["tx", i, n] => match i.toNat?, n.toNat? with | some i, some n => apply st (.tx i n) | _, _ => (st, "bad-op")
  | ["txb", i, n] => match i.toNat?, n.toNat? with | some i, some n => apply st (.txBlocked i n) | _, _ => (st, "bad-op")
  | ["cp", i, ver, cl, ka, ch, ln] =>
    match i.toNat?,
          (if ver == "10" then some HttpVer.v10 else if ver == "11" then some HttpVer.v11
           else if ver == "xx" then some HttpVer.other else none),
          bool? cl, bool? ka, bool? ch, bool? ln with
    | some i, some ver, some cl, some ka, some ch, some ln => apply st (.checkPersisted i ver cl ka ch ln)
    | _, _, _, _, _, _ => (st, "bad-op")
  | ["req", i, n, ver, cl, ka, ch, ln] =>
    match i.toNat?, n.toNat?,
          (if ver == "10" then some HttpVer.v10 else if ver == "11" then some HttpVer.v11
           else if ver == "xx" then some HttpVer.other else none),
          bool? cl, bool? ka, bool? ch, bool? ln with
    | some i, some n, some ver, some cl, some ka, some ch, some ln => apply st (.request i n ver cl ka ch ln)
    | _, _, _, _, _, _, _ => (st, "bad-op")
  | _ => (st, "bad-op")

end Ioflo.Drv.Idle

def main : IO Unit := Ioflo.Proto.loop Ioflo.Drv.Idle.step none
