import IofloModel.Model.Imports
import IofloModel.Generated.ImportGraph
import IofloModel.Drv.Proto
/-!
driver for the import model (engine `imports`), over the generated graph.

  reset                 → `ok`                      sys.modules of a newly started interpreter
  load <dotted name>    → `ok` | `ERR <class> <module whose statement raised> <line>`
                          the host program executes `import <name>` in the current state
  state                 → `<module>:<n names>:<fnv1a-64 of the sorted names joined by ','> …` for every present
                          module of the tree under test, sorted by module name (`-` when none)
  present               → names of all present modules of the graph (ioflo and others), sorted
  ns <dotted name>      → sorted names bound in that module (`-` when none / absent)
  stale <dotted name>   → `true` | `false`   region predicate of known finding D01c
  val <module> <ident>  → `unbound` | `obj` | `mod <module>`   what the identifier is bound to in the module
  nodes                 → number of nodes, size of the property's domain
-/
namespace Ioflo.Drv.Imports
open Ioflo.Proto Ioflo.Imports

def g : Graph := Gen.graph

def modId? (name : String) : Option Mod := Gen.modNames.findIdx? (· == name)

def modName (m : Mod) : String :=
  if m == g.main then "__main__" else Gen.modNames.getD m ("#" ++ toString m)

def identName (n : Name) : String := Gen.identNames.getD n ("#" ++ toString n)

def excName : Exc → String
  | .moduleNotFound _ => "ModuleNotFoundError"
  | .importError => "ImportError"
  | .attributeError => "AttributeError"
  | .nameError => "NameError"
  | .other _ => "Other"
  | .outOfFuel => "OUT-OF-FUEL"
  | .unknown => "UNKNOWN"

def fnv1a (s : String) : UInt64 :=
  s.toUTF8.foldl (fun h b => (h ^^^ b.toUInt64) * 1099511628211) 14695981039346656037

/-- names bound in module `m`, sorted (the row is extracted once; bits are tested on the small row) -/
def sortedNames (s : State) (m : Mod) : List String :=
  let rlo := Mat.row s.lo g.nRel m
  let rhi := Mat.row s.hi g.nHi m
  let ids := (List.range Gen.identNames.size).filter (fun n =>
    if n < g.nRel then rlo.testBit n else rhi.testBit (n - g.nRel))
  ((ids.map identName).toArray.qsort (· < ·)).toList

def showNs (s : State) (m : Mod) : String :=
  let l := sortedNames s m
  toString l.length ++ ":" ++ natToHex 16 (fnv1a (",".intercalate l)).toNat

def isIoflo (m : Mod) : Bool :=
  match g.node? m with
  | some nd => nd.ioflo
  | none => false

def byName (ids : List Mod) : List Mod :=
  (ids.toArray.qsort (fun a b => modName a < modName b)).toList

def stateLine (s : State) : String :=
  let ids := byName ((List.range g.nNodes).filter (fun m => s.isPresent m && isIoflo m))
  let parts := ids.map (fun m => modName m ++ ":" ++ showNs s m)
  if parts.isEmpty then "-" else " ".intercalate parts

def step (s : State) (line : String) : State × String :=
  match words line with
  | ["reset"] => (fresh g, "ok")
  | ["load", name] =>
    match modId? name with
    | none => (s, "bad-op")
    | some m =>
      match importModule g s m with
      | (s', none) => (s', "ok")
      | (s', some err) => (s', "ERR " ++ excName err.exc ++ " " ++ modName err.mod ++ " " ++ toString err.line)
  | ["state"] => (s, stateLine s)
  | ["present"] =>
    let ids := byName ((List.range g.nNodes).filter (fun m => s.isPresent m))
    (s, if ids.isEmpty then "-" else " ".intercalate (ids.map modName))
  | ["ns", name] =>
    match modId? name with
    | none => (s, "bad-op")
    | some m =>
      let l := sortedNames s m
      (s, if l.isEmpty then "-" else " ".intercalate l)
  | ["stale", name] =>
    match modId? name with
    | none => (s, "bad-op")
    | some m => (s, toString (staleFrom g m))
  | ["nodes"] => (s, toString g.nNodes ++ " " ++ toString g.domain.length)
  | ["val", name, ident] =>
    match modId? name, Gen.identNames.findIdx? (· == ident) with
    | some m, some n =>
      match s.val g m n with
      | none => (s, "unbound")
      | some .obj => (s, "obj")
      | some (.mod t) => (s, "mod " ++ modName t)
    | _, _ => (s, "bad-op")
  | _ => (s, "bad-op")

end Ioflo.Drv.Imports

def main : IO Unit := Ioflo.Proto.loop Ioflo.Drv.Imports.step (Ioflo.Imports.fresh Ioflo.Drv.Imports.g)
