import IofloModel.Model.Imports
import IofloModel.Generated.ImportGraph
import IofloModel.Drv.Proto
/-!
driver for the import model (engine `imports`), over the generated graph.

  reset                 → `ok`                      sys.modules of a newly started interpreter
  load <dotted name>    → `ok` | `ERR <class> <module whose statement raised> <line>`
                          the host program executes `import <name>` in the current state
  state                 → `<module>:<n names>:<fnv1a-64 of the sorted names joined by ','> …` for every present
                          module of the tree under test, sorted by module name (`-` when none)
  present               → names of all present modules of the graph (ioflo and others), sorted
  ns <dotted name>      → sorted names bound in that module (`-` when none / absent)
  stale <dotted name>   → `true` | `false`   region predicate of known finding D01c
  val <module> <ident>  → `unbound` | `obj` | `mod <module>`   what the identifier is bound to in the module
  variant <module> absent|stub|importerror|notfoundother → `ok`   the same tree on a host where the optional
                          module presents itself so (resets the state); `variant -` returns to the measured host
  nodes                 → number of nodes, size of the property's domain
-/
namespace Ioflo.Drv.Imports
open Ioflo.Proto Ioflo.Imports

def g : Graph := Gen.graph

/-- driver state: the host variant of the graph in force, and the interpreter state -/
structure DS where
  g : Graph
  s : State

def modId? (name : String) : Option Mod := Gen.modNames.findIdx? (· == name)

def modName (m : Mod) : String :=
  if m == g.main then "__main__" else Gen.modNames.getD m ("#" ++ toString m)

def identName (n : Name) : String := Gen.identNames.getD n ("#" ++ toString n)

def excName : Exc → String
  | .moduleNotFound _ => "ModuleNotFoundError"
  | .importError => "ImportError"
  | .attributeError => "AttributeError"
  | .nameError => "NameError"
  | .other _ => "Other"
  | .outOfFuel => "OUT-OF-FUEL"
  | .unknown => "UNKNOWN"

def fnv1a (s : String) : UInt64 :=
  s.toUTF8.foldl (fun h b => (h ^^^ b.toUInt64) * 1099511628211) 14695981039346656037

/-- names bound in module `m`, sorted (the row is extracted once; bits are tested on the small row) -/
def sortedNames (s : State) (m : Mod) : List String :=
  let rlo := Mat.row s.lo g.nRel m
  let rhi := Mat.row s.hi g.nHi m
  let ids := (List.range Gen.identNames.size).filter (fun n =>
    if n < g.nRel then rlo.testBit n else rhi.testBit (n - g.nRel))
  ((ids.map identName).toArray.qsort (· < ·)).toList

def showNs (s : State) (m : Mod) : String :=
  let l := sortedNames s m
  toString l.length ++ ":" ++ natToHex 16 (fnv1a (",".intercalate l)).toNat

def isIoflo (m : Mod) : Bool :=
  match g.node? m with
  | some nd => nd.ioflo
  | none => false

def byName (ids : List Mod) : List Mod :=
  (ids.toArray.qsort (fun a b => modName a < modName b)).toList

def stateLine (s : State) : String :=
  let ids := byName ((List.range g.nNodes).filter (fun m => s.isPresent m && isIoflo m))
  let parts := ids.map (fun m => modName m ++ ":" ++ showNs s m)
  if parts.isEmpty then "-" else " ".intercalate parts

def kind? : String → Option OptKind
  | "absent" => some .absent
  | "stub" => some .stub
  | "importerror" => some .importError
  | "notfoundother" => some .notFoundOther
  | _ => none

def step (d : DS) (line : String) : DS × String :=
  let g := d.g
  let s := d.s
  let st (s' : State) : DS := ⟨g, s'⟩
  match words line with
  | ["reset"] => (st (fresh g), "ok")
  | ["variant", "-"] => (⟨Gen.graph, fresh Gen.graph⟩, "ok")
  | ["variant", name, kind] =>
    match modId? name, kind? kind with
    | some x, some k =>
      -- no separate "stub" variant for a module the measured interpreter has (same rule as `optKinds`)
      let allowed : Bool := match Gen.graph.baseNode? x with
        | some nd => !(nd.exists_ && k == .stub)
        | none => true
      if allowed then
        let g' := Gen.graph.withOpt x k
        (⟨g', fresh g'⟩, "ok")
      else (d, "bad-op")
    | _, _ => (d, "bad-op")
  | ["load", name] =>
    match modId? name with
    | none => (d, "bad-op")
    | some m =>
      match importModule g s m with
      | (s', none) => (st s', "ok")
      | (s', some err) => (st s', "ERR " ++ excName err.exc ++ " " ++ modName err.mod ++ " " ++ toString err.line)
  | ["state"] => (d, stateLine s)
  | ["present"] =>
    let ids := byName ((List.range g.nNodes).filter (fun m => s.isPresent m))
    (d, if ids.isEmpty then "-" else " ".intercalate (ids.map modName))
  | ["ns", name] =>
    match modId? name with
    | none => (d, "bad-op")
    | some m =>
      let l := sortedNames s m
      (d, if l.isEmpty then "-" else " ".intercalate l)
  | ["stale", name] =>
    match modId? name with
    | none => (d, "bad-op")
    | some m => (d, toString (staleFrom g m))
  | ["nodes"] => (d, toString g.nNodes ++ " " ++ toString g.domain.length)
  | ["val", name, ident] =>
    match modId? name, Gen.identNames.findIdx? (· == ident) with
    | some m, some n =>
      match s.val g m n with
      | none => (d, "unbound")
      | some .obj => (d, "obj")
      | some (.mod t) => (d, "mod " ++ modName t)
    | _, _ => (d, "bad-op")
  | _ => (d, "bad-op")

end Ioflo.Drv.Imports

def main : IO Unit :=
  Ioflo.Proto.loop Ioflo.Drv.Imports.step ⟨Ioflo.Drv.Imports.g, Ioflo.Imports.fresh Ioflo.Drv.Imports.g⟩
