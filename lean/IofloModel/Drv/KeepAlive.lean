import IofloModel.Model.KeepAlive
import IofloModel.Drv.Proto
/-!
driver for the keep-alive model (engine `keepalive`).  One case per line:

  ka <n> (A <cl|~> <bodyless-status 0|1> <head-request 0|1> <k> <piece-hex>*){n} S <schedule: string of c / s>
     → <delivered>:<served> per step, `;`-joined (or `-`) | final <waited> <stuck> <n> (<req> <tag> <body>)* F (L<n> | C | U)*

  pipe <n> (A <cl|~> <bodyless 0|1> <head 0|1> <close 0|1> <k> <piece-hex>*){n}
     → handled <h> alive <0|1> D <m> (<req> <tag> <body>)*                       (pipeline-level model)

request `i` (0-based) has identity `i`; the `i`-th `A` block is what the application does for it.
-/
namespace Ioflo.Drv.KeepAlive
open Ioflo.Proto Ioflo.KeepAlive

def takeHex : Nat → List String → Option (List Bytes × List String)
  | 0, rest => some ([], rest)
  | n + 1, h :: rest =>
    match hexToBytes? h, takeHex n rest with
    | some b, some (bs, r) => some (b :: bs, r)
    | _, _ => none
  | _, _ => none

partial def apps? : Nat → List String → Option (List (AppResp × Bool) × List String)
  | 0, rest => some ([], rest)
  | n + 1, "A" :: cl :: bl :: hd :: k :: rest =>
    let cl? : Option (Option Nat) := if cl == "~" then some none else (cl.toNat?).map some
    let flag? (t : String) : Option Bool := if t == "1" then some true else if t == "0" then some false else none
    match cl?, flag? bl, flag? hd, k.toNat? with
    | some cl, some bl, some hd, some k =>
      (match takeHex k rest with
       | some (ps, rest') =>
         (match apps? n rest' with
          | some (as, r) => some (({ cl := cl, pieces := ps, bodyless := bl }, hd) :: as, r)
          | none => none)
       | none => none)
    | _, _, _, _ => none
  | _, _ => none

/-- blocks of the `pipe` command: `A <cl|~> <bodyless> <head> <close> <k> <piece>*` -/
partial def xapps? : Nat → List String → Option (List (AppResp × Bool × Bool) × List String)
  | 0, rest => some ([], rest)
  | n + 1, "A" :: cl :: bl :: hd :: cs :: k :: rest =>
    let opt? (t : String) : Option (Option Nat) := if t == "~" then some none else (t.toNat?).map some
    let flag? (t : String) : Option Bool := if t == "1" then some true else if t == "0" then some false else none
    match opt? cl, flag? bl, flag? hd, flag? cs, k.toNat? with
    | some cl, some bl, some hd, some cs, some k =>
      (match takeHex k rest with
       | some (ps, rest') =>
         (match xapps? n rest' with
          | some (as, r) => some (({ cl := cl, pieces := ps, bodyless := bl }, hd, cs) :: as, r)
          | none => none)
       | none => none)
    | _, _, _, _, _ => none
  | _, _ => none

def fmtFraming : Framing → String
  | .length n => "L" ++ toString n
  | .chunked => "C"
  | .untilClose => "U"

def step (_ : Unit) (line : String) : Unit × String :=
  match words line with
  | "ka" :: n :: rest =>
    match n.toNat? with
    | none => ((), "bad-op")
    | some n =>
      match apps? n rest with
      | some (apps, ["S", sch]) =>
        let whos? : Option (List Who) := sch.toList.mapM (fun c => if c == 'c' then some Who.client else if c == 's' then some Who.server else none)
        (match whos? with
         | none => ((), "bad-op")
         | some whos =>
           let app : Req → AppResp := fun q => (apps.getD q.id ({ cl := none, pieces := [] }, false)).1
           let reqs := (List.range n).map (fun i => ({ id := i, head := (apps.getD i ({ cl := none, pieces := [] }, false)).2 } : Req))
           let (final, trace) := whos.foldl (fun (acc : Sys × List String) w =>
             let y := Ioflo.KeepAlive.step app acc.1 w
             (y, acc.2 ++ [toString y.c.responses.length ++ ":" ++ toString y.s.served])) (initSys reqs, [])
           let tr := if trace.isEmpty then "-" else ";".intercalate trace
           let c := final.c
           ((), tr ++ " | final " ++ (if c.waited then "1" else "0") ++ " " ++ (if c.stuck then "1" else "0") ++ " " ++
             toString c.responses.length ++
             String.join (c.responses.map (fun d => " " ++ toString d.req ++ " " ++ toString d.tag ++ " " ++ bytesToHex d.body)) ++
             " F" ++ String.join (final.s.heads.map (fun f => " " ++ fmtFraming f))))
      | _ => ((), "bad-op")
  | "pipe" :: n :: rest =>
    match n.toNat? with
    | none => ((), "bad-op")
    | some n =>
      match xapps? n rest with
      | some (apps, []) =>
        let dflt : AppResp × Bool × Bool := ({ cl := none, pieces := [] }, false, false)
        let app : Req → AppResp := fun q => (apps.getD q.id dflt).1
        let reqs := (List.range n).map (fun i => ({ id := i, head := (apps.getD i dflt).2.1, close := (apps.getD i dflt).2.2 } : Req))
        let o := pipeline app reqs
        let ds := o.1.filterMap (fun x => x.2)
        ((), "handled " ++ toString o.1.length ++ " alive " ++ (if o.2 then "1" else "0") ++ " D " ++ toString ds.length ++
          String.join (ds.map (fun d => " " ++ toString d.req ++ " " ++ toString d.tag ++ " " ++ bytesToHex d.body)))
      | _ => ((), "bad-op")
  | _ => ((), "bad-op")

end Ioflo.Drv.KeepAlive

def main : IO Unit := Ioflo.Proto.loop Ioflo.Drv.KeepAlive.step ()
