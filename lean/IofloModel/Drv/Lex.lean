import IofloModel.Model.LexLoad
import IofloModel.Drv.Proto
/-! driver for the FloScript reader model (engine `lex`).

Texts cross the protocol as the hex of their UTF-8 bytes (`-` = empty).

request  `cmds <hex text>`      reply: the token lists `Builder.dispatch` receives (repaired tokenize):
                                commands separated by `;`, tokens by `,`, each token hex; `-` = none
request  `cmdsold <hex text>`   same for `tokenize` as found in the repository
request  `chunks <hex line>`    reply: `REO_Chunks.findall(line)`, hex chunks separated by `,`
request  `tree <fix 0|1> <depth> <hex text of the top file> <files>`   files = `-` or `name:text;name:text` (both hex);
                                reply `<done|ioerror|parseerror|depth> <commands as for cmds>`: the read loop with `load`
request  `layout <words…>`      a `Layout` (grammar below); reply `<ok 0|1> <spaceLead 0|1> <hex render> <erase as for cmds>`

layout words:  `P` run* ( `C` run run* )*        -- filler runs, then commands (first run = head)
   run  = `R` ( `M` lead toks trail k )* `T` lead toks trail ending
   lead, trail = hex | `-`;  toks = `-` | n:hex(,n:hex)*;  k = Nat;  ending = `p` | `c:<gap>:<hex|->`
-/
namespace Ioflo.Drv.Lex
open Ioflo.Proto Ioflo.Lex

def decode? (h : String) : Option Str :=
  match hexToBytes? h with
  | none => none
  | some bs =>
    match String.fromUTF8? (ByteArray.mk (bs.map UInt8.ofNat).toArray) with
    | some s => some s.toList
    | none => none

def encode (s : Str) : String :=
  bytesToHex ((String.ofList s).toUTF8.toList.map UInt8.toNat)

def encTokens (ts : List Str) : String := ",".intercalate (ts.map encode)

def encCmds (cs : List (List Str)) : String :=
  if cs.isEmpty then "-" else ";".intercalate (cs.map encTokens)

def parseTok (w : String) : Option (Nat × Str) :=
  match w.splitOn ":" with
  | [n, h] => match n.toNat?, decode? h with
    | some n, some t => some (n, t)
    | _, _ => none
  | _ => none

def parseToks (w : String) : Option (List (Nat × Str)) :=
  if w == "-" then some [] else (w.splitOn ",").mapM parseTok

def parseSeg (lead toks trail : String) : Option Seg :=
  match decode? lead, parseToks toks, decode? trail with
  | some l, some ts, some tr => some { lead := l, toks := ts, trail := tr }
  | _, _, _ => none

def parseEnding (w : String) : Option Ending :=
  if w == "p" then some .plain else
  match w.splitOn ":" with
  | ["c", g, h] => match g.toNat?, decode? h with
    | some g, some t => some (.comment g t)
    | _, _ => none
  | _ => none

/-- after an `R`: mids then the `T` line; returns the run and the remaining words -/
def parseRun : List String → List (Seg × Nat) → Option (Run × List String)
  | "M" :: lead :: toks :: trail :: k :: rest, acc =>
    match parseSeg lead toks trail, k.toNat? with
    | some s, some k => parseRun rest (acc ++ [(s, k)])
    | _, _ => none
  | "T" :: lead :: toks :: trail :: e :: rest, acc =>
    match parseSeg lead toks trail, parseEnding e with
    | some s, some e => some ({ mids := acc, last := s, ending := e }, rest)
    | _, _ => none
  | _, _ => none

/-- runs up to the next `C` or the end -/
partial def parseRuns : List String → List Run → Option (List Run × List String)
  | "R" :: rest, acc =>
    match parseRun rest [] with
    | some (r, rest') => parseRuns rest' (acc ++ [r])
    | none => none
  | ws, acc => some (acc, ws)

partial def parseCmds : List String → List Cmd → Option (List Cmd)
  | [], acc => some acc
  | "C" :: rest, acc =>
    match parseRuns rest [] with
    | some (h :: conts, rest') => parseCmds rest' (acc ++ [{ head := h, conts := conts }])
    | _ => none
  | _, _ => none

def parseLayout : List String → Option Layout
  | "P" :: rest =>
    match parseRuns rest [] with
    | some (pre, rest') =>
      match parseCmds rest' [] with
      | some cmds => some { pre := pre, cmds := cmds }
      | none => none
    | none => none
  | _ => none

def parseFiles (w : String) : Option (List (Str × Str)) :=
  if w == "-" then some [] else
  (w.splitOn ";").mapM (fun e => match e.splitOn ":" with
    | [n, t] => (match decode? n, (if t == "-" then some [] else decode? t) with
                 | some n, some t => some (n, t)
                 | _, _ => none)
    | _ => none)

def showStop : Stop → String
  | .done => "done" | .ioError => "ioerror" | .parseError => "parseerror" | .depth => "depth"

def step (_ : Unit) (line : String) : Unit × String :=
  match words line with
  | ["tree", fix, depth, h, files] =>
    match depth.toNat?, (if h == "-" then some [] else decode? h), parseFiles files with
    | some d, some t, some fl =>
      let r := readTreeG (fix == "1") (filesOf fl) d t
      ((), showStop r.2 ++ " " ++ encCmds r.1)
    | _, _, _ => ((), "bad-op")
  | ["cmds", h] =>
    match decode? h with
    | some t => ((), encCmds (commands t))
    | none => ((), "bad-op")
  | ["cmdsold", h] =>
    match decode? h with
    | some t => ((), encCmds (commandsOld t))
    | none => ((), "bad-op")
  | ["chunks", h] =>
    match decode? h with
    | some t => ((), let c := chunks t; if c.isEmpty then "-" else encTokens c)
    | none => ((), "bad-op")
  | "layout" :: ws =>
    match parseLayout ws with
    | some L => ((), (if L.ok then "1" else "0") ++ " " ++ (if L.spaceLead then "1" else "0") ++ " " ++ encode L.render ++ " " ++ encCmds L.erase)
    | none => ((), "bad-op")
  | _ => ((), "bad-op")

end Ioflo.Drv.Lex

def main : IO Unit := Ioflo.Proto.loop Ioflo.Drv.Lex.step ()
