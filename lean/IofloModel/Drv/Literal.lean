import IofloModel.Model.Literal
import IofloModel.Drv.Proto
/-! driver for the literal converter model (engine `literal`).

request  `conv <k> <hex text>`   k = 0 Convert2Num, 1 Convert2CoordNum, 2 Convert2BoolCoordNum,
         3 Convert2StrBoolCoordNum, 4 Convert2PointNum, 5 Convert2CoordPointNum, 6 Convert2BoolCoordPointNum,
         7 Convert2PathCoordPointNum, 8 Convert2BoolPathCoordPointNum, 9 Convert2StrBoolPathCoordPointNum
request  `flat <d|g|n> <hex text>`  the documented flat order for direct data / need goals / numbers
request  `strip <hex text>`      StripQuotes
reply    `ERR` (ValueError) | `none` | `bool 0|1` | `str <hex>` | `int <decimal>` | `float F` | `complex F F`
         | `coord <neg> F F` | `point <kind> F…`;  F = `f:<neg>:<mant>:<exp>` | `inf:<neg>` | `nan`
         `unmodelled` when the text holds a non-ASCII character outside quotes that is not white space
-/
namespace Ioflo.Drv.Literal
open Ioflo.Proto Ioflo.Literal

def decode? (h : String) : Option Str :=
  match hexToBytes? h with
  | none => none
  | some bs =>
    match String.fromUTF8? (ByteArray.mk (bs.map UInt8.ofNat).toArray) with
    | some s => some s.toList
    | none => none

def encode (s : Str) : String :=
  bytesToHex ((String.ofList s).toUTF8.toList.map UInt8.toNat)

def b01 (b : Bool) : String := if b then "1" else "0"

def showF : FloatV → String
  | .fin d => "f:" ++ b01 d.neg ++ ":" ++ toString d.mant ++ ":" ++ toString d.exp
  | .inf n => "inf:" ++ b01 n
  | .nan => "nan"

def kindStr : PointKind → String
  | .xy => "Pxy" | .ne => "Pne" | .fs => "Pfs" | .xyz => "Pxyz" | .ned => "Pned" | .fsb => "Pfsb"

def showRes : Res → String
  | .error _ => "ERR"
  | .ok .none => "none"
  | .ok (.bool b) => "bool " ++ b01 b
  | .ok (.str s) => "str " ++ encode s
  | .ok (.int i) => "int " ++ toString i
  | .ok (.float f) => "float " ++ showF f
  | .ok (.complex a b) => "complex " ++ showF a ++ " " ++ showF b
  | .ok (.coord n d m) => "coord " ++ b01 n ++ " " ++ showF d ++ " " ++ showF m
  | .ok (.point k cs) => "point " ++ kindStr k ++ String.join (cs.map (fun c => " " ++ showF c))

def modelled (t : Str) : Bool :=
  quotedBy '"' t || quotedBy '\'' t || t.all (fun c => c.toNat < 128 || isPySpace c)

def conv (k : Nat) (t : Str) : Option Res :=
  match k with
  | 0 => some (convert2Num t)
  | 1 => some (convert2CoordNum t)
  | 2 => some (convert2BoolCoordNum t)
  | 3 => some (convert2StrBoolCoordNum t)
  | 4 => some (convert2PointNum t)
  | 5 => some (convert2CoordPointNum t)
  | 6 => some (convert2BoolCoordPointNum t)
  | 7 => some (convert2PathCoordPointNum t)
  | 8 => some (convert2BoolPathCoordPointNum t)
  | 9 => some (convert2StrBoolPathCoordPointNum t)
  | _ => none

def step (_ : Unit) (line : String) : Unit × String :=
  match words line with
  | ["conv", k, h] =>
    match k.toNat?, decode? h with
    | some k, some t =>
      if !modelled t then ((), "unmodelled") else
      (match conv k t with
       | some r => ((), showRes r)
       | none => ((), "bad-op"))
    | _, _ => ((), "bad-op")
  | ["flat", o, h] =>
    match decode? h with
    | some t =>
      if !modelled t then ((), "unmodelled") else
      if o == "d" then ((), showRes (firstOf orderDirect t))
      else if o == "g" then ((), showRes (firstOf orderGoal t))
      else if o == "n" then ((), showRes (firstOf orderNum t))
      else ((), "bad-op")
    | none => ((), "bad-op")
  | ["strip", h] =>
    match decode? h with
    | some t => ((), "str " ++ encode (stripQuotes t))
    | none => ((), "bad-op")
  | _ => ((), "bad-op")

end Ioflo.Drv.Literal

def main : IO Unit := Ioflo.Proto.loop Ioflo.Drv.Literal.step ()
