import IofloModel.Model.LogRules
import IofloModel.Drv.Proto
/-!
driver for the log-rule model (engine `logrules`).  One case = `reset`, some `log …` lines, then
operations, then `dump i` lines.

```
reset                                    → ok
log <rule> <base> <old|-> <loggees|->    → ok      loggees = tag:sid:f1,f2;tag:sid:
stamp <int|none> | adv <n>               → ok
write|poke <sid> <field> <val>           → ok
append <sid> <field> <elem>              → ok
setitem <sid> <field> <key> <atom>       → ok
push <sid> <entry>                       → ok
hold <sid> <field>                       → ok      the producer takes `ref = share[field]` (reference number = order)
happend <i> <elem> | hsetitem <i> <k> <atom>   → ok      `ref.append(e)` / `ref[k] = a` through reference i
hpush <sid> <entry>                      → ok      `dk.append(e)` through a held `dk = share.deck`
probe                                    → - | <is>:<len>,…   per reference: `ref is share[field]`, `len(ref)`
dprobe <sid>                             → <is>:<len>        of a held `share.deck`
ctl ready|start|run|stop|abort           → ok | ERR <PythonExceptionName>
dump <i>                                 → absent | file lines joined by the two characters \n
region D12                               → in | out
```
atoms `N` `T` `F` `i<int>` `s<text>`; elements: an atom, `U<atom>+<atom>…` (tuple, `U` = `()`),
`V<atom>+…` (list); values: an atom, `U…` (tuple), `L<elem>,<elem>…` (list), `K<elem>,…` (collections.deque), `D<k>=<atom>,…` (dict),
`Q<k>=<atom>,…` (odict); entries `M<f>=<elem>,…` (mapping) / `O<elem>` / `OL<atom>,…` (non-mappings).
Stamps are in units of 1/8 s and are printed as Python prints the float.
-/
namespace Ioflo.Drv.LogRules
open Ioflo.Proto Ioflo.LogRules

def splitC (c : Char) (s : String) : List String := s.splitOn (String.singleton c)

def parseAtom (s : String) : Option Atom :=
  match s.toList with
  | ['N'] => some .none
  | ['T'] => some (.bool true)
  | ['F'] => some (.bool false)
  | 'i' :: rest => (String.ofList rest).toInt?.map .int
  | 's' :: rest => some (.str (String.ofList rest))
  | _ => none

def parseAtoms (s : String) : Option (List Atom) :=
  if s.isEmpty then some [] else (splitC ',' s).mapM parseAtom

/-- atoms joined by `+` (the inside of a tuple or of an inner list) -/
def parsePlus (s : String) : Option (List Atom) :=
  if s.isEmpty then some [] else (splitC '+' s).mapM parseAtom

def parseElem (s : String) : Option Elem :=
  match s.toList with
  | 'U' :: rest => (parsePlus (String.ofList rest)).map .tuple
  | 'V' :: rest => (parsePlus (String.ofList rest)).map .list
  | _ => (parseAtom s).map .atom

def parseElems (s : String) : Option (List Elem) :=
  if s.isEmpty then some [] else (splitC ',' s).mapM parseElem

def parseKV (s : String) : Option (String × Atom) :=
  match splitC '=' s with
  | [k, v] => (parseAtom v).map fun a => (k, a)
  | _ => none

/-- `k=atom,…` built with `d[k] = v`, so that a repeated key keeps one binding -/
def parseDict (s : String) : Option (Dict Atom) :=
  if s.isEmpty then some []
  else ((splitC ',' s).mapM parseKV).map fun kvs => kvs.foldl (fun d kv => dset d kv.1 kv.2) []

def parseVal (s : String) : Option Val :=
  match s.toList with
  | 'L' :: rest => (parseElems (String.ofList rest)).map (.list false)
  | 'K' :: rest => (parseElems (String.ofList rest)).map (.list true)
  | 'U' :: rest => (parsePlus (String.ofList rest)).map .tuple
  | 'D' :: rest => (parseDict (String.ofList rest)).map (.dict false)
  | 'Q' :: rest => (parseDict (String.ofList rest)).map (.dict true)
  | _ => (parseAtom s).map .atom

/-- a field of a mapping deck entry: `f=<element>` -/
def parseKE (s : String) : Option (String × Val) :=
  match splitC '=' s with
  | [k, v] => (parseElem v).map fun e => (k, e.toVal)
  | _ => none

def parseEntry (s : String) : Option Entry :=
  match s.toList with
  | 'M' :: rest =>
    let r := String.ofList rest
    if r.isEmpty then some (.map [])
    else ((splitC ',' r).mapM parseKE).map fun kvs => .map (kvs.foldl (fun d kv => dset d kv.1 kv.2) [])
  | 'O' :: 'L' :: rest => (parseAtoms (String.ofList rest)).map fun l => .other (.list l)
  | 'O' :: rest => (parseElem (String.ofList rest)).map .other
  | _ => none

def parseRule : String → Option Rule
  | "never" => some .never | "once" => some .once | "always" => some .always
  | "update" => some .update | "change" => some .change | "streak" => some .streak
  | "deck" => some .deck | _ => none

def parseLoggee (s : String) : Option (String × Nat × List String) :=
  match splitC ':' s with
  | [tag, sid, fs] =>
    match sid.toNat? with
    | some n => some (tag, n, if fs.isEmpty then [] else splitC ',' fs)
    | none => none
  | _ => none

def parseCtl : String → Option Ctl
  | "ready" => some .ready | "start" => some .start | "run" => some .run
  | "stop" => some .stop | "abort" => some .abort | _ => none

/-! rendering, as Python's `'%s' % x` -/

/-- `str(k / 8.0)` for an integer number of eighths -/
def showEighths (k : Int) : String :=
  let neg := k < 0
  let n := k.natAbs
  let frac := match n % 8 with
    | 0 => "0" | 1 => "125" | 2 => "25" | 3 => "375" | 4 => "5" | 5 => "625" | 6 => "75" | _ => "875"
  (if neg then "-" else "") ++ toString (n / 8) ++ "." ++ frac

def showStamp : Option Int → String
  | none => "None"
  | some k => showEighths k

def showAtom : Atom → String
  | .none => "None"
  | .bool true => "True"
  | .bool false => "False"
  | .int i => toString i
  | .str s => s

def reprAtom : Atom → String
  | .str s => "'" ++ s ++ "'"
  | a => showAtom a

def reprTuple (l : List Atom) : String :=
  "(" ++ ", ".intercalate (l.map reprAtom) ++ (if l.length = 1 then ",)" else ")")

def reprList (l : List Atom) : String := "[" ++ ", ".intercalate (l.map reprAtom) ++ "]"

def reprElem : Elem → String
  | .atom a => reprAtom a
  | .tuple l => reprTuple l
  | .list l => reprList l

def showVal : Val → String
  | .atom a => showAtom a
  | .tuple l => reprTuple l
  | .list false l => "[" ++ ", ".intercalate (l.map reprElem) ++ "]"
  | .list true l => "deque([" ++ ", ".intercalate (l.map reprElem) ++ "])"
  | .dict false d => "{" ++ ", ".intercalate (d.map fun (k, v) => "'" ++ k ++ "': " ++ reprAtom v) ++ "}"
  | .dict true d =>
    "odict([" ++ ", ".intercalate (d.map fun (k, v) => "('" ++ k ++ "', " ++ reprAtom v ++ ")") ++ "])"

def ruleName : Rule → String
  | .never => "Never" | .once => "Once" | .always => "Always" | .update => "Update"
  | .change => "Change" | .streak => "Streak" | .deck => "Deck"

def showLine : Line → List String
  | .header r base cols =>
    ["text\t" ++ ruleName r ++ "\t" ++ base, "_time" ++ String.join (cols.map ("\t" ++ ·))]
  | .record r =>
    [showStamp r.stamp ++ String.join (r.cells.map fun c =>
      "\t" ++ match c with | some v => showVal v | none => "")]
  | .raw s => [s]

def errName : Err → String
  | .attributeError => "AttributeError" | .keyError => "KeyError" | .valueError => "ValueError"
  | .indexError => "IndexError" | .stopIteration => "StopIteration"

/-! the D12 region: a write to a loggee of an update log that already logged at this store stamp -/

def valLen : Val → String
  | .list _ l => toString l.length
  | .dict _ d => toString d.length
  | _ => "x"

/-- `<ref is share[f]>:<len(ref)>` of a held reference -/
def showHeld (w : World) (h : Held) : String :=
  if h.void then "void" else
  match h.orphan with
  | some v => "0:" ++ valLen v
  | none => "1:" ++ (match dget (w.shares h.sid).data h.f with | some v => valLen v | none => "x")

structure St where
  init : Sys := {}
  ops : List Op := []      -- reversed
  cur : Sys := {}

def doOp (st : St) (op : Op) : St × String :=
  let (s', out) := st.cur.step op
  ({ st with cur := s', ops := op :: st.ops },
   match out with | .ok => "ok" | .err e => "ERR " ++ errName e)

def step (st : St) (line : String) : St × String :=
  match words line with
  | ["reset"] => ({}, "ok")
  | ["log", rule, base, old, lgs] =>
    match parseRule rule with
    | none => (st, "bad-op")
    | some r =>
      let disk? : Option (Option (List Line)) :=
        if old = "-" then some none
        else old.toNat?.map fun n => some ((List.range n).map fun i => .raw ("old" ++ toString i))
      let lgs? : Option (List (String × Nat × List String)) :=
        if lgs = "-" then some [] else (splitC ';' lgs).mapM parseLoggee
      match disk?, lgs?, st.ops with
      | some disk, some lg, [] =>
        let l : Log := { rule := r, base := base, disk := disk,
                         loggees := lg.map fun (t, s, _) => (t, s),
                         fields := lg.map fun (t, _, fs) => (t, fs) }
        let s := { st.cur with logs := st.cur.logs ++ [l] }
        ({ init := s, ops := [], cur := s }, "ok")
      | _, _, _ => (st, "bad-op")
  | ["stamp", t] =>
    if t = "none" then doOp st (.w (.setStamp none))
    else match t.toInt? with
      | some k => doOp st (.w (.setStamp (some k)))
      | none => (st, "bad-op")
  | ["adv", d] =>
    match d.toNat? with
    | some n => doOp st (.w (.advance n))
    | none => (st, "bad-op")
  | ["write", sid, f, v] =>
    match sid.toNat?, parseVal v with
    | some s, some x => doOp st (.w (.write s f x))
    | _, _ => (st, "bad-op")
  | ["poke", sid, f, v] =>
    match sid.toNat?, parseVal v with
    | some s, some x => doOp st (.w (.poke s f x))
    | _, _ => (st, "bad-op")
  | ["append", sid, f, a] =>
    match sid.toNat?, parseElem a with
    | some s, some x => doOp st (.w (.append s f x))
    | _, _ => (st, "bad-op")
  | ["setitem", sid, f, k, a] =>
    match sid.toNat?, parseAtom a with
    | some s, some x => doOp st (.w (.setitem s f k x))
    | _, _ => (st, "bad-op")
  | ["hold", sid, f] =>
    match sid.toNat? with
    | some s => doOp st (.w (.hold s f))
    | none => (st, "bad-op")
  | ["happend", i, a] =>
    match i.toNat?, parseElem a with
    | some n, some x => doOp st (.w (.happend n x))
    | _, _ => (st, "bad-op")
  | ["hsetitem", i, k, a] =>
    match i.toNat?, parseAtom a with
    | some n, some x => doOp st (.w (.hsetitem n k x))
    | _, _ => (st, "bad-op")
  | ["hpush", sid, e] =>
    match sid.toNat?, parseEntry e with
    | some s, some x => doOp st (.w (.hpush s x))
    | _, _ => (st, "bad-op")
  | ["probe"] =>
    (st, if st.cur.world.held.isEmpty then "-" else ",".intercalate (st.cur.world.held.map (showHeld st.cur.world)))
  | ["dprobe", sid] =>
    match sid.toNat? with
    | some s => (st, "1:" ++ toString (st.cur.world.shares s).deck.length)
    | none => (st, "bad-op")
  | ["push", sid, e] =>
    match sid.toNat?, parseEntry e with
    | some s, some x => doOp st (.w (.push s x))
    | _, _ => (st, "bad-op")
  | ["ctl", c] =>
    match parseCtl c with
    | some x => doOp st (.ctl x)
    | none => (st, "bad-op")
  | ["dump", i] =>
    match i.toNat? with
    | some n =>
      match st.cur.logs[n]? with
      | some l =>
        match l.disk with
        | none => (st, "absent")
        | some [] => (st, "empty")
        | some ls => (st, "\\n".intercalate (ls.flatMap showLine))
      | none => (st, "bad-op")
    | none => (st, "bad-op")
  | ["region", "D12"] => (st, if lateWrite st.init st.ops.reverse then "in" else "out")
  | _ => (st, "bad-op")

end Ioflo.Drv.LogRules

def main : IO Unit := Ioflo.Proto.loop Ioflo.Drv.LogRules.step {}
