import IofloModel.Model.Marks
import IofloModel.Drv.Proto
/-!
driver for the marks model (engine `marks`, C20)

request (one line, blank separated tokens):
  `run <nshares> init* <nframes> frame* <nticks> tick*`
    init  := `<nfields> (<field> <val>)*`
    frame := `<name> <over: -|=frame> <nG> guard* <nGN> need* <nE> write* <nR> write* <nX> write* <nT> trans*`
    guard := `<0|1 negated> <share> <field>`          (`let me if [not] field in share`)
    write := `P <share> <nfields> (<field> <val>)*`  (Share.update, stamps)
           | `C <share> <nfields> (<field> <val>)*`  (Share.change, no stamp)
    trans := `<far> <nneeds> need*`         far := `next` | `me` | `=<frame>`
    need  := `<u|c> <0|1> <share> <clause> <by>`   clause := `-` | `me` | `=<frame>`;  by := `-` | `=<marker>`
    tick  := `<nWb> write* <nWa> write*`
    val   := `N` | `B0` | `B1` | `I<int>` | `D<int>/<nat>` (= m/2^e) | `S<hex>`
reply: per tick `<active frame name><*|.>` (`*` = the reader (re-)entered a frame in this tick),
       or `ERR build` when resolve fails.
  `hist u <ev>*`   ev := `u<t>` | `e<t>` | `x<t>`      → `1`/`0`  (updatedAfter)
-/
namespace Ioflo.Drv.Marks
open Ioflo.Proto Ioflo.Marks

abbrev P (α : Type) := List String → Option (α × List String)

def tok : P String
  | [] => none
  | t :: r => some (t, r)

def nat : P Nat := fun ts => do
  let (t, r) ← tok ts
  let n ← t.toNat?
  return (n, r)

/-- `n` repetitions of `p` -/
def rep {α : Type} (p : P α) : Nat → P (List α)
  | 0, ts => some ([], ts)
  | n + 1, ts => do
    let (a, r) ← p ts
    let (as, r) ← rep p n r
    return (a :: as, r)

/-- counted list -/
def many {α : Type} (p : P α) : P (List α) := fun ts => do
  let (n, r) ← nat ts
  rep p n r

def asciiOf (bs : List Nat) : String := String.ofList (bs.map Char.ofNat)

def val : P PyVal := fun ts => do
  let (t, r) ← tok ts
  match t.toList with
  | ['N'] => return (.none, r)
  | ['B', '0'] => return (.bool false, r)
  | ['B', '1'] => return (.bool true, r)
  | 'I' :: cs => let i ← (String.ofList cs).toInt?; return (.int i, r)
  | 'D' :: cs =>
    match (String.ofList cs).splitOn "/" with
    | [m, e] => let m ← m.toInt?; let e ← e.toNat?; return (.flt m e, r)
    | _ => none
  | 'S' :: cs => let bs ← hexToBytes? (String.ofList cs); return (.str (asciiOf bs), r)
  | _ => none

def field : P (String × PyVal) := fun ts => do
  let (k, r) ← tok ts
  let (v, r) ← val r
  return ((k, v), r)

def write : P Write := fun ts => do
  let (t, r) ← tok ts
  let (s, r) ← nat r
  let (fs, r) ← many field r
  match t with
  | "P" => return (.put s fs, r)
  | "C" => return (.chg s fs, r)
  | _ => none

def eqName (t : String) : Option String :=
  match t.toList with
  | '=' :: cs => some (String.ofList cs)
  | _ => none

def need : P NeedSrc := fun ts => do
  let (k, r) ← tok ts
  let kind ← (match k with | "u" => some Kind.update | "c" => some Kind.change | _ => none)
  let (n, r) ← tok r
  let neg ← (match n with | "0" => some false | "1" => some true | _ => none)
  let (s, r) ← nat r
  let (c, r) ← tok r
  let clause ← (match c with
    | "-" => some Clause.absent
    | "me" => some Clause.me
    | c => (eqName c).map Clause.named)
  let (b, r) ← tok r
  let by_ ← (match b with | "-" => some "" | b => eqName b)
  return (⟨kind, neg, s, clause, by_⟩, r)

def trans : P TransSrc := fun ts => do
  let (f, r) ← tok ts
  let far ← (match f with
    | "next" => some Far.next
    | "me" => some Far.me
    | f => (eqName f).map Far.named)
  let (ns, r) ← many need r
  return (⟨far, ns⟩, r)

def guard : P Guard := fun ts => do
  let (n, r) ← tok ts
  let neg ← (match n with | "0" => some false | "1" => some true | _ => none)
  let (s, r) ← nat r
  let (f, r) ← tok r
  return (⟨neg, s, f⟩, r)

def frame : P FrameSrc := fun ts => do
  let (name, r) ← tok ts
  let (o, r) ← tok r
  let over ← (match o with | "-" => some none | o => (eqName o).map some)
  let (g, r) ← many guard r
  let (gn, r) ← many need r
  let (e, r) ← many write r
  let (c, r) ← many write r
  let (x, r) ← many write r
  let (t, r) ← many trans r
  return (⟨name, over, g, gn, e, c, x, t⟩, r)

def tickP : P (List Write × List Write) := fun ts => do
  let (b, r) ← many write ts
  let (a, r) ← many write r
  return ((b, a), r)

def writeOk (n : Nat) : Write → Bool
  | .put s _ => s < n
  | .chg s _ => s < n

/-- guards read fields that exist from the start, and the first frame has none (a framer whose first
frame refuses entry never starts; not modelled) -/
def guardsOk (inits : List Fields) (p : Program) : Bool :=
  p.all (fun f => f.guards.all (fun g =>
    match inits[g.share]? with
    | some d => (d.lookup g.field).isSome
    | none => false)) &&
  ((p.head?.map (fun f => f.guards.isEmpty)).getD true)

def progOk (n : Nat) (p : Program) (sched : Schedule) : Bool :=
  p.all (fun f => f.enter.all (writeOk n) && f.recur.all (writeOk n) && f.exit.all (writeOk n) &&
    f.trans.all (fun t => t.needs.all (fun nd => nd.share < n)) && f.gneeds.all (fun nd => nd.share < n)) &&
  sched.all (fun t => t.1.all (writeOk n) && t.2.all (writeOk n)) && !p.isEmpty

def showObs (r : Resolved) (o : Nat × Bool) : String :=
  ((r.frames[o.1]?.map (·.name)).getD "?") ++ (if o.2 then "*" else ".")

def runLine (ts : List String) : Option String := do
  let (inits, r) ← many (many field) ts
  let (p, r) ← many frame r
  let (sched, r) ← many tickP r
  if r ≠ [] then none
  if !progOk inits.length p sched then none
  if !guardsOk inits p then none
  match resolve p with
  | .error _ => return "ERR build"
  | .ok rs =>
    -- the over links must form a forest (the real builder hangs on a cycle), and the first outline
    -- must be enterable without conditions (a framer whose first outline refuses entry never starts)
    if !(acyclic rs.frames) then none
    if !((outline rs.frames 0).all (fun j => ((rs.frames[j]?.map (·.guards)).getD []).isEmpty && ((rs.frames[j]?.map (·.gneeds)).getD []).isEmpty)) then none
    let (_, obs, _) := run rs inits sched
    return " ".intercalate (obs.map (showObs rs))

def uev (t : String) : Option UEv :=
  match t.toList with
  | 'u' :: cs => (String.ofList cs).toNat?.map UEv.upd
  | 'e' :: cs => (String.ofList cs).toNat?.map UEv.entry
  | 'x' :: cs => (String.ofList cs).toNat?.map UEv.transit
  | _ => none

def step (_ : Unit) (line : String) : Unit × String :=
  match words line with
  | "run" :: ts => ((), (runLine ts).getD "bad-op")
  | "hist" :: "u" :: ts =>
    match ts.mapM uev with
    | some h => ((), if updatedAfter h then "1" else "0")
    | none => ((), "bad-op")
  | _ => ((), "bad-op")

end Ioflo.Drv.Marks

def main : IO Unit := Ioflo.Proto.loop Ioflo.Drv.Marks.step ()
