import IofloModel.Model.Need
import IofloModel.Drv.RatProto
/-!
driver for the need model (engine `need`).

values:  `N` None | `B0` `B1` bool | `Q<p>/<q>` number | `S<cp>,<cp>,…` string (`S` = empty)
cmp:     `==` `!=` `<` `<=` `>=` `>`; any other token is an unknown comparison string

    check <state> <cmp> <goal> <tol>          → T | F | E TypeError
    truthy <val>                              → T | F
    all <env> <clauses>                       → T | F | E TypeError     (one evaluation of a need list)
    frame <period p/q> <limit> <env> <clauses>→ hit <j> | miss | E TypeError

env:     `-` or `k=val;k=val;…`
clauses: `-` or `;`-separated, each `[!]b:<k>` or `[!]c:<k>:<cmp>:<L<val>|R<k>>:<tol>`
-/
namespace Ioflo.Drv.Need
open Ioflo.Proto Ioflo.Need Ioflo.RatProto

def parseCps? (s : String) : Option (List Nat) :=
  if s.isEmpty then some [] else
  (s.splitOn ",").foldr (fun w acc => match parseNat? w, acc with
    | some n, some l => some (n :: l)
    | _, _ => none) (some [])

def parseVal? (s : String) : Option PyVal :=
  match s.toList with
  | ['N'] => some .none
  | ['B', '0'] => some (.bool false)
  | ['B', '1'] => some (.bool true)
  | 'Q' :: rest => (parseRat? (String.ofList rest)).map .num
  | 'S' :: rest => (parseCps? (String.ofList rest)).map .str
  | _ => none

def parseCmp (s : String) : Cmp :=
  if s == "==" then .eq else if s == "!=" then .ne else if s == "<" then .lt
  else if s == "<=" then .le else if s == ">=" then .ge else if s == ">" then .gt else .other

def parseEnv? (s : String) : Option Env :=
  if s == "-" then some [] else
  (s.splitOn ";").foldr (fun item acc =>
    match item.splitOn "=", acc with
    | [k, v], some l =>
      match parseNat? k, parseVal? v with
      | some k, some v => some ((k, v) :: l)
      | _, _ => none
    | _, _ => none) (some [])

def parseGoal? (s : String) : Option Goal :=
  match s.toList with
  | 'L' :: rest => (parseVal? (String.ofList rest)).map .lit
  | 'R' :: rest => (parseNat? (String.ofList rest)).map .ref
  | _ => none

def parseClause? (s : String) : Option Clause :=
  let (neg, body) := match s.toList with
    | '!' :: rest => (true, String.ofList rest)
    | _ => (false, s)
  match body.splitOn ":" with
  | ["b", k] => (parseNat? k).map (fun k => ⟨neg, .boolean k⟩)
  | ["c", k, c, g, t] =>
    match parseNat? k, parseGoal? g, parseVal? t with
    | some k, some g, some t => some ⟨neg, .compare k (parseCmp c) g t⟩
    | _, _, _ => none
  | _ => none

def parseClauses? (s : String) : Option (List Clause) :=
  if s == "-" then some [] else
  (s.splitOn ";").foldr (fun item acc => match parseClause? item, acc with
    | some c, some l => some (c :: l)
    | _, _ => none) (some [])

def showRes : Except Err Bool → String
  | .ok true => "T"
  | .ok false => "F"
  | .error .typeError => "E TypeError"

def step (_ : Unit) (line : String) : Unit × String :=
  match words line with
  | ["check", s, c, g, t] =>
    match parseVal? s, parseVal? g, parseVal? t with
    | some s, some g, some t => ((), showRes (check s (parseCmp c) g t))
    | _, _, _ => ((), "bad-op")
  | ["truthy", v] =>
    match parseVal? v with
    | some v => ((), if truthy v then "T" else "F")
    | none => ((), "bad-op")
  | ["all", e, cs] =>
    match parseEnv? e, parseClauses? cs with
    | some e, some cs => ((), showRes (evalAll e cs))
    | _, _ => ((), "bad-op")
  | ["frame", p, l, e, cs] =>
    match parseRat? p, parseNat? l, parseEnv? e, parseClauses? cs with
    | some p, some l, some e, some cs =>
      ((), match runFrame p l e cs with
        | .hit j => "hit " ++ toString j
        | .miss => "miss"
        | .raised .typeError => "E TypeError")
    | _, _, _, _ => ((), "bad-op")
  | _ => ((), "bad-op")

end Ioflo.Drv.Need

def main : IO Unit := Ioflo.Proto.loop Ioflo.Drv.Need.step ()
