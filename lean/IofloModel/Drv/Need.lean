import IofloModel.Model.Need
import IofloModel.Drv.RatProto
/-!
driver for the need model (engine `need`).

every request starts with `q` (exact rationals, numbers `Q<p>/<q>`) or `f` (the same definitions at Lean Float =
IEEE binary64, numbers `X<16 hex digits>` = bit pattern)
values:  `N` None | `B0` `B1` bool | `Q<p>/<q>` / `X<hex16>` number | `S<cp>,<cp>,…` string (`S` = empty)
cmp:     `==` `!=` `<` `<=` `>=` `>`; any other token is an unknown comparison string

    check <state> <cmp> <goal> <tol>          → T | F | E TypeError
    truthy <val>                              → T | F
    all <env> <clauses>                       → T | F | E TypeError     (one evaluation of a need list)
    frame <period> <limit> <env> <clauses>    → hit <j> | miss | E TypeError
    guarded <env> <guard clauses> <clauses>   → blocked | hit | miss | E TypeError   (`let me if guard` + `go … if clauses`)

env:     `-` or `k=val;k=val;…`
clauses: `-` or `;`-separated, each `[!]b:<k>` or `[!]c:<k>:<cmp>:<L<val>|R<k>>:<tol>`
-/
namespace Ioflo.Drv.Need
open Ioflo.Proto Ioflo.Need Ioflo.RatProto

def parseCps? (s : String) : Option (List Nat) :=
  if s.isEmpty then some [] else
  (s.splitOn ",").foldr (fun w acc => match parseNat? w, acc with
    | some n, some l => some (n :: l)
    | _, _ => none) (some [])

class Codec (τ : Type) where
  tag : Char
  parse : String → Option τ

instance : Codec Rat where
  tag := 'Q'
  parse := parseRat?

def parseHex64? (s : String) : Option Nat :=
  if s.length ≠ 16 then none else
  s.toList.foldl (fun acc c => match acc, hexDigit? c with
    | some n, some d => some (n * 16 + d)
    | _, _ => none) (some 0)

instance : Codec Float where
  tag := 'X'
  parse s := (parseHex64? s).map (fun n => Float.ofBits (UInt64.ofNat n))

section generic
variable {τ : Type} [Add τ] [Sub τ] [Neg τ] [Mul τ] [LT τ] [LE τ] [DecidableLT τ] [DecidableLE τ] [BEq τ]
  [OfNat τ 0] [OfNat τ 1] [Codec τ]

def parseVal? (s : String) : Option (PyVal τ) :=
  match s.toList with
  | ['N'] => some .none
  | ['B', '0'] => some (.bool false)
  | ['B', '1'] => some (.bool true)
  | 'S' :: rest => (parseCps? (String.ofList rest)).map .str
  | c :: rest => if c == Codec.tag τ then (Codec.parse (String.ofList rest) : Option τ).map .num else none
  | _ => none

def parseCmp (s : String) : Cmp :=
  if s == "==" then .eq else if s == "!=" then .ne else if s == "<" then .lt
  else if s == "<=" then .le else if s == ">=" then .ge else if s == ">" then .gt else .other

def parseEnv? (s : String) : Option (Env τ) :=
  if s == "-" then some [] else
  (s.splitOn ";").foldr (fun item acc =>
    match item.splitOn "=", acc with
    | [k, v], some l =>
      match parseNat? k, parseVal? (τ := τ) v with
      | some k, some v => some ((k, v) :: l)
      | _, _ => none
    | _, _ => none) (some [])

def parseGoal? (s : String) : Option (Goal τ) :=
  match s.toList with
  | 'L' :: rest => (parseVal? (τ := τ) (String.ofList rest)).map .lit
  | 'R' :: rest => (parseNat? (String.ofList rest)).map .ref
  | _ => none

def parseClause? (s : String) : Option (Clause τ) :=
  let (neg, body) := match s.toList with
    | '!' :: rest => (true, String.ofList rest)
    | _ => (false, s)
  match body.splitOn ":" with
  | ["b", k] => (parseNat? k).map (fun k => ⟨neg, .boolean k⟩)
  | ["c", k, c, g, t] =>
    match parseNat? k, parseGoal? (τ := τ) g, parseVal? (τ := τ) t with
    | some k, some g, some t => some ⟨neg, .compare k (parseCmp c) g t⟩
    | _, _, _ => none
  | _ => none

def parseClauses? (s : String) : Option (List (Clause τ)) :=
  if s == "-" then some [] else
  (s.splitOn ";").foldr (fun item acc => match parseClause? (τ := τ) item, acc with
    | some c, some l => some (c :: l)
    | _, _ => none) (some [])

def showRes : Except Err Bool → String
  | .ok true => "T"
  | .ok false => "F"
  | .error .typeError => "E TypeError"

def run : List String → String
  | ["check", s, c, g, t] =>
    match parseVal? (τ := τ) s, parseVal? (τ := τ) g, parseVal? (τ := τ) t with
    | some s, some g, some t => showRes (check s (parseCmp c) g t)
    | _, _, _ => "bad-op"
  | ["truthy", v] =>
    match parseVal? (τ := τ) v with
    | some v => if truthy v then "T" else "F"
    | none => "bad-op"
  | ["all", e, cs] =>
    match parseEnv? (τ := τ) e, parseClauses? (τ := τ) cs with
    | some e, some cs => showRes (evalAll e cs)
    | _, _ => "bad-op"
  | ["frame", p, l, e, cs] =>
    match parseVal? (τ := τ) p, parseNat? l, parseEnv? (τ := τ) e, parseClauses? (τ := τ) cs with
    | some (.num p), some l, some e, some cs =>
      match runFrame p l e cs with
        | .hit j => "hit " ++ toString j
        | .miss => "miss"
        | .raised .typeError => "E TypeError"
    | _, _, _, _ => "bad-op"
  | ["guarded", e, g, cs] =>
    match parseEnv? (τ := τ) e, parseClauses? (τ := τ) g, parseClauses? (τ := τ) cs with
    | some e, some g, some cs =>
      match runGuarded e g cs with
        | .blocked => "blocked"
        | .hit => "hit"
        | .miss => "miss"
        | .raised .typeError => "E TypeError"
    | _, _, _ => "bad-op"
  | _ => "bad-op"

end generic

def step (_ : Unit) (line : String) : Unit × String :=
  match words line with
  | "q" :: rest => ((), run (τ := Rat) rest)
  | "f" :: rest => ((), run (τ := Float) rest)
  | _ => ((), "bad-op")

end Ioflo.Drv.Need

def main : IO Unit := Ioflo.Proto.loop Ioflo.Drv.Need.step ()
