import IofloModel.Model.Outline
import IofloModel.Drv.Proto
/-!
driver for the outline model (engine `outline`).  Stateful: `resolve` sets the current forest.

  resolve <n> <overs> <unders>
      overs  = n comma separated entries, `-` or the number of the declared over frame
      unders = n semicolon separated entries, `-` or `.`-separated numbers (declared unders, in order)
      → `ok <f0> <f1> …` with `<fi>` = `over/unders/head/outline` (each `-` or `.`-joined numbers)
      → `ERR badOver|loop|badUnder|dupUnder|diverge|untraceable`
  exen <far> <nears>
      nears = `-` or `.`-joined numbers; fars is the model's outline of <far> in the current forest
      → `ex=<l> en=<l> re=<l>`
  exenl <far> <nears> <fars>          (explicit fars, no forest needed)
-/
namespace Ioflo.Drv.Outline
open Ioflo.Proto Ioflo.Outline

def parseList (sep : String) (s : String) : Option (List Nat) :=
  if s == "-" then some [] else (s.splitOn sep).mapM String.toNat?

def parseOpt (s : String) : Option (Option Nat) :=
  if s == "-" then some none else s.toNat?.map some

def showList (l : List Nat) : String :=
  if l.isEmpty then "-" else ".".intercalate (l.map toString)

def showOpt : Option Nat → String
  | none => "-"
  | some x => toString x

def showErr : ResolveErr → String
  | .badOver => "badOver" | .loop => "loop" | .badUnder => "badUnder"
  | .dupUnder => "dupUnder" | .diverge => "diverge"

def showExEn (r : List Nat × List Nat × List Nat) : String :=
  "ex=" ++ showList r.1 ++ " en=" ++ showList r.2.1 ++ " re=" ++ showList r.2.2

def lookup {α} (l : List α) (d : α) (i : Nat) : α := (l[i]?).getD d

def step (st : Option Forest) (line : String) : Option Forest × String :=
  match words line with
  | ["resolve", ns, os, us] =>
    match ns.toNat?, (os.splitOn ",").mapM parseOpt, (us.splitOn ";").mapM (parseList ".") with
    | some n, some overs, some unders =>
      if overs.length ≠ n ∨ unders.length ≠ n then (none, "bad-op") else
      let D : Decls := { n := n, over := fun f => lookup overs none f, unders := fun f => lookup unders [] f }
      match resolveLinks D with
      | .error e => (none, "ERR " ++ showErr e)
      | .ok F =>
        match traceError F with
        | some .underLoop => (none, "ERR underLoop")
        | some .diverge => (none, "ERR untraceable")
        | none =>
        let frames := (List.range n).map fun f =>
          showOpt (F.over f) ++ "/" ++ showList (F.unders f) ++ "/"
            ++ showList ((traceHead F f).getD []) ++ "/" ++ showList ((traceOutline F f).getD [])
        (some F, "ok " ++ " ".intercalate frames)
    | _, _, _ => (none, "bad-op")
  | ["exen", fs, ns] =>
    match st, fs.toNat?, parseList "." ns with
    | some F, some far, some nears =>
      match traceOutline F far with
      | some fars => (st, showExEn (exEn far nears fars))
      | none => (st, "ERR untraceable")
    | _, _, _ => (st, "bad-op")
  | ["exenl", fs, ns, frs] =>
    match fs.toNat?, parseList "." ns, parseList "." frs with
    | some far, some nears, some fars => (st, showExEn (exEn far nears fars))
    | _, _, _ => (st, "bad-op")
  | _ => (st, "bad-op")

end Ioflo.Drv.Outline

def main : IO Unit := Ioflo.Proto.loop Ioflo.Drv.Outline.step none
