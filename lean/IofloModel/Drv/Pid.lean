import IofloModel.Drv.Proto
/-! driver stub (engine under construction): every request is answered "bad-op" -/
namespace Ioflo.Drv.Pid
def step (_ : Unit) (_ : String) : Unit × String := ((), "bad-op")
end Ioflo.Drv.Pid

def main : IO Unit := Ioflo.Proto.loop Ioflo.Drv.Pid.step ()
