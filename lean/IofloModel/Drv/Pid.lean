import IofloModel.Model.PidTyped
import IofloModel.Drv.Proto
/-!
driver for the PID controller model (engine `pid`), stateful; the arithmetic is the binary64
instantiation (`floatArith`), `x...` ops use `exactArith`.
Numbers: `p/q` | `nan` | `inf` | `-inf`; stamps additionally `none`.
  reset                                    state := init                          → ok
  parm wrap drsp calcRate(0/1) ger gff gpe gde gie esmax esmin ovmax ovmin         → ok
  upd stamp input rate rsp                 one `action()`                         → state line
  restart                                  `restart()`                            → state line
  xupd / xrestart / xreset                 same on a second state with exact arithmetic
  region                                   1 iff zeroOutside(current parm)
state line: `lapse elapsed prsp e er es out`, or `ERR ZeroDivisionError`
-/
namespace Ioflo.Drv.Pid
open Ioflo.Proto Ioflo.Pid

def num? (s : String) : Option Num :=
  if s == "nan" then some .nan
  else if s == "inf" then some .pinf
  else if s == "-inf" then some .ninf
  else match s.splitOn "/" with
    | [p, q] => do
        let p ← p.toInt?; let q ← q.toNat?
        if q = 0 then none else pure (.fin (mkRat p q))
    | _ => none

def stamp? (s : String) : Option (Option Num) :=
  if s == "none" then some none else (num? s).map some

def showNum : Num → String
  | .nan => "nan"
  | .pinf => "inf"
  | .ninf => "-inf"
  | .fin r => toString r.num ++ "/" ++ toString r.den

def showState (s : State) : String :=
  " ".intercalate ([s.lapse, s.elapsed, s.prsp, s.e, s.er, s.es, s.out].map showNum)

/-- typed number token: `i:`/`q:`/`f:` + number (int/bool, Fraction, float) -/
def tnum? (s : String) : Option TNum :=
  match s.splitOn ":" with
  | [k, v] => do
      let v ← num? v
      if k == "i" then pure ⟨v, .int⟩ else if k == "q" then pure ⟨v, .frac⟩
      else if k == "f" then pure ⟨v, .float⟩ else none
  | _ => none

def tstamp? (s : String) : Option (Option TNum) :=
  if s == "none" then some none else (tnum? s).map some

def showStateT (s : StateT) : String :=
  " ".intercalate ([s.lapse, s.elapsed, s.prsp, s.e, s.er, s.es, s.out].map (fun t => showNum t.v))

structure St where
  p : Parm
  f : State          -- binary64 arithmetic
  x : State          -- exact arithmetic
  tp : ParmT         -- typed model (tparm / tupd / trestart / treset)
  t : StateT

def parm0 : Parm := ⟨.fin 0, .fin 0, true, .fin 0, .fin 0, .fin 0, .fin 0, .fin 0, .fin 0, .fin 0, .fin 0, .fin 0⟩
def tz : TNum := TNum.zero
def st0 : St := ⟨parm0, init, init, ⟨tz, tz, true, tz, tz, tz, tz, tz, tz, tz, tz, tz⟩, initT⟩

def flag? (s : String) : Option Bool :=
  if s == "1" then some true else if s == "0" then some false else none

def step (σ : St) (line : String) : St × String :=
  match words line with
  | ["reset"] => ({ σ with f := init, x := init }, "ok")
  | ["treset"] => ({ σ with t := initT }, "ok")
  | ["trestart"] => let s := restartT σ.t; ({ σ with t := s }, showStateT s)
  | ["tparm", wrap, drsp, cr, ger, gff, gpe, gde, gie, esmax, esmin, ovmax, ovmin] =>
    match (do
      let wrap ← tnum? wrap; let drsp ← tnum? drsp; let cr ← flag? cr; let ger ← tnum? ger
      let gff ← tnum? gff; let gpe ← tnum? gpe; let gde ← tnum? gde; let gie ← tnum? gie
      let esmax ← tnum? esmax; let esmin ← tnum? esmin; let ovmax ← tnum? ovmax; let ovmin ← tnum? ovmin
      pure (ParmT.mk wrap drsp cr ger gff gpe gde gie esmax esmin ovmax ovmin)) with
    | some p => ({ σ with tp := p }, "ok")
    | none => (σ, "bad-op")
  | ["tupd", st, i, r, sp] =>
    match (do
      let st ← tstamp? st; let i ← tnum? i; let r ← tnum? r; let sp ← tnum? sp
      pure (st, i, r, sp)) with
    | none => (σ, "bad-op")
    | some (st, i, r, sp) =>
      match actionT σ.t st i r sp σ.tp with
      | .ok s => ({ σ with t := s }, showStateT s)
      | .error _ => (σ, "ERR ZeroDivisionError")
  | ["parm", wrap, drsp, cr, ger, gff, gpe, gde, gie, esmax, esmin, ovmax, ovmin] =>
    match (do
      let wrap ← num? wrap; let drsp ← num? drsp; let cr ← flag? cr; let ger ← num? ger
      let gff ← num? gff; let gpe ← num? gpe; let gde ← num? gde; let gie ← num? gie
      let esmax ← num? esmax; let esmin ← num? esmin; let ovmax ← num? ovmax; let ovmin ← num? ovmin
      pure (Parm.mk wrap drsp cr ger gff gpe gde gie esmax esmin ovmax ovmin)) with
    | some p => ({ σ with p := p }, "ok")
    | none => (σ, "bad-op")
  | [op, st, i, r, sp] =>
    if op != "upd" && op != "xupd" then (σ, "bad-op") else
    match (do
      let st ← stamp? st; let i ← num? i; let r ← num? r; let sp ← num? sp
      pure (st, i, r, sp)) with
    | none => (σ, "bad-op")
    | some (st, i, r, sp) =>
      if op == "upd" then
        match action floatArith σ.f st i r sp σ.p with
        | .ok s => ({ σ with f := s }, showState s)
        | .error _ => (σ, "ERR ZeroDivisionError")
      else
        match action exactArith σ.x st i r sp σ.p with
        | .ok s => ({ σ with x := s }, showState s)
        | .error _ => (σ, "ERR ZeroDivisionError")
  | ["restart"] => let s := restart σ.f; ({ σ with f := s }, showState s)
  | ["xrestart"] => let s := restart σ.x; ({ σ with x := s }, showState s)
  | ["region"] => (σ, if zeroOutside σ.p then "1" else "0")
  | _ => (σ, "bad-op")

end Ioflo.Drv.Pid

def main : IO Unit := Ioflo.Proto.loop Ioflo.Drv.Pid.step Ioflo.Drv.Pid.st0
