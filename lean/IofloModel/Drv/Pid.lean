import IofloModel.Model.Pid
import IofloModel.Drv.Proto
/-!
driver for the PID controller model (engine `pid`), stateful; the arithmetic is the binary64
instantiation (`floatArith`), `x...` ops use `exactArith`.
Numbers: `p/q` | `nan` | `inf` | `-inf`; stamps additionally `none`.
  reset                                    state := init                          → ok
  parm wrap drsp calcRate(0/1) ger gff gpe gde gie esmax esmin ovmax ovmin         → ok
  upd stamp input rate rsp                 one `action()`                         → state line
  restart                                  `restart()`                            → state line
  xupd / xrestart / xreset                 same on a second state with exact arithmetic
  region                                   1 iff zeroOutside(current parm)
state line: `lapse elapsed prsp e er es out`, or `ERR ZeroDivisionError`
-/
namespace Ioflo.Drv.Pid
open Ioflo.Proto Ioflo.Pid

def num? (s : String) : Option Num :=
  if s == "nan" then some .nan
  else if s == "inf" then some .pinf
  else if s == "-inf" then some .ninf
  else match s.splitOn "/" with
    | [p, q] => do
        let p ← p.toInt?; let q ← q.toNat?
        if q = 0 then none else pure (.fin (mkRat p q))
    | _ => none

def stamp? (s : String) : Option (Option Num) :=
  if s == "none" then some none else (num? s).map some

def showNum : Num → String
  | .nan => "nan"
  | .pinf => "inf"
  | .ninf => "-inf"
  | .fin r => toString r.num ++ "/" ++ toString r.den

def showState (s : State) : String :=
  " ".intercalate ([s.lapse, s.elapsed, s.prsp, s.e, s.er, s.es, s.out].map showNum)

structure St where
  p : Parm
  f : State          -- binary64 arithmetic
  x : State          -- exact arithmetic

def parm0 : Parm := ⟨.fin 0, .fin 0, true, .fin 0, .fin 0, .fin 0, .fin 0, .fin 0, .fin 0, .fin 0, .fin 0, .fin 0⟩
def st0 : St := ⟨parm0, init, init⟩

def flag? (s : String) : Option Bool :=
  if s == "1" then some true else if s == "0" then some false else none

def step (σ : St) (line : String) : St × String :=
  match words line with
  | ["reset"] => ({ σ with f := init, x := init }, "ok")
  | ["parm", wrap, drsp, cr, ger, gff, gpe, gde, gie, esmax, esmin, ovmax, ovmin] =>
    match (do
      let wrap ← num? wrap; let drsp ← num? drsp; let cr ← flag? cr; let ger ← num? ger
      let gff ← num? gff; let gpe ← num? gpe; let gde ← num? gde; let gie ← num? gie
      let esmax ← num? esmax; let esmin ← num? esmin; let ovmax ← num? ovmax; let ovmin ← num? ovmin
      pure (Parm.mk wrap drsp cr ger gff gpe gde gie esmax esmin ovmax ovmin)) with
    | some p => ({ σ with p := p }, "ok")
    | none => (σ, "bad-op")
  | [op, st, i, r, sp] =>
    if op != "upd" && op != "xupd" then (σ, "bad-op") else
    match (do
      let st ← stamp? st; let i ← num? i; let r ← num? r; let sp ← num? sp
      pure (st, i, r, sp)) with
    | none => (σ, "bad-op")
    | some (st, i, r, sp) =>
      if op == "upd" then
        match action floatArith σ.f st i r sp σ.p with
        | .ok s => ({ σ with f := s }, showState s)
        | .error _ => (σ, "ERR ZeroDivisionError")
      else
        match action exactArith σ.x st i r sp σ.p with
        | .ok s => ({ σ with x := s }, showState s)
        | .error _ => (σ, "ERR ZeroDivisionError")
  | ["restart"] => let s := restart σ.f; ({ σ with f := s }, showState s)
  | ["xrestart"] => let s := restart σ.x; ({ σ with x := s }, showState s)
  | ["region"] => (σ, if zeroOutside σ.p then "1" else "0")
  | _ => (σ, "bad-op")

end Ioflo.Drv.Pid

def main : IO Unit := Ioflo.Proto.loop Ioflo.Drv.Pid.step Ioflo.Drv.Pid.st0
