import IofloModel.Model.Poly
import IofloModel.Drv.RatProto
/-!
driver for the point-in-polygon model (engine `poly`).

    pip <px> <py> <x1> <y1> <x2> <y2> …      (integers; zero or more vertices)
      → `<wind> <inside side=True> <inside side=False> <insideOnly> <outside side=True> <outside side=False> <outsideOnly> <sideOnly>`
    tween <px> <py> <ux> <uy> <vx> <vy>      → 0|1
-/
namespace Ioflo.Drv.Poly
open Ioflo.Proto Ioflo.Poly Ioflo.RatProto

def parseInts? (ws : List String) : Option (List Int) :=
  ws.foldr (fun w acc => match parseInt? w, acc with
    | some i, some l => some (i :: l)
    | _, _ => none) (some [])

def toPts? : List Int → Option (List Pt)
  | [] => some []
  | [_] => none
  | x :: y :: rest => (toPts? rest).map (fun l => (x, y) :: l)

def b (x : Bool) : String := if x then "1" else "0"

def step (_ : Unit) (line : String) : Unit × String :=
  match words line with
  | "pip" :: rest =>
    match (parseInts? rest).bind toPts? with
    | some (p :: vs) =>
      ((), String.intercalate " " [toString (wind p vs), b (inside p vs true), b (inside p vs false),
        b (insideOnly p vs), b (outside p vs true), b (outside p vs false), b (outsideOnly p vs), b (sideOnly p vs)])
    | _ => ((), "bad-op")
  | "tween" :: rest =>
    match (parseInts? rest).bind toPts? with
    | some [p, u, v] => ((), b (tween2 p u v))
    | _ => ((), "bad-op")
  | _ => ((), "bad-op")

end Ioflo.Drv.Poly

def main : IO Unit := Ioflo.Proto.loop Ioflo.Drv.Poly.step ()
