/-!
Line protocol helpers shared by all engine drivers (core Lean only).
One request per input line, exactly one reply line per request.
-/
namespace Ioflo.Proto

def hexDigit? (c : Char) : Option Nat :=
  if '0' ≤ c ∧ c ≤ '9' then some (c.toNat - '0'.toNat)
  else if 'a' ≤ c ∧ c ≤ 'f' then some (c.toNat - 'a'.toNat + 10)
  else if 'A' ≤ c ∧ c ≤ 'F' then some (c.toNat - 'A'.toNat + 10)
  else none

/-- "0a ff" style without spaces: `"0aff"` → `[10, 255]`; `"-"` is the empty string. -/
def hexToBytes? (s : String) : Option (List Nat) :=
  if s == "-" then some [] else
  let rec go : List Char → List Nat → Option (List Nat)
    | [], acc => some acc.reverse
    | [_], _ => none
    | a :: b :: rest, acc =>
      match hexDigit? a, hexDigit? b with
      | some x, some y => go rest ((x * 16 + y) :: acc)
      | _, _ => none
  go s.toList []

def hexChar (n : Nat) : Char :=
  if n < 10 then Char.ofNat ('0'.toNat + n) else Char.ofNat ('a'.toNat + n - 10)

def byteToHex (b : Nat) : String := String.ofList [hexChar (b / 16 % 16), hexChar (b % 16)]

def bytesToHex (bs : List Nat) : String :=
  if bs.isEmpty then "-" else String.join (bs.map byteToHex)

/-- fixed-width lower-case hex of a natural number -/
def natToHex (width : Nat) (n : Nat) : String :=
  String.ofList ((List.range width).reverse.map (fun i => hexChar (n / 16 ^ i % 16)))

def words (line : String) : List String :=
  (line.splitOn " ").filter (· ≠ "")

def strip (line : String) : String :=
  let cs := line.toList
  let cs := (cs.reverse.dropWhile (fun c => c == '\n' || c == '\r')).reverse
  String.ofList cs

/-- Generic request loop with state. -/
partial def loop {σ : Type} (step : σ → String → σ × String) (init : σ) : IO Unit := do
  let stdin ← IO.getStdin
  let stdout ← IO.getStdout
  let rec go (s : σ) : IO Unit := do
    let line ← stdin.getLine
    if line.isEmpty then return ()
    let (s', out) := step s (strip line)
    stdout.putStrLn out
    go s'
  go init
  stdout.flush

end Ioflo.Proto
