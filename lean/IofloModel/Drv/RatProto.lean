import IofloModel.Drv.Proto
/-! exact rationals on the line protocol (`p/q`, `p`), shared by the drivers of agent num-b -/
namespace Ioflo.RatProto

def parseNat? (s : String) : Option Nat :=
  if s.isEmpty then none else
  s.toList.foldl (fun acc c => match acc with
    | none => none
    | some n => if '0' ≤ c ∧ c ≤ '9' then some (n * 10 + (c.toNat - '0'.toNat)) else none) (some 0)

def parseInt? (s : String) : Option Int :=
  match s.toList with
  | '-' :: rest => (parseNat? (String.ofList rest)).map (fun n => - (n : Int))
  | _ => (parseNat? s).map (fun n => (n : Int))

def parseRat? (s : String) : Option Rat :=
  match s.splitOn "/" with
  | [p] => (parseInt? p).map (fun i => (i : Rat))
  | [p, q] =>
    match parseInt? p, parseNat? q with
    | some i, some (n+1) => some (mkRat i (n+1))
    | _, _ => none
  | _ => none

def renderRat (r : Rat) : String := toString r.num ++ "/" ++ toString r.den

end Ioflo.RatProto
