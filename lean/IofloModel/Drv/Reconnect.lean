import IofloModel.Model.Reconnect
import IofloModel.Drv.Proto
/-!
driver for the reconnect model (engine `reconnect`).  Time in ticks of 1/1024 s.

  run <timeout> <reconnectable 0|1> <retry ticks|N> <op> … [ / <bare|stack|patron> <k> <dt> … ]
      ops: `A<dt>` advance   `B<code>` Client.serviceConnect   `S<code>` TcpClientStack.serviceConnect
           `H<code>` Patron.serviceAll (connection part)   `L` receive finds the connection lost
           `c` close   `o` reopen          (<code> = errno answered by connect_ex if one is made)
      after `/`: a listening server of latency k (the n-th connect_ex on a socket answers 115, 114, …, and 0 from
      the k-th on); one round per <dt>: advance, then one service call of the given kind
      reply: one record per op / round, separated by ` | `:
        `<events or -> ; c=<0|1> x=<0|1> o=<0|1> s=<sock|-> ca=<id|-> l=<id|->`
        events: `+<id>` socket opened, `-<id>` closed, `?<id>=<code>` connect_ex
  tls <timeout> <rec> <retry> <op> … [ / <kind> <k> <h> <dt> … ]   the same through a ClientTls: service ops carry
      `<code>:<k|w|e>` (answer of connect_ex : answer of do_handshake = ok | want | fail); after `/` the handshake
      completes at its h-th call; events `#<id>=<k|w|e>` do_handshake, `!` handshake error escaped;
      record `… ; c=<connected> a=<accepted> x= o= s= ca= l=`
  regiontls D28 …  the D28 region for the tls form
  region D28 <timeout> <rec> <retry> <op> … / <kind> <k> <dt> …   → true/false  (discardsInProgress in the listening phase)
-/
namespace Ioflo.Drv.Reconnect
open Ioflo.Proto Ioflo.Reconnect

def op? (w : String) : Option Op :=
  match w.toList with
  | ['L'] => some .loss
  | ['c'] => some .close
  | ['o'] => some .reopen
  | 'A' :: r => (String.ofList r).toInt?.map .advance
  | 'B' :: r => (String.ofList r).toNat?.map .clientServiceConnect
  | 'S' :: r => (String.ofList r).toNat?.map .stackServiceConnect
  | 'H' :: r => (String.ofList r).toNat?.map .patronConnect
  | _ => none

def showEvent : Event → String
  | .opened id => "+" ++ toString id
  | .closed id => "-" ++ toString id
  | .connect id code => "?" ++ toString id ++ "=" ++ toString code

def b01 (b : Bool) : String := if b then "1" else "0"
def optNat (o : Option Nat) : String := match o with | some n => toString n | none => "-"

def showRec (c : Client) (ev : List Event) : String :=
  (if ev.isEmpty then "-" else " ".intercalate (ev.map showEvent)) ++ " ; c=" ++ b01 c.accepted ++
  " x=" ++ b01 c.cutoff ++ " o=" ++ b01 c.opened ++ " s=" ++ optNat c.sock ++ " ca=" ++ optNat c.ca ++
  " l=" ++ optNat c.localHa

def runShow : Client → List Op → Client × List String
  | c, [] => (c, [])
  | c, op :: ops =>
    let (c', ev) := Ioflo.Reconnect.step c op
    let (c'', r) := runShow c' ops
    (c'', showRec c' ev :: r)

/-- a listening server of latency `k` -/
def ansOf (k : Nat) (n : Nat) : Nat := if n + 1 ≥ k then 0 else if n = 0 then EINPROGRESS else EALREADY

def listenShow (k : Nat) (kind : Kind) : Client → List Int → List String
  | _, [] => []
  | c, dt :: dts =>
    let (c', ev) := kind.service { c with now := c.now + dt } (ansOf k)
    showRec c' ev :: listenShow k kind c' dts

/-! TLS client -/

def shake? (c : Char) : Option Shake :=
  if c == 'k' then some .ok else if c == 'w' then some .want else if c == 'e' then some .fail else none

def codeShake? (r : List Char) : Option (Nat × Shake) :=
  match (String.ofList r).splitOn ":" with
  | [code, h] => do
      let code ← code.toNat?
      let a ← match h.toList with | [ch] => shake? ch | _ => none
      pure (code, a)
  | _ => none

def top? (w : String) : Option TOp :=
  match w.toList with
  | ['L'] => some .loss
  | ['c'] => some .close
  | ['o'] => some .reopen
  | 'A' :: r => (String.ofList r).toInt?.map .advance
  | 'B' :: r => (codeShake? r).map (fun p => .clientServiceConnect p.1 p.2)
  | 'S' :: r => (codeShake? r).map (fun p => .stackServiceConnect p.1 p.2)
  | 'H' :: r => (codeShake? r).map (fun p => .patronConnect p.1 p.2)
  | _ => none

def showShake : Shake → String
  | .ok => "k"
  | .want => "w"
  | .fail => "e"

def showTEvent : TEvent → String
  | .base e => showEvent e
  | .shake id a => "#" ++ toString id ++ "=" ++ showShake a
  | .raised => "!"

def showTRec (t : Tls) (ev : List TEvent) : String :=
  (if ev.isEmpty then "-" else " ".intercalate (ev.map showTEvent)) ++ " ; c=" ++ b01 t.connected ++
  " a=" ++ b01 t.c.accepted ++ " x=" ++ b01 t.c.cutoff ++ " o=" ++ b01 t.c.opened ++ " s=" ++ optNat t.c.sock ++
  " ca=" ++ optNat t.c.ca ++ " l=" ++ optNat t.c.localHa

def trunShow : Tls → List TOp → Tls × List String
  | t, [] => (t, [])
  | t, op :: ops =>
    let (t', ev) := tstep t op
    let (t'', r) := trunShow t' ops
    (t'', showTRec t' ev :: r)

/-- handshake of latency `h`: want, want, …, ok from the `h`-th call on -/
def hsOf (h : Nat) (n : Nat) : Shake := if n + 1 ≥ h then .ok else .want

def tlistenShow (k h : Nat) (kind : Kind) : Tls → List Int → List String
  | _, [] => []
  | t, dt :: dts =>
    let (t', ev) := kind.tlsService { t with c := { t.c with now := t.c.now + dt } } (ansOf k) (hsOf h)
    showTRec t' ev :: tlistenShow k h kind t' dts

def kind? (s : String) : Option Kind :=
  if s == "bare" then some .bare else if s == "stack" then some .stack
  else if s == "patron" then some .patron else none

def splitSlash (ws : List String) : List String × List String :=
  (ws.takeWhile (· ≠ "/"), (ws.dropWhile (· ≠ "/")).drop 1)

def initOf (t r retry : String) : Option Client := do
  let t ← t.toInt?
  let r ← if r == "1" then some true else if r == "0" then some false else none
  let retry ← if retry == "N" then some none else retry.toInt?.map some
  pure (Client.init t r retry)

def reply (ws : List String) : Option String :=
  match ws with
  | "run" :: t :: r :: retry :: rest => do
      let c ← initOf t r retry
      let (pre, post) := splitSlash rest
      let ops ← pre.mapM op?
      let (c1, recs) := runShow c ops
      let recs2 ← match post with
        | [] => some []
        | kind :: k :: dts => do
            let kind ← kind? kind; let k ← k.toNat?; let dts ← dts.mapM String.toInt?
            pure (listenShow k kind c1 dts)
        | _ => none
      let all := recs ++ recs2
      pure (if all.isEmpty then "-" else " | ".intercalate all)
  | "tls" :: t :: r :: retry :: rest => do
      let c ← initOf t r retry
      let t0 : Tls := ⟨c, false, 0⟩
      let (pre, post) := splitSlash rest
      let ops ← pre.mapM top?
      let (t1, recs) := trunShow t0 ops
      let recs2 ← match post with
        | [] => some []
        | kind :: k :: h :: dts => do
            let kind ← kind? kind; let k ← k.toNat?; let h ← h.toNat?; let dts ← dts.mapM String.toInt?
            pure (tlistenShow k h kind t1 dts)
        | _ => none
      let all := recs ++ recs2
      pure (if all.isEmpty then "-" else " | ".intercalate all)
  | "regiontls" :: "D28" :: t :: r :: retry :: rest => do
      let c ← initOf t r retry
      let t0 : Tls := ⟨c, false, 0⟩
      let (pre, post) := splitSlash rest
      let ops ← pre.mapM top?
      let t1 := (Ioflo.Reconnect.trun t0 ops).1
      match post with
      | kind :: k :: h :: dts => do
          let kind ← kind? kind; let k ← k.toNat?; let h ← h.toNat?; let dts ← dts.mapM String.toInt?
          pure (toString (tlsDiscardsInProgress (ansOf k) (hsOf h) kind t1 dts))
      | _ => some "false"
  | "region" :: "D28" :: t :: r :: retry :: rest => do
      let c ← initOf t r retry
      let (pre, post) := splitSlash rest
      let ops ← pre.mapM op?
      let c1 := (Ioflo.Reconnect.run c ops).1
      match post with
      | kind :: k :: dts => do
          let kind ← kind? kind; let k ← k.toNat?; let dts ← dts.mapM String.toInt?
          pure (toString (discardsInProgress (ansOf k) kind c1 dts))
      | _ => some "false"
  | _ => none

def step (_ : Unit) (line : String) : Unit × String :=
  match reply (words line) with
  | some r => ((), r)
  | none => ((), "bad-op")

end Ioflo.Drv.Reconnect

def main : IO Unit := Ioflo.Proto.loop Ioflo.Drv.Reconnect.step ()
