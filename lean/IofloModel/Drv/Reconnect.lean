import IofloModel.Model.Reconnect
import IofloModel.Drv.Proto
/-!
driver for the reconnect model (engine `reconnect`).  Time in ticks of 1/1024 s.

  run <timeout> <reconnectable 0|1> <retry ticks|N> <op> … [ / <bare|stack|patron> <k> <dt> … ]
      ops: `A<dt>` advance   `B<code>` Client.serviceConnect   `S<code>` TcpClientStack.serviceConnect
           `H<code>` Patron.serviceAll (connection part)   `L` receive finds the connection lost
           `c` close   `o` reopen          (<code> = errno answered by connect_ex if one is made)
      after `/`: a listening server of latency k (the n-th connect_ex on a socket answers 115, 114, …, and 0 from
      the k-th on); one round per <dt>: advance, then one service call of the given kind
      reply: one record per op / round, separated by ` | `:
        `<events or -> ; c=<0|1> x=<0|1> o=<0|1> s=<sock|-> ca=<id|-> l=<id|->`
        events: `+<id>` socket opened, `-<id>` closed, `?<id>=<code>` connect_ex
  region D28 <timeout> <rec> <retry> <op> … / <kind> <k> <dt> …   → true/false  (discardsInProgress in the listening phase)
-/
namespace Ioflo.Drv.Reconnect
open Ioflo.Proto Ioflo.Reconnect

def op? (w : String) : Option Op :=
  match w.toList with
  | ['L'] => some .loss
  | ['c'] => some .close
  | ['o'] => some .reopen
  | 'A' :: r => (String.ofList r).toInt?.map .advance
  | 'B' :: r => (String.ofList r).toNat?.map .clientServiceConnect
  | 'S' :: r => (String.ofList r).toNat?.map .stackServiceConnect
  | 'H' :: r => (String.ofList r).toNat?.map .patronConnect
  | _ => none

def showEvent : Event → String
  | .opened id => "+" ++ toString id
  | .closed id => "-" ++ toString id
  | .connect id code => "?" ++ toString id ++ "=" ++ toString code

def b01 (b : Bool) : String := if b then "1" else "0"
def optNat (o : Option Nat) : String := match o with | some n => toString n | none => "-"

def showRec (c : Client) (ev : List Event) : String :=
  (if ev.isEmpty then "-" else " ".intercalate (ev.map showEvent)) ++ " ; c=" ++ b01 c.accepted ++
  " x=" ++ b01 c.cutoff ++ " o=" ++ b01 c.opened ++ " s=" ++ optNat c.sock ++ " ca=" ++ optNat c.ca ++
  " l=" ++ optNat c.localHa

def runShow : Client → List Op → Client × List String
  | c, [] => (c, [])
  | c, op :: ops =>
    let (c', ev) := Ioflo.Reconnect.step c op
    let (c'', r) := runShow c' ops
    (c'', showRec c' ev :: r)

/-- a listening server of latency `k` -/
def ansOf (k : Nat) (n : Nat) : Nat := if n + 1 ≥ k then 0 else if n = 0 then EINPROGRESS else EALREADY

def listenShow (k : Nat) (kind : Kind) : Client → List Int → List String
  | _, [] => []
  | c, dt :: dts =>
    let (c', ev) := kind.service { c with now := c.now + dt } (ansOf k)
    showRec c' ev :: listenShow k kind c' dts

def kind? (s : String) : Option Kind :=
  if s == "bare" then some .bare else if s == "stack" then some .stack
  else if s == "patron" then some .patron else none

def splitSlash (ws : List String) : List String × List String :=
  (ws.takeWhile (· ≠ "/"), (ws.dropWhile (· ≠ "/")).drop 1)

def initOf (t r retry : String) : Option Client := do
  let t ← t.toInt?
  let r ← if r == "1" then some true else if r == "0" then some false else none
  let retry ← if retry == "N" then some none else retry.toInt?.map some
  pure (Client.init t r retry)

def reply (ws : List String) : Option String :=
  match ws with
  | "run" :: t :: r :: retry :: rest => do
      let c ← initOf t r retry
      let (pre, post) := splitSlash rest
      let ops ← pre.mapM op?
      let (c1, recs) := runShow c ops
      let recs2 ← match post with
        | [] => some []
        | kind :: k :: dts => do
            let kind ← kind? kind; let k ← k.toNat?; let dts ← dts.mapM String.toInt?
            pure (listenShow k kind c1 dts)
        | _ => none
      let all := recs ++ recs2
      pure (if all.isEmpty then "-" else " | ".intercalate all)
  | "region" :: "D28" :: t :: r :: retry :: rest => do
      let c ← initOf t r retry
      let (pre, post) := splitSlash rest
      let ops ← pre.mapM op?
      let c1 := (Ioflo.Reconnect.run c ops).1
      match post with
      | kind :: k :: dts => do
          let kind ← kind? kind; let k ← k.toNat?; let dts ← dts.mapM String.toInt?
          pure (toString (discardsInProgress (ansOf k) kind c1 dts))
      | _ => some "false"
  | _ => none

def step (_ : Unit) (line : String) : Unit × String :=
  match reply (words line) with
  | some r => ((), r)
  | none => ((), "bad-op")

end Ioflo.Drv.Reconnect

def main : IO Unit := Ioflo.Proto.loop Ioflo.Drv.Reconnect.step ()
