import IofloModel.Model.Redirect
import IofloModel.Drv.Proto
/-!
driver for the redirect model (engine `redirect`).  One case = a `begin` line, `std …` lines giving the
results of the standard-library calls (the model's `Std` parameter, instantiated by table lookup), then
`init`, `request`, `resp`, `final` lines.  Strings travel as hex of their UTF-8 bytes (`-` = empty),
Python `None` as `~`, a raised `ValueError` as `!`.

  begin                                                   → ok
  std urlsplit <arg> <scheme> <netloc> <path> <query> <fragment> <hostname|~> <port|~|!> <geturl> → ok
  std urljoin <base> <url> <result|!>                     → ok      (! = raised ValueError)
  std unquote|quote|quote_plus|unquote_plus <arg> <result> → ok
  std resolve <name> <address|!>                          → ok
  init <url> <hostname> <port|~> <scheme> <redirectable 0|1> (~ | <tls 0|1> <chost> <cport>)   → effects
  request <method> <path> <bodyhex> (<key> <value>)*      → effects
  requestp …same…                                         → effects  (the socket takes only part of the request: `send … *`)
  resp <status> <location|~> <clen> <blen> <body>         → effects[;txq <entries in connector.txes after serviceResponse>]
  final                                                   → final <waited> <#redirects> <#responses> …
  region D34e <location>                                  → 1 | 0   (Lean predicate `lossyLocation`)
effects: `none` or `;`-joined `close` | `open ip port tls` | `send ip port tls method target host body` |
`deliver` | `stall`; an exception is `err <Name>` (after the effects that preceded it) and every later op answers `dead`.
A table lookup that fails makes the reply `std-miss`.
-/
namespace Ioflo.Drv.Redirect
open Ioflo.Proto Ioflo.Redirect

structure Table where
  urlsplit : List (Str × Split) := []
  urljoin : List ((Str × Str) × Option Str) := []
  unquote : List (Str × Str) := []
  quote : List (Str × Str) := []
  quotePlus : List (Str × Str) := []
  unquotePlus : List (Str × Str) := []
  resolve : List (Str × Option Str) := []

def miss : Str := ['\x00', 'M', 'I', 'S', 'S']
def missSplit : Split :=
  { scheme := miss, netloc := miss, path := miss, query := miss, fragment := miss,
    hostname := some miss, port := some none, geturl := miss }

def Table.std (t : Table) : Std where
  urlsplit a := (t.urlsplit.lookup a).getD missSplit
  urljoin a b := (t.urljoin.lookup (a, b)).getD (some miss)
  unquote a := (t.unquote.lookup a).getD miss
  quote a := (t.quote.lookup a).getD miss
  quotePlus a := (t.quotePlus.lookup a).getD miss
  unquotePlus a := (t.unquotePlus.lookup a).getD miss
  resolve a := (t.resolve.lookup a).getD (some miss)

structure St where
  tbl : Table := {}
  pat : Option Patron := none
  dead : Bool := false

def str? (h : String) : Option Str :=
  match hexToBytes? h with
  | none => none
  | some bs =>
    match String.fromUTF8? (ByteArray.mk (bs.map (fun n => UInt8.ofNat n)).toArray) with
    | some s => some s.toList
    | none => none

def hex (s : Str) : String := bytesToHex ((String.ofList s).toUTF8.toList.map (·.toNat))

def optStr? (h : String) : Option (Option Str) :=
  if h == "~" then some none else (str? h).map some

def int? (s : String) : Option Int := s.toInt?

def fmtInt (i : Int) : String := toString i

def fmtConn (c : Conn) : String := hex c.ip ++ " " ++ fmtInt c.port ++ " " ++ (if c.tls then "1" else "0")

def fmtEffect : Effect → String
  | .close => "close"
  | .open c => "open " ++ fmtConn c
  | .send c s => "send " ++ fmtConn c ++ " " ++ hex s.method ++ " " ++ hex s.target ++ " " ++ hex s.host
      ++ " " ++ bytesToHex s.body
  | .deliver => "deliver"
  | .stall => "stall"

def fmtEffects (es : List Effect) : String :=
  if es.isEmpty then "none" else ";".intercalate (es.map fmtEffect)

/-- a request the socket took only partly: the server end has seen its head, not its whole body (`*`) -/
def fmtEffectPartial : Effect → String
  | .send c s => "send " ++ fmtConn c ++ " " ++ hex s.method ++ " " ++ hex s.target ++ " " ++ hex s.host ++ " *"
  | e => fmtEffect e

def fmtEffectsPartial (es : List Effect) : String :=
  if es.isEmpty then "none" else ";".intercalate (es.map fmtEffectPartial)

def fmtErr : Err → String
  | .attributeError => "err AttributeError"
  | .valueError => "err ValueError"
  | .invalidURL => "err InvalidURL"
  | .gaiError => "err gaierror"
  | .outOfModel => "err out-of-model"

def fmtSnap (s : Snap) : String :=
  hex s.host ++ " " ++ fmtInt s.port ++ " " ++ hex s.scheme ++ " " ++ hex s.method ++ " " ++ hex s.path

def fmtRec (r : Rec) : String :=
  toString r.status ++ " " ++ (match r.location with | none => "~" | some l => hex l) ++ " " ++ fmtSnap r.req
    ++ " " ++ bytesToHex r.body ++ (if r.errored then " 1" else " 0")

def fmtFinal (p : Patron) : String :=
  "final " ++ (if p.waited then "1" else "0") ++ " " ++ toString p.redirects.length ++ " " ++
    toString p.responses.length ++
    String.join (p.responses.map (fun rc =>
      " R " ++ fmtRec rc.1 ++ " " ++ toString rc.2.length ++ String.join (rc.2.map (fun r => " " ++ fmtRec r))))

def hasMiss (reply : String) : Bool := (reply.splitOn "004d495353").length > 1

def reply (es : List Effect) (err : Option Err) (partialSend : Bool := false) : String :=
  let f := if partialSend then fmtEffectsPartial else fmtEffects
  match err with
  | none => f es
  | some e => if es.isEmpty then fmtErr e else f es ++ ";" ++ fmtErr e

def finishOut (st : St) (o : Out) (partialSend : Bool := false) (suffix : String := "") : St × String :=
  let s := reply o.es o.err partialSend ++ (if o.err.isNone then suffix else "")
  if hasMiss s then ({ st with dead := true }, "std-miss")
  else match o.err with
    | some _ => ({ st with dead := true }, s)
    | none => ({ st with pat := some o.p }, s)

def finish (st : St) (r : Except Err (Patron × List Effect)) : St × String :=
  match r with
  | .error e => finishOut st ⟨default_, [], some e⟩
  | .ok (p, es) => finishOut st ⟨p, es, none⟩
where default_ : Patron :=
  { conn := ⟨[], 0, false⟩, req := ⟨[], 0, [], [], [], [], [], []⟩, respMethod := [], redirects := [],
    responses := [], waited := false, redirectable := false, queue := [] }

def pairs? : List String → Option (List (Str × Str))
  | [] => some []
  | [_] => none
  | k :: v :: rest =>
    match str? k, str? v, pairs? rest with
    | some k, some v, some r => some ((k, v) :: r)
    | _, _, _ => none

def stdLine (t : Table) : List String → Option Table
  | ["urlsplit", a, sc, nl, pa, qu, fr, hn, po, gu] =>
    match str? a, str? sc, str? nl, str? pa, str? qu, str? fr, optStr? hn, str? gu with
    | some a, some sc, some nl, some pa, some qu, some fr, some hn, some gu =>
      let port? : Option (Option (Option Nat)) :=
        if po == "!" then some none else if po == "~" then some (some none) else (po.toNat?).map (fun n => some (some n))
      match port? with
      | some port =>
        let sp : Split := ⟨sc, nl, pa, qu, fr, hn, port, gu⟩
        some { t with urlsplit := t.urlsplit ++ [(a, sp)] }
      | none => none
    | _, _, _, _, _, _, _, _ => none
  | ["urljoin", a, b, r] =>
    match str? a, str? b with
    | some a, some b =>
      if r == "!" then some { t with urljoin := t.urljoin ++ [((a, b), none)] }
      else match str? r with
        | some r => some { t with urljoin := t.urljoin ++ [((a, b), some r)] }
        | none => none
    | _, _ => none
  | ["resolve", a, r] =>
    match str? a with
    | some a =>
      if r == "!" then some { t with resolve := t.resolve ++ [(a, none)] }
      else match str? r with
        | some r => some { t with resolve := t.resolve ++ [(a, some r)] }
        | none => none
    | none => none
  | [f, a, r] =>
    match str? a, str? r with
    | some a, some r =>
      if f == "unquote" then some { t with unquote := t.unquote ++ [(a, r)] }
      else if f == "quote" then some { t with quote := t.quote ++ [(a, r)] }
      else if f == "quote_plus" then some { t with quotePlus := t.quotePlus ++ [(a, r)] }
      else if f == "unquote_plus" then some { t with unquotePlus := t.unquotePlus ++ [(a, r)] }
      else none
    | _, _ => none
  | _ => none

def doRequest (st : St) (flush : Bool) (m pa b : String) (kv : List String) : St × String :=
  match str? m, str? pa, hexToBytes? b, pairs? kv with
  | some m, some pa, some b, some kv =>
    if st.dead then (st, "dead") else
    match st.pat with
    | none => (st, "bad-op")
    | some p =>
      finishOut st (Ioflo.Redirect.step st.tbl.std p (.request { method := m, path := pa, qargs := kv, body := b, flush := flush }))
        (!flush)
  | _, _, _, _ => (st, "bad-op")

def step (st : St) (line : String) : St × String :=
  match words line with
  | ["begin"] => ({}, "ok")
  | "std" :: rest =>
    match stdLine st.tbl rest with
    | some t => ({ st with tbl := t }, "ok")
    | none => (st, "bad-op")
  | "init" :: u :: h :: po :: sc :: rd :: conn =>
    let port? : Option (Option Int) := if po == "~" then some none else (int? po).map some
    let conn? : Option (Option Connector) := match conn with
      | ["~"] => some none
      | [tls, ch, cp] => (match str? ch, int? cp with
        | some ch, some cp => if tls == "1" then some (some (true, ch, cp)) else if tls == "0" then some (some (false, ch, cp)) else none
        | _, _ => none)
      | _ => none
    match str? u, str? h, port?, str? sc, conn? with
    | some u, some h, some port, some sc, some conn =>
      if rd != "0" && rd != "1" then (st, "bad-op") else
      finish st (initPatron st.tbl.std u h port sc conn (rd == "1"))
    | _, _, _, _, _ => (st, "bad-op")
  | "request" :: m :: pa :: b :: kv => doRequest st true m pa b kv
  | "requestp" :: m :: pa :: b :: kv => doRequest st false m pa b kv
  | ["resp", status, loc, clen, blen, body] =>
    match status.toNat?, optStr? loc, clen.toNat?, blen.toNat?, hexToBytes? body with
    | some status, some loc, some clen, some blen, some body =>
      if st.dead then (st, "dead") else
      match st.pat with
      | none => (st, "bad-op")
      | some p =>
        let r : Resp := { status := status, location := loc, clen := clen, blen := blen, body := body }
        -- length of `connector.txes` when `Patron.serviceResponse` returns from dealing with a complete response
        let a := serviceResponse st.tbl.std p r
        let suffix := if a.err.isNone && !(a.es == [Effect.stall]) then ";txq " ++ toString a.p.unsent.length else ""
        finishOut st (Ioflo.Redirect.step st.tbl.std p (.response r)) false suffix
    | _, _, _, _, _ => (st, "bad-op")
  | ["region", "D34e", loc] =>
    match str? loc with
    | some l => (st, if lossyLocation l then "1" else "0")
    | none => (st, "bad-op")
  | ["final"] =>
    if st.dead then (st, "dead") else
    match st.pat with
    | none => (st, "bad-op")
    | some p => (st, fmtFinal p)
  | _ => (st, "bad-op")

end Ioflo.Drv.Redirect

def main : IO Unit := Ioflo.Proto.loop Ioflo.Drv.Redirect.step {}
