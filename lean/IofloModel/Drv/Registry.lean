import IofloModel.Model.Registry
import IofloModel.Drv.Proto
/-!
driver for the Registry model (engine `registry`).  Names: hex of UTF-8 (`-` = "").
Letters: a string of `a`..`z` (`-` = none).

  reset                                         → ok
  new <store|tasker|framer|logger|log|frame> <name> <letters>
  newHouse <name> <letters>
  clear <house|store|tasker|log|frame|framer|logger> | clearRegistries
  assignRegistries <k> | assignFrameRegistry <k> | prune <k>   (k-th house / framer registered since reset)

reply:  `<out> | <bindings> | <dicts>`
  out      = `NAME <name> <inst>` | `unit` | `ERR ParameterError` | `NEED-LETTERS` | `NO-SUCH`
  bindings = `house=<d>,store=<d>,tasker=<d>,log=<d>,frame=<d>,framer=<d>,logger=<d>`
  dicts    = `<d>:<name>=<inst>,…;<d>:…`  for every dict allocated so far (entries in insertion order)
-/
namespace Ioflo.Drv.Registry
open Ioflo.Proto Ioflo.Registry

def decStr (h : String) : Option Str := do
  let bs ← hexToBytes? h
  let s ← String.fromUTF8? (ByteArray.mk (bs.map (fun b => b.toUInt8)).toArray)
  pure s.toList

def encStr (s : Str) : String := bytesToHex ((String.ofList s).toUTF8.toList.map (·.toNat))

def decLetters (s : String) : Option (List Char) :=
  if s == "-" then some [] else
  if s.toList.all (fun c => 'a' ≤ c && c ≤ 'z') then some s.toList else none

def decCls : String → Option Cls
  | "house" => some (.root .house)
  | "store" => some (.root .store)
  | "tasker" => some (.root .tasker)
  | "log" => some (.root .log)
  | "frame" => some (.root .frame)
  | "framer" => some (.sub .framer)
  | "logger" => some (.sub .logger)
  | _ => none

def showOut : Out → String
  | .name n i => "NAME " ++ encStr n ++ " " ++ toString i
  | .unit => "unit"
  | .err .parameterError => "ERR ParameterError"
  | .err .needLetters => "NEED-LETTERS"
  | .noSuch => "NO-SUCH"

def allCls : List (String × Cls) :=
  [("house", .root .house), ("store", .root .store), ("tasker", .root .tasker), ("log", .root .log),
   ("frame", .root .frame), ("framer", .sub .framer), ("logger", .sub .logger)]

def showState (s : St) : String :=
  ",".intercalate (allCls.map (fun p => p.1 ++ "=" ++ toString (getNames s p.2))) ++ " | " ++
  ";".intercalate ((List.range s.nextDict).map (fun d =>
    toString d ++ ":" ++ ",".intercalate ((s.heap d).map (fun e => encStr e.1 ++ "=" ++ toString e.2))))

def parseOp : List String → Option Op
  | ["new", c, n, l] => do
    let cls ← decCls c
    if cls = .root .house then none else pure (.new cls (← decStr n) (← decLetters l))
  | ["newHouse", n, l] => do pure (.newHouse (← decStr n) (← decLetters l))
  | ["clear", c] => do pure (.clear (← decCls c))
  | ["clearRegistries"] => some .clearRegistries
  | ["assignRegistries", k] => do pure (.assignRegistries (← k.toNat?))
  | ["assignFrameRegistry", k] => do pure (.assignFrameRegistry (← k.toNat?))
  | ["prune", k] => do pure (.prune (← k.toNat?))
  | _ => none

def step (s : St) (line : String) : St × String :=
  match words line with
  | ["reset"] => (init, "ok")
  | ws =>
    match parseOp ws with
    | none => (s, "bad-op")
    | some op =>
      let r := Ioflo.Registry.step s op
      (r.1, showOut r.2 ++ " | " ++ showState r.1)

end Ioflo.Drv.Registry

def main : IO Unit := Ioflo.Proto.loop Ioflo.Drv.Registry.step Ioflo.Registry.init
