import IofloModel.Model.Remotes
import IofloModel.Drv.Proto
/-!
driver for the RemoteStack index model (names and host addresses: alphanumeric tokens, `_` = the empty string)

  init <puid> <uid|~> <name|~> <ha|~>     a new stack (local device fields given or defaulted)
  initpre <puid> <uid|~> <name|~> <ha|~> <uid,name,ha;…> <uid:obj,…> <name:obj,…> <ha:obj,…>
                                          a stack constructed with caller-supplied, already populated indexes
  initip …                                the same with an IpLocalDevice; createip … = IpRemoteDevice(stack, …)
  create <uid|~> <name|~> <ha|~>          RemoteDevice(stack, …)          → ref <object>
  setuid r <uid> | setname r <name> | setha r <ha>   the device object is changed directly, behind the stack's back
  add r | move r <uid> | rename r <name> | reha r <ha> | remove r | removeall

reply: `<result> | p=<puid> L=<uid>,<name>,<ha> U=<uid>:<obj>,… N=<name>:<obj>,… H=<ha>:<obj>,… D=<uid>,<name>,<ha>;…`
-/
namespace Ioflo.Drv.Remotes
open Ioflo.Proto Ioflo.Remotes

abbrev S := St String String

def defaultName (u : Nat) : String := "Device" ++ toString u
def defaultHa : String := ""

/-- Ip devices: an address token is `<host code><port>`; the host codes `e` (''), `z` ('0.0.0.0'), `l` ('localhost'),
`L` ('LOCALHOST') are spellings of `n` ('127.0.0.1'), `c` ('::') and `f` ('0:0:0:0:0:0:0:0') of `o` ('::1');
any other code stands for itself.  This is `IpDevice.__init__`'s normalisation on tokens. -/
def normTok (s : String) : String :=
  match s.toList with
  | c :: rest =>
    if c == 'e' || c == 'z' || c == 'l' || c == 'L' then String.ofList ('n' :: rest)
    else if c == 'c' || c == 'f' then String.ofList ('o' :: rest)
    else s
  | [] => s
/-- `('127.0.0.1', stack.Port)` -/
def defaultIpHa : String := "n12357"

def okTok (s : String) : Bool := s ≠ "" && s.toList.all (fun c => c.isAlphanum)
def str? (s : String) : Option String := if s == "_" then some "" else if okTok s then some s else none
def optStr? (s : String) : Option (Option String) := if s == "~" then some none else (str? s).map some
def optNat? (s : String) : Option (Option Nat) := if s == "~" then some none else s.toNat?.map some

def fmtStr (s : String) : String := if s == "" then "_" else s
def sepBy (sep : String) (l : List String) : String := if l.isEmpty then "-" else sep.intercalate l
def fmtDev (d : Dev String String) : String := toString d.uid ++ "," ++ fmtStr d.name ++ "," ++ fmtStr d.ha

def dump (s : S) : String :=
  "p=" ++ toString s.puid ++ " L=" ++ fmtDev s.loc ++
  " U=" ++ sepBy "," (s.uidR.map (fun p => toString p.1 ++ ":" ++ toString p.2)) ++
  " N=" ++ sepBy "," (s.nameR.map (fun p => fmtStr p.1 ++ ":" ++ toString p.2)) ++
  " H=" ++ sepBy "," (s.haR.map (fun p => fmtStr p.1 ++ ":" ++ toString p.2)) ++
  " D=" ++ sepBy ";" (s.devs.map fmtDev)

def fmtOut : Out → String
  | .none => "None" | .ref n => "ref " ++ toString n | .rejected => "REJECTED"
  | .crashed e => "ERR " ++ (match e with | .KeyError => "KeyError" | .IndexError => "IndexError" | .ValueError => "ValueError" | .TypeError => "TypeError" | .AttributeError => "AttributeError")
  | .bad => "bad-op"

def semiList (s : String) : List String := if s == "-" then [] else s.splitOn ";"
def commaList (s : String) : List String := if s == "-" then [] else s.splitOn ","

def dev? (s : String) : Option (Dev String String) :=
  match s.splitOn "," with
  | [u, n, h] => do let u ← u.toNat?; let n ← str? n; let h ← str? h; some ⟨u, n, h⟩
  | _ => none

def entry? {α : Type} (key? : String → Option α) (s : String) : Option (α × Nat) :=
  match s.splitOn ":" with
  | [k, r] => do let k ← key? k; let r ← r.toNat?; some (k, r)
  | _ => none

def op? : List String → Option (Ioflo.Remotes.Op String String)
  | ["create", u, n, h] => do let u ← optNat? u; let n ← optStr? n; let h ← optStr? h; some (.create u n h)
  | ["createip", u, n, h] => do let u ← optNat? u; let n ← optStr? n; let h ← optStr? h; some (.createIp u n h)
  | ["add", r] => do let r ← r.toNat?; some (.add r)
  | ["move", r, u] => do let r ← r.toNat?; let u ← u.toNat?; some (.move r u)
  | ["rename", r, n] => do let r ← r.toNat?; let n ← str? n; some (.rename r n)
  | ["reha", r, h] => do let r ← r.toNat?; let h ← str? h; some (.reha r h)
  | ["remove", r] => do let r ← r.toNat?; some (.remove r)
  | ["removeall"] => some .removeAll
  | _ => none

def step (s : S) (line : String) : S × String :=
  match words line with
  | ["init", p, u, n, h] =>
    match p.toNat?, optNat? u, optStr? n, optStr? h with
    | some p, some u, some n, some h =>
      let s' := init defaultName defaultHa p u n h
      (s', "ok | " ++ dump s')
    | _, _, _, _ => (s, "bad-op")
  | ["initpre", p, u, n, h, ds, us, ns, hs] =>
    match p.toNat?, optNat? u, optStr? n, optStr? h, (semiList ds).mapM dev?,
          (commaList us).mapM (entry? String.toNat?), (commaList ns).mapM (entry? str?),
          (commaList hs).mapM (entry? str?) with
    | some p, some u, some n, some h, some ds, some us, some ns, some hs =>
      let s' := initWith defaultName defaultHa p u n h ds us ns hs
      (s', "ok | " ++ dump s')
    | _, _, _, _, _, _, _, _ => (s, "bad-op")
  | ["initip", p, u, n, h] =>
    match p.toNat?, optNat? u, optStr? n, optStr? h with
    | some p, some u, some n, some h =>
      let s' := initIp defaultName normTok defaultIpHa p u n h
      (s', "ok | " ++ dump s')
    | _, _, _, _ => (s, "bad-op")
  | ["setuid", r, v] =>
    match r.toNat?, v.toNat? with
    | some r, some v => (match tamper s (.setUid r v) with | some s' => (s', "None | " ++ dump s') | none => (s, "bad-op"))
    | _, _ => (s, "bad-op")
  | ["setname", r, v] =>
    match r.toNat?, str? v with
    | some r, some v => (match tamper s (.setName r v) with | some s' => (s', "None | " ++ dump s') | none => (s, "bad-op"))
    | _, _ => (s, "bad-op")
  | ["setha", r, v] =>
    match r.toNat?, str? v with
    | some r, some v => (match tamper s (.setHa r v) with | some s' => (s', "None | " ++ dump s') | none => (s, "bad-op"))
    | _, _ => (s, "bad-op")
  | ws =>
    match op? ws with
    | none => (s, "bad-op")
    | some op =>
      match Ioflo.Remotes.step defaultName defaultHa normTok defaultIpHa s op with
      | (_, .bad) => (s, "bad-op")
      | (s', o) => (s', fmtOut o ++ " | " ++ dump s')

end Ioflo.Drv.Remotes

def main : IO Unit :=
  Ioflo.Proto.loop Ioflo.Drv.Remotes.step (Ioflo.Remotes.init Ioflo.Drv.Remotes.defaultName "" 0 none none none)
