import IofloModel.Model.ResolvePath
import IofloModel.Drv.Proto
/-!
driver for the relative addressing model (engine `resolvepath`, C13)

  `parse <node 0|1> <tok>*`                      Builder.parseIndirect(tokens, 0, node)
      → `<path> <number of tokens consumed>` | `ERR parse`
  `res <actor|~> <act inode|~|-> <ipath|-> F <n> (<frame name> <inode|->)^n R <framer name> <inode|->
       M <k> (C <n> (<frame name> <inode|->)^n <framer name> <inode|->)^k`      Act.resolvePath(ipath)
      `~` = None (unresolved actor / Act.inode is None), `-` = empty string
      → `<path|-> S|N` (share / node) | `ERR incomplete` | `ERR nomain` | `ERR noactor`
-/
namespace Ioflo.Drv.ResolvePath
open Ioflo.Proto Ioflo.ResolvePath

abbrev P (α : Type) := List String → Option (α × List String)

def tok : P String
  | [] => none
  | t :: r => some (t, r)

def lit (s : String) : P Unit := fun ts => do
  let (t, r) ← tok ts
  if t = s then some ((), r) else none

def nat : P Nat := fun ts => do
  let (t, r) ← tok ts
  let n ← t.toNat?
  return (n, r)

def rep {α : Type} (p : P α) : Nat → P (List α)
  | 0, ts => some ([], ts)
  | n + 1, ts => do
    let (a, r) ← p ts
    let (as, r) ← rep p n r
    return (a :: as, r)

def many {α : Type} (p : P α) : P (List α) := fun ts => do
  let (n, r) ← nat ts
  rep p n r

/-- `-` is the empty string -/
def str : P String := fun ts => do
  let (t, r) ← tok ts
  return (if t = "-" then "" else t, r)

/-- `~` is None -/
def optStr : P (Option String) := fun ts => do
  let (t, r) ← tok ts
  return (if t = "~" then none else if t = "-" then some "" else some t, r)

def frameP : P RawFrame := fun ts => do
  let (n, r) ← tok ts
  let (i, r) ← str r
  return (⟨n, i⟩, r)

def mainP : P RawMain := fun ts => do
  let (_, r) ← lit "C" ts
  let (ch, r) ← many frameP r
  let (fn, r) ← tok r
  let (fi, r) ← str r
  return (⟨ch, fn, fi⟩, r)

def showErr : Err → String
  | .incomplete => "ERR incomplete"
  | .noMain => "ERR nomain"
  | .noActor => "ERR noactor"

def resLine (ts : List String) : Option String := do
  let (actor, r) ← optStr ts
  let (inode, r) ← optStr r
  let (ipath, r) ← str r
  let (_, r) ← lit "F" r
  let (frames, r) ← many frameP r
  let (_, r) ← lit "R" r
  let (fn, r) ← tok r
  let (fi, r) ← str r
  let (_, r) ← lit "M" r
  let (mains, r) ← many mainP r
  if r ≠ [] then none
  if frames.isEmpty then none
  match resolvePath ⟨frames, fn, fi, mains, actor⟩ inode ipath with
  | .ok (p, node) => return (if p = "" then "-" else p) ++ (if node then " N" else " S")
  | .error e => return showErr e

def parseLine (ts : List String) : Option String := do
  let (n, r) ← tok ts
  let node ← (match n with | "0" => some false | "1" => some true | _ => none)
  match parseIndirect node r with
  | .ok (parts, rest) => return joinDots parts ++ " " ++ toString (r.length - rest.length)
  | .error _ => return "ERR parse"

def step (_ : Unit) (line : String) : Unit × String :=
  match words line with
  | "res" :: ts => ((), (resLine ts).getD "bad-op")
  | "parse" :: ts => ((), (parseLine ts).getD "bad-op")
  | _ => ((), "bad-op")

end Ioflo.Drv.ResolvePath

def main : IO Unit := Ioflo.Proto.loop Ioflo.Drv.ResolvePath.step ()
