import IofloModel.Model.RotateMulti
import IofloModel.Drv.Proto
/-!
driver for the rotation model (engine `rotate`).  One case = `cfg …`, operations, then queries.

```
cfg <keep> <cyclePeriod> <fileSize> <flushPeriod> <reuse 0|1> <hsize>,<hsize>…   → ok
        (periods in 1/8 s; resets; one log per header size: the logger has that many logs)
adv <n> | ctl start|run|stop | reboot                                    → ok
fault <i> <n>                            → ok    the n-th os.rename call (from 0) on log i's files from now
                                                 raises OSError without moving anything
die start|run|stop <g>                   → ok    the process is killed inside the control after g primitives
                                                 (counted over all logs in the order the code performs them:
                                                 loop by loop, log by log), then a new process
recs <i> - | recs <i> . | recs <i> <size>,<size>…   → ok    what log i's action writes at the next run:
                                                            nothing / write("") / records of these sizes
trace <i>                                → the primitives log i performed, e.g. `A T1 T2 W W S …`
states <i>                               → the distinct successive crash states of log i, joined by ` || `
crash <i> <n>                            → log i's files after a kill before its primitive number n
```
a state lists the files newest first, joined by `;`: `-` absent, `.` empty, else `H` / `r<n>:<size>` joined by `,`
-/
namespace Ioflo.Drv.Rotate
open Ioflo.Proto Ioflo.Rotate

def showLine : Line → String
  | .header => "H"
  | .rec_ r => "r" ++ toString r.n ++ ":" ++ toString r.size

def showFile : Option (List Line) → String
  | none => "-"
  | some [] => "."
  | some ls => ",".intercalate (ls.map showLine)

def showFS (keep : Nat) (fs : FS) : String :=
  ";".intercalate ((List.range (keep + 1)).map fun k => showFile (fs.slots k))

def showPrim : Prim → String
  | .write _ => "W" | .sync => "S" | .closeF => "C" | .rename k => "R" ++ toString k
  | .renameErr k => "E" ++ toString k
  | .create => "N" | .openA => "A" | .touch k => "T" ++ toString k
  | .reboot => "X" | .newdir => "D"

def dedup : List String → List String
  | [] => []
  | [a] => [a]
  | a :: b :: rest => if a = b then dedup (b :: rest) else a :: dedup (b :: rest)

/-- crash states after every prefix of the trace (computed incrementally) -/
def allStates (keep : Nat) (fs0 : FS) (tr : List Prim) : List String :=
  let rec go (fs : FS) : List Prim → List String
    | [] => [showFS keep fs.crash]
    | p :: ps => showFS keep fs.crash :: go (fs.apply p) ps
  go fs0 tr

def parseCtl : String → Option Ctl
  | "start" => some .start | "run" => some .run | "stop" => some .stop | _ => none

def parseBatch (s : String) : Option (Option (List Nat)) :=
  if s = "-" then some none
  else if s = "." then some (some [])
  else ((s.splitOn ",").mapM String.toNat?).map some

/-- the logger's loops of control `c`, one after the other (each is a loop over the logs): the
states after each loop.  `Logger.reopen`, `Logger.prepare`, the logs' actions, the flush timer, the
cycle timer, STOP's `Logger.cycle` and `Logger.close`. -/
def phases (ms : MSt) (c : Ctl) : List MSt :=
  let logPh (m : MSt) : List MSt :=
    let a := m.map St.writeRec
    let b := MSt.flushTimer a
    [a, b, MSt.cycleTimer b]
  match c with
  | .start =>
    let a := ms.map fun x => x.reopen x.cfg.keep
    let b := a.map St.prepareHdr
    [a, b] ++ logPh b
  | .run => logPh ms
  | .stop =>
    match ms with
    | [] => []
    | s :: _ =>
      if s.status = .stopped then [] else
      let l := logPh ms
      let m := l.getLastD ms
      let m2 := match m with
        | [] => []
        | t :: _ => if t.cfg.keep ≠ 0 ∧ t.cfg.reuse then m.map St.cycle else m
      l ++ [m2, m2.map fun x => x.closeLog]

/-- a kill after `g` primitives of control `c`, counted in the order the code performs them (loop by
loop, log by log): how many primitives each log had performed -/
def cuts (ms : MSt) (c : Ctl) (g : Nat) : List Nat :=
  let rec go (prev : MSt) (phs : List MSt) (g : Nat) (ks : List Nat) : List Nat :=
    match phs with
    | [] => ks
    | ph :: rest =>
      let ds := (prev.zip ph).map fun (a, b) => b.trace.length - a.trace.length
      -- spend g over the logs in order
      let rec spend (ds ks : List Nat) (g : Nat) : List Nat × Nat :=
        match ds, ks with
        | d :: dr, k :: kr =>
          let t := min d g
          let (r, g') := spend dr kr (g - t)
          ((k + t) :: r, g')
        | _, _ => ([], g)
      let (ks', g') := spend ds ks g
      go ph rest g' ks'
  go ms (phases ms c) g (ms.map fun _ => 0)

def step (st : Option MSt) (line : String) : Option MSt × String :=
  match words line, st with
  | ["cfg", k, cp, fsz, fp, ru, hs], _ =>
    match k.toInt?, cp.toInt?, fsz.toInt?, fp.toInt?, (hs.splitOn ",").mapM String.toNat? with
    | some k, some cp, some fsz, some fp, some hs =>
      if (ru = "0" ∨ ru = "1") ∧ !hs.isEmpty then
        (some (MSt.init (Cfg.ofArgs k cp fsz fp (ru == "1") 0) hs), "ok")
      else (st, "bad-op")
    | _, _, _, _, _ => (st, "bad-op")
  | ["adv", d], some s =>
    match d.toNat? with
    | some n => (some (s.step (.advance n)), "ok")
    | none => (st, "bad-op")
  | ["recs", i, b], some s =>
    match i.toNat?, parseBatch b with
    | some i, some x => if i < s.length then (some (s.step (.batch i x)), "ok") else (st, "bad-op")
    | _, _ => (st, "bad-op")
  | ["reboot"], some s => (some (s.step .reboot), "ok")
  | ["fault", i, n], some s =>
    match i.toNat?, n.toNat? with
    | some i, some n => if i < s.length then (some (s.step (.fault i n)), "ok") else (st, "bad-op")
    | _, _ => (st, "bad-op")
  | ["ctl", c], some s =>
    match parseCtl c with
    | some c => (some (s.step (.ctl c)), "ok")
    | none => (st, "bad-op")
  | ["die", c, g], some s =>
    match parseCtl c, g.toNat? with
    | some c, some g =>
      -- the loops, run one after the other, are the control
      if ((phases s c).getLastD s).map (·.trace) = (MSt.send s c).map (·.trace) then
        (some (s.step (.die c (cuts s c g))), "ok")
      else (st, "bad-phases")
    | _, _ => (st, "bad-op")
  | ["trace", i], some s =>
    match i.toNat?.bind (s[·]?) with
    | some l => (st, " ".intercalate (l.trace.map showPrim))
    | none => (st, "bad-op")
  | ["states", i], some s =>
    match i.toNat?.bind (s[·]?) with
    | some l => (st, " || ".intercalate (dedup (allStates l.cfg.keep l.fs0 l.trace)))
    | none => (st, "bad-op")
  | ["crash", i, n], some s =>
    match i.toNat?.bind (s[·]?), n.toNat? with
    | some l, some n => (st, showFS l.cfg.keep (l.crashAt n))
    | _, _ => (st, "bad-op")
  | _, _ => (st, "bad-op")

end Ioflo.Drv.Rotate

def main : IO Unit := Ioflo.Proto.loop Ioflo.Drv.Rotate.step none
