import IofloModel.Model.Rotate
import IofloModel.Drv.Proto
/-!
driver for the rotation model (engine `rotate`).  One case = `cfg …`, operations, then queries.

```
cfg <keep> <cyclePeriod> <fileSize> <flushPeriod> <reuse 0|1> <hsize>   → ok   (periods in 1/8 s; resets)
adv <n> | ctl start|run|stop | reboot                                    → ok
recs - | recs . | recs <size>,<size>…    → ok    what the next run's action writes: nothing / write("") / records
region D53                               → in | out
trace                                    → the primitives performed, e.g. `A T1 T2 W W S …`
states                                   → the distinct successive crash states, joined by ` || `
crash <n>                                → files after a kill before primitive number n
```
a state lists the files newest first, joined by `;`: `-` absent, `.` empty, else `H` / `r<n>:<size>` joined by `,`
-/
namespace Ioflo.Drv.Rotate
open Ioflo.Proto Ioflo.Rotate

def showLine : Line → String
  | .header => "H"
  | .rec_ r => "r" ++ toString r.n ++ ":" ++ toString r.size

def showFile : Option (List Line) → String
  | none => "-"
  | some [] => "."
  | some ls => ",".intercalate (ls.map showLine)

def showFS (keep : Nat) (fs : FS) : String :=
  ";".intercalate ((List.range (keep + 1)).map fun k => showFile (fs.slots k))

def showPrim : Prim → String
  | .write _ => "W" | .sync => "S" | .closeF => "C" | .rename k => "R" ++ toString k
  | .create => "N" | .openA => "A" | .touch k => "T" ++ toString k
  | .reboot => "X" | .newdir => "D"

def dedup : List String → List String
  | [] => []
  | [a] => [a]
  | a :: b :: rest => if a = b then dedup (b :: rest) else a :: dedup (b :: rest)

/-- crash states after every prefix of the trace (computed incrementally) -/
def allStates (keep : Nat) (fs0 : FS) (tr : List Prim) : List String :=
  let rec go (fs : FS) : List Prim → List String
    | [] => [showFS keep fs.crash]
    | p :: ps => showFS keep fs.crash :: go (fs.apply p) ps
  go fs0 tr

def parseCtl : String → Option Ctl
  | "start" => some .start | "run" => some .run | "stop" => some .stop | _ => none

def parseBatch (s : String) : Option (Option (List Nat)) :=
  if s = "-" then some none
  else if s = "." then some (some [])
  else ((s.splitOn ",").mapM String.toNat?).map some

structure D where
  init : St
  ops : List Op := []     -- reversed
  cur : St

def D.run (d : D) (op : Op) : D := { d with ops := op :: d.ops, cur := d.cur.step op }

def step (st : Option D) (line : String) : Option D × String :=
  match words line, st with
  | ["cfg", k, cp, fsz, fp, ru, hs], _ =>
    match k.toInt?, cp.toInt?, fsz.toInt?, fp.toInt?, hs.toNat? with
    | some k, some cp, some fsz, some fp, some hs =>
      if ru = "0" ∨ ru = "1" then
        (some { init := { cfg := Cfg.ofArgs k cp fsz fp (ru == "1") hs },
                cur := { cfg := Cfg.ofArgs k cp fsz fp (ru == "1") hs } }, "ok")
      else (st, "bad-op")
    | _, _, _, _, _ => (st, "bad-op")
  | ["adv", d], some s =>
    match d.toNat? with
    | some n => (some (s.run (.advance n)), "ok")
    | none => (st, "bad-op")
  | ["recs", b], some s =>
    match parseBatch b with
    | some x => (some (s.run (.batch x)), "ok")
    | none => (st, "bad-op")
  | ["reboot"], some s => (some (s.run .reboot), "ok")
  | ["region", "D53"], some s => (st, if emptyKill s.init s.ops.reverse then "in" else "out")
  | ["ctl", c], some s =>
    match parseCtl c with
    | some c => (some (s.run (.ctl c)), "ok")
    | none => (st, "bad-op")
  | ["trace"], some s => (st, " ".intercalate (s.cur.trace.map showPrim))
  | ["states"], some s => (st, " || ".intercalate (dedup (allStates s.cur.cfg.keep s.cur.fs0 s.cur.trace)))
  | ["crash", n], some s =>
    match n.toNat? with
    | some n => (st, showFS s.cur.cfg.keep (s.cur.crashAt n))
    | none => (st, "bad-op")
  | _, _ => (st, "bad-op")

end Ioflo.Drv.Rotate

def main : IO Unit := Ioflo.Proto.loop Ioflo.Drv.Rotate.step none
