import IofloModel.Lemmas.Server
import IofloModel.Drv.Proto
/-!
driver for the server connection-table model (engine `server`, C26)

  reset <orig|fixed|fixed2> <tls 0|1> <eha>        (fixed = with D14, fixed2 = with D14 and D14b)
  arrive <peer> <sockname> <reported> <hs>     hs = word over d (done) w (want) f (fail), `-` = empty
  accepts | axes | cxes | connects | all | closeall
  shutdown <ca> | shutsend <ca> | shutrecv <ca> | close <ca> | remove <ca> <0|1>
  region D14b <tls> <peer> <peer> …             → 1 | 0
reply (every op): `ok|ERR <Exc> ix=<ca:sock:hasCs:connected,…> cx=<…> ax=<sock:ca,…> pend=<n> socks=<shutdowns:closed,…>`
-/
namespace Ioflo.Drv.Server
open Ioflo.Proto Ioflo.Server

structure D where
  v : Version
  s : State

def bool? : String → Option Bool
  | "0" => some false
  | "1" => some true
  | _ => none

def hs? (w : String) : Option (List Hs) :=
  if w == "-" then some [] else
  w.toList.foldr (fun c acc => match acc, c with
    | some l, 'd' => some (Hs.done :: l)
    | some l, 'w' => some (Hs.want :: l)
    | some l, 'f' => some (Hs.fail :: l)
    | _, _ => none) (some [])

def b01 (b : Bool) : String := if b then "1" else "0"

def showTab (t : List (Addr × Incomer)) : String :=
  if t.isEmpty then "." else
  ",".intercalate (t.map fun e =>
    s!"{e.1}:{e.2.sock}:{b01 e.2.hasCs}:{b01 e.2.connected}")

def showAxes (t : List (Nat × Addr)) : String :=
  if t.isEmpty then "." else ",".intercalate (t.map fun e => s!"{e.1}:{e.2}")

def showSocks (t : List Sock) : String :=
  if t.isEmpty then "." else ",".intercalate (t.map fun k => s!"{k.shutdowns}:{b01 k.closed}")

def excName : Exc → String
  | .valueError => "ValueError" | .typeError => "TypeError"
  | .attributeError => "AttributeError" | .handshakeError => "HandshakeError"

def render (r : Res) : String :=
  let s := r.state
  (match r.exc with | none => "ok" | some e => "ERR " ++ excName e) ++
  " ix=" ++ showTab s.ixes ++ " cx=" ++ showTab s.cxes ++ " ax=" ++ showAxes s.axes ++
  " pend=" ++ toString s.pending.length ++ " socks=" ++ showSocks s.socks

def apply (d : Option D) (op : Op) : Option D × String :=
  match d with
  | none => (none, "bad-op")
  | some d => let r := Ioflo.Server.step d.v d.s op; (some { d with s := r.state }, render r)

def allNat (l : List String) : Option (List Nat) :=
  l.foldr (fun w acc => match acc, w.toNat? with | some t, some n => some (n :: t) | _, _ => none) (some [])

def step (d : Option D) (line : String) : Option D × String :=
  match words line with
  | ["reset", v, tls, eha] =>
    match (if v == "orig" then some Version.orig else if v == "fixed" then some Version.fixed
           else if v == "fixed2" then some Version.fixed2 else none),
          bool? tls, eha.toNat? with
    | some v, some tls, some eha => (some { v := v, s := init tls eha }, "ok")
    | _, _, _ => (d, "bad-op")
  | ["arrive", p, n, r, h] =>
    match p.toNat?, n.toNat?, r.toNat?, hs? h with
    | some p, some n, some r, some h => apply d (.arrive p n r h)
    | _, _, _, _ => (d, "bad-op")
  | ["accepts"] => apply d .serviceAccepts
  | ["axes"] => apply d .serviceAxes
  | ["cxes"] =>
    match d with
    | some dd => if dd.s.tls then apply d .serviceCxes else (d, "bad-op")
    | none => (d, "bad-op")
  | ["connects"] => apply d .serviceConnects
  | ["all"] => apply d .serviceAll
  | ["closeall"] => apply d .closeAllIx
  | ["shutdown", ca] => match ca.toNat? with | some ca => apply d (.shutdownIx ca) | none => (d, "bad-op")
  | ["shutsend", ca] => match ca.toNat? with | some ca => apply d (.shutdownSendIx ca) | none => (d, "bad-op")
  | ["shutrecv", ca] => match ca.toNat? with | some ca => apply d (.shutdownReceiveIx ca) | none => (d, "bad-op")
  | ["close", ca] => match ca.toNat? with | some ca => apply d (.closeIx ca) | none => (d, "bad-op")
  | ["remove", ca, sc] =>
    match ca.toNat?, bool? sc with
    | some ca, some sc => apply d (.removeIx ca sc)
    | _, _ => (d, "bad-op")
  | "region" :: "D14b" :: tls :: peers =>
    match bool? tls, allNat peers with
    | some tls, some ps => (d, b01 (tlsDupPeer tls ps))
    | _, _ => (d, "bad-op")
  | _ => (d, "bad-op")

end Ioflo.Drv.Server

def main : IO Unit := Ioflo.Proto.loop Ioflo.Drv.Server.step none
