import IofloModel.Model.Share
import IofloModel.Drv.Proto
/-!
driver for the Share model (engine `share`).

values:  `n` None · `i<int>` · `s<hex>` string · `f<nat>` float (bit pattern) · `t<int>_<int>…` tuple (`t.` empty)
         · `r<id>` the caller's mutable object id (output: `r<id>[<int>_<int>…]` with its present contents)
         · (output only) `a<hex>` class attribute object
keys:    hex of UTF-8 (`-` = "")        pairs: `k=v;k=v` (`.` = empty list)

  reset                                  → ok
  setValue <v> | getValue | update <pairs> | change <pairs> | create <pairs> | stampNow
  setItem <k> <v> | getItem <k> | delItem <k> | contains <k> | get <k> | keys | items | values | len
  pop <k> | popitem | setdefault <k> <v> | clear | insert <int> <k> <v>
  sift none | sift <k>,<k>… (`.` = []) | copy | reorder <pairs> | setData <pairs>
  setTruth <v> | getTruth | changeUnit <pairs> | createUnit <pairs> | fetchUnit <k> | ctorUnit <pairs>
  mutate <id> <int>
  push <v> | pull | gulp <v> | spew
  setClock <0|1> <int|n> | attach <0|1|n>
  hold <deck|data|unit>   (no-op: the caller takes a reference)
  region <D11e>                          → true|false  (for the operations since `reset`)

reply:  `<out> | <stamp> | <keys> | <items> | <deck> | <len> | <truth> | <unit items or -> | <dataId>,<deckId>,<unit made: 0 or ->`
-/
namespace Ioflo.Drv.Share
open Ioflo.Proto Ioflo.Share

structure St where
  w : World
  ops : List Op      -- since reset (reversed)

def decStr (h : String) : Option Str := do
  let bs ← hexToBytes? h
  let s ← String.fromUTF8? (ByteArray.mk (bs.map (fun b => b.toUInt8)).toArray)
  pure s.toList

def encStr (s : Str) : String := bytesToHex ((String.ofList s).toUTF8.toList.map (·.toNat))

def decInt (s : String) : Option Int :=
  if s.startsWith "-" then (String.ofList (s.toList.drop 1)).toNat?.map (fun n => - (n : Int)) else s.toNat?.map (fun n => (n : Int))

def rest1 (s : String) : String := String.ofList (s.toList.drop 1)

def decInts (s : String) : Option (List Int) :=
  if s == "." then some [] else (s.splitOn "_").mapM decInt

def showInts (l : List Int) : String :=
  if l.isEmpty then "." else "_".intercalate (l.map toString)

def decVal (s : String) : Option Val :=
  if s == "n" then some .none
  else if s.startsWith "i" then (decInt (rest1 s)).map .int
  else if s.startsWith "s" then (decStr (rest1 s)).map .str
  else if s.startsWith "f" then (rest1 s).toNat?.map .flt
  else if s.startsWith "t" then (decInts (rest1 s)).map .tup
  else if s.startsWith "r" then (rest1 s).toNat?.map .ref
  else none

def showValP (pool : List (List Int)) : Val → String
  | .none => "n"
  | .int i => "i" ++ toString i
  | .str s => "s" ++ encStr s
  | .attr k => "a" ++ encStr k
  | .flt b => "f" ++ toString b
  | .tup l => "t" ++ showInts l
  | .ref id => "r" ++ toString id ++ "[" ++ showInts (pool.getD id []) ++ "]"

def decPair (s : String) : Option (Str × Val) :=
  match s.splitOn "=" with
  | [k, v] => do pure (← decStr k, ← decVal v)
  | _ => none

def decPairs (s : String) : Option (List (Str × Val)) :=
  if s == "." then some [] else (s.splitOn ";").mapM decPair

def showPairs (pool : List (List Int)) (l : List (Str × Val)) : String :=
  if l.isEmpty then "." else ";".intercalate (l.map (fun p => encStr p.1 ++ "=" ++ showValP pool p.2))

def showStamp : Option Int → String
  | none => "n"
  | some t => toString t

def showErr : Err → String
  | .keyError => "ERR KeyError"
  | .attributeError => "ERR AttributeError"
  | .typeError => "ERR TypeError"
  | .indexError => "ERR IndexError"
  | .unmodelled => "UNMODELLED"

def showOut (pool : List (List Int)) : Out → String
  | .unit => "unit"
  | .val v => "v:" ++ showValP pool v
  | .bool b => if b then "b:True" else "b:False"
  | .nat n => "n:" ++ toString n
  | .strs l => "k:" ++ (if l.isEmpty then "." else ",".intercalate (l.map encStr))
  | .pairs l => "p:" ++ showPairs pool l
  | .vals l => "l:" ++ (if l.isEmpty then "." else ",".intercalate (l.map (showValP pool)))
  | .stamp t => "t:" ++ showStamp t
  | .err e => showErr e

def observe (w : World) : String :=
  showStamp w.stamp ++ " | " ++
  (if w.data.keys.isEmpty then "." else ",".intercalate (w.data.keys.map encStr)) ++ " | " ++
  (match items w.data with
   | .ok l => showPairs w.pool l
   | .error e => showErr e) ++ " | " ++
  (if w.deck.isEmpty then "." else ",".intercalate (w.deck.map (showValP w.pool))) ++ " | " ++
  toString w.data.raw.length ++ " | " ++ showValP w.pool w.truth ++ " | " ++
  (match w.unit with
   | none => "-"
   | some u =>
     match items u with
     | .ok l => showPairs w.pool l
     | .error e => showErr e) ++ " | " ++
  toString w.dataId ++ "," ++ toString w.deckId ++ "," ++ (if w.unit.isSome then "0" else "-")

def decOptNat (s : String) : Option (Option Nat) :=
  if s == "n" then some none else s.toNat?.map some

def decOptInt (s : String) : Option (Option Int) :=
  if s == "n" then some none else (decInt s).map some

def parseOp : List String → Option Op
  | ["setValue", v] => do pure (.setValue (← decVal v))
  | ["getValue"] => some .getValue
  | ["update", ps] => do pure (.update (← decPairs ps))
  | ["change", ps] => do pure (.change (← decPairs ps))
  | ["create", ps] => do pure (.create (← decPairs ps))
  | ["stampNow"] => some .stampNow
  | ["setItem", k, v] => do pure (.setItem (← decStr k) (← decVal v))
  | ["getItem", k] => do pure (.getItem (← decStr k))
  | ["delItem", k] => do pure (.delItem (← decStr k))
  | ["contains", k] => do pure (.contains (← decStr k))
  | ["get", k] => do pure (.get (← decStr k))
  | ["keys"] => some .keys
  | ["items"] => some .items
  | ["values"] => some .values
  | ["len"] => some .len
  | ["pop", k] => do pure (.pop (← decStr k))
  | ["popitem"] => some .popitem
  | ["setdefault", k, v] => do pure (.setdefault (← decStr k) (← decVal v))
  | ["clear"] => some .clear
  | ["sift", "none"] => some (.sift none)
  | ["sift", ks] => do
    if ks == "." then pure (.sift (some [])) else pure (.sift (some (← (ks.splitOn ",").mapM decStr)))
  | ["copy"] => some .copy
  | ["reorder", ps] => do pure (.reorder (← decPairs ps))
  | ["setData", ps] => do pure (.setData (← decPairs ps))
  | ["setTruth", v] => do pure (.setTruth (← decVal v))
  | ["getTruth"] => some .getTruth
  | ["changeUnit", ps] => do pure (.changeUnit (← decPairs ps))
  | ["createUnit", ps] => do pure (.createUnit (← decPairs ps))
  | ["fetchUnit", k] => do pure (.fetchUnit (← decStr k))
  | ["ctorUnit", ps] => do pure (.ctorUnit (← decPairs ps))
  | ["mutate", i, n] => do pure (.mutate (← i.toNat?) (← decInt n))
  | ["insert", i, k, v] => do pure (.insert (← decInt i) (← decStr k) (← decVal v))
  | ["push", v] => do pure (.push (← decVal v))
  | ["pull"] => some .pull
  | ["gulp", v] => do pure (.gulp (← decVal v))
  | ["spew"] => some .spew
  | ["setClock", i, t] => do pure (.setClock (← i.toNat?) (← decOptInt t))
  | ["attach", s] => do pure (.attach (← decOptNat s))
  | _ => none

def step (s : St) (line : String) : St × String :=
  match words line with
  | ["reset"] => ({ w := init, ops := [] }, "ok")
  | ["region", "D11e"] => (s, toString (regionD11e s.ops.reverse))
  | ["hold", _] => (s, "unit | " ++ observe s.w)     -- the caller takes a reference: not an operation of the share
  | ws =>
    match parseOp ws with
    | none => (s, "bad-op")
    | some op =>
      let r := Ioflo.Share.step s.w op
      ({ w := r.1, ops := op :: s.ops }, showOut r.1.pool r.2 ++ " | " ++ observe r.1)

end Ioflo.Drv.Share

def main : IO Unit := Ioflo.Proto.loop Ioflo.Drv.Share.step { w := Ioflo.Share.init, ops := [] }
