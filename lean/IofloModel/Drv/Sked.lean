import IofloModel.Model.SkedF64
import IofloModel.Drv.Proto
/-!
driver for the scheduler model (engine `sked`)

request   `run <x|f|s|r> <fuel> <config>`            → `<outcome> | <event>;<event>;… | aborted id… | ticks n`
          `drift <fuel> <config(f)> @ <config(x)>` → `true` / `false`   (region predicate of D2)

config    `<P> <stamp> <nhouses> { <n> id… <n> id… <n> id… }  <ntaskers> { tasker }`
tasker    `<a|i> <period> <nentries> { <sendIndex> <nacts> { act } } <-|fromIndex <nacts> { act }>`
act       `b <ctl 0-5> <period|-> <n> id…`  |  `r`  |  `x <k|s|e|b> <name>`
numbers   mode `x`: `p/q` (exact rational);  modes `f` (hardware `Float`) and `s` (the kernel-evaluable
          binary64 model `F64`): 16 hex digits = IEEE binary64 bit pattern
event     `<L|F> <tick> <id> <ctl> <stamp> <result> <periodAfter>`   result: `y<status 0-4>` | `stop` | `raise:<exc>`
-/
namespace Ioflo.Drv.Sked
open Ioflo.Proto Ioflo.Sked

abbrev P := StateT (List String) Option

def tok : P String := do
  match (← get) with
  | [] => failure
  | t :: ts => set ts; pure t

def nat : P Nat := do
  let t ← tok
  match t.toNat? with
  | some n => pure n
  | none => failure

def many {α : Type} (p : P α) : Nat → P (List α)
  | 0 => pure []
  | n+1 => do let a ← p; let as ← many p n; pure (a :: as)

def counted {α : Type} (p : P α) : P (List α) := do let n ← nat; many p n

def ratOfString (s : String) : Option Rat :=
  match s.splitOn "/" with
  | [a, b] =>
    match a.toInt?, b.toNat? with
    | some p, some q => if q = 0 then none else some (mkRat p q)
    | _, _ => none
  | _ => none

def hexNat (s : String) : Option Nat :=
  s.toList.foldl (fun acc c => match acc, hexDigit? c with
    | some a, some d => some (a * 16 + d) | _, _ => none) (some 0)

def floatOfString (s : String) : Option Float :=
  if s.length ≠ 16 then none else (hexNat s).map (fun n => Float.ofBits n.toUInt64)

def f64OfString (s : String) : Option F64 :=
  if s.length ≠ 16 then none else (hexNat s).bind F64.ofBits?
def f64ToString (x : F64) : String := natToHex 16 x.toBits

def ratToString (r : Rat) : String := toString r.num ++ "/" ++ toString r.den
def floatToString (f : Float) : String := natToHex 16 f.toBits.toNat

def control : P Control := do
  match (← tok) with
  | "0" => pure .stop | "1" => pure .start | "2" => pure .run | "3" => pure .abort
  | "4" => pure .ready | "5" => pure .other | _ => failure

def exc : P Exc := do
  let k ← tok
  let n ← tok
  match k with
  | "k" => pure .keyboardInterrupt | "s" => pure .systemExit
  | "e" => pure (.exception n) | "b" => pure (.baseException n) | _ => failure

section
variable {τ : Type} (num : String → Option τ)

def number : P τ := do
  match num (← tok) with
  | some x => pure x
  | none => failure

def optNumber : P (Option τ) := do
  let t ← tok
  if t = "-" then pure none else
  match num t with
  | some x => pure (some x)
  | none => failure

def act : P (Act τ) := do
  match (← tok) with
  | "b" => do
    let c ← control
    let p ← optNumber num
    let ts ← counted nat
    pure (.bid ts c p)
  | "r" => pure .ret
  | "x" => do let e ← exc; pure (.raise e)
  | _ => failure

def tasker : P (Tk τ) := do
  let a ← tok
  let active ← (match a with | "a" => pure true | "i" => pure false | _ => failure : P Bool)
  let p ← number num
  let script ← counted (do let k ← nat; let as ← counted (act num); pure (k, as))
  let t ← tok
  let tail ← (if t = "-" then pure none else
    match t.toNat? with
    | some k => do let as ← counted (act num); pure (some (k, as))
    | none => failure : P (Option (Nat × List (Act τ))))
  pure { active := active, period := p, script := script, tail := tail }

def house : P House := do
  let f ← counted nat
  let m ← counted nat
  let b ← counted nat
  pure { fronts := f, mids := m, backs := b }

def config : P (Config τ) := do
  let p ← number num
  let s ← number num
  let hs ← counted house
  let ts ← counted (tasker num)
  pure { period := p, stamp := s, houses := hs, taskers := ts }
end

def ctlCode : Control → String
  | .stop => "0" | .start => "1" | .run => "2" | .abort => "3" | .ready => "4" | .other => "5"
def statusCode : Status → String
  | .stopped => "0" | .started => "1" | .running => "2" | .aborted => "3" | .readied => "4"
def excName : Exc → String
  | .keyboardInterrupt => "KeyboardInterrupt" | .systemExit => "SystemExit"
  | .exception n => n | .baseException n => n
  | .indexError => "IndexError" | .unboundLocalError => "UnboundLocalError"
def sentCode : Sent → String
  | .yielded s => "y" ++ statusCode s | .stopIteration => "stop" | .raised e => "raise:" ++ excName e
def endingCode : Ending → String
  | .noReady => "noready" | .noMore => "nomore" | .interrupted => "interrupted"
  | .raised e => "raised:" ++ excName e | .fuel => "fuel"
def outcomeCode : Outcome → String
  | .returned e => "returned " ++ endingCode e | .raised e => "raised " ++ excName e | .outOfFuel => "fuel"

def showEvent {τ : Type} (sh : τ → String) (e : Event τ) : String :=
  " ".intercalate [match e.phase with | .loop => "L" | .final => "F", toString e.tick, toString e.id,
    ctlCode e.control, sh e.stamp, sentCode e.result, sh e.periodAfter]

def showRun {τ : Type} [TimeLike τ] (sh : τ → String) (c : Config τ) (fuel : Nat) : String :=
  if !c.wellFormed then "bad-op" else
  let r := c.run fuel
  outcomeCode r.1 ++ " | " ++ ";".intercalate (r.2.events.map (showEvent sh))
    ++ " | aborted " ++ " ".intercalate (r.2.aborted.map (fun e => toString e.id))
    ++ " | ticks " ++ toString r.2.tick

def step (_ : Unit) (line : String) : Unit × String :=
  let ws := words line
  let reply : Option String :=
    match ws with
    | "run" :: "x" :: rest =>
      match (do let f ← nat; let c ← config ratOfString; pure (f, c) : P _).run rest with
      | some ((f, c), []) => some (showRun ratToString c f)
      | _ => none
    | "run" :: "f" :: rest =>
      match (do let f ← nat; let c ← config floatOfString; pure (f, c) : P _).run rest with
      | some ((f, c), []) => some (showRun floatToString c f)
      | _ => none
    | "run" :: "s" :: rest =>
      match (do let f ← nat; let c ← config f64OfString; pure (f, c) : P _).run rest with
      | some ((f, c), []) => some (showRun f64ToString c f)
      | _ => none
    | "run" :: "r" :: rest =>
      -- numbers given as exact rationals, every one rounded to binary64 by the model itself (`Config.toF64`)
      match (do let f ← nat; let c ← config ratOfString; pure (f, c) : P _).run rest with
      | some ((f, c), []) => some (showRun f64ToString c.toF64 f)
      | _ => none
    | "drift" :: rest =>
      match (do let f ← nat; let cf ← config floatOfString
                let sep ← tok
                if sep ≠ "@" then failure
                let cx ← config ratOfString; pure (f, cf, cx) : P _).run rest with
      | some ((f, cf, cx), []) =>
        if cf.wellFormed && cx.wellFormed then some (toString (floatDrift cf cx f)) else none
      | _ => none
    | _ => none
  ((), reply.getD "bad-op")

end Ioflo.Drv.Sked

def main : IO Unit := Ioflo.Proto.loop Ioflo.Drv.Sked.step ()
