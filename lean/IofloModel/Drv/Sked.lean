import IofloModel.Drv.SkedProto
/-!
driver for the scheduler model (engine `sked`)

request   `runs <x|f|r> <fuel> <config> <nreruns> { <n> id… }` → the replies of the first and the later `run()`s joined by ` || `
          `run <x|f|s|r> <fuel> <config>`            → `<outcome> | <event>;<event>;… | aborted id… | ticks n`
          `drift <fuel> <config(f)> @ <config(x)>` → `true` / `false`   (region predicate of D2)

config    `<P> <stamp> <nhouses> { <n> id… <n> id… <n> id… }  <ntaskers> { tasker }`
tasker    `<a|i> <period> <nentries> { <sendIndex> <nacts> { act } } <-|fromIndex <nacts> { act }>`
act       `b <ctl 0-5> <period|-> <n> id…`  |  `r`  |  `x <k|s|e|b> <name>`
numbers   mode `x`: `p/q` (exact rational);  modes `f` (hardware `Float`) and `s` (the kernel-evaluable
          binary64 model `F64`): 16 hex digits = IEEE binary64 bit pattern
event     `<L|F> <tick> <id> <ctl> <stamp> <result> <periodAfter>`   result: `y<status 0-4>` | `stop` | `raise:<exc>`
-/
namespace Ioflo.Drv.Sked
open Ioflo.Proto Ioflo.Sked Ioflo.Drv.SkedProto

section
variable {τ : Type} (num : String → Option τ)

def act : P (Act τ) := do
  match (← tok) with
  | "b" => do
    let c ← control
    let p ← optNumber num
    let ts ← counted nat
    pure (.bid ts c p)
  | "r" => pure .ret
  | "x" => do let e ← exc; pure (.raise e)
  | _ => failure

def tasker : P (Tk τ) := do
  let a ← tok
  let active ← (match a with | "a" => pure true | "i" => pure false | _ => failure : P Bool)
  let p ← number num
  let script ← counted (do let k ← nat; let as ← counted (act num); pure (k, as))
  let t ← tok
  let tail ← (if t = "-" then pure none else
    match t.toNat? with
    | some k => do let as ← counted (act num); pure (some (k, as))
    | none => failure : P (Option (Nat × List (Act τ))))
  pure { active := active, period := p, script := script, tail := tail }

def config : P (Config τ) := do
  let p ← number num
  let s ← number num
  let hs ← counted house
  let ts ← counted (tasker num)
  pure { period := p, stamp := s, houses := hs, taskers := ts }
end

def showResult {τ : Type} (sh : τ → String) (r : Outcome × St τ (Ioflo.Sked.World τ)) : String :=
  outcomeCode r.1 ++ " | " ++ ";".intercalate (r.2.events.map (showEvent sh))
    ++ " | aborted " ++ " ".intercalate (r.2.aborted.map (fun e => toString e.id))
    ++ " | ticks " ++ toString r.2.tick

def showRun {τ : Type} [TimeLike τ] (sh : τ → String) (c : Config τ) (fuel : Nat) : String :=
  if !c.wellFormed then "bad-op" else showResult sh (c.run fuel)

/-- several `run()`s on one scheduler; before each later run the listed taskers are re-made -/
def showRuns {τ : Type} [TimeLike τ] (sh : τ → String) (c : Config τ) (fuel : Nat) (again : List (List Nat)) : String :=
  if !c.wellFormed || !again.all (fun ids => ids.all (· < c.taskers.length)) then "bad-op" else
  " || ".intercalate ((c.runAll fuel again).map (showResult sh))

def step (_ : Unit) (line : String) : Unit × String :=
  let ws := words line
  let reply : Option String :=
    match ws with
    | "run" :: "x" :: rest =>
      match (do let f ← nat; let c ← config ratOfString; pure (f, c) : P _).run rest with
      | some ((f, c), []) => some (showRun ratToString c f)
      | _ => none
    | "run" :: "f" :: rest =>
      match (do let f ← nat; let c ← config floatOfString; pure (f, c) : P _).run rest with
      | some ((f, c), []) => some (showRun floatToString c f)
      | _ => none
    | "run" :: "s" :: rest =>
      match (do let f ← nat; let c ← config f64OfString; pure (f, c) : P _).run rest with
      | some ((f, c), []) => some (showRun f64ToString c f)
      | _ => none
    | "run" :: "r" :: rest =>
      -- numbers given as exact rationals, every one rounded to binary64 by the model itself (`Config.toF64`)
      match (do let f ← nat; let c ← config ratOfString; pure (f, c) : P _).run rest with
      | some ((f, c), []) => some (showRun f64ToString c.toF64 f)
      | _ => none
    | "runs" :: "x" :: rest =>
      match (do let f ← nat; let c ← config ratOfString; let a ← counted (counted nat); pure (f, c, a) : P _).run rest with
      | some ((f, c, a), []) => some (showRuns ratToString c f a)
      | _ => none
    | "runs" :: "f" :: rest =>
      match (do let f ← nat; let c ← config floatOfString; let a ← counted (counted nat); pure (f, c, a) : P _).run rest with
      | some ((f, c, a), []) => some (showRuns floatToString c f a)
      | _ => none
    | "runs" :: "r" :: rest =>
      match (do let f ← nat; let c ← config ratOfString; let a ← counted (counted nat); pure (f, c, a) : P _).run rest with
      | some ((f, c, a), []) => some (showRuns f64ToString c.toF64 f a)
      | _ => none
    | "drift" :: rest =>
      match (do let f ← nat; let cf ← config floatOfString
                let sep ← tok
                if sep ≠ "@" then failure
                let cx ← config ratOfString; pure (f, cf, cx) : P _).run rest with
      | some ((f, cf, cx), []) =>
        if cf.wellFormed && cx.wellFormed then some (toString (floatDrift cf cx f)) else none
      | _ => none
    | _ => none
  ((), reply.getD "bad-op")

end Ioflo.Drv.Sked

def main : IO Unit := Ioflo.Proto.loop Ioflo.Drv.Sked.step ()
