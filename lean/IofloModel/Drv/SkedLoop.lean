import IofloModel.Model.SkedLoop
import IofloModel.Drv.SkedProto
/-!
driver for the crash-point model (engine `skedloop`)

request   `run <fuel> <program>` → `<outcome> | <event>;… | <mark>;… | final <status>:<desire>:<alive>:<actives,> … | ticks n | count n`
program   `<P> <stamp> <nhouses> { <n> id… <n> id… <n> id… } <crash> <bcrash> <nframers> { framer }`
crash     `-` | `<k> <k|s|e|b> <name>`         (the k-th action raises / exception after pass k)
framer    `<a|i> <period> <first> <nframes> { frame }`
frame     `<over|-> <n> { act } <n> { act } <n> { act } <n> { <recurred> <target> }`   (enter recur exit, transitions)
act       `r` | `s` | `b <ctl> <n> id…`
obs       `m <framer>.<frame>.<e|r|x>` | `r <L|F> id ctl` | `e id <result>`
-/
namespace Ioflo.Drv.SkedLoop
open Ioflo.Proto Ioflo.Sked Ioflo.SkedLoop Ioflo.Drv.SkedProto

def act : P SkedLoop.Act := do
  match (← tok) with
  | "r" => pure .record
  | "s" => pure .step
  | "b" => do let c ← control; let ts ← counted nat; pure (.bid ts c)
  | _ => failure

def optNat : P (Option Nat) := do
  let t ← tok
  if t = "-" then pure none else
  match t.toNat? with
  | some n => pure (some n)
  | none => failure

def frame : P Frame := do
  let o ← optNat
  let en ← counted act
  let re ← counted act
  let ex ← counted act
  let tr ← counted (do let n ← nat; let t ← nat; pure (n, t))
  pure { over := o, enacts := en, reacts := re, exacts := ex, trans := tr }

def framer : P (Fr Rat) := do
  let s ← tok
  let active ← (match s with | "a" => pure true | "i" => pure false | _ => failure : P Bool)
  let p ← number ratOfString
  let first ← nat
  let fs ← counted frame
  pure { active := active, period := p, frames := fs, first := first }

def crashPlan : P (Option (Nat × Exc)) := do
  let t ← tok
  if t = "-" then pure none else
  match t.toNat? with
  | some k => do let x ← exc; pure (some (k, x))
  | none => failure

def program : P (Program Rat) := do
  let p ← number ratOfString
  let s ← number ratOfString
  let hs ← counted house
  let c ← crashPlan
  let b ← crashPlan
  let fs ← counted framer
  pure { period := p, stamp := s, houses := hs, framers := fs, crash := c, boundaryCrash := b }

def showMark : Obs → String
  | .mark i f ctx => s!"m {i}.{f}.{match ctx with | .enter => "e" | .recur => "r" | .exit => "x"}"
  | .recv ph i c => s!"r {match ph with | .loop => "L" | .final => "F"} {i} {ctlCode c}"
  | .res i r => s!"e {i} {sentCode r}"

def showRun (p : Program Rat) (fuel : Nat) : String :=
  if !p.wellFormed then "bad-op" else
  let r := p.run fuel
  let w := r.2.world
  outcomeCode r.1 ++ " | " ++ ";".intercalate (r.2.events.map (showEvent ratToString))
    ++ " | " ++ ";".intercalate (w.trace.map showMark)
    ++ " | final " ++ " ".intercalate ((List.range w.n).map fun i =>
        let f := w.framers i
        statusCode f.status ++ ":" ++ ctlCode f.desire ++ ":" ++ (if f.alive then "1" else "0") ++ ":" ++
          ",".intercalate (f.actives.map toString))
    ++ " | ticks " ++ toString r.2.tick ++ " | count " ++ toString w.count

def step (_ : Unit) (line : String) : Unit × String :=
  let reply : Option String :=
    match words line with
    | "run" :: rest =>
      match (do let f ← nat; let p ← program; pure (f, p) : P _).run rest with
      | some ((f, p), []) => some (showRun p f)
      | _ => none
    | _ => none
  ((), reply.getD "bad-op")

end Ioflo.Drv.SkedLoop

def main : IO Unit := Ioflo.Proto.loop Ioflo.Drv.SkedLoop.step ()
