import IofloModel.Model.SkedF64
import IofloModel.Drv.Proto
/-! token parsers and printers shared by the scheduler drivers (`sked`, `bids`, `skedloop`) -/
namespace Ioflo.Drv.SkedProto
open Ioflo.Proto Ioflo.Sked

abbrev P := StateT (List String) Option

def tok : P String := do
  match (← get) with
  | [] => failure
  | t :: ts => set ts; pure t

def nat : P Nat := do
  let t ← tok
  match t.toNat? with
  | some n => pure n
  | none => failure

def many {α : Type} (p : P α) : Nat → P (List α)
  | 0 => pure []
  | n+1 => do let a ← p; let as ← many p n; pure (a :: as)

def counted {α : Type} (p : P α) : P (List α) := do let n ← nat; many p n

def ratOfString (s : String) : Option Rat :=
  match s.splitOn "/" with
  | [a, b] =>
    match a.toInt?, b.toNat? with
    | some p, some q => if q = 0 then none else some (mkRat p q)
    | _, _ => none
  | _ => none

def hexNat (s : String) : Option Nat :=
  s.toList.foldl (fun acc c => match acc, hexDigit? c with
    | some a, some d => some (a * 16 + d) | _, _ => none) (some 0)

def floatOfString (s : String) : Option Float :=
  if s.length ≠ 16 then none else (hexNat s).map (fun n => Float.ofBits n.toUInt64)

def f64OfString (s : String) : Option F64 :=
  if s.length ≠ 16 then none else (hexNat s).bind F64.ofBits?
def f64ToString (x : F64) : String := natToHex 16 x.toBits

def ratToString (r : Rat) : String := toString r.num ++ "/" ++ toString r.den
def floatToString (f : Float) : String := natToHex 16 f.toBits.toNat

def control : P Control := do
  match (← tok) with
  | "0" => pure .stop | "1" => pure .start | "2" => pure .run | "3" => pure .abort
  | "4" => pure .ready | "5" => pure .other | _ => failure

def exc : P Exc := do
  let k ← tok
  let n ← tok
  match k with
  | "k" => pure .keyboardInterrupt | "s" => pure .systemExit
  | "e" => pure (.exception n) | "b" => pure (.baseException n) | _ => failure


section
variable {τ : Type} (num : String → Option τ)

def number : P τ := do
  match num (← tok) with
  | some x => pure x
  | none => failure

def optNumber : P (Option τ) := do
  let t ← tok
  if t = "-" then pure none else
  match num t with
  | some x => pure (some x)
  | none => failure
end

def house : P House := do
  let f ← counted nat
  let m ← counted nat
  let b ← counted nat
  pure { fronts := f, mids := m, backs := b }

def ctlCode : Control → String
  | .stop => "0" | .start => "1" | .run => "2" | .abort => "3" | .ready => "4" | .other => "5"
def statusCode : Status → String
  | .stopped => "0" | .started => "1" | .running => "2" | .aborted => "3" | .readied => "4"
def excName : Exc → String
  | .keyboardInterrupt => "KeyboardInterrupt" | .systemExit => "SystemExit"
  | .exception n => n | .baseException n => n
  | .indexError => "IndexError" | .unboundLocalError => "UnboundLocalError"
def sentCode : Sent → String
  | .yielded s => "y" ++ statusCode s | .stopIteration => "stop" | .raised e => "raise:" ++ excName e
def endingCode : Ending → String
  | .noReady => "noready" | .noMore => "nomore" | .interrupted => "interrupted"
  | .raised e => "raised:" ++ excName e | .fuel => "fuel"
def outcomeCode : Outcome → String
  | .returned e => "returned " ++ endingCode e | .raised e => "raised " ++ excName e | .outOfFuel => "fuel"


def showEvent {τ : Type} (sh : τ → String) (e : Event τ) : String :=
  " ".intercalate [match e.phase with | .loop => "L" | .final => "F", toString e.tick, toString e.id,
    ctlCode e.control, sh e.stamp, sentCode e.result, sh e.periodAfter]

end Ioflo.Drv.SkedProto
