import IofloModel.Model.Sse
import IofloModel.Drv.Proto
/-! driver for the server-sent-event model.

request  `sse <max> <op> <op> ...`   op = `f<hex>` (raw.extend + parse; `f-` = empty receive) | `c` (close)
reply    `leid=<hex|~> retry=<int|~> status=<s> | ev <id|~> <name> <data> | ev ...`   (hex, `-` = empty)
request  `sseold <max> <op> ...`     the same on the model of the unrepaired parseLine (before fixes/D19-…)
request  `lines <hex>`               reply: the lines `scan` finds in the bytes, then `rest=<hex> skip=<0|1>`
-/
namespace Ioflo.Drv.Sse
open Ioflo.Proto Ioflo.Sse

def optHex : Option Bytes → String
  | none => "~"
  | some b => bytesToHex b

def statusStr : Status → String
  | .running => "running"
  | .dead .lineTooLong => "dead:LineTooLong"
  | .dead .unicodeDecode => "dead:UnicodeDecodeError"
  | .finished => "finished"
  | .unmodelled => "unmodelled"

def render (s : St) : String :=
  let head := "leid=" ++ optHex s.ev.leid ++ " retry=" ++
    (match s.ev.retry with | none => "~" | some i => toString i) ++ " status=" ++ statusStr s.ev.status
  s.ev.events.foldl (fun acc e => acc ++ " | ev " ++ optHex e.id ++ " " ++ bytesToHex e.name ++ " " ++ bytesToHex e.data) head

def runOps (max : Nat) : St → List String → Option St
  | s, [] => some s
  | s, op :: ops =>
    if op = "c" then runOps max (close s) ops
    else match op.toList with
      | 'f' :: h => match hexToBytes? (String.ofList h) with
        | some b => runOps max (feed max s b) ops
        | none => none
      | _ => none

def runOpsOld (max : Nat) : St → List String → Option St
  | s, [] => some s
  | s, op :: ops =>
    if op = "c" then runOpsOld max (close s) ops
    else match op.toList with
      | 'f' :: h => match hexToBytes? (String.ofList h) with
        | some b => runOpsOld max (feedOld max s b) ops
        | none => none
      | _ => none

partial def allLines (skip : Bool) (raw : Bytes) (acc : String) : String :=
  let s := norm { raw := raw, skip := skip }
  match scan s.raw with
  | none => acc ++ "rest=" ++ bytesToHex s.raw ++ " skip=" ++ (if s.skip then "1" else "0")
  | some (l, r, k) => allLines k r (acc ++ bytesToHex l ++ " ")

def step (_ : Unit) (line : String) : Unit × String :=
  match words line with
  | "sse" :: m :: ops =>
    match m.toNat? with
    | some max => match runOps max init ops with
      | some s => ((), render s)
      | none => ((), "bad-op")
    | none => ((), "bad-op")
  | "sseold" :: m :: ops =>
    match m.toNat? with
    | some max => match runOpsOld max init ops with
      | some s => ((), render s)
      | none => ((), "bad-op")
    | none => ((), "bad-op")
  | ["lines", h] =>
    match hexToBytes? h with
    | some b => ((), allLines false b "")
    | none => ((), "bad-op")
  | _ => ((), "bad-op")

end Ioflo.Drv.Sse

def main : IO Unit := Ioflo.Proto.loop Ioflo.Drv.Sse.step ()
