import IofloModel.Model.Store
import IofloModel.Drv.Proto
/-!
driver for the Store model (engine `store`).  Names travel as hex of their UTF-8 bytes (`-` = "").

  reset | reset legacy                  → ok            (empty root dict; `legacy` = unpatched D10 order)
  fetch|fetchShare|fetchNode <name>
  add <name> <idtag> <idsub> <optag>    addbad
  addNode <name> <optag>
  change <name> <idtag> <idsub>         changebad
  create <name> <optag>                 createNode <name> <optag>

reply:  `<out> | <entry>;<entry>;…`   out = `S <name> <tag>:<sub>` | `N …` | `NONE` | `ERR ValueError`
entry = `<S|N>,<seg>/<seg>/…,<name>,<tag>:<sub>` in dict order (the harness sorts).
-/
namespace Ioflo.Drv.Store
open Ioflo.Proto Ioflo.Store

structure St where
  lg : Bool
  root : Kids

def decName (h : String) : Option Str := do
  let bs ← hexToBytes? h
  let s ← String.fromUTF8? (ByteArray.mk (bs.map (fun b => b.toUInt8)).toArray)
  pure s.toList

def encName (s : Str) : String := bytesToHex ((String.ofList s).toUTF8.toList.map (·.toNat))

def showId (i : Oid) : String := toString i.tag ++ ":" ++ toString i.sub

def showObj (o : Obj) : String :=
  (if o.isShare then "S " else "N ") ++ encName o.name ++ " " ++ showId o.id

def showOut : Out → String
  | .obj o => showObj o
  | .none => "NONE"
  | .err _ => "ERR ValueError"

def showEntry (e : Path × Obj) : String :=
  (if e.2.isShare then "S," else "N,") ++ "/".intercalate (e.1.map encName) ++ "," ++
    encName e.2.name ++ "," ++ showId e.2.id

def dump (root : Kids) : String := ";".intercalate ((flatKids [] root).map showEntry)

def parseOp : List String → Option Op
  | ["fetch", n] => do pure (.fetch (← decName n))
  | ["fetchShare", n] => do pure (.fetchShare (← decName n))
  | ["fetchNode", n] => do pure (.fetchNode (← decName n))
  | ["add", n, a, b, t] => do pure (.add (← decName n) ⟨← a.toNat?, ← b.toNat?⟩ (← t.toNat?))
  | ["addbad"] => some .addBad
  | ["addNode", n, t] => do pure (.addNode (← decName n) (← t.toNat?))
  | ["change", n, a, b] => do pure (.change (← decName n) ⟨← a.toNat?, ← b.toNat?⟩)
  | ["changebad"] => some .changeBad
  | ["create", n, t] => do pure (.create (← decName n) (← t.toNat?))
  | ["createNode", n, t] => do pure (.createNode (← decName n) (← t.toNat?))
  | _ => none

def step (s : St) (line : String) : St × String :=
  match words line with
  | ["reset"] => ({ lg := false, root := [] }, "ok")
  | ["reset", "legacy"] => ({ lg := true, root := [] }, "ok")
  | ws =>
    match parseOp ws with
    | none => (s, "bad-op")
    | some op =>
      let r := Ioflo.Store.step s.lg s.root op
      ({ s with root := r.1 }, showOut r.2 ++ " | " ++ dump r.1)

end Ioflo.Drv.Store

def main : IO Unit := Ioflo.Proto.loop Ioflo.Drv.Store.step { lg := false, root := [] }
