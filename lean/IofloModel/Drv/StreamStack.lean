import IofloModel.Model.StreamStack
import IofloModel.Drv.Proto
/-!
driver for the stream-stack model (engine `streamstack`).  Bytes are hex, `-` = empty.

  cli <asis|repaired> <whole|framed> <op> …     client stack;  reply: one record per call, separated by ` | `
      ops: `c` connect   `t<hex>` transmit   `P<sends>` serviceTxPkts   `O<sends>` serviceTxPktsOnce
           `R<recvs>` serviceReceives
      record: `<ok|ERR name> wire=<hex> txbs=<hex> q=<hex,hex…> rxbs=<hex> rx=<hex,hex…> dl=<bytes delivered by the socket> c=<0|1> x=<0|1>`
  srv <asis|repaired> <whole|framed> <op> …     server stack
      ops: `a<ca>` serviceConnects with a pending connection   `C` serviceConnects   `t<ca>:<hex>` transmit
           `P` serviceTxPkts   `X<ca>=<sends>;<ca>=<sends>…` handler.serviceTxesAllIx
           `V<ca>=<recvs>;…` handler.serviceReceivesAllIx   `S` serviceReceives
      record: `<ok|ERR name> ix=<ca>:<wire>:<txes,…>:<rxbs>:<cutoff>:<bytes received from ca>/… q=<ca>:<hex>,… rx=<ca>:<hex>,…`
  sends: comma separated `a<k>` accept k bytes, `w` would block, `l` connection lost, `f` other error; may be empty
  recvs: comma separated `d<hex>` data (`d-` = closed), `w`, `l`, `f`; may be empty
-/
namespace Ioflo.Drv.StreamStack
open Ioflo.Proto Ioflo.StreamStack

def hex? (s : String) : Option Bytes := hexToBytes? s
def hex (b : Bytes) : String := bytesToHex b
def hexes (l : List Bytes) : String := ",".intercalate (l.map hex)

def sendRes? (s : String) : Option SendRes :=
  match s.toList with
  | ['w'] => some .wouldBlock
  | ['l'] => some .lost
  | ['f'] => some .fail
  | 'a' :: r => (String.ofList r).toNat?.map .acc
  | _ => none

def recvRes? (s : String) : Option RecvRes :=
  match s.toList with
  | ['w'] => some .wouldBlock
  | ['l'] => some .lost
  | ['f'] => some .fail
  | 'd' :: r => (hex? (String.ofList r)).map .data
  | _ => none

def script? {α : Type} (f : String → Option α) (s : String) : Option (List α) :=
  if s.isEmpty then some [] else (s.splitOn ",").mapM f

def scripts? {α : Type} (f : String → Option α) (s : String) : Option (List (Nat × List α)) :=
  if s.isEmpty then some [] else
  (s.splitOn ";").mapM (fun part =>
    match part.splitOn "=" with
    | [ca, sc] => do let ca ← ca.toNat?; let sc ← script? f sc; pure (ca, sc)
    | _ => none)

def cop? (w : String) : Option COp :=
  match w.toList with
  | ['c'] => some .connect
  | 't' :: r => (hex? (String.ofList r)).map .transmit
  | 'P' :: r => (script? sendRes? (String.ofList r)).map .serviceTxPkts
  | 'O' :: r => (script? sendRes? (String.ofList r)).map .serviceTxPktsOnce
  | 'R' :: r => (script? recvRes? (String.ofList r)).map .serviceReceives
  | _ => none

def sop? (w : String) : Option SOp :=
  match w.toList with
  | ['C'] => some .serviceConnects
  | ['P'] => some .serviceTxPkts
  | ['S'] => some .serviceReceives
  | 'a' :: r => (String.ofList r).toNat?.map .accept
  | 't' :: r =>
    match (String.ofList r).splitOn ":" with
    | [ca, h] => do let ca ← ca.toNat?; let d ← hex? h; pure (.transmit d ca)
    | _ => none
  | 'X' :: r => (scripts? sendRes? (String.ofList r)).map .serviceTxesAllIx
  | 'V' :: r => (scripts? recvRes? (String.ofList r)).map .serviceReceivesAllIx
  | _ => none

def showErr : Option Err → String
  | none => "ok"
  | some .typeError => "ERR TypeError"
  | some .nameError => "ERR NameError"
  | some .valueError => "ERR ValueError"
  | some .socketError => "ERR OSError"
  | some .dupAccept => "ERR DupAccept"

def b01 (b : Bool) : String := if b then "1" else "0"

def showCli (e : Option Err) (s : Cli) : String :=
  showErr e ++ " wire=" ++ hex s.wire ++ " txbs=" ++ hex s.txbs ++ " q=" ++ hexes s.txPkts ++
  " rxbs=" ++ hex s.rxbs ++ " rx=" ++ hexes s.rxPkts ++ " dl=" ++ hex s.recvd ++ " c=" ++ b01 s.connected ++ " x=" ++ b01 s.cutoff

def crunShow (v : Variant) (ps : Parser) : Cli → List COp → List String
  | _, [] => []
  | s, op :: ops =>
    let (s', e) := cstep v ps s op
    showCli e s' :: crunShow v ps s' ops

def showIx (ix : Ix) : String :=
  toString ix.ca ++ ":" ++ hex ix.wire ++ ":" ++ hexes ix.txes ++ ":" ++ hex ix.rxbs ++ ":" ++ b01 ix.cutoff ++ ":" ++ hex ix.recvd

def showPkts (l : List (Bytes × Nat)) : String :=
  ",".intercalate (l.map (fun p => toString p.2 ++ ":" ++ hex p.1))

def showSrv (e : Option Err) (s : Srv) : String :=
  showErr e ++ " ix=" ++ "/".intercalate (s.ixes.map showIx) ++ " q=" ++ showPkts s.txPkts ++
  " rx=" ++ showPkts s.rxPkts

def srunShow (v : Variant) (ps : Parser) : Srv → List SOp → List String
  | _, [] => []
  | s, op :: ops =>
    let (s', e) := sstep v ps s op
    showSrv e s' :: srunShow v ps s' ops

def variant? (s : String) : Option Variant :=
  if s == "asis" then some .asIs else if s == "repaired" then some .repaired else none

def parser? (s : String) : Option Parser :=
  if s == "whole" then some .whole else if s == "framed" then some .framed else none

def reply (ws : List String) : Option String :=
  match ws with
  | "cli" :: v :: p :: ops => do
      let v ← variant? v; let p ← parser? p
      let ops ← ops.mapM cop?
      pure (if ops.isEmpty then "-" else " | ".intercalate (crunShow v p Cli.init ops))
  | "srv" :: v :: p :: ops => do
      let v ← variant? v; let p ← parser? p
      let ops ← ops.mapM sop?
      pure (if ops.isEmpty then "-" else " | ".intercalate (srunShow v p Srv.init ops))
  | _ => none

def step (_ : Unit) (line : String) : Unit × String :=
  match reply (words line) with
  | some r => ((), r)
  | none => ((), "bad-op")

end Ioflo.Drv.StreamStack

def main : IO Unit := Ioflo.Proto.loop Ioflo.Drv.StreamStack.step ()
