import IofloModel.Model.Timer
import IofloModel.Drv.RatProto
/-!
driver for the timer models (engine `timer`).

    q|f timer init <dur> <now>
    q|f mono  init <retro 0|1> <dur> <now>
    q|f mono0 init <retro 0|1> <dur> <now>      -- unrepaired repeat/extend (Mono.stepOrig)
    q|f store init <dur> <stamp|_>
    q|f op restart <start|_> <dur|_> <clock|_>
    q|f op rep <clock|_>      q|f op extend <ext|_> <clock|_>
    q|f op elapsed|remaining|expired <clock|_>
    q   safe <op …as above…>                     -- 1/0: hypothesis `Safe` of the _partial theorems (region D42b)

`q`: exact rationals `p/q` (the instantiation the theorems are about); `f`: IEEE doubles as 16 hex
digits (the same generic definitions at `Float`).  `_` = Python `None`.
reply:  `<out> | <start> <stop> <duration> [<latest>]`,
out = `P <start> <stop>` | `N <x>` | `B 0|1` | `E TypeError|TimerRetroError` | `-` (init).
-/
namespace Ioflo.Drv.Timer
open Ioflo.Proto Ioflo.Timer Ioflo.RatProto

class Codec (τ : Type) where
  parse : String → Option τ
  render : τ → String

instance : Codec Rat where
  parse := parseRat?
  render := renderRat

def parseHex64? (s : String) : Option Nat :=
  if s.length ≠ 16 then none else
  s.toList.foldl (fun acc c => match acc, hexDigit? c with
    | some n, some d => some (n * 16 + d)
    | _, _ => none) (some 0)

instance : Codec Float where
  parse s := (parseHex64? s).map (fun n => Float.ofBits (UInt64.ofNat n))
  render x := natToHex 16 x.toBits.toNat

section generic
variable {τ : Type} [Add τ] [Sub τ] [Neg τ] [LT τ] [LE τ] [DecidableLT τ] [DecidableLE τ] [OfNat τ 0] [Codec τ]

inductive St (τ : Type)
  | none
  | timer (c : Core τ)
  | mono (m : Mono τ) (orig : Bool)
  | store (c : SCore τ)

/-- `_` → `some none`, number → `some (some x)`, garbage → `none` -/
def optArg (s : String) : Option (Option τ) :=
  if s == "_" then some none else (Codec.parse s : Option τ).map some

def parseOp : List String → Option (Op τ × Option τ)
  | ["restart", s, d, t] =>
    match optArg (τ := τ) s, optArg (τ := τ) d, optArg (τ := τ) t with
    | some s, some d, some t => some (.restart s d, t)
    | _, _, _ => none
  | ["rep", t] => (optArg (τ := τ) t).map (fun t => (.rep, t))
  | ["extend", e, t] =>
    match optArg (τ := τ) e, optArg (τ := τ) t with
    | some e, some t => some (.extend e, t)
    | _, _ => none
  | ["elapsed", t] => (optArg (τ := τ) t).map (fun t => (.elapsed, t))
  | ["remaining", t] => (optArg (τ := τ) t).map (fun t => (.remaining, t))
  | ["expired", t] => (optArg (τ := τ) t).map (fun t => (.expired, t))
  | _ => none

def showOut : Out τ → String
  | .pair a b => "P " ++ Codec.render a ++ " " ++ Codec.render b
  | .num x => "N " ++ Codec.render x
  | .bool b => if b then "B 1" else "B 0"
  | .err .typeError => "E TypeError"
  | .err .timerRetro => "E TimerRetroError"

def showCore (c : Core τ) : String :=
  Codec.render c.start ++ " " ++ Codec.render c.stop ++ " " ++ Codec.render c.duration

def showSt : St τ → String
  | .none => "none"
  | .timer c => showCore c
  | .mono m _ => showCore m.core ++ " " ++ Codec.render m.latest
  | .store c =>
    (match c.start with
      | some s => Codec.render s
      | none => "_") ++ " " ++ Codec.render c.stop ++ " " ++ Codec.render c.duration

def bool? (s : String) : Option Bool :=
  if s == "1" then some true else if s == "0" then some false else none

def stepG (st : St τ) : List String → Option (St τ × String)
  | ["timer", "init", d, t] =>
    match (Codec.parse d : Option τ), (Codec.parse t : Option τ) with
    | some d, some t => let s := St.timer (Timer.init d t); some (s, "- | " ++ showSt s)
    | _, _ => none
  | [kind, "init", r, d, t] =>
    if kind == "mono" || kind == "mono0" then
      match bool? r, (Codec.parse d : Option τ), (Codec.parse t : Option τ) with
      | some r, some d, some t =>
        let s := St.mono (Mono.init r d t) (kind == "mono0"); some (s, "- | " ++ showSt s)
      | _, _, _ => none
    else none
  | ["store", "init", d, t] =>
    match (Codec.parse d : Option τ), optArg (τ := τ) t with
    | some d, some t => let s := St.store (Store.init d t); some (s, "- | " ++ showSt s)
    | _, _ => none
  | "op" :: rest =>
    match parseOp (τ := τ) rest, st with
    | some (op, some now), .timer c =>
      let r := Timer.step c now op; some (.timer r.1, showOut r.2 ++ " | " ++ showSt (St.timer r.1))
    | some (op, some now), .mono m orig =>
      let r := if orig then Mono.stepOrig m now op else Mono.step m now op
      some (.mono r.1 orig, showOut r.2 ++ " | " ++ showSt (St.mono r.1 orig))
    | some (op, stamp), .store c =>
      let r := Store.step c stamp op; some (.store r.1, showOut r.2 ++ " | " ++ showSt (St.store r.1))
    | _, _ => none
  | _ => none

end generic

/-- region of finding D42b = ¬Safe (`Timer.Safe` / `Mono.Safe` / `Store.Safe` of the model file,
the hypothesis of the `_partial` theorems) -/
def safeQ (st : St Rat) (ws : List String) : Option Bool :=
  match parseOp (τ := Rat) ws, st with
  | some (op, some _), .timer c => some (decide (Timer.Safe c op))
  | some (op, some now), .mono m _ => some (decide (Mono.Safe m now op))
  | some (op, _), .store c => some (decide (Store.Safe c op))
  | _, _ => none

def step (s : St Rat × St Float) (line : String) : (St Rat × St Float) × String :=
  match words line with
  | "q" :: "safe" :: rest =>
    match safeQ s.1 rest with
    | some b => (s, if b then "1" else "0")
    | none => (s, "bad-op")
  | "q" :: rest =>
    match stepG s.1 rest with
    | some (st, out) => ((st, s.2), out)
    | none => (s, "bad-op")
  | "f" :: rest =>
    match stepG s.2 rest with
    | some (st, out) => ((s.1, st), out)
    | none => (s, "bad-op")
  | _ => (s, "bad-op")

end Ioflo.Drv.Timer

def main : IO Unit := Ioflo.Proto.loop Ioflo.Drv.Timer.step (.none, .none)
