import IofloModel.Model.TxQueue
import IofloModel.Drv.Proto
/-!
driver for the transmit-queue / receive-buffer model (engine `txqueue`, C24)

  reset <kind> <0|1>          kind ∈ client clientTls incomer incomerTls device serialNb; wire log on?
  tx <hex>                    queue a message
  feedtx a<k>|wb|lost|fail …  answers to the coming send calls
  feedrx d<hex>|wb|lost|fail … answers to the coming recv calls (`d-` = end of stream)
  stx | stx1 | srx | srx1 | clr | cat | live <0|1>          (cat = catRxbs: reply has ` ret=<hex>` appended)
reply (every op): `ok|raised q=<hex,…> rx=<hex> cut=<b> live=<b> ds=<hex> dw=<hex|…> dr=<hex> dwr=<hex|…>`
(`d*` = what this op added to the environment's record and to the wire log).
-/
namespace Ioflo.Drv.TxQueue
open Ioflo.Proto Ioflo.TxQueue

def kind? : String → Option Kind
  | "client" => some .client
  | "clientTls" => some .clientTls
  | "incomer" => some .incomer
  | "incomerTls" => some .incomerTls
  | "device" => some .device
  | "serialNb" => some .serialNb
  | _ => none

def bool? : String → Option Bool
  | "0" => some false
  | "1" => some true
  | _ => none

def sendRes? (t : String) : Option SendRes :=
  if t == "wb" then some .wouldBlock
  else if t == "lost" then some .lost
  else if t == "fail" then some .fail
  else match t.toList with
    | 'a' :: ds => if ds.isEmpty then none else (String.ofList ds).toNat?.map .acc
    | _ => none

def recvRes? (t : String) : Option RecvRes :=
  if t == "wb" then some .wouldBlock
  else if t == "lost" then some .lost
  else if t == "fail" then some .fail
  else match t.toList with
    | 'd' :: ds => (hexToBytes? (String.ofList ds)).map .data
    | _ => none

def allSome {α : Type} : List (Option α) → Option (List α)
  | [] => some []
  | none :: _ => none
  | some a :: t => (allSome t).map (a :: ·)

def showList (sep : String) (l : List Bytes) : String :=
  if l.isEmpty then "." else sep.intercalate (l.map bytesToHex)

def b01 (b : Bool) : String := if b then "1" else "0"

def render (old : State) (r : Res) : String :=
  let s := r.state
  (if r.isRaised then "raised" else "ok") ++
  " q=" ++ showList "," s.txes ++ " rx=" ++ bytesToHex s.rxbs ++
  " cut=" ++ b01 s.cutoff ++ " live=" ++ b01 s.live ++
  " ds=" ++ bytesToHex (s.sent.drop old.sent.length) ++
  " dw=" ++ showList "|" (s.wtx.drop old.wtx.length) ++
  " dr=" ++ bytesToHex (s.recvd.drop old.recvd.length) ++
  " dwr=" ++ showList "|" (s.wrx.drop old.wrx.length) ++ " id=1"

def apply (st : Option State) (op : Op) : Option State × String :=
  match st with
  | none => (none, "bad-op")
  | some s => let r := Ioflo.TxQueue.step s op; (some r.state, render s r)

def step (st : Option State) (line : String) : Option State × String :=
  match words line with
  | ["reset", k, w] =>
    match kind? k, bool? w with
    | some k, some w => (some (init k w), "ok")
    | _, _ => (st, "bad-op")
  | ["tx", h] =>
    match hexToBytes? h with
    | some d => apply st (.tx d)
    | none => (st, "bad-op")
  | "feedtx" :: toks =>
    match allSome (toks.map sendRes?) with
    | some rs => apply st (.feedTx rs)
    | none => (st, "bad-op")
  | "feedrx" :: toks =>
    match allSome (toks.map recvRes?) with
    | some rs => apply st (.feedRx rs)
    | none => (st, "bad-op")
  | ["stx"] => apply st .serviceTxes
  | ["stx1"] =>
    match st with
    | some s => if s.kind.isSerial then apply st .serviceTxOnce else (st, "bad-op")
    | none => (st, "bad-op")
  | ["srx"] => apply st .serviceReceives
  | ["srx1"] => apply st .serviceReceiveOnce
  | ["clr"] => apply st .clearRxbs
  | ["cat"] =>
    -- catRxbs exists on the socket transports only; its return value is the content before the call
    match st with
    | some s =>
      if s.kind.isSerial then (st, "bad-op")
      else let (st', line) := apply st .catRxbs; (st', line ++ " ret=" ++ bytesToHex s.rxbs)
    | none => (st, "bad-op")
  | ["live", b] =>
    match bool? b with
    | some b => apply st (.setLive b)
    | none => (st, "bad-op")
  | _ => (st, "bad-op")

end Ioflo.Drv.TxQueue

def main : IO Unit := Ioflo.Proto.loop Ioflo.Drv.TxQueue.step none
