import IofloModel.Model.Worklist
import IofloModel.Drv.Proto
/-! driver for the resolve-loop model (engine `worklist`).

request  `overs <fuel> <links>`        links = comma separated `-` (no link) or frame index; frames resolved in index order
request  `unders <fuel> <links>`       the `traceOutlines` descent for every frame in index order
request  `oversc <fuel> <links>` / `undersc <fuel> <links>`   the repaired (checked) loops
request  `clones <fuel> <start> <table>`   start = comma separated framer indices; table = `;` separated lists (`-` empty)
request  `clonesc <fuel> <start> <table>`  the repaired worklist (lineage check)
request  `crash <exception class> <function>`   reply: the finding ids of `knownCrashSites` for that site, or `-`
reply    `done` | `loop` (ResolveError) | `hang` (no result within the budget) | `count <n>` for clones
-/
namespace Ioflo.Drv.Worklist
open Ioflo.Proto Ioflo.Worklist

def parseLinks (w : String) : Option (List (Option Nat)) :=
  (w.splitOn ",").mapM (fun x => if x == "-" then some none else x.toNat?.map some)

def parseNats (w : String) : Option (List Nat) :=
  if w == "-" then some [] else (w.splitOn ",").mapM String.toNat?

def showOut : Option Out → String
  | none => "hang"
  | some .done => "done"
  | some .loopError => "loop"

def step (_ : Unit) (line : String) : Unit × String :=
  match words line with
  | ["crash", cls, fn] =>
    let ids := crashFindings cls fn
    ((), if ids.isEmpty then "-" else " ".intercalate ids)
  | [op, fuel, links] =>
    match fuel.toNat?, parseLinks links with
    | some fuel, some ls =>
      let frames := List.range ls.length
      if op == "overs" then ((), showOut (resolveOvers (linkOf ls) fuel frames))
      else if op == "unders" then ((), showOut (traceUnders (linkOf ls) fuel frames))
      else if op == "oversc" then ((), showOut (resolveOversChecked (linkOf ls) fuel frames))
      else if op == "undersc" then ((), showOut (traceUndersChecked (linkOf ls) fuel frames))
      else ((), "bad-op")
    | _, _ => ((), "bad-op")
  | ["clones", fuel, start, table] =>
    match fuel.toNat?, parseNats start, (table.splitOn ";").mapM parseNats with
    | some fuel, some st, some tb =>
      (match run (mootsOf tb) fuel st with
       | none => ((), "hang")
       | some n => ((), "count " ++ toString n))
    | _, _, _ => ((), "bad-op")
  | ["clonesc", fuel, start, table] =>
    match fuel.toNat?, parseNats start, (table.splitOn ";").mapM parseNats with
    | some fuel, some st, some tb =>
      (match runChecked (mootsOf tb) fuel (st.map (fun k => (k, []))) with
       | none => ((), "hang")
       | some none => ((), "loop")
       | some (some n) => ((), "count " ++ toString n))
    | _, _, _ => ((), "bad-op")
  | _ => ((), "bad-op")

end Ioflo.Drv.Worklist

def main : IO Unit := Ioflo.Proto.loop Ioflo.Drv.Worklist.step ()
