import IofloModel.Model.Wrap
import IofloModel.Drv.Proto
/-!
driver for the angle-wrapping model (engine `wrap`).  Numbers are exact rationals `p/q`
(`q > 0`; a float crosses as its exact value, never as decimal text).
  wrap1 a w | wrap2 a w | delta d a w          exact instantiation
  wrap1f a w | wrap2f a w | deltaf d a w       binary64 instantiation (arguments must be binary64 values)
  wrap1t fa fw a w | wrap2t a w | deltat fd fa d a w   arguments of any numeric type; f* = 1 iff that argument is a float
  region typed fd fa fw d a w                  1 iff Ioflo.Wrap.typedDiffers
  rn x                                         nearest binary64
  region float d a w                           1 iff Ioflo.Wrap.floatDiffers (known-finding region)
  region wrap1|wrap2|delta args..              1 iff that function's binary64 result ≠ exact result
-/
namespace Ioflo.Drv.Wrap
open Ioflo.Proto Ioflo.Wrap

def rat? (s : String) : Option Rat :=
  match s.splitOn "/" with
  | [p, q] => do
      let p ← p.toInt?; let q ← q.toNat?
      if q = 0 then none else pure (mkRat p q)
  | _ => none

def flag? (s : String) : Option Bool :=
  if s == "1" then some true else if s == "0" then some false else none

def showRat (r : Rat) : String := toString r.num ++ "/" ++ toString r.den

def reply (ws : List String) : Option String :=
  match ws with
  | ["wrap1", a, w] => do let a ← rat? a; let w ← rat? w; pure (showRat (wrap1 a w))
  | ["wrap2", a, w] => do let a ← rat? a; let w ← rat? w; pure (showRat (wrap2 a w))
  | ["delta", d, a, w] => do
      let d ← rat? d; let a ← rat? a; let w ← rat? w; pure (showRat (delta d a w))
  | ["wrap1f", a, w] => do let a ← rat? a; let w ← rat? w; pure (showRat (wrap1F a w))
  | ["wrap2f", a, w] => do let a ← rat? a; let w ← rat? w; pure (showRat (wrap2F a w))
  | ["deltaf", d, a, w] => do
      let d ← rat? d; let a ← rat? a; let w ← rat? w; pure (showRat (deltaF d a w))
  | ["wrap1t", fa, fw, a, w] => do
      let fa ← flag? fa; let fw ← flag? fw; let a ← rat? a; let w ← rat? w
      pure (showRat (wrap1T fa fw a w))
  | ["wrap2t", a, w] => do let a ← rat? a; let w ← rat? w; pure (showRat (wrap2T a w))
  | ["deltat", fd, fa, d, a, w] => do
      let fd ← flag? fd; let fa ← flag? fa; let d ← rat? d; let a ← rat? a; let w ← rat? w
      pure (showRat (deltaT fd fa d a w))
  | ["region", "typed", fd, fa, fw, d, a, w] => do
      let fd ← flag? fd; let fa ← flag? fa; let fw ← flag? fw
      let d ← rat? d; let a ← rat? a; let w ← rat? w
      pure (if typedDiffers fd fa fw d a w then "1" else "0")
  | ["rn", x] => do let x ← rat? x; pure (showRat (rn x))
  | ["region", "float", d, a, w] => do
      let d ← rat? d; let a ← rat? a; let w ← rat? w
      pure (if floatDiffers d a w then "1" else "0")
  | ["region", "wrap1", a, w] => do
      let a ← rat? a; let w ← rat? w; pure (if wrap1F a w ≠ wrap1 a w then "1" else "0")
  | ["region", "wrap2", a, w] => do
      let a ← rat? a; let w ← rat? w; pure (if wrap2F a w ≠ wrap2 a w then "1" else "0")
  | ["region", "delta", d, a, w] => do
      let d ← rat? d; let a ← rat? a; let w ← rat? w
      pure (if deltaF d a w ≠ delta d a w then "1" else "0")
  | _ => none

def step (_ : Unit) (line : String) : Unit × String :=
  ((), (reply (words line)).getD "bad-op")

end Ioflo.Drv.Wrap

def main : IO Unit := Ioflo.Proto.loop Ioflo.Drv.Wrap.step ()
