import IofloModel.Model.Arbiter
/-!
Helper lemmas for C45: "keep the best so far, replace only by a strictly better one" computes the
FIRST maximal element; the arbiters' loops with their sentinels reduce to it.
-/
namespace Ioflo.Arbiter

/-- `w` is the first maximal element of `l`: everything before it is strictly worse, nothing
after it is strictly better -/
def IsFirstMax {α κ : Type} (lt : κ → κ → Prop) (key : α → κ) (l : List α) (w : α) : Prop :=
  ∃ pre post, l = pre ++ w :: post ∧ (∀ x ∈ pre, lt (key x) (key w)) ∧ (∀ x ∈ post, ¬ lt (key w) (key x))

/-- one step of "replace only by a strictly better one" -/
def pick {α κ : Type} (lt : κ → κ → Prop) [DecidableRel lt] (key : α → κ) (b x : α) : α :=
  if lt (key b) (key x) then x else b

theorem isFirstMax_snoc {α κ : Type} (lt : κ → κ → Prop) [DecidableRel lt] (key : α → κ)
    (htrans : ∀ a b c, lt a b → lt b c → lt a c)
    (hneg : ∀ a b c, ¬ lt a b → lt a c → lt b c)
    (done : List α) (b x : α) (h : IsFirstMax lt key done b) :
    IsFirstMax lt key (done ++ [x]) (pick lt key b x) := by
  obtain ⟨pre, post, hd, hpre, hpost⟩ := h
  unfold pick
  by_cases hx : lt (key b) (key x)
  · simp only [hx, if_true]
    refine ⟨done, [], by simp, ?_, by simp⟩
    intro y hy
    rw [hd] at hy
    simp only [List.mem_append, List.mem_cons] at hy
    rcases hy with hy | rfl | hy
    · exact htrans _ _ _ (hpre y hy) hx
    · exact hx
    · exact hneg _ _ _ (hpost y hy) hx
  · simp only [hx, if_false]
    refine ⟨pre, post ++ [x], by simp [hd], hpre, ?_⟩
    intro y hy
    simp only [List.mem_append, List.mem_singleton] at hy
    rcases hy with hy | rfl
    · exact hpost y hy
    · exact hx

theorem foldl_pick_from {α κ : Type} (lt : κ → κ → Prop) [DecidableRel lt] (key : α → κ)
    (htrans : ∀ a b c, lt a b → lt b c → lt a c)
    (hneg : ∀ a b c, ¬ lt a b → lt a c → lt b c)
    (l done : List α) (b : α) (h : IsFirstMax lt key done b) :
    IsFirstMax lt key (done ++ l) (l.foldl (pick lt key) b) := by
  induction l generalizing done b with
  | nil => simpa using h
  | cons x rest ih =>
    have := ih (done ++ [x]) (pick lt key b x) (isFirstMax_snoc lt key htrans hneg done b x h)
    simpa using this

/-- the fold over a non-empty list returns its first maximal element -/
theorem foldl_pick_isFirstMax {α κ : Type} (lt : κ → κ → Prop) [DecidableRel lt] (key : α → κ)
    (htrans : ∀ a b c, lt a b → lt b c → lt a c)
    (hneg : ∀ a b c, ¬ lt a b → lt a c → lt b c)
    (w : α) (l : List α) :
    IsFirstMax lt key (w :: l) (l.foldl (pick lt key) w) := by
  have := foldl_pick_from lt key htrans hneg l [w] w ⟨[], [], rfl, by simp, by simp⟩
  simpa using this

/-- a first maximal element is a maximal element of the list -/
theorem IsFirstMax.mem_and_max {α κ : Type} {lt : κ → κ → Prop} {key : α → κ} {l : List α} {w : α}
    (hasymm : ∀ a b, lt a b → ¬ lt b a)
    (h : IsFirstMax lt key l w) : w ∈ l ∧ ∀ x ∈ l, ¬ lt (key w) (key x) := by
  obtain ⟨pre, post, hd, hpre, hpost⟩ := h
  refine ⟨by simp [hd], ?_⟩
  intro x hx
  rw [hd] at hx
  simp only [List.mem_append, List.mem_cons] at hx
  rcases hx with hx | rfl | hx
  · exact hasymm _ _ (hpre x hx)
  · intro h; exact hasymm _ _ h h
  · exact hpost x hx

end Ioflo.Arbiter
