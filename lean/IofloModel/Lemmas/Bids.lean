import IofloModel.Model.Bids
import IofloModel.Lemmas.Sked
/-!
Helper lemmas for `Model/Bids.lean`: what every hook of the framer runner leaves alone
(`Fx`: the issuer's status, every other status except through logged fiats, the
"desire = last write" link, no scheduler marker), and the runner table itself.
-/
set_option linter.unusedSectionVars false
set_option linter.unusedVariables false
set_option linter.unusedSimpArgs false
namespace Ioflo.Bids
open Ioflo.Sked

variable {τ : Type} [TimeLike τ]

def stat (w : World τ) (k : Nat) : Status := (w.framers k).status
def des (w : World τ) (k : Nat) : Control := (w.framers k).desire

def Obs.isRecv : Obs τ → Bool
  | .recv _ _ _ => true
  | _ => false

def Obs.isFiat : Obs τ → Bool
  | .fiat _ _ _ _ _ => true
  | _ => false

/-- the value of the last `framer.desire = …` recorded for framer `k` -/
def lastWrite (tr : List (Obs τ)) (k : Nat) : Option Control :=
  tr.foldl (fun acc o => match o with | .write i c => if i = k then some c else acc | _ => acc) none

/-- the status of framer `k` after the fiats on it recorded in `n`, starting from `s0` -/
def applyFiats (n : List (Obs τ)) (k : Nat) (s0 : Status) : Status :=
  n.foldl (fun s o => match o with | .fiat _ sl _ st _ => if sl = k then st else s | _ => s) s0

theorem lastWrite_snoc (tr : List (Obs τ)) (o : Obs τ) (k : Nat) :
    lastWrite (tr ++ [o]) k =
      match o with | .write i c => if i = k then some c else lastWrite tr k | _ => lastWrite tr k := by
  simp only [lastWrite, List.foldl_append, List.foldl_cons, List.foldl_nil]

theorem applyFiats_append (a b : List (Obs τ)) (k : Nat) (s0 : Status) :
    applyFiats (a ++ b) k s0 = applyFiats b k (applyFiats a k s0) := by
  simp only [applyFiats, List.foldl_append]

theorem applyFiats_noFiat (n : List (Obs τ)) (k : Nat) (s0 : Status) (h : ∀ o ∈ n, o.isFiat = false) :
    applyFiats n k s0 = s0 := by
  induction n generalizing s0 with
  | nil => rfl
  | cons o rest ih =>
    have ho := h o (by simp)
    have hr : ∀ s, applyFiats rest k s = s := fun s => ih s (fun o ho => h o (List.mem_cons_of_mem _ ho))
    have hstep : applyFiats (o :: rest) k s0 = applyFiats rest k s0 := by
      cases o <;> simp_all [applyFiats, Obs.isFiat]
    rw [hstep, hr]

/-- `framer.desire` agrees with the trace -/
def DesireOK (w : World τ) : Prop := ∀ k c, lastWrite w.trace k = some c → des w k = c

/-- new trace entries allowed at a given level: no scheduler marker; `plain` also no fiat -/
structure PnOK (Pn : Obs τ → Prop) : Prop where
  write : ∀ j c, Pn (.write j c)
  bid : ∀ b t c p, Pn (.bid b t c p)
  check : ∀ j ok, Pn (.check j ok)
  mark : ∀ j f b, Pn (.mark j f b)
  noRecv : ∀ o, Pn o → o.isRecv = false

/-- a fiat entry whose recorded return value is `status == <expected>` (any other entry is fine) -/
def Obs.fiatTrue : Obs τ → Prop
  | .fiat _ _ c st ret => ret = decide (st = expected c)
  | _ => True

/-- entries a top-level framer's run may add: no scheduler marker, truthful fiats -/
def good (o : Obs τ) : Prop := o.isRecv = false ∧ o.fiatTrue
/-- entries a slave's run may add: no scheduler marker, no fiat -/
def plain (o : Obs τ) : Prop := o.isRecv = false ∧ o.isFiat = false

theorem good_ok : PnOK (good (τ := τ)) :=
  ⟨fun _ _ => ⟨rfl, trivial⟩, fun _ _ _ _ => ⟨rfl, trivial⟩, fun _ _ => ⟨rfl, trivial⟩, fun _ _ _ => ⟨rfl, trivial⟩,
   fun _ h => h.1⟩
theorem plain_ok : PnOK (plain (τ := τ)) :=
  ⟨fun _ _ => ⟨rfl, rfl⟩, fun _ _ _ _ => ⟨rfl, rfl⟩, fun _ _ => ⟨rfl, rfl⟩, fun _ _ _ => ⟨rfl, rfl⟩, fun _ h => h.1⟩

theorem plain_good {o : Obs τ} (h : plain o) : good o := by
  refine ⟨h.1, ?_⟩
  cases o <;> simp_all [plain, Obs.isFiat, Obs.fiatTrue]

/-- the effect of a hook run on behalf of framer `i` -/
structure Fx (Pn : Obs τ → Prop) (i : Nat) (w w' : World τ) : Prop where
  ext : ∃ n, w'.trace = w.trace ++ n ∧ (∀ o ∈ n, Pn o) ∧ ∀ k, stat w' k = applyFiats n k (stat w k)
  desire : DesireOK w → DesireOK w'

theorem Fx.refl (Pn : Obs τ → Prop) (i : Nat) (w : World τ) : Fx Pn i w w :=
  ⟨⟨[], by simp, by simp, fun _ => rfl⟩, id⟩

theorem Fx.trans {Pn : Obs τ → Prop} {i : Nat} {w w' w'' : World τ} (h1 : Fx Pn i w w') (h2 : Fx Pn i w' w'') :
    Fx Pn i w w'' := by
  obtain ⟨n1, t1, p1, o1⟩ := h1.ext
  obtain ⟨n2, t2, p2, o2⟩ := h2.ext
  refine ⟨⟨n1 ++ n2, by rw [t2, t1]; simp, ?_, ?_⟩, fun h => h2.desire (h1.desire h)⟩
  · intro o ho
    rcases List.mem_append.mp ho with h | h
    · exact p1 o h
    · exact p2 o h
  · intro k
    rw [o2 k, o1 k, applyFiats_append]

/-- a world that differs only in flags / the `unsupported` mark / non-status, non-desire attributes -/
theorem Fx.of_same {Pn : Obs τ → Prop} {i : Nat} {w w' : World τ}
    (hs : ∀ k, stat w' k = stat w k) (hd : ∀ k, des w' k = des w k) (ht : w'.trace = w.trace) : Fx Pn i w w' := by
  refine ⟨⟨[], by simp [ht], by simp, fun k => by simp [applyFiats, hs k]⟩, ?_⟩
  intro h k c hk
  rw [ht] at hk
  rw [hd k]; exact h k c hk

theorem Fx.modF {Pn : Obs τ → Prop} (i j : Nat) (w : World τ) (g : Fr τ → Fr τ)
    (hs : ∀ f, (g f).status = f.status) (hd : ∀ f, (g f).desire = f.desire) : Fx Pn i w (w.modF j g) := by
  apply Fx.of_same
  · intro k; simp only [stat, World.modF]; split
    · rename_i h; subst h; exact hs _
    · rfl
  · intro k; simp only [des, World.modF]; split
    · rename_i h; subst h; exact hd _
    · rfl
  · rfl

theorem DesireOK.log {w : World τ} (h : DesireOK w) (o : Obs τ) (hw : ∀ j c, o ≠ .write j c) :
    DesireOK (w.log o) := by
  intro k c hk
  simp only [World.log] at hk
  rw [lastWrite_snoc] at hk
  have : lastWrite w.trace k = some c := by
    cases o <;> simp_all
  exact h k c this

/-- logging an entry that is neither a write nor a fiat nor a scheduler marker -/
theorem Fx.log {Pn : Obs τ → Prop} (i : Nat) (w : World τ) (o : Obs τ) (hp : Pn o)
    (hw : ∀ j c, o ≠ .write j c) (hf : o.isFiat = false) : Fx Pn i w (w.log o) := by
  refine ⟨⟨[o], rfl, by simpa using hp, ?_⟩, ?_⟩
  · intro k
    rw [applyFiats_noFiat [o] k _ (by simpa using hf)]; rfl
  · intro h k c hk
    simp only [World.log] at hk
    rw [lastWrite_snoc] at hk
    have : lastWrite w.trace k = some c := by
      cases o <;> simp_all
    exact h k c this

theorem Fx.writeDesire {Pn : Obs τ → Prop} (hP : PnOK Pn) (i j : Nat) (c : Control) (w : World τ) :
    Fx Pn i w (writeDesire j c w) := by
  refine ⟨⟨[.write j c], rfl, by simpa using hP.write j c, ?_⟩, ?_⟩
  · intro k
    rw [applyFiats_noFiat _ k _ (by simp [Obs.isFiat])]
    simp only [stat, Ioflo.Bids.writeDesire, World.log, World.modF]; split
    · rename_i h; rw [h]
    · rfl
  · intro h k c' hk
    simp only [Ioflo.Bids.writeDesire, World.log] at hk
    rw [lastWrite_snoc] at hk
    simp only [des, Ioflo.Bids.writeDesire, World.log, World.modF]
    by_cases hjk : j = k
    · subst hjk
      simp only [if_true, Option.some.injEq] at hk
      simp [hk]
    · simp only [hjk, if_false] at hk
      have hkj : ¬ k = j := fun h => hjk h.symm
      simp only [hkj, if_false]
      exact h k c' hk

/-- what a fiat handler must guarantee -/
def HSpec (Pn : Obs τ → Prop) (H : FiatH τ) : Prop := ∀ by_ c sl w, Fx Pn by_ w (H by_ c sl w).1

theorem Fx.bidOne {Pn : Obs τ → Prop} (hP : PnOK Pn) (i by_ : Nat) (c : Control) (p : Option τ) (t : Nat)
    (w : World τ) : Fx Pn i w (bidOne by_ c p t w) := by
  unfold Ioflo.Bids.bidOne
  have h1 : Fx Pn i w (setPeriod t (bidPeriod c p) w) := by
    unfold setPeriod
    split
    · exact Fx.modF i t w _ (fun _ => rfl) (fun _ => rfl)
    · exact Fx.refl _ _ _
  exact Fx.trans h1 (Fx.trans (Fx.writeDesire hP i t c _) (Fx.log i _ _ (hP.bid _ _ _ _) (by simp) rfl))

theorem Fx.bids {Pn : Obs τ → Prop} (hP : PnOK Pn) (i by_ : Nat) (c : Control) (p : Option τ) :
    ∀ (ts : List Nat) (w : World τ), Fx Pn i w (ts.foldl (fun w t => Ioflo.Bids.bidOne by_ c p t w) w)
  | [], w => Fx.refl _ _ _
  | t :: ts, w => Fx.trans (Fx.bidOne hP i by_ c p t w) (Fx.bids hP i by_ c p ts _)

theorem Fx.runActs {Pn : Obs τ → Prop} (hP : PnOK Pn) {H : FiatH τ} (hH : HSpec Pn H) (i : Nat) :
    ∀ (acts : List (Act τ)) (w : World τ), Fx Pn i w (runActs H i acts w)
  | [], w => Fx.refl _ _ _
  | .bid ts c p :: rest, w => by
    simp only [Ioflo.Bids.runActs]
    exact Fx.trans (Fx.bids hP i i c p ts w) (Fx.runActs hP hH i rest _)
  | .fiat c sl :: rest, w => by
    simp only [Ioflo.Bids.runActs]
    exact Fx.trans (hH i c sl w) (Fx.runActs hP hH i rest _)
  | .put k v :: rest, w => by
    simp only [Ioflo.Bids.runActs]
    have h1 : Fx Pn i w { w with flags := fun j => if j = k then v else w.flags j } :=
      Fx.of_same (fun _ => rfl) (fun _ => rfl) rfl
    exact Fx.trans h1 (Fx.runActs hP hH i rest _)

theorem Fx.evalGuards {Pn : Obs τ → Prop} (hP : PnOK Pn) {H : FiatH τ} (hH : HSpec Pn H) (i : Nat) :
    ∀ (gs : List Guard) (w : World τ), Fx Pn i w (evalGuards H i gs w).2
  | [], w => Fx.refl _ _ _
  | .cond c :: rest, w => by
    simp only [Ioflo.Bids.evalGuards]
    split
    · exact Fx.evalGuards hP hH i rest w
    · exact Fx.refl _ _ _
  | .fiat c sl :: rest, w => by
    simp only [Ioflo.Bids.evalGuards]
    split
    · exact Fx.trans (hH i c sl w) (Fx.evalGuards hP hH i rest _)
    · exact hH i c sl w

theorem Fx.guardsOf {Pn : Obs τ → Prop} (hP : PnOK Pn) {H : FiatH τ} (hH : HSpec Pn H) (i : Nat) :
    ∀ (fs : List Nat) (w : World τ), Fx Pn i w (guardsOf H i fs w).2
  | [], w => Fx.refl _ _ _
  | f :: rest, w => by
    simp only [Ioflo.Bids.guardsOf]
    split
    · exact Fx.trans (Fx.evalGuards hP hH i _ w) (Fx.guardsOf hP hH i rest _)
    · exact Fx.evalGuards hP hH i _ w

theorem Fx.checkStart {Pn : Obs τ → Prop} (hP : PnOK Pn) {H : FiatH τ} (hH : HSpec Pn H) (i : Nat) (w : World τ) :
    Fx Pn i w (checkStart H i w).2 := by
  unfold Ioflo.Bids.checkStart
  simp only []
  generalize hr : (if (w.framers i).frames.isEmpty = true then (false, w)
      else Ioflo.Bids.guardsOf H i (outline (w.framers i).frames 0) w) = r
  have h1 : Fx Pn i w r.2 := by
    rw [← hr]
    split
    · exact Fx.refl _ _ _
    · exact Fx.guardsOf hP hH i _ w
  exact Fx.trans h1 (Fx.log i r.2 (.check i r.1) (hP.check _ _) (by simp) rfl)

theorem Fx.setRecurred {Pn : Obs τ → Prop} (i j n : Nat) (w : World τ) : Fx Pn i w (setRecurred j n w) :=
  Fx.modF i j w _ (fun _ => rfl) (fun _ => rfl)
theorem Fx.bumpRecurred {Pn : Obs τ → Prop} (i j : Nat) (w : World τ) : Fx Pn i w (bumpRecurred j w) :=
  Fx.modF i j w _ (fun _ => rfl) (fun _ => rfl)
theorem Fx.setActives {Pn : Obs τ → Prop} (i j : Nat) (a : List Nat) (w : World τ) : Fx Pn i w (setActives j a w) :=
  Fx.modF i j w _ (fun _ => rfl) (fun _ => rfl)

theorem Fx.enterFrames {Pn : Obs τ → Prop} (hP : PnOK Pn) {H : FiatH τ} (hH : HSpec Pn H) (i : Nat) :
    ∀ (fs : List Nat) (w : World τ), Fx Pn i w (enterFrames H i fs w)
  | [], w => Fx.refl _ _ _
  | f :: rest, w => by
    simp only [Ioflo.Bids.enterFrames]
    exact Fx.trans (Fx.trans (Fx.log i w (.mark i f true) (hP.mark _ _ _) (by simp) rfl) (Fx.runActs hP hH i _ _))
      (Fx.enterFrames hP hH i rest _)

theorem Fx.exitFrames {Pn : Obs τ → Prop} (hP : PnOK Pn) {H : FiatH τ} (hH : HSpec Pn H) (i : Nat) :
    ∀ (fs : List Nat) (w : World τ), Fx Pn i w (exitFrames H i fs w)
  | [], w => Fx.refl _ _ _
  | f :: rest, w => by
    simp only [Ioflo.Bids.exitFrames]
    exact Fx.trans (Fx.trans (Fx.log i w (.mark i f false) (hP.mark _ _ _) (by simp) rfl) (Fx.runActs hP hH i _ _))
      (Fx.exitFrames hP hH i rest _)

theorem Fx.recurFrames {Pn : Obs τ → Prop} (hP : PnOK Pn) {H : FiatH τ} (hH : HSpec Pn H) (i : Nat) :
    ∀ (fs : List Nat) (w : World τ), Fx Pn i w (recurFrames H i fs w)
  | [], w => Fx.refl _ _ _
  | f :: rest, w => by
    simp only [Ioflo.Bids.recurFrames]
    exact Fx.trans (Fx.runActs hP hH i _ _) (Fx.recurFrames hP hH i rest _)

theorem Fx.enterAll {Pn : Obs τ → Prop} (hP : PnOK Pn) {H : FiatH τ} (hH : HSpec Pn H) (i : Nat) (w : World τ) :
    Fx Pn i w (enterAll H i w) := by
  unfold Ioflo.Bids.enterAll
  exact Fx.trans (Fx.trans (Fx.setActives i i _ w) (Fx.setRecurred i i 0 _)) (Fx.enterFrames hP hH i _ _)

theorem Fx.recur {Pn : Obs τ → Prop} (hP : PnOK Pn) {H : FiatH τ} (hH : HSpec Pn H) (i : Nat) (w : World τ) :
    Fx Pn i w (recur H i w) := Fx.recurFrames hP hH i _ w

theorem Fx.exitAll {Pn : Obs τ → Prop} (hP : PnOK Pn) {H : FiatH τ} (hH : HSpec Pn H) (i : Nat) (w : World τ) :
    Fx Pn i w (exitAll H i w) := by
  unfold Ioflo.Bids.exitAll
  exact Fx.trans (Fx.exitFrames hP hH i _ w) (Fx.setActives i i _ _)

theorem Fx.precur {Pn : Obs τ → Prop} (hP : PnOK Pn) {H : FiatH τ} (hH : HSpec Pn H) (i : Nat) :
    ∀ (ts : List Trans) (w : World τ), Fx Pn i w (precur H i ts w).1
  | [], w => Fx.refl _ _ _
  | t :: rest, w => by
    simp only [Ioflo.Bids.precur]
    split
    · split
      · exact Fx.precur hP hH i rest w
      · split
        · exact Fx.trans (Fx.guardsOf hP hH i _ w)
            (Fx.trans (Fx.exitFrames hP hH i _ _) (Fx.trans (Fx.setRecurred i i 0 _)
              (Fx.trans (Fx.enterFrames hP hH i _ _) (Fx.setActives i i _ _))))
        · exact Fx.trans (Fx.guardsOf hP hH i _ w) (Fx.precur hP hH i rest _)
    · exact Fx.precur hP hH i rest w

theorem Fx.precurFrames {Pn : Obs τ → Prop} (hP : PnOK Pn) {H : FiatH τ} (hH : HSpec Pn H) (i : Nat) :
    ∀ (fs : List Nat) (w : World τ), Fx Pn i w (precurFrames H i fs w)
  | [], w => Fx.refl _ _ _
  | f :: rest, w => by
    simp only [Ioflo.Bids.precurFrames]
    split
    · exact Fx.precur hP hH i _ w
    · exact Fx.trans (Fx.precur hP hH i _ w) (Fx.precurFrames hP hH i rest _)

theorem Fx.segue {Pn : Obs τ → Prop} (hP : PnOK Pn) {H : FiatH τ} (hH : HSpec Pn H) (i : Nat) (w : World τ) :
    Fx Pn i w (segue H i w) := by
  unfold Ioflo.Bids.segue
  exact Fx.trans (Fx.bumpRecurred i i w) (Fx.precurFrames hP hH i _ _)

/-! ### the runner table -/

/-- like `Fx`, but the framer's own status may change -/
structure Tx (Pn : Obs τ → Prop) (i : Nat) (w w' : World τ) : Prop where
  ext : ∃ n, w'.trace = w.trace ++ n ∧ (∀ o ∈ n, Pn o) ∧ ∀ k, k ≠ i → stat w' k = applyFiats n k (stat w k)
  desire : DesireOK w → DesireOK w'

theorem Fx.toTx {Pn : Obs τ → Prop} {i : Nat} {w w' : World τ} (h : Fx Pn i w w') : Tx Pn i w w' := by
  obtain ⟨n, a, b, c⟩ := h.ext
  exact ⟨⟨n, a, b, fun k _ => c k⟩, h.desire⟩

theorem Tx.refl (Pn : Obs τ → Prop) (i : Nat) (w : World τ) : Tx Pn i w w := (Fx.refl Pn i w).toTx

theorem Tx.trans {Pn : Obs τ → Prop} {i : Nat} {w w' w'' : World τ} (h1 : Tx Pn i w w') (h2 : Tx Pn i w' w'') :
    Tx Pn i w w'' := by
  obtain ⟨n1, t1, p1, o1⟩ := h1.ext
  obtain ⟨n2, t2, p2, o2⟩ := h2.ext
  refine ⟨⟨n1 ++ n2, by rw [t2, t1]; simp, ?_, ?_⟩, fun h => h2.desire (h1.desire h)⟩
  · intro o ho
    rcases List.mem_append.mp ho with h | h
    · exact p1 o h
    · exact p2 o h
  · intro k hk
    rw [o2 k hk, o1 k hk, applyFiats_append]

theorem Tx.setStatus {Pn : Obs τ → Prop} (i : Nat) (st : Status) (w : World τ) : Tx Pn i w (setStatus i st w) := by
  refine ⟨⟨[], by simp [Ioflo.Bids.setStatus, World.modF], by simp, ?_⟩, ?_⟩
  · intro k hk
    simp [applyFiats, stat, Ioflo.Bids.setStatus, World.modF, hk]
  · intro h k c hc
    have : des (Ioflo.Bids.setStatus i st w) k = des w k := by
      simp only [des, Ioflo.Bids.setStatus, World.modF]; split
      · rename_i hh; rw [hh]
      · rfl
    rw [this]; exact h k c hc

theorem stat_setStatus (i : Nat) (st : Status) (w : World τ) : stat (setStatus i st w) i = st := by
  simp [stat, Ioflo.Bids.setStatus, World.modF]

section branches
variable {Pn : Obs τ → Prop} (hP : PnOK Pn) {H : FiatH τ} (hH : HSpec Pn H) (i : Nat) (w : World τ)
include hP hH

theorem Tx.runLive : Tx Pn i w (runLive H i w) :=
  Tx.trans (Fx.trans (Fx.segue hP hH i w) (Fx.recur hP hH i _)).toTx (Tx.setStatus i _ _)

theorem Tx.abortBad : Tx Pn i w (abortBad i w) :=
  Tx.trans (Fx.writeDesire hP i i _ w).toTx (Tx.setStatus i _ _)

theorem Tx.readyIdle : Tx Pn i w (readyIdle H i w) := by
  unfold Ioflo.Bids.readyIdle
  simp only []
  split
  · exact Tx.trans (Fx.checkStart hP hH i w).toTx (Tx.setStatus i _ _)
  · exact Tx.trans (Fx.trans (Fx.checkStart hP hH i w) (Fx.writeDesire hP i i _ _)).toTx (Tx.setStatus i _ _)

theorem Tx.startIdle : Tx Pn i w (startIdle H i w) := by
  unfold Ioflo.Bids.startIdle
  simp only []
  split
  · exact Tx.trans (Fx.trans (Fx.checkStart hP hH i w) (Fx.trans (Fx.writeDesire hP i i _ _)
      (Fx.trans (Fx.enterAll hP hH i _) (Fx.recur hP hH i _)))).toTx (Tx.setStatus i _ _)
  · exact Tx.trans (Fx.trans (Fx.checkStart hP hH i w) (Fx.writeDesire hP i i _ _)).toTx (Tx.setStatus i _ _)

theorem Tx.stopLive : Tx Pn i w (stopLive H i w) :=
  Tx.trans (Fx.trans (Fx.writeDesire hP i i _ w) (Fx.exitAll hP hH i _)).toTx (Tx.setStatus i _ _)

theorem Tx.abortAny (live : Bool) : Tx Pn i w (abortAny H i live w) := by
  unfold Ioflo.Bids.abortAny
  cases live
  · exact Tx.trans (Fx.writeDesire hP i i _ w).toTx (Tx.setStatus i _ _)
  · exact Tx.trans (Fx.trans (Fx.exitAll hP hH i w) (Fx.writeDesire hP i i _ _)).toTx (Tx.setStatus i _ _)

/-- every resumption of a framer's runner: trace only extended (no scheduler marker), other
framers' statuses change only through the fiats logged, desire stays the last write -/
theorem table_tx (c : Control) : Tx Pn i w (table H i c w).2 := by
  unfold table
  simp only []
  cases c <;> simp only []
  · -- stop
    split
    · exact Tx.stopLive hP hH i w
    · split
      · exact Tx.refl _ _ _
      · exact Tx.abortBad hP hH i w
  · -- start
    split
    · exact Tx.startIdle hP hH i w
    · split
      · exact (Fx.writeDesire hP i i _ w).toTx
      · exact Tx.abortBad hP hH i w
  · -- run
    split
    · exact Tx.runLive hP hH i w
    · split
      · exact (Fx.writeDesire hP i i _ w).toTx
      · exact Tx.abortBad hP hH i w
  · exact Tx.abortAny hP hH i w _
  · -- ready
    split
    · exact Tx.readyIdle hP hH i w
    · split
      · exact Tx.refl _ _ _
      · exact Tx.abortBad hP hH i w
  · exact Tx.abortAny hP hH i w _

end branches

/-- **The documented control × status table of a framer** (status after one resumption).
`chk` = what `checkStart()` returns (only consulted for START/READY from stopped/readied). -/
def docStatus (c : Control) (st : Status) (chk : Bool) : Status :=
  match c, st with
  | .abort, _ | .other, _ => .aborted                 -- abort, or anything that is not a control
  | _, .aborted => .aborted                           -- an aborted framer stays aborted
  | .run, .started | .run, .running => .running
  | .run, st => st                                    -- (desire START)
  | .stop, .started | .stop, .running => .stopped
  | .stop, st => st
  | .start, .stopped | .start, .readied => if chk then .started else .stopped
  | .start, st => st                                  -- already started (desire RUN)
  | .ready, .stopped | .ready, .readied => if chk then .readied else .stopped
  | .ready, st => st

/-- the value written to the framer's own `desire` by the table itself, before any hook runs
(`none`: no write) -/
def docDesire (c : Control) (st : Status) (chk : Bool) : Option Control :=
  match c, st with
  | .abort, _ | .other, _ => some .abort
  | _, .aborted => some .abort
  | .run, .started | .run, .running => none
  | .run, _ => some .start
  | .stop, .started | .stop, .running => some .stop
  | .stop, _ => none
  | .start, .stopped | .start, .readied => if chk then some .run else some .stop
  | .start, _ => some .run
  | .ready, .stopped | .ready, .readied => if chk then none else some .stop
  | .ready, _ => none

theorem table_yields (H : FiatH τ) (i : Nat) (c : Control) (w : World τ) :
    (table H i c w).1 = stat (table H i c w).2 i := rfl

theorem table_status (H : FiatH τ) (i : Nat) (c : Control) (w : World τ) :
    (table H i c w).1 = docStatus c (stat w i) (checkStart H i w).1 := by
  unfold table
  simp only []
  have hs : (w.framers i).status = stat w i := rfl
  cases hst : stat w i <;> cases c <;>
    simp [hst, hs, docStatus, Ioflo.Bids.runLive, Ioflo.Bids.abortBad, Ioflo.Bids.readyIdle,
      Ioflo.Bids.startIdle, Ioflo.Bids.stopLive, Ioflo.Bids.abortAny, Ioflo.Bids.setStatus, World.modF,
      Ioflo.Bids.writeDesire, World.log] <;>
    (try (split <;> simp [stat] at * <;> simp_all))

/-! ### the fiat handlers, at every depth of the master/slave tree -/

theorem noFiat_spec (Pn : Obs τ → Prop) : HSpec Pn (noFiat (τ := τ)) := by
  intro by_ c sl w
  exact Fx.of_same (fun _ => rfl) (fun _ => rfl) rfl

/-- **Induction over the tree of masters and slaves.** Whatever the depth budget `d` and the chain of framers
executing above: carrying out a fiat — resuming the slave, whose frames may themselves fiat their own slaves,
and so on — only appends to the trace, appends no scheduler marker and only truthful fiat entries, changes
statuses exactly as the logged fiats say, and keeps every desire equal to its last recorded write. -/
theorem fiatD_spec : ∀ (d : Nat) (chain : List Nat), HSpec (good (τ := τ)) (fiatD d chain)
  | 0, chain => noFiat_spec _
  | d+1, chain => by
    intro by_ c sl w
    unfold fiatD
    simp only []
    split
    · exact Fx.of_same (fun _ => rfl) (fun _ => rfl) rfl
    · have tx := table_tx good_ok (fiatD_spec d (by_ :: chain)) sl w c
      obtain ⟨n, ht, hp, ho⟩ := tx.ext
      refine ⟨⟨n ++ [.fiat by_ sl c (table (fiatD d (by_ :: chain)) sl c w).1
          (decide ((table (fiatD d (by_ :: chain)) sl c w).1 = expected c))], ?_, ?_, ?_⟩, ?_⟩
      · simp [World.log, ht]
      · intro o h
        rcases List.mem_append.mp h with h | h
        · exact hp o h
        · simp at h; subst h; exact ⟨rfl, rfl⟩
      · intro k
        show stat (table (fiatD d (by_ :: chain)) sl c w).2 k = _
        rw [applyFiats_append]
        by_cases hks : k = sl
        · subst hks
          simp [applyFiats, table_yields]
        · rw [ho k hks]
          have : ¬ sl = k := fun h => hks h.symm
          simp [applyFiats, this]
      · intro h
        exact (tx.desire h).log _ (by simp)

theorem fiatTop_spec (n : Nat) : HSpec (good (τ := τ)) (fiatTop n) := fiatD_spec _ _

/-! ### one scheduler send -/

theorem send_tx (ph : Phase) (i : Nat) (c : Control) (stamp : τ) (w : World τ) :
    ∃ n, ((FramerEnv (τ := τ)).send ph i c stamp w).2.trace = w.trace ++ .recv ph i c :: n ∧
      (∀ o ∈ n, good o) ∧
      (∀ k, k ≠ i → stat ((FramerEnv (τ := τ)).send ph i c stamp w).2 k = applyFiats n k (stat w k)) ∧
      (DesireOK w → DesireOK ((FramerEnv (τ := τ)).send ph i c stamp w).2) := by
  have tx := table_tx good_ok (fiatTop_spec w.n) i (w.log (.recv ph i c)) c
  obtain ⟨n, ht, hp, ho⟩ := tx.ext
  refine ⟨n ++ [.yield i (table (fiatTop w.n) i c (w.log (.recv ph i c))).1], ?_, ?_, ?_, ?_⟩
  · have h1 : ((FramerEnv (τ := τ)).send ph i c stamp w).2.trace =
        (table (fiatTop w.n) i c (w.log (.recv ph i c))).2.trace ++
          [.yield i (table (fiatTop w.n) i c (w.log (.recv ph i c))).1] := rfl
    have h2 : (w.log (.recv ph i c)).trace = w.trace ++ [.recv ph i c] := rfl
    rw [h1, ht, h2]; simp
  · intro o h
    rcases List.mem_append.mp h with h | h
    · exact hp o h
    · simp at h; subst h; exact ⟨rfl, trivial⟩
  · intro k hk
    show stat (table (fiatTop w.n) i c (w.log (.recv ph i c))).2 k = _
    rw [ho k hk, applyFiats_append]
    simp [applyFiats, stat, World.log]
  · intro h
    exact (tx.desire (h.log _ (by simp))).log _ (by simp)

/-! ### the trace of scheduler sends -/

/-- every main-loop send carries the last value written to the framer's desire before it; every
send of the abort sweep carries ABORT -/
def TraceOK (tr : List (Obs τ)) : Prop :=
  ∀ a ph i c b, tr = a ++ .recv ph i c :: b →
    (ph = .loop → lastWrite a i = some c) ∧ (ph = .final → c = .abort)

theorem TraceOK.nil : TraceOK ([] : List (Obs τ)) := by
  intro a ph i c b h
  have := congrArg List.length h
  simp at this

theorem TraceOK.append {tr m : List (Obs τ)} (h : TraceOK tr) (hm : ∀ o ∈ m, o.isRecv = false) :
    TraceOK (tr ++ m) := by
  intro a ph i c b hsplit
  rcases List.append_eq_append_iff.mp hsplit with ⟨as, h1, h2⟩ | ⟨bs, h1, h2⟩
  · have := hm (.recv ph i c) (by rw [h2]; simp)
    simp [Obs.isRecv] at this
  · cases bs with
    | nil =>
      have := hm (.recv ph i c) (by simp at h2; rw [← h2]; simp)
      simp [Obs.isRecv] at this
    | cons x xs =>
      simp only [List.cons_append, List.cons.injEq] at h2
      obtain ⟨hx, _⟩ := h2
      subst hx
      exact h a ph i c xs h1

theorem TraceOK.snoc_recv {tr : List (Obs τ)} (h : TraceOK tr) (ph : Phase) (i : Nat) (c : Control)
    (hl : ph = .loop → lastWrite tr i = some c) (hf : ph = .final → c = .abort) :
    TraceOK (tr ++ [.recv ph i c]) := by
  intro a ph' i' c' b hsplit
  rcases List.append_eq_append_iff.mp hsplit with ⟨as, h1, h2⟩ | ⟨bs, h1, h2⟩
  · cases as with
    | nil =>
      simp only [List.nil_append, List.cons.injEq] at h2
      obtain ⟨hx, _⟩ := h2
      cases hx
      simp only [List.append_nil] at h1
      subst h1
      exact ⟨hl, hf⟩
    | cons x xs =>
      have := congrArg List.length h2
      simp at this
  · cases bs with
    | nil =>
      simp only [List.nil_append, List.cons.injEq] at h2
      obtain ⟨hx, _⟩ := h2
      cases hx
      simp only [List.append_nil] at h1
      subst h1
      exact ⟨hl, hf⟩
    | cons x xs =>
      simp only [List.cons_append, List.cons.injEq] at h2
      obtain ⟨hx, _⟩ := h2
      subst hx
      exact h a ph' i' c' xs h1

theorem lastWrite_append_isSome (tr m : List (Obs τ)) (k : Nat) (h : (lastWrite tr k).isSome) :
    (lastWrite (tr ++ m) k).isSome := by
  induction m generalizing tr with
  | nil => simpa using h
  | cons o m ih =>
    have h1 : (lastWrite (tr ++ [o]) k).isSome := by
      rw [lastWrite_snoc]
      cases o <;> simp_all
      split <;> simp_all
    have := ih (tr ++ [o]) h1
    simpa using this

/-- the invariant behind `C04_control_is_last_bid` -/
structure BidInv (s : St τ (World τ)) : Prop where
  desire : DesireOK s.world
  trace : TraceOK s.world.trace
  written : ∀ e ∈ s.ready, (lastWrite s.world.trace e.id).isSome

theorem bidInv_step : StepInv (FramerEnv (τ := τ)) BidInv where
  after := by
    intro s e rest hi hr
    have hw := after_world FramerEnv s e rest
    have hrd := after_ready FramerEnv s e rest
    by_cases hd : isDue s e
    · simp only [hd, if_true] at hw
      obtain ⟨n, ht, hp, _, hdes⟩ := send_tx .loop e.id (FramerEnv.desire s.world e.id) s.storeStamp s.world
      have hsome := hi.written e (by rw [hr]; simp)
      have hlw : lastWrite s.world.trace e.id = some (FramerEnv.desire s.world e.id) := by
        cases hl : lastWrite s.world.trace e.id with
        | none => rw [hl] at hsome; simp at hsome
        | some c => exact congrArg some (hi.desire e.id c hl).symm
      refine ⟨by rw [hw]; exact hdes hi.desire, ?_, ?_⟩
      · rw [hw, ht]
        have h1 := hi.trace.snoc_recv .loop e.id _ (fun _ => hlw) (fun h => by cases h)
        have h2 := h1.append (m := n) (fun o ho => (hp o ho).1)
        simpa using h2
      · intro x hx
        rw [hw, ht]
        apply lastWrite_append_isSome
        rw [hrd] at hx
        rcases List.mem_append.mp hx with h | h
        · exact hi.written x (by rw [hr]; exact List.mem_cons_of_mem _ h)
        · rw [ids_kept FramerEnv s e x h]; exact hsome
    · simp only [hd] at hw
      refine ⟨by rw [hw]; exact hi.desire, by rw [hw]; exact hi.trace, ?_⟩
      intro x hx
      rw [hw]
      rw [hrd] at hx
      rcases List.mem_append.mp hx with h | h
      · exact hi.written x (by rw [hr]; exact List.mem_cons_of_mem _ h)
      · rw [ids_kept FramerEnv s e x h]; exact hi.written e (by rw [hr]; simp)
  afterFinal := by
    intro s e rest hi hr
    obtain ⟨n, ht, hp, _, hdes⟩ := send_tx .final e.id .abort s.storeStamp s.world
    refine ⟨hdes hi.desire, ?_, ?_⟩
    · show TraceOK (FramerEnv.send .final e.id .abort s.storeStamp s.world).2.trace
      rw [ht]
      have h1 := hi.trace.snoc_recv .final e.id .abort (fun h => by cases h) (fun _ => rfl)
      have h2 := h1.append (m := n) (fun o ho => (hp o ho).1)
      simpa using h2
    · intro x hx
      show (lastWrite (FramerEnv.send .final e.id .abort s.storeStamp s.world).2.trace x.id).isSome
      rw [ht]
      apply lastWrite_append_isSome
      exact hi.written x (by rw [hr]; exact List.mem_cons_of_mem _ hx)
  advance := fun s hi => ⟨hi.desire, hi.trace, hi.written⟩
  halfAdvance := fun s hi => ⟨hi.desire, hi.trace, hi.written⟩
  clear := fun s hi => ⟨hi.desire, hi.trace, fun e he => by simp at he⟩

theorem addReady_world (s : St τ (World τ)) (i : Nat) :
    (addReadyTask FramerEnv s i).world =
      setStatus i .stopped (writeDesire i (if FramerEnv.active s.world i then Control.start else Control.stop) s.world) ∧
    ∃ e, (addReadyTask FramerEnv s i).ready = s.ready ++ [e] ∧ e.id = i := by
  refine ⟨rfl, ⟨_, rfl, rfl⟩⟩

theorem bidInv_addReady (s : St τ (World τ)) (i : Nat) (hi : BidInv s) : BidInv (addReadyTask FramerEnv s i) := by
  obtain ⟨hw, e, hr, he⟩ := addReady_world s i
  generalize (if FramerEnv.active s.world i then Control.start else Control.stop) = c at hw
  have htr : (addReadyTask FramerEnv s i).world.trace = s.world.trace ++ [.write i c] := by rw [hw]; rfl
  refine ⟨?_, ?_, ?_⟩
  · rw [hw]
    exact (Tx.setStatus (Pn := good) i _ _).desire ((Fx.writeDesire good_ok i i c s.world).desire hi.desire)
  · rw [htr]; exact hi.trace.append (by simp [Obs.isRecv])
  · intro x hx
    rw [htr]
    rw [hr] at hx
    rcases List.mem_append.mp hx with h | h
    · exact lastWrite_append_isSome _ _ _ (hi.written x h)
    · simp at h; subst h
      rw [lastWrite_snoc, he]; simp

/-! ### slaves (and every framer that is not scheduled) change status only in fiats -/

structure SlaveInv (D : List Nat) (st0 : Nat → Status) (s : St τ (World τ)) : Prop where
  ready : ∀ e ∈ s.ready, e.id ∈ D
  status : ∀ k, k ∉ D → stat s.world k = applyFiats s.world.trace k (st0 k)
  norecv : ∀ ph i c, Obs.recv ph i c ∈ s.world.trace → i ∈ D
  fiats : ∀ o ∈ s.world.trace, o.fiatTrue

theorem applyFiats_recv_cons (ph : Phase) (i : Nat) (c : Control) (n : List (Obs τ)) (k : Nat) (s0 : Status) :
    applyFiats (.recv ph i c :: n) k s0 = applyFiats n k s0 := by
  simp [applyFiats]

theorem slaveInv_send {D : List Nat} {st0 : Nat → Status} {w : World τ} (ph : Phase) (i : Nat) (c : Control)
    (stamp : τ) (hD : i ∈ D)
    (hst : ∀ k, k ∉ D → stat w k = applyFiats w.trace k (st0 k))
    (hnr : ∀ ph i c, Obs.recv ph i c ∈ w.trace → i ∈ D) (hf : ∀ o ∈ w.trace, o.fiatTrue) :
    let w' := ((FramerEnv (τ := τ)).send ph i c stamp w).2
    (∀ k, k ∉ D → stat w' k = applyFiats w'.trace k (st0 k)) ∧
    (∀ ph i c, Obs.recv ph i c ∈ w'.trace → i ∈ D) ∧ (∀ o ∈ w'.trace, o.fiatTrue) := by
  obtain ⟨n, ht, hp, ho, _⟩ := send_tx ph i c stamp w
  simp only []
  refine ⟨?_, ?_, ?_⟩
  · intro k hk
    have hki : k ≠ i := fun h => hk (h ▸ hD)
    rw [ho k hki, ht, applyFiats_append, applyFiats_recv_cons, hst k hk]
  · intro ph' i' c' hmem
    rw [ht] at hmem
    rcases List.mem_append.mp hmem with h | h
    · exact hnr _ _ _ h
    · rcases List.mem_cons.mp h with h | h
      · cases h; exact hD
      · have := (hp _ h).1
        simp [Obs.isRecv] at this
  · intro o hmem
    rw [ht] at hmem
    rcases List.mem_append.mp hmem with h | h
    · exact hf o h
    · rcases List.mem_cons.mp h with h | h
      · subst h; trivial
      · exact (hp o h).2

theorem slaveInv_step (D : List Nat) (st0 : Nat → Status) : StepInv (FramerEnv (τ := τ)) (SlaveInv D st0) where
  after := by
    intro s e rest hi hr
    have hw := after_world FramerEnv s e rest
    have hrd := after_ready FramerEnv s e rest
    have heD : e.id ∈ D := hi.ready e (by rw [hr]; simp)
    have hready : ∀ x ∈ (after FramerEnv s e rest).ready, x.id ∈ D := by
      intro x hx
      rw [hrd] at hx
      rcases List.mem_append.mp hx with h | h
      · exact hi.ready x (by rw [hr]; exact List.mem_cons_of_mem _ h)
      · rw [ids_kept FramerEnv s e x h]; exact heD
    by_cases hd : isDue s e
    · simp only [hd, if_true] at hw
      obtain ⟨h1, h2, h3⟩ := slaveInv_send .loop e.id (FramerEnv.desire s.world e.id) s.storeStamp heD
        hi.status hi.norecv hi.fiats
      exact ⟨hready, by rw [hw]; exact h1, by rw [hw]; exact h2, by rw [hw]; exact h3⟩
    · simp only [hd] at hw
      exact ⟨hready, by rw [hw]; exact hi.status, by rw [hw]; exact hi.norecv, by rw [hw]; exact hi.fiats⟩
  afterFinal := by
    intro s e rest hi hr
    have heD : e.id ∈ D := hi.ready e (by rw [hr]; simp)
    obtain ⟨h1, h2, h3⟩ := slaveInv_send .final e.id .abort s.storeStamp heD hi.status hi.norecv hi.fiats
    exact ⟨fun x hx => hi.ready x (by rw [hr]; exact List.mem_cons_of_mem _ hx), h1, h2, h3⟩
  advance := fun s hi => ⟨hi.ready, hi.status, hi.norecv, hi.fiats⟩
  halfAdvance := fun s hi => ⟨hi.ready, hi.status, hi.norecv, hi.fiats⟩
  clear := fun s hi => ⟨fun e he => by simp at he, hi.status, hi.norecv, hi.fiats⟩

theorem slaveInv_addReady (D : List Nat) (st0 : Nat → Status) (s : St τ (World τ)) (i : Nat) (hD : i ∈ D)
    (hi : SlaveInv D st0 s) : SlaveInv D st0 (addReadyTask FramerEnv s i) := by
  obtain ⟨hw, e, hr, he⟩ := addReady_world s i
  generalize (if FramerEnv.active s.world i then Control.start else Control.stop) = c at hw
  have htr : (addReadyTask FramerEnv s i).world.trace = s.world.trace ++ [.write i c] := by rw [hw]; rfl
  refine ⟨?_, ?_, ?_, ?_⟩
  · intro x hx
    rw [hr] at hx
    rcases List.mem_append.mp hx with h | h
    · exact hi.ready x h
    · simp at h; subst h; rw [he]; exact hD
  · intro k hk
    have hki : k ≠ i := fun h => hk (h ▸ hD)
    rw [htr, applyFiats_append, ← hi.status k hk, hw]
    simp [applyFiats, stat, Ioflo.Bids.setStatus, Ioflo.Bids.writeDesire, World.modF, World.log, hki]
  · intro ph j c' hmem
    rw [htr] at hmem
    rcases List.mem_append.mp hmem with h | h
    · exact hi.norecv _ _ _ h
    · simp at h
  · intro o hmem
    rw [htr] at hmem
    rcases List.mem_append.mp hmem with h | h
    · exact hi.fiats o h
    · simp at h; subst h; trivial

/-! ### the entered frames are an outline of the program, on every visit -/

/-- every framer's entered frames are nothing, or the outline of one of its frames as its program gives it -/
def Outl (w : World τ) : Prop :=
  ∀ k, (w.framers k).actives = [] ∨ ∃ f, (w.framers k).actives = outline (w.framers k).frames f

/-- an update that changes no framer's program and keeps `Outl` -/
structure Ok (w w' : World τ) : Prop where
  frames : ∀ k, (w'.framers k).frames = (w.framers k).frames
  outl : Outl w → Outl w'

theorem Ok.refl (w : World τ) : Ok w w := ⟨fun _ => rfl, id⟩
theorem Ok.trans {w w' w'' : World τ} (h1 : Ok w w') (h2 : Ok w' w'') : Ok w w'' :=
  ⟨fun k => (h2.frames k).trans (h1.frames k), fun h => h2.outl (h1.outl h)⟩

theorem ok_same {w w' : World τ}
    (h : ∀ k, (w'.framers k).frames = (w.framers k).frames ∧ (w'.framers k).actives = (w.framers k).actives) :
    Ok w w' := by
  refine ⟨fun k => (h k).1, fun ho k => ?_⟩
  rw [(h k).1, (h k).2]; exact ho k

theorem ok_modF (j : Nat) (w : World τ) (g : Fr τ → Fr τ)
    (hf : ∀ f, (g f).frames = f.frames) (ha : ∀ f, (g f).actives = f.actives) : Ok w (w.modF j g) := by
  apply ok_same; intro k; simp only [World.modF]; split
  · rename_i h; subst h; exact ⟨hf _, ha _⟩
  · exact ⟨rfl, rfl⟩

theorem ok_log (w : World τ) (o : Obs τ) : Ok w (w.log o) := ok_same fun _ => ⟨rfl, rfl⟩
theorem ok_writeDesire (i : Nat) (c : Control) (w : World τ) : Ok w (writeDesire i c w) := by
  apply ok_same; intro k; simp only [writeDesire, World.modF, World.log]; split
  · rename_i h; subst h; exact ⟨rfl, rfl⟩
  · exact ⟨rfl, rfl⟩
theorem ok_setStatus (i : Nat) (c : Status) (w : World τ) : Ok w (setStatus i c w) := by
  apply ok_same; intro k; simp only [setStatus, World.modF]; split
  · rename_i h; subst h; exact ⟨rfl, rfl⟩
  · exact ⟨rfl, rfl⟩
theorem ok_setRecurred (i n : Nat) (w : World τ) : Ok w (setRecurred i n w) := by
  apply ok_same; intro k; simp only [setRecurred, World.modF]; split
  · rename_i h; subst h; exact ⟨rfl, rfl⟩
  · exact ⟨rfl, rfl⟩
theorem ok_bumpRecurred (i : Nat) (w : World τ) : Ok w (bumpRecurred i w) := by
  apply ok_same; intro k; simp only [bumpRecurred, World.modF]; split
  · rename_i h; subst h; exact ⟨rfl, rfl⟩
  · exact ⟨rfl, rfl⟩
theorem ok_setPeriod (t : Nat) (p : Option τ) (w : World τ) : Ok w (setPeriod t p w) := by
  unfold setPeriod; split
  · apply ok_same; intro k; simp only [World.modF]; split
    · rename_i h; subst h; exact ⟨rfl, rfl⟩
    · exact ⟨rfl, rfl⟩
  · exact Ok.refl w
theorem ok_bidOne (b : Nat) (c : Control) (p : Option τ) (t : Nat) (w : World τ) : Ok w (bidOne b c p t w) :=
  Ok.trans (Ok.trans (ok_setPeriod t _ w) (ok_writeDesire t c _)) (ok_log _ _)

theorem ok_bids (b : Nat) (c : Control) (p : Option τ) : ∀ (ts : List Nat) (w : World τ),
    Ok w (ts.foldl (fun w t => bidOne b c p t w) w)
  | [], w => Ok.refl w
  | t :: ts, w => by
    simp only [List.foldl_cons]
    exact Ok.trans (ok_bidOne b c p t w) (ok_bids b c p ts _)

theorem ok_setActives_nil (i : Nat) (w : World τ) : Ok w (setActives i [] w) := by
  refine ⟨fun k => ?_, fun ho k => ?_⟩
  · simp only [setActives, World.modF]; split
    · rename_i h; subst h; rfl
    · rfl
  · simp only [setActives, World.modF]; split
    · exact Or.inl rfl
    · exact ho k

theorem ok_setActives_outline (i f : Nat) (F : List (Frame τ)) (w : World τ) (hF : (w.framers i).frames = F) :
    Ok w (setActives i (outline F f) w) := by
  refine ⟨fun k => ?_, fun ho k => ?_⟩
  · simp only [setActives, World.modF]; split
    · rename_i h; subst h; rfl
    · rfl
  · simp only [setActives, World.modF]; split
    · rename_i h; subst h; exact Or.inr ⟨f, by simp [hF]⟩
    · exact ho k

/-- how fiats are carried out keeps the programs and `Outl` -/
def HOk (H : FiatH τ) : Prop := ∀ b c sl w, Ok w (H b c sl w).1

theorem ok_runActs {H : FiatH τ} (hH : HOk H) (b : Nat) : ∀ (acts : List (Act τ)) (w : World τ), Ok w (runActs H b acts w)
  | [], w => Ok.refl w
  | .bid ts c p :: rest, w => by
    simp only [runActs]; exact Ok.trans (ok_bids b c p ts w) (ok_runActs hH b rest _)
  | .fiat c sl :: rest, w => by
    simp only [runActs]; exact Ok.trans (hH b c sl w) (ok_runActs hH b rest _)
  | .put k v :: rest, w => by
    simp only [runActs]
    exact Ok.trans (w' := { w with flags := fun j => if j = k then v else w.flags j }) (ok_same fun _ => ⟨rfl, rfl⟩)
      (ok_runActs hH b rest _)

theorem ok_evalGuards {H : FiatH τ} (hH : HOk H) (b : Nat) : ∀ (gs : List Guard) (w : World τ), Ok w (evalGuards H b gs w).2
  | [], w => Ok.refl w
  | .cond c :: rest, w => by
    simp only [evalGuards]; split
    · exact ok_evalGuards hH b rest w
    · exact Ok.refl w
  | .fiat c sl :: rest, w => by
    simp only [evalGuards]; split
    · exact Ok.trans (hH b c sl w) (ok_evalGuards hH b rest _)
    · exact hH b c sl w

theorem ok_guardsOf {H : FiatH τ} (hH : HOk H) (i : Nat) : ∀ (l : List Nat) (w : World τ), Ok w (guardsOf H i l w).2
  | [], w => Ok.refl w
  | f :: rest, w => by
    simp only [guardsOf]; split
    · exact Ok.trans (ok_evalGuards hH i _ w) (ok_guardsOf hH i rest _)
    · exact ok_evalGuards hH i _ w

theorem ok_checkStart {H : FiatH τ} (hH : HOk H) (i : Nat) (w : World τ) : Ok w (checkStart H i w).2 := by
  unfold checkStart
  simp only []
  refine Ok.trans ?_ (ok_log _ _)
  split
  · exact Ok.refl w
  · exact ok_guardsOf hH i _ w

theorem ok_enterFrames {H : FiatH τ} (hH : HOk H) (i : Nat) : ∀ (l : List Nat) (w : World τ), Ok w (enterFrames H i l w)
  | [], w => Ok.refl w
  | f :: rest, w => by
    simp only [enterFrames]
    exact Ok.trans (Ok.trans (ok_log w _) (ok_runActs hH i _ _)) (ok_enterFrames hH i rest _)

theorem ok_exitFrames {H : FiatH τ} (hH : HOk H) (i : Nat) : ∀ (l : List Nat) (w : World τ), Ok w (exitFrames H i l w)
  | [], w => Ok.refl w
  | f :: rest, w => by
    simp only [exitFrames]
    exact Ok.trans (Ok.trans (ok_log w _) (ok_runActs hH i _ _)) (ok_exitFrames hH i rest _)

theorem ok_recurFrames {H : FiatH τ} (hH : HOk H) (i : Nat) : ∀ (l : List Nat) (w : World τ), Ok w (recurFrames H i l w)
  | [], w => Ok.refl w
  | f :: rest, w => by
    simp only [recurFrames]
    exact Ok.trans (ok_runActs hH i _ _) (ok_recurFrames hH i rest _)

theorem ok_enterAll {H : FiatH τ} (hH : HOk H) (i : Nat) (w : World τ) : Ok w (enterAll H i w) := by
  unfold enterAll
  exact Ok.trans (Ok.trans (ok_setActives_outline i 0 _ w rfl) (ok_setRecurred i 0 _)) (ok_enterFrames hH i _ _)

theorem ok_recur {H : FiatH τ} (hH : HOk H) (i : Nat) (w : World τ) : Ok w (recur H i w) :=
  ok_recurFrames hH i _ w

theorem ok_exitAll {H : FiatH τ} (hH : HOk H) (i : Nat) (w : World τ) : Ok w (exitAll H i w) :=
  Ok.trans (ok_exitFrames hH i _ w) (ok_setActives_nil i _)

theorem ok_precur {H : FiatH τ} (hH : HOk H) (i : Nat) : ∀ (ts : List Trans) (w : World τ), Ok w (precur H i ts w).1
  | [], w => Ok.refl w
  | t :: rest, w => by
    simp only [precur]
    split
    · split
      · exact ok_precur hH i rest w
      · split
        · have h1 := ok_guardsOf hH i (exEn (w.framers i).actives (outline (w.framers i).frames t.target) t.target).2 w
          have h2 := Ok.trans h1 (ok_exitFrames hH i
            (exEn (w.framers i).actives (outline (w.framers i).frames t.target) t.target).1.reverse _)
          have h3 := Ok.trans h2 (ok_setRecurred i 0 _)
          have h4 := Ok.trans h3 (ok_enterFrames hH i
            (exEn (w.framers i).actives (outline (w.framers i).frames t.target) t.target).2 _)
          exact Ok.trans h4 (ok_setActives_outline i t.target _ _ (h4.frames i))
        · exact Ok.trans (ok_guardsOf hH i _ w) (ok_precur hH i rest _)
    · exact ok_precur hH i rest w

theorem ok_precurFrames {H : FiatH τ} (hH : HOk H) (i : Nat) : ∀ (l : List Nat) (w : World τ), Ok w (precurFrames H i l w)
  | [], w => Ok.refl w
  | f :: rest, w => by
    simp only [precurFrames]
    split
    · exact ok_precur hH i _ w
    · exact Ok.trans (ok_precur hH i _ w) (ok_precurFrames hH i rest _)

theorem ok_segue {H : FiatH τ} (hH : HOk H) (i : Nat) (w : World τ) : Ok w (segue H i w) :=
  Ok.trans (ok_bumpRecurred i w) (ok_precurFrames hH i _ _)

/-- **one resumption keeps every program and "the entered frames are nothing or an outline"** -/
theorem ok_table {H : FiatH τ} (hH : HOk H) (i : Nat) (c : Control) (w : World τ) : Ok w (table H i c w).2 := by
  have hrun : Ok w (runLive H i w) :=
    Ok.trans (Ok.trans (ok_segue hH i w) (ok_recur hH i _)) (ok_setStatus i _ _)
  have hbad : Ok w (abortBad i w) := Ok.trans (ok_writeDesire i .abort w) (ok_setStatus i _ _)
  have hready : Ok w (readyIdle H i w) := by
    unfold readyIdle; simp only []; split
    · exact Ok.trans (ok_checkStart hH i w) (ok_setStatus i _ _)
    · exact Ok.trans (Ok.trans (ok_checkStart hH i w) (ok_writeDesire i .stop _)) (ok_setStatus i _ _)
  have hstart : Ok w (startIdle H i w) := by
    unfold startIdle; simp only []; split
    · exact Ok.trans (Ok.trans (Ok.trans (Ok.trans (ok_checkStart hH i w) (ok_writeDesire i .run _))
        (ok_enterAll hH i _)) (ok_recur hH i _)) (ok_setStatus i _ _)
    · exact Ok.trans (Ok.trans (ok_checkStart hH i w) (ok_writeDesire i .stop _)) (ok_setStatus i _ _)
  have hstop : Ok w (stopLive H i w) :=
    Ok.trans (Ok.trans (ok_writeDesire i .stop w) (ok_exitAll hH i _)) (ok_setStatus i _ _)
  have habort : ∀ b, Ok w (abortAny H i b w) := by
    intro b; unfold abortAny
    refine Ok.trans (Ok.trans ?_ (ok_writeDesire i .abort _)) (ok_setStatus i _ _)
    split
    · exact ok_exitAll hH i w
    · exact Ok.refl w
  have hwd : ∀ c', Ok w (writeDesire i c' w) := fun c' => ok_writeDesire i c' w
  unfold table
  simp only []
  cases c <;> simp only [] <;> (repeat' split) <;> first | assumption | exact hwd _ | exact habort _ | exact Ok.refl w

theorem hok_noFiat : HOk (noFiat (τ := τ)) := fun _ _ _ _ => ok_same fun _ => ⟨rfl, rfl⟩

theorem hok_fiatD : ∀ (d : Nat) (chain : List Nat), HOk (fiatD (τ := τ) d chain)
  | 0, _ => by simp only [fiatD]; exact hok_noFiat
  | d+1, chain => by
    intro b c sl w
    simp only [fiatD]
    split
    · exact ok_same fun _ => ⟨rfl, rfl⟩
    · exact Ok.trans (ok_table (hok_fiatD d (b :: chain)) sl c w) (ok_log _ _)

theorem ok_send (ph : Phase) (i : Nat) (c : Control) (st : τ) (w : World τ) :
    Ok w ((FramerEnv (τ := τ)).send ph i c st w).2 := by
  show Ok w ((table (fiatTop w.n) i c (w.log (.recv ph i c))).2.log _)
  exact Ok.trans (Ok.trans (ok_log w _) (ok_table (hok_fiatD _ _) i c _)) (ok_log _ _)

/-- with the programs `F` -/
def OutlP (F : Nat → List (Frame τ)) (w : World τ) : Prop := (∀ k, (w.framers k).frames = F k) ∧ Outl w

theorem Ok.outlP {F : Nat → List (Frame τ)} {w w' : World τ} (h : Ok w w') (hp : OutlP F w) : OutlP F w' :=
  ⟨fun k => (h.frames k).trans (hp.1 k), h.outl hp.2⟩

theorem outlP_step (F : Nat → List (Frame τ)) : StepInv (FramerEnv (τ := τ)) (fun s => OutlP F s.world) where
  after := by
    intro s e rest hi _
    show OutlP F (after FramerEnv s e rest).world
    rw [after_world]
    split
    · exact (ok_send _ _ _ _ _).outlP hi
    · exact hi
  afterFinal := fun s e rest hi _ => (ok_send .final e.id .abort s.storeStamp s.world).outlP hi
  advance := fun s hi => hi
  halfAdvance := fun s hi => hi
  clear := fun s hi => hi

/-! ### list order: the frames of an outline run one after the other, each in the world its over frames left -/

theorem runActs_append (H : FiatH τ) (b : Nat) : ∀ (a1 a2 : List (Act τ)) (w : World τ),
    runActs H b (a1 ++ a2) w = runActs H b a2 (runActs H b a1 w)
  | [], a2, w => rfl
  | .bid ts c p :: rest, a2, w => by simp only [List.cons_append, runActs]; exact runActs_append H b rest a2 _
  | .fiat c sl :: rest, a2, w => by simp only [List.cons_append, runActs]; exact runActs_append H b rest a2 _
  | .put k v :: rest, a2, w => by simp only [List.cons_append, runActs]; exact runActs_append H b rest a2 _

theorem enterFrames_append (H : FiatH τ) (i : Nat) : ∀ (l1 l2 : List Nat) (w : World τ),
    enterFrames H i (l1 ++ l2) w = enterFrames H i l2 (enterFrames H i l1 w)
  | [], l2, w => rfl
  | f :: rest, l2, w => by simp only [List.cons_append, enterFrames]; exact enterFrames_append H i rest l2 _

theorem recurFrames_append (H : FiatH τ) (i : Nat) : ∀ (l1 l2 : List Nat) (w : World τ),
    recurFrames H i (l1 ++ l2) w = recurFrames H i l2 (recurFrames H i l1 w)
  | [], l2, w => rfl
  | f :: rest, l2, w => by simp only [List.cons_append, recurFrames]; exact recurFrames_append H i rest l2 _

theorem exitFrames_append (H : FiatH τ) (i : Nat) : ∀ (l1 l2 : List Nat) (w : World τ),
    exitFrames H i (l1 ++ l2) w = exitFrames H i l2 (exitFrames H i l1 w)
  | [], l2, w => rfl
  | f :: rest, l2, w => by simp only [List.cons_append, exitFrames]; exact exitFrames_append H i rest l2 _

/-- acts that end with a bid `c` for `t` leave `t.desire = c` -/
theorem runActs_last_bid (H : FiatH τ) (b : Nat) (pre : List (Act τ)) (t : Nat) (c : Control) (p : Option τ) (w : World τ) :
    des (runActs H b (pre ++ [.bid [t] c p]) w) t = c := by
  rw [runActs_append]
  simp [runActs, bidOne, writeDesire, des, World.modF, World.log]

end Ioflo.Bids
