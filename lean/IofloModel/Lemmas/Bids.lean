import IofloModel.Model.Bids
import IofloModel.Lemmas.Sked
/-!
Helper lemmas for `Model/Bids.lean`: what every hook of the framer runner leaves alone
(`Fx`: the issuer's status, every other status except through logged fiats, the
"desire = last write" link, no scheduler marker), and the runner table itself.
-/
set_option linter.unusedSectionVars false
set_option linter.unusedVariables false
namespace Ioflo.Bids
open Ioflo.Sked

variable {τ : Type} [TimeLike τ]

def stat (w : World τ) (k : Nat) : Status := (w.framers k).status
def des (w : World τ) (k : Nat) : Control := (w.framers k).desire

def Obs.isRecv : Obs τ → Bool
  | .recv _ _ _ => true
  | _ => false

def Obs.isFiat : Obs τ → Bool
  | .fiat _ _ _ _ _ => true
  | _ => false

/-- the value of the last `framer.desire = …` recorded for framer `k` -/
def lastWrite (tr : List (Obs τ)) (k : Nat) : Option Control :=
  tr.foldl (fun acc o => match o with | .write i c => if i = k then some c else acc | _ => acc) none

/-- the status of framer `k` after the fiats on it recorded in `n`, starting from `s0` -/
def applyFiats (n : List (Obs τ)) (k : Nat) (s0 : Status) : Status :=
  n.foldl (fun s o => match o with | .fiat _ sl _ st _ => if sl = k then st else s | _ => s) s0

theorem lastWrite_snoc (tr : List (Obs τ)) (o : Obs τ) (k : Nat) :
    lastWrite (tr ++ [o]) k =
      match o with | .write i c => if i = k then some c else lastWrite tr k | _ => lastWrite tr k := by
  simp only [lastWrite, List.foldl_append, List.foldl_cons, List.foldl_nil]

theorem applyFiats_append (a b : List (Obs τ)) (k : Nat) (s0 : Status) :
    applyFiats (a ++ b) k s0 = applyFiats b k (applyFiats a k s0) := by
  simp only [applyFiats, List.foldl_append]

theorem applyFiats_noFiat (n : List (Obs τ)) (k : Nat) (s0 : Status) (h : ∀ o ∈ n, o.isFiat = false) :
    applyFiats n k s0 = s0 := by
  induction n generalizing s0 with
  | nil => rfl
  | cons o rest ih =>
    have ho := h o (by simp)
    have hr : ∀ s, applyFiats rest k s = s := fun s => ih s (fun o ho => h o (List.mem_cons_of_mem _ ho))
    have hstep : applyFiats (o :: rest) k s0 = applyFiats rest k s0 := by
      cases o <;> simp_all [applyFiats, Obs.isFiat]
    rw [hstep, hr]

/-- `framer.desire` agrees with the trace -/
def DesireOK (w : World τ) : Prop := ∀ k c, lastWrite w.trace k = some c → des w k = c

/-- new trace entries allowed at a given level: no scheduler marker; `plain` also no fiat -/
structure PnOK (Pn : Obs τ → Prop) : Prop where
  write : ∀ j c, Pn (.write j c)
  bid : ∀ b t c p, Pn (.bid b t c p)
  check : ∀ j ok, Pn (.check j ok)
  noRecv : ∀ o, Pn o → o.isRecv = false

def notRecv (o : Obs τ) : Prop := o.isRecv = false
def plain (o : Obs τ) : Prop := o.isRecv = false ∧ o.isFiat = false

theorem notRecv_ok : PnOK (notRecv (τ := τ)) :=
  ⟨fun _ _ => rfl, fun _ _ _ _ => rfl, fun _ _ => rfl, fun _ h => h⟩
theorem plain_ok : PnOK (plain (τ := τ)) :=
  ⟨fun _ _ => ⟨rfl, rfl⟩, fun _ _ _ _ => ⟨rfl, rfl⟩, fun _ _ => ⟨rfl, rfl⟩, fun _ h => h.1⟩

/-- the effect of a hook run on behalf of framer `i` -/
structure Fx (Pn : Obs τ → Prop) (i : Nat) (w w' : World τ) : Prop where
  self : stat w' i = stat w i
  ext : ∃ n, w'.trace = w.trace ++ n ∧ (∀ o ∈ n, Pn o) ∧ ∀ k, k ≠ i → stat w' k = applyFiats n k (stat w k)
  desire : DesireOK w → DesireOK w'

theorem Fx.refl (Pn : Obs τ → Prop) (i : Nat) (w : World τ) : Fx Pn i w w :=
  ⟨rfl, ⟨[], by simp, by simp, fun _ _ => rfl⟩, id⟩

theorem Fx.trans {Pn : Obs τ → Prop} {i : Nat} {w w' w'' : World τ} (h1 : Fx Pn i w w') (h2 : Fx Pn i w' w'') :
    Fx Pn i w w'' := by
  obtain ⟨n1, t1, p1, o1⟩ := h1.ext
  obtain ⟨n2, t2, p2, o2⟩ := h2.ext
  refine ⟨by rw [h2.self, h1.self], ⟨n1 ++ n2, by rw [t2, t1]; simp, ?_, ?_⟩, fun h => h2.desire (h1.desire h)⟩
  · intro o ho
    rcases List.mem_append.mp ho with h | h
    · exact p1 o h
    · exact p2 o h
  · intro k hk
    rw [o2 k hk, o1 k hk, applyFiats_append]

/-- a world that differs only in flags / the `unsupported` mark / non-status, non-desire attributes -/
theorem Fx.of_same {Pn : Obs τ → Prop} {i : Nat} {w w' : World τ}
    (hs : ∀ k, stat w' k = stat w k) (hd : ∀ k, des w' k = des w k) (ht : w'.trace = w.trace) : Fx Pn i w w' := by
  refine ⟨hs i, ⟨[], by simp [ht], by simp, fun k _ => by simp [applyFiats, hs k]⟩, ?_⟩
  intro h k c hk
  rw [ht] at hk
  rw [hd k]; exact h k c hk

theorem Fx.modF {Pn : Obs τ → Prop} (i j : Nat) (w : World τ) (g : Fr τ → Fr τ)
    (hs : ∀ f, (g f).status = f.status) (hd : ∀ f, (g f).desire = f.desire) : Fx Pn i w (w.modF j g) := by
  apply Fx.of_same
  · intro k; simp only [stat, World.modF]; split
    · rename_i h; subst h; exact hs _
    · rfl
  · intro k; simp only [des, World.modF]; split
    · rename_i h; subst h; exact hd _
    · rfl
  · rfl

/-- logging an entry that is neither a write nor a fiat nor a scheduler marker -/
theorem Fx.log {Pn : Obs τ → Prop} (i : Nat) (w : World τ) (o : Obs τ) (hp : Pn o)
    (hw : ∀ j c, o ≠ .write j c) (hf : o.isFiat = false) : Fx Pn i w (w.log o) := by
  refine ⟨rfl, ⟨[o], rfl, by simpa using hp, ?_⟩, ?_⟩
  · intro k _
    rw [applyFiats_noFiat [o] k _ (by simpa using hf)]; rfl
  · intro h k c hk
    simp only [World.log] at hk
    rw [lastWrite_snoc] at hk
    have : lastWrite w.trace k = some c := by
      cases o <;> simp_all
    exact h k c this

theorem Fx.writeDesire {Pn : Obs τ → Prop} (hP : PnOK Pn) (i j : Nat) (c : Control) (w : World τ) :
    Fx Pn i w (writeDesire j c w) := by
  refine ⟨?_, ⟨[.write j c], rfl, by simpa using hP.write j c, ?_⟩, ?_⟩
  · simp only [stat, Ioflo.Bids.writeDesire, World.log, World.modF]; split
    · rename_i h; rw [h]
    · rfl
  · intro k _
    rw [applyFiats_noFiat _ k _ (by simp [Obs.isFiat])]
    simp only [stat, Ioflo.Bids.writeDesire, World.log, World.modF]; split
    · rename_i h; rw [h]
    · rfl
  · intro h k c' hk
    simp only [Ioflo.Bids.writeDesire, World.log] at hk
    rw [lastWrite_snoc] at hk
    simp only [des, Ioflo.Bids.writeDesire, World.log, World.modF]
    by_cases hjk : j = k
    · subst hjk
      simp only [if_true, Option.some.injEq] at hk
      simp [hk]
    · simp only [hjk, if_false] at hk
      have hkj : ¬ k = j := fun h => hjk h.symm
      simp only [hkj, if_false]
      exact h k c' hk

/-- what a fiat handler must guarantee -/
def HSpec (Pn : Obs τ → Prop) (H : FiatH τ) : Prop := ∀ by_ c sl w, Fx Pn by_ w (H by_ c sl w).1

theorem Fx.bidOne {Pn : Obs τ → Prop} (hP : PnOK Pn) (i by_ : Nat) (c : Control) (p : Option τ) (t : Nat)
    (w : World τ) : Fx Pn i w (bidOne by_ c p t w) := by
  unfold Ioflo.Bids.bidOne
  have h1 : Fx Pn i w (setPeriod t (bidPeriod c p) w) := by
    unfold setPeriod
    split
    · exact Fx.modF i t w _ (fun _ => rfl) (fun _ => rfl)
    · exact Fx.refl _ _ _
  exact Fx.trans h1 (Fx.trans (Fx.writeDesire hP i t c _) (Fx.log i _ _ (hP.bid _ _ _ _) (by simp) rfl))

theorem Fx.bids {Pn : Obs τ → Prop} (hP : PnOK Pn) (i by_ : Nat) (c : Control) (p : Option τ) :
    ∀ (ts : List Nat) (w : World τ), Fx Pn i w (ts.foldl (fun w t => Ioflo.Bids.bidOne by_ c p t w) w)
  | [], w => Fx.refl _ _ _
  | t :: ts, w => Fx.trans (Fx.bidOne hP i by_ c p t w) (Fx.bids hP i by_ c p ts _)

theorem Fx.runActs {Pn : Obs τ → Prop} (hP : PnOK Pn) {H : FiatH τ} (hH : HSpec Pn H) (i : Nat) :
    ∀ (acts : List (Act τ)) (w : World τ), Fx Pn i w (runActs H i acts w)
  | [], w => Fx.refl _ _ _
  | .bid ts c p :: rest, w => by
    simp only [Ioflo.Bids.runActs]
    exact Fx.trans (Fx.bids hP i i c p ts w) (Fx.runActs hP hH i rest _)
  | .fiat c sl :: rest, w => by
    simp only [Ioflo.Bids.runActs]
    exact Fx.trans (hH i c sl w) (Fx.runActs hP hH i rest _)
  | .put k v :: rest, w => by
    simp only [Ioflo.Bids.runActs]
    have h1 : Fx Pn i w { w with flags := fun j => if j = k then v else w.flags j } :=
      Fx.of_same (fun _ => rfl) (fun _ => rfl) rfl
    exact Fx.trans h1 (Fx.runActs hP hH i rest _)

theorem Fx.evalGuards {Pn : Obs τ → Prop} (hP : PnOK Pn) {H : FiatH τ} (hH : HSpec Pn H) (i : Nat) :
    ∀ (gs : List Guard) (w : World τ), Fx Pn i w (evalGuards H i gs w).2
  | [], w => Fx.refl _ _ _
  | .cond c :: rest, w => by
    simp only [Ioflo.Bids.evalGuards]
    split
    · exact Fx.evalGuards hP hH i rest w
    · exact Fx.refl _ _ _
  | .fiat c sl :: rest, w => by
    simp only [Ioflo.Bids.evalGuards]
    split
    · exact Fx.trans (hH i c sl w) (Fx.evalGuards hP hH i rest _)
    · exact hH i c sl w

theorem Fx.checkStart {Pn : Obs τ → Prop} (hP : PnOK Pn) {H : FiatH τ} (hH : HSpec Pn H) (i : Nat) (w : World τ) :
    Fx Pn i w (checkStart H i w).2 := by
  unfold Ioflo.Bids.checkStart
  simp only []
  generalize hr : (if (w.framers i).frames.isEmpty = true then (false, w)
      else Ioflo.Bids.evalGuards H i (frameOf (w.framers i) 0).beacts w) = r
  have h1 : Fx Pn i w r.2 := by
    rw [← hr]
    split
    · exact Fx.refl _ _ _
    · exact Fx.evalGuards hP hH i _ w
  exact Fx.trans h1 (Fx.log i r.2 (.check i r.1) (hP.check _ _) (by simp) rfl)

theorem Fx.enterFrame {Pn : Obs τ → Prop} (hP : PnOK Pn) {H : FiatH τ} (hH : HSpec Pn H) (i idx : Nat) (w : World τ) :
    Fx Pn i w (enterFrame H i idx w) := by
  unfold Ioflo.Bids.enterFrame
  exact Fx.trans (Fx.modF i i w _ (fun _ => rfl) (fun _ => rfl))
    (Fx.trans (Fx.runActs hP hH i _ _) (Fx.modF i i _ _ (fun _ => rfl) (fun _ => rfl)))

theorem Fx.enterAll {Pn : Obs τ → Prop} (hP : PnOK Pn) {H : FiatH τ} (hH : HSpec Pn H) (i : Nat) (w : World τ) :
    Fx Pn i w (enterAll H i w) := by
  unfold Ioflo.Bids.enterAll
  exact Fx.trans (Fx.modF i i w _ (fun _ => rfl) (fun _ => rfl)) (Fx.enterFrame hP hH i 0 _)

theorem Fx.recur {Pn : Obs τ → Prop} (hP : PnOK Pn) {H : FiatH τ} (hH : HSpec Pn H) (i : Nat) (w : World τ) :
    Fx Pn i w (recur H i w) := by
  unfold Ioflo.Bids.recur
  split
  · exact Fx.runActs hP hH i _ w
  · exact Fx.refl _ _ _

theorem Fx.exitAll {Pn : Obs τ → Prop} (hP : PnOK Pn) {H : FiatH τ} (hH : HSpec Pn H) (i : Nat) (w : World τ) :
    Fx Pn i w (exitAll H i w) := by
  unfold Ioflo.Bids.exitAll
  simp only []
  generalize hr : (match (w.framers i).active with
    | some idx => Ioflo.Bids.runActs H i (frameOf (w.framers i) idx).exacts w
    | none => w) = w1
  have h1 : Fx Pn i w w1 := by
    rw [← hr]
    split
    · exact Fx.runActs hP hH i _ w
    · exact Fx.refl _ _ _
  exact Fx.trans h1 (Fx.modF i i _ _ (fun _ => rfl) (fun _ => rfl))

theorem Fx.precur {Pn : Obs τ → Prop} (hP : PnOK Pn) {H : FiatH τ} (hH : HSpec Pn H) (i near : Nat) :
    ∀ (ts : List Trans) (w : World τ), Fx Pn i w (precur H i near ts w)
  | [], w => Fx.refl _ _ _
  | t :: rest, w => by
    simp only [Ioflo.Bids.precur]
    split
    · split
      · exact Fx.trans (Fx.evalGuards hP hH i _ w)
          (Fx.trans (Fx.runActs hP hH i _ _) (Fx.enterFrame hP hH i _ _))
      · exact Fx.trans (Fx.evalGuards hP hH i _ w) (Fx.precur hP hH i near rest _)
    · exact Fx.precur hP hH i near rest w

theorem Fx.segue {Pn : Obs τ → Prop} (hP : PnOK Pn) {H : FiatH τ} (hH : HSpec Pn H) (i : Nat) (w : World τ) :
    Fx Pn i w (segue H i w) := by
  unfold Ioflo.Bids.segue
  simp only []
  refine Fx.trans (Fx.modF i i w _ (fun _ => rfl) (fun _ => rfl)) ?_
  split
  · exact Fx.precur hP hH i _ _ _
  · exact Fx.refl _ _ _

end Ioflo.Bids
