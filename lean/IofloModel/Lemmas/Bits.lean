import IofloModel.Model.Bits

/-! Helper lemmas for C40 (byting codecs): specification functions, the bit-level invariant of the
pack loop, big-endian digit lemmas. -/
namespace Ioflo.Bits

/-- decidable equality of results (core Lean has no instance for `Except`); lets the concrete
examples be checked by `decide` -/
instance exceptDecEq {ε α : Type} [DecidableEq ε] [DecidableEq α] : DecidableEq (Except ε α)
  | .ok a, .ok b => if h : a = b then isTrue (by rw [h]) else isFalse (fun e => h (by injection e))
  | .error a, .error b => if h : a = b then isTrue (by rw [h]) else isFalse (fun e => h (by injection e))
  | .ok _, .error _ => isFalse (fun e => by cases e)
  | .error _, .ok _ => isFalse (fun e => by cases e)

/-! ## pack / unpack loops -/


/-- what one field reads back as -/
def fieldBits (bfl : Int) (f : Int) : Nat :=
  if bfl = 1 then (if f ≠ 0 then 1 else 0) else (f % 2 ^ bfl.toNat).toNat

def specFields (boolean : Bool) : List Int → List Int → List Fld
  | bfl :: fmt, f :: fs => mkFld bfl boolean (fieldBits bfl f) :: specFields boolean fmt fs
  | _, _ => []

theorem packBits_ok {bfl f : Int} {bits : Nat} (h : packBits bfl f = .ok bits) :
    0 ≤ bfl ∧ bits < 2 ^ bfl.toNat ∧ bits = fieldBits bfl f := by
  unfold packBits at h
  unfold fieldBits
  split at h
  · next h1 =>
    subst h1
    injection h with h; subst h
    refine ⟨by omega, ?_, by simp⟩
    split <;> simp
  · split at h
    · cases h
    · next h1 h2 =>
      injection h with h; subst h
      refine ⟨by omega, ?_, by simp [h1]⟩
      have hp : (0:Int) < 2 ^ bfl.toNat := Int.pow_pos (by omega)
      have := Int.emod_lt_of_pos f hp
      have := Int.emod_nonneg f (Int.ne_of_gt hp)
      have h3 : ((2:Int) ^ bfl.toNat) = ((2 ^ bfl.toNat : Nat) : Int) := by simp
      omega


/-- no bit of `n` below position `p` is set -/
def LowClear (n p : Nat) : Prop := ∀ j, j < p → n.testBit j = false

theorem packLoop_step {bfl : Int} {fmt : List Int} {f : Int} {fs : List Int} {n bfp : Nat}
    {r : Nat × Nat} (h : packLoop (bfl :: fmt) (f :: fs) n bfp = .ok r) :
    ∃ bits, packBits bfl f = .ok bits ∧ bfl.toNat ≤ bfp ∧
      packLoop fmt fs (n ||| (bits <<< (bfp - bfl.toNat))) (bfp - bfl.toNat) = .ok r := by
  rw [packLoop] at h
  split at h
  · cases h
  · next bits hb =>
    split at h
    · cases h
    · next hlt => exact ⟨bits, hb, by omega, h⟩

theorem testBit_step {n bits bfp w : Nat} (j : Nat) :
    (n ||| (bits <<< (bfp - w))).testBit j =
      (n.testBit j || (decide (bfp - w ≤ j) && bits.testBit (j - (bfp - w)))) := by
  rw [Nat.testBit_or, Nat.testBit_shiftLeft]

/-- the pack loop only writes bits in `[bfp', bfp)` -/
theorem packLoop_frame : ∀ (fmt fs : List Int) (n bfp : Nat) (r : Nat × Nat),
    packLoop fmt fs n bfp = .ok r →
    r.2 ≤ bfp ∧ (r.2 : Int) = bfp - fmt.sum ∧
    (∀ j, bfp ≤ j → r.1.testBit j = n.testBit j) ∧
    (LowClear n bfp → LowClear r.1 r.2)
  | [], fs, n, bfp, r, h => by
    rw [packLoop] at h; injection h with h; subst h; simp
  | bfl :: fmt, [], n, bfp, r, h => by rw [packLoop] at h; cases h
  | bfl :: fmt, f :: fs, n, bfp, r, h => by
    obtain ⟨bits, hb, hle, h'⟩ := packLoop_step h
    obtain ⟨h0, hlt, -⟩ := packBits_ok hb
    obtain ⟨i1, i2, i3, i4⟩ := packLoop_frame fmt fs _ _ r h'
    refine ⟨by omega, ?_, ?_, ?_⟩
    · simp only [List.sum_cons]; omega
    · intro j hj
      rw [i3 j (by omega), testBit_step]
      have : bits.testBit (j - (bfp - bfl.toNat)) = false :=
        Nat.testBit_lt_two_pow (Nat.lt_of_lt_of_le hlt (Nat.pow_le_pow_right (by omega) (by omega)))
      simp [this]
    · intro hc
      apply i4
      intro j hj
      rw [testBit_step, hc j (by omega)]
      have : ¬ (bfp - bfl.toNat ≤ j) := by omega
      simp [this]

theorem unpack_first {n' n bits bfp w : Nat} (hw : w ≤ bfp) (hb : bits < 2 ^ w)
    (hc : LowClear n bfp)
    (hfr : ∀ j, bfp - w ≤ j → n'.testBit j = (n ||| (bits <<< (bfp - w))).testBit j) :
    (n' &&& ((2 ^ w - 1) <<< (bfp - w))) >>> (bfp - w) = bits := by
  apply Nat.eq_of_testBit_eq
  intro k
  rw [Nat.testBit_shiftRight, Nat.testBit_and, Nat.testBit_shiftLeft, Nat.testBit_two_pow_sub_one,
    hfr _ (by omega), testBit_step]
  have e : bfp - w + k - (bfp - w) = k := by omega
  rw [e]
  by_cases hk : k < w
  · rw [hc _ (by omega)]; simp [hk]
  · have : bits.testBit k = false :=
      Nat.testBit_lt_two_pow (Nat.lt_of_lt_of_le hb (Nat.pow_le_pow_right (by omega) (by omega)))
    simp [hk, this]

/-- reading back what the pack loop wrote -/
theorem unpackLoop_packLoop (boolean : Bool) : ∀ (fmt fs : List Int) (n bfp : Nat) (r : Nat × Nat),
    packLoop fmt fs n bfp = .ok r → LowClear n bfp →
    unpackLoop r.1 boolean fmt bfp = .ok (specFields boolean fmt fs, r.2)
  | [], fs, n, bfp, r, h, _ => by
    rw [packLoop] at h; injection h with h; subst h
    cases fs <;> simp [unpackLoop, specFields]
  | bfl :: fmt, [], n, bfp, r, h, _ => by rw [packLoop] at h; cases h
  | bfl :: fmt, f :: fs, n, bfp, r, h, hc => by
    obtain ⟨bits, hb, hle, h'⟩ := packLoop_step h
    obtain ⟨h0, hlt, hspec⟩ := packBits_ok hb
    have hc' : LowClear (n ||| (bits <<< (bfp - bfl.toNat))) (bfp - bfl.toNat) := by
      intro j hj
      rw [testBit_step, hc j (by omega)]
      have : ¬ (bfp - bfl.toNat ≤ j) := by omega
      simp [this]
    have ih := unpackLoop_packLoop boolean fmt fs _ _ r h' hc'
    obtain ⟨-, -, i3, -⟩ := packLoop_frame fmt fs _ _ r h'
    have hfirst := unpack_first hle hlt hc i3
    rw [unpackLoop]
    have : ¬ bfl < 0 := by omega
    have h2 : ¬ bfp < bfl.toNat := by omega
    simp only [this, h2, if_false, ih, hfirst, specFields, hspec]


/-! ## bytes -/


/-- big-endian value of a byte list -/
def bval (l : List Byte) : Nat := l.foldl (fun n x => (n <<< 8) + x.toNat) 0

theorem foldl_val (l : List Byte) (a : Nat) :
    l.foldl (fun n x => (n <<< 8) + x.toNat) a = a * 256 ^ l.length + bval l := by
  induction l generalizing a with
  | nil => simp [bval]
  | cons x t ih =>
    simp only [List.foldl_cons, List.length_cons, bval]
    rw [ih, ih (0 <<< 8 + x.toNat)]
    simp only [Nat.shiftLeft_eq, Nat.pow_succ]
    grind

theorem bval_nil : bval [] = 0 := rfl

theorem bval_cons (x : Byte) (t : List Byte) : bval (x :: t) = x.toNat * 256 ^ t.length + bval t := by
  have := foldl_val t (0 <<< 8 + x.toNat)
  simp only [bval, List.foldl_cons] at this ⊢
  rw [this]; simp

theorem bval_append (a b : List Byte) : bval (a ++ b) = bval a * 256 ^ b.length + bval b := by
  unfold bval; rw [List.foldl_append, foldl_val]; rfl

theorem bval_lt (l : List Byte) : bval l < 256 ^ l.length := by
  induction l with
  | nil => simp [bval]
  | cons x t ih =>
    rw [bval_cons, List.length_cons, Nat.pow_succ]
    have := x.isLt
    have h8 : (2:Nat)^8 = 256 := by decide
    have : x.toNat * 256 ^ t.length ≤ 255 * 256 ^ t.length := Nat.mul_le_mul_right _ (by omega)
    omega

theorem unbytify_false (b : List Byte) : unbytify b false = bval b := by
  simp [unbytify, popLoop, bval]

theorem unbytify_true (b : List Byte) : unbytify b true = bval b.reverse := by
  simp [unbytify, popLoop, bval]

theorem bval_replicate_zero (k : Nat) : bval (List.replicate k 0#8) = 0 := by
  induction k with
  | zero => rfl
  | succ k ih => rw [List.replicate_succ, bval_cons, ih]; simp

theorem bytifyLoop_val (n : Nat) (acc : List Byte) :
    bval (bytifyLoop n acc) = n * 256 ^ acc.length + bval acc := by
  fun_induction bytifyLoop n acc with
  | case1 acc => simp
  | case2 n acc hn ih =>
    rw [ih, bval_cons, List.length_cons, Nat.pow_succ]
    have h1 : (BitVec.ofNat 8 (n % 256)).toNat = n % 256 := by
      simp [BitVec.toNat_ofNat]
    rw [h1, ← Nat.add_assoc]; congr 1
    have := Nat.div_add_mod n 256
    calc n / 256 * (256 ^ acc.length * 256) + n % 256 * 256 ^ acc.length
        = (256 * (n / 256) + n % 256) * 256 ^ acc.length := by grind
      _ = n * 256 ^ acc.length := by rw [this]

theorem bytifyLoop_length (n : Nat) (acc : List Byte) (k : Nat) (h : n < 256 ^ k) :
    (bytifyLoop n acc).length ≤ k + acc.length := by
  fun_induction bytifyLoop n acc generalizing k with
  | case1 acc => omega
  | case2 n acc hn ih =>
    cases k with
    | zero => simp at h; omega
    | succ k =>
      have : n / 256 < 256 ^ k := by
        rw [Nat.pow_succ] at h
        exact Nat.div_lt_of_lt_mul (by rw [Nat.mul_comm]; exact h)
      have := ih k this
      simp only [List.length_cons] at this
      omega




/-- `bytify` after the masking of `n`: digits, left zero padded to `size` -/
def bytifyNat (m size : Nat) : List Byte :=
  let b := bytifyLoop m []
  if b.length < size then List.replicate (size - b.length) 0#8 ++ b else b

/-- the value `bytify` encodes -/
def norm (n : Int) (size : Nat) (strict : Bool) : Nat :=
  if n < 0 ∨ strict = true then (n % 2 ^ (size * 8)).toNat else n.toNat

theorem bytify_eq (n : Int) (size : Nat) (rev strict : Bool) :
    bytify n size rev strict =
      if rev then (bytifyNat (norm n size strict) size).reverse else bytifyNat (norm n size strict) size := by
  rfl

theorem bval_bytifyNat (m size : Nat) : bval (bytifyNat m size) = m := by
  unfold bytifyNat
  simp only []
  split
  · rw [bval_append, bval_replicate_zero, bytifyLoop_val]; simp [bval]
  · rw [bytifyLoop_val]; simp [bval]

theorem length_bytifyNat_ge (m size : Nat) : size ≤ (bytifyNat m size).length := by
  unfold bytifyNat
  simp only []
  split
  · simp; omega
  · omega

theorem length_bytifyNat (m size : Nat) (h : m < 256 ^ size) : (bytifyNat m size).length = size := by
  have := bytifyLoop_length m [] size h
  unfold bytifyNat
  simp only [List.length_nil] at this ⊢
  split
  · simp; omega
  · omega

theorem norm_lt (n : Int) (size : Nat) (strict : Bool) (h : n < 0 ∨ strict = true) :
    norm n size strict < 256 ^ size := by
  unfold norm
  rw [if_pos h]
  have hp : (0:Int) < 2 ^ (size * 8) := Int.pow_pos (by omega)
  have h1 := Int.emod_lt_of_pos n hp
  have h2 := Int.emod_nonneg n (Int.ne_of_gt hp)
  have h3 : (256:Nat) ^ size = 2 ^ (size * 8) := by
    rw [Nat.mul_comm, Nat.pow_mul]
  have h4 : ((2:Int) ^ (size * 8)) = ((2 ^ (size * 8) : Nat) : Int) := by simp
  omega

theorem norm_nat (m size : Nat) (h : m < 256 ^ size) : norm (m : Int) size true = m := by
  unfold norm
  simp only [or_true, if_true]
  have h3 : (256:Nat) ^ size = 2 ^ (size * 8) := by
    rw [Nat.mul_comm, Nat.pow_mul]
  have h4 : ((2:Int) ^ (size * 8)) = ((2 ^ (size * 8) : Nat) : Int) := by simp
  rw [h4, ← Int.natCast_emod, Int.toNat_natCast, Nat.mod_eq_of_lt (by omega)]

theorem unbytify_bytify (n : Int) (size : Nat) (rev strict : Bool) :
    unbytify (bytify n size rev strict) rev = norm n size strict := by
  rw [bytify_eq]
  cases rev
  · simp [unbytify_false, bval_bytifyNat]
  · simp [unbytify_true, bval_bytifyNat]




/-- the padding field appended by `unpackify` when `pad` bits remain -/
def padFields (boolean : Bool) (pad : Nat) : List Fld :=
  if pad ≠ 0 then [mkFld (pad : Int) boolean 0] else []

theorem lowClear_zero (p : Nat) : LowClear 0 p := by intro j _; simp

theorem lt_of_high_clear {n k : Nat} (h : ∀ j, k ≤ j → n.testBit j = false) : n < 2 ^ k := by
  apply Nat.lt_pow_two_of_testBit
  intro j hj
  simp [h j hj]

theorem and_mask_lowClear {n p : Nat} (h : LowClear n p) : n &&& (2 ^ p - 1) = 0 := by
  apply Nat.eq_of_testBit_eq
  intro j
  rw [Nat.testBit_and, Nat.testBit_two_pow_sub_one]
  by_cases hj : j < p
  · simp [h j hj]
  · simp [hj]

theorem packify_ok {fmt fields : List Int} {size : Option Int} {rev : Bool} {b : List Byte}
    (h : packify fmt fields size rev = .ok b) :
    ∃ sz n bfp, checkSize fmt size = .ok sz ∧ packLoop fmt fields 0 (8 * sz) = .ok (n, bfp) ∧
      b = bytify n sz rev true := by
  unfold packify at h
  split at h
  · cases h
  · next sz hs =>
    split at h
    · cases h
    · next n bfp hl =>
      injection h with h
      exact ⟨sz, n, bfp, hs, hl, h.symm⟩

theorem unpack_pack (fmt fields : List Int) (size : Option Int) (boolean rev : Bool) (b : List Byte)
    (hp : packify fmt fields size rev = .ok b) :
    ∃ sz, checkSize fmt size = .ok sz ∧ ((8 * sz : Nat) : Int) - fmt.sum ≥ 0 ∧
      unpackify fmt b boolean size rev
        = .ok (specFields boolean fmt fields ++ padFields boolean (8 * sz - fmt.sum.toNat)) := by
  obtain ⟨sz, n, bfp, hs, hl, hb⟩ := packify_ok hp
  obtain ⟨f1, f2, f3, f4⟩ := packLoop_frame fmt fields 0 (8 * sz) (n, bfp) hl
  have hlc := f4 (lowClear_zero _)
  have hn : n < 256 ^ sz := by
    have : n < 2 ^ (8 * sz) := lt_of_high_clear (fun j hj => by rw [f3 j hj]; simp)
    rwa [Nat.pow_mul] at this
  have hbval : (if rev then b.reverse else b) = bytifyNat n sz := by
    rw [hb, bytify_eq, norm_nat n sz hn]; cases rev <;> simp
  have hlen := length_bytifyNat n sz hn
  have hu := unpackLoop_packLoop boolean fmt fields 0 (8 * sz) (n, bfp) hl (lowClear_zero _)
  refine ⟨sz, hs, by simp only [] at f2; omega, ?_⟩
  unfold unpackify
  simp only [hs, hbval]
  have htake : (bytifyNat n sz).take sz = bytifyNat n sz := List.take_of_length_le (by omega)
  rw [htake, unbytify_false, bval_bytifyNat]
  simp only [] at hu f2 hlc
  rw [hu]
  have hbfp : bfp = 8 * sz - fmt.sum.toNat := by omega
  simp only [padFields, ← hbfp]
  split
  · rw [and_mask_lowClear hlc]
  · simp




theorem sum_nonneg' : ∀ (l : List Int), (∀ v ∈ l, 0 ≤ v) → 0 ≤ l.sum
  | [], _ => by simp
  | v :: l, h => by
    have := sum_nonneg' l (fun x hx => h x (by simp [hx]))
    have := h v (by simp)
    simp only [List.sum_cons]; omega

/-! success of the pack loop on valid input -/
theorem packLoop_succeeds : ∀ (fmt fs : List Int) (n bfp : Nat),
    (∀ w ∈ fmt, 0 ≤ w) → fmt.length ≤ fs.length → fmt.sum ≤ (bfp : Int) →
    ∃ r, packLoop fmt fs n bfp = .ok r
  | [], fs, n, bfp, _, _, _ => ⟨(n, bfp), by rw [packLoop]⟩
  | w :: fmt, [], n, bfp, _, hl, _ => by simp at hl
  | w :: fmt, f :: fs, n, bfp, hw, hl, hs => by
    have hw0 : 0 ≤ w := hw w (by simp)
    have hrest : ∀ v ∈ fmt, 0 ≤ v := fun v hv => hw v (by simp [hv])
    have hsum : 0 ≤ fmt.sum := sum_nonneg' _ hrest
    simp only [List.sum_cons] at hs
    rw [packLoop]
    have hb : ∃ bits, packBits w f = .ok bits := by
      unfold packBits
      split
      · exact ⟨_, rfl⟩
      · have : ¬ w < 0 := by omega
        simp [this]
    obtain ⟨bits, hb⟩ := hb
    rw [hb]
    have : ¬ bfp < w.toNat := by omega
    simp only [this, if_false]
    apply packLoop_succeeds fmt fs _ _ hrest (by simpa using hl)
    omega


theorem checkSize_ok {fmt : List Int} {size : Option Int} {sz : Nat} (h : checkSize fmt size = .ok sz) :
    0 ≤ fmt.sum ∧ fmt.sum ≤ ((8 * sz : Nat) : Int) := by
  unfold checkSize at h
  cases size with
  | some s =>
    simp only [] at h
    split at h
    · injection h with h; omega
    · cases h
  | none =>
    simp only [] at h
    split at h <;> split at h <;> first | (injection h with h; omega) | cases h

theorem packify_succeeds (fmt fields : List Int) (size : Option Int) (rev : Bool) (sz : Nat)
    (hw : ∀ w ∈ fmt, 0 ≤ w) (hl : fmt.length ≤ fields.length) (hs : checkSize fmt size = .ok sz) :
    ∃ b, packify fmt fields size rev = .ok b := by
  have hsum : fmt.sum ≤ ((8 * sz : Nat) : Int) := (checkSize_ok hs).2
  obtain ⟨r, hr⟩ := packLoop_succeeds fmt fields 0 (8 * sz) hw hl hsum
  unfold packify
  simp only [hs, hr]
  exact ⟨_, rfl⟩

/-- masked reading of every field, one-bit fields included -/
def maskedFields (boolean : Bool) : List Int → List Int → List Fld
  | bfl :: fmt, f :: fs => mkFld bfl boolean (f % 2 ^ bfl.toNat).toNat :: maskedFields boolean fmt fs
  | _, _ => []

theorem spec_eq_masked (boolean : Bool) : ∀ (fmt fs : List Int), oneBitNonBool fmt fs = false →
    specFields boolean fmt fs = maskedFields boolean fmt fs
  | [], _, _ => by simp [specFields, maskedFields]
  | _ :: _, [], _ => by simp [specFields, maskedFields]
  | w :: fmt, f :: fs, h => by
    simp only [oneBitNonBool, Bool.or_eq_false_iff] at h
    rw [specFields, maskedFields, spec_eq_masked boolean fmt fs h.2]
    congr 2
    unfold fieldBits
    split
    · next h1 =>
      subst h1
      have h3 := h.1
      simp only [Bool.and_eq_false_imp, Bool.and_eq_true, beq_self_eq_true, true_and, bne_iff_ne, ne_eq,
        bne_eq_false_iff_eq] at h3
      by_cases h0 : f = 0
      · subst h0; simp
      · have := h3 h0; subst this; simp
    · rfl

theorem packify_length {fmt fields : List Int} {size : Option Int} {rev : Bool} {p : List Byte} {sz : Nat}
    (hp : packify fmt fields size rev = .ok p) (hs : checkSize fmt size = .ok sz) : p.length = sz := by
  obtain ⟨sz', n, bfp, hs', hl, hb⟩ := packify_ok hp
  rw [hs] at hs'; injection hs' with hs'; subst hs'
  obtain ⟨f1, f2, f3, f4⟩ := packLoop_frame fmt fields 0 (8 * sz) (n, bfp) hl
  have hn : n < 256 ^ sz := by
    have : n < 2 ^ (8 * sz) := lt_of_high_clear (fun j hj => by rw [f3 j hj]; simp)
    rwa [Nat.pow_mul] at this
  rw [hb, bytify_eq, norm_nat n sz hn]
  cases rev <;> simp [length_bytifyNat n sz hn]

theorem packifyInto_eq (b : List Byte) (fmt fields : List Int) (size : Option Int) (offset : Nat)
    (rev : Bool) (p : List Byte) (hp : packify fmt fields size rev = .ok p) :
    packifyInto b fmt fields size offset rev =
      .ok ((b ++ List.replicate (offset + p.length - b.length) 0#8).take offset ++ p ++
            (b ++ List.replicate (offset + p.length - b.length) 0#8).drop (offset + p.length), p.length) := by
  obtain ⟨sz, n, bfp, hs, hl, hb⟩ := packify_ok hp
  have hlen := packify_length hp hs
  unfold packifyInto
  simp only [hs, hl, ← hb, hlen]
  split
  · rfl
  · next h =>
    have : offset + sz - b.length = 0 := by omega
    simp [this]

theorem packifyInto_err (b : List Byte) (fmt fields : List Int) (size : Option Int) (offset : Nat)
    (rev : Bool) (e : Err) (hp : packify fmt fields size rev = .error e) :
    packifyInto b fmt fields size offset rev = .error e := by
  unfold packify at hp
  unfold packifyInto
  split at hp
  · next e' he => injection hp with hp; subst hp; simp
  · next sz hs =>
    split at hp
    · next e' he => injection hp with hp; subst hp; simp
    · cases hp

theorem packify_mirror (fmt fields : List Int) (size : Option Int) :
    packify fmt fields size true = (packify fmt fields size false).map List.reverse := by
  unfold packify
  cases checkSize fmt size with
  | error e => rfl
  | ok sz =>
    simp only []
    cases packLoop fmt fields 0 (8 * sz) with
    | error e => rfl
    | ok r => simp [bytify_eq, Except.map]

/-! injectivity of the fixed-length big-endian representation -/
theorem bval_inj : ∀ (a b : List Byte), a.length = b.length → bval a = bval b → a = b
  | [], [], _, _ => rfl
  | [], _ :: _, h, _ => by simp at h
  | _ :: _, [], h, _ => by simp at h
  | x :: s, y :: t, hl, hv => by
    simp only [List.length_cons, Nat.add_right_cancel_iff] at hl
    rw [bval_cons, bval_cons, hl] at hv
    have hs := bval_lt s
    have ht := bval_lt t
    rw [hl] at hs
    have hP : 0 < 256 ^ t.length := Nat.pow_pos (by omega)
    have h1 : (x.toNat * 256 ^ t.length + bval s) / 256 ^ t.length = x.toNat := by
      rw [Nat.add_comm, Nat.add_mul_div_right _ _ hP, Nat.div_eq_of_lt hs]; simp
    have h2 : (y.toNat * 256 ^ t.length + bval t) / 256 ^ t.length = y.toNat := by
      rw [Nat.add_comm, Nat.add_mul_div_right _ _ hP, Nat.div_eq_of_lt ht]; simp
    have hxy : x.toNat = y.toNat := by rw [← h1, ← h2, hv]
    have hxy' : x = y := BitVec.eq_of_toNat_eq hxy
    subst hxy'
    have : bval s = bval t := by omega
    rw [bval_inj s t hl this]

theorem bytifyNat_bval (b : List Byte) : bytifyNat (bval b) b.length = b :=
  bval_inj _ _ (length_bytifyNat _ _ (bval_lt b)) (bval_bytifyNat _ _)

theorem norm_of_lt (m size : Nat) (strict : Bool) (h : m < 256 ^ size) : norm (m : Int) size strict = m := by
  cases strict
  · have : ¬ ((m : Int) < 0) := by omega
    simp [norm, this]
  · exact norm_nat m size h

theorem bytify_unbytify (b : List Byte) (rev strict : Bool) :
    bytify (unbytify b rev) b.length rev strict = b := by
  rw [bytify_eq]
  cases rev
  · rw [unbytify_false, norm_of_lt _ _ _ (bval_lt b)]; simp [bytifyNat_bval]
  · rw [unbytify_true]
    have h := bval_lt b.reverse
    rw [List.length_reverse] at h
    rw [norm_of_lt _ _ _ h]
    have := bytifyNat_bval b.reverse
    rw [List.length_reverse] at this
    simp [this]




/-! ## hex -/

theorem hexChar_isHex : ∀ n : Fin 16, isHexDigit (hexChar n.val) = true := by decide
theorem hexVal_hexChar : ∀ n : Fin 16, hexVal (hexChar n.val) = n.val := by decide

theorem hex2_spec (x : Byte) :
    isHexDigit (hexChar (x.toNat / 16)) = true ∧ isHexDigit (hexChar (x.toNat % 16)) = true ∧
    hexVal (hexChar (x.toNat / 16)) * 16 + hexVal (hexChar (x.toNat % 16)) = x.toNat := by
  have hx := x.isLt
  have h1 := hexChar_isHex ⟨x.toNat / 16, by omega⟩
  have h2 := hexChar_isHex ⟨x.toNat % 16, by omega⟩
  have h3 := hexVal_hexChar ⟨x.toNat / 16, by omega⟩
  have h4 := hexVal_hexChar ⟨x.toNat % 16, by omega⟩
  simp only [] at h1 h2 h3 h4
  refine ⟨h1, h2, ?_⟩
  rw [h3, h4]; omega

theorem filter_hexify (b : List Byte) : (hexify b).filter isHexDigit = hexify b := by
  induction b with
  | nil => rfl
  | cons x t ih =>
    obtain ⟨h1, h2, -⟩ := hex2_spec x
    simp [hexify, hex2, h1, h2, ih]

theorem length_hexify (b : List Byte) : (hexify b).length = 2 * b.length := by
  induction b with
  | nil => rfl
  | cons x t ih => simp [hexify, hex2, ih]; omega

theorem hexPairs_hexify (b : List Byte) : hexPairs (hexify b) = b := by
  induction b with
  | nil => rfl
  | cons x t ih =>
    obtain ⟨-, -, h3⟩ := hex2_spec x
    simp only [hexify, hex2, List.cons_append, List.nil_append, hexPairs, h3, ih]
    simp

theorem unhexify_hexify (b : List Byte) : unhexify (hexify b) = b := by
  unfold unhexify
  simp only [filter_hexify, length_hexify]
  have : ¬ (2 * b.length % 2 = 1) := by omega
  simp [hexPairs_hexify]



theorem char_le_iff (a b : Char) : a ≤ b ↔ a.toNat ≤ b.toNat := by
  rw [Char.le_def, UInt32.le_iff_toNat_le]; rfl

theorem hexVal_lt (c : Char) (h : isHexDigit c = true) : hexVal c < 16 := by
  unfold isHexDigit at h
  unfold hexVal
  simp only [char_le_iff, Bool.or_eq_true, decide_eq_true_eq] at h ⊢
  have e0 : '0'.toNat = 48 := rfl
  have e9 : '9'.toNat = 57 := rfl
  have ea : 'a'.toNat = 97 := rfl
  have ef : 'f'.toNat = 102 := rfl
  have eA : 'A'.toNat = 65 := rfl
  have eF : 'F'.toNat = 70 := rfl
  rw [e0, e9, ea, ef, eA, eF] at h
  rw [e0, e9, ea, ef, eA]
  split
  · omega
  · split <;> omega


/-- lower-case hex digit -/
def isLowerHex (c : Char) : Bool := ('0' ≤ c ∧ c ≤ '9') || ('a' ≤ c ∧ c ≤ 'f')

/-- the character `hexify` prints for the digit `c` -/
def lowerHex (c : Char) : Char := hexChar (hexVal c)

theorem lowerHex_of_lower (c : Char) (h : isLowerHex c = true) : lowerHex c = c := by
  unfold isLowerHex at h
  unfold lowerHex hexVal hexChar
  simp only [char_le_iff, Bool.or_eq_true, decide_eq_true_eq] at h ⊢
  have e0 : '0'.toNat = 48 := rfl
  have e9 : '9'.toNat = 57 := rfl
  have ea : 'a'.toNat = 97 := rfl
  have ef : 'f'.toNat = 102 := rfl
  have eA : 'A'.toNat = 65 := rfl
  rw [e0, e9, ea, ef] at h
  rw [e0, e9, ea, ef, eA]
  rcases h with h | h
  · have h1 : 48 ≤ c.toNat ∧ c.toNat ≤ 57 := h
    have h2 : c.toNat - 48 < 10 := by omega
    have h3 : 48 + (c.toNat - 48) = c.toNat := by omega
    simp only [h1, and_self, if_true, h2, h3, Char.ofNat_toNat]
  · have h1 : ¬ (48 ≤ c.toNat ∧ c.toNat ≤ 57) := by omega
    have h2 : ¬ (c.toNat - 97 + 10 < 10) := by omega
    have h3 : 97 + (c.toNat - 97 + 10 - 10) = c.toNat := by omega
    simp only [h1, h, and_self, if_true, if_false, h2, h3, Char.ofNat_toNat]

theorem hexify_hexPairs : ∀ (l : List Char), (∀ c ∈ l, isHexDigit c = true) → l.length % 2 = 0 →
    hexify (hexPairs l) = l.map lowerHex
  | [], _, _ => rfl
  | [a], _, h => by simp at h
  | a :: b :: rest, hd, hl => by
    have ha := hexVal_lt a (hd a (by simp))
    have hb := hexVal_lt b (hd b (by simp))
    have ih := hexify_hexPairs rest (fun c hc => hd c (by simp [hc]))
      (by simp only [List.length_cons] at hl; omega)
    have hv : (BitVec.ofNat 8 (hexVal a * 16 + hexVal b)).toNat = hexVal a * 16 + hexVal b := by
      simp only [BitVec.toNat_ofNat]; omega
    have h1 : (hexVal a * 16 + hexVal b) / 16 = hexVal a := by omega
    have h2 : (hexVal a * 16 + hexVal b) % 16 = hexVal b := by omega
    simp only [hexPairs, hexify, hex2, hv, h1, h2, ih, List.map_cons, lowerHex, List.cons_append,
      List.nil_append]

/-- the string `unhexify` actually decodes: non-hex characters deleted, `0` prepended to an odd length -/
def normHex (h : List Char) : List Char :=
  if (h.filter isHexDigit).length % 2 = 1 then '0' :: h.filter isHexDigit else h.filter isHexDigit

theorem hexify_unhexify (h : List Char) : hexify (unhexify h) = (normHex h).map lowerHex := by
  unfold unhexify normHex
  simp only []
  apply hexify_hexPairs
  · intro c hc
    split at hc
    · rcases List.mem_cons.1 hc with rfl | hc
      · rfl
      · exact (List.mem_filter.1 hc).2
    · exact (List.mem_filter.1 hc).2
  · split
    · simp only [List.length_cons]; omega
    · omega

theorem normHex_of_lower (h : List Char) (hl : ∀ c ∈ h, isLowerHex c = true) (he : h.length % 2 = 0) :
    (normHex h).map lowerHex = h := by
  have hf : h.filter isHexDigit = h := by
    apply List.filter_eq_self.2
    intro c hc
    have := hl c hc
    unfold isLowerHex at this
    unfold isHexDigit
    simp only [Bool.or_eq_true] at this ⊢
    exact Or.inl this
  unfold normHex
  rw [hf]
  have : ¬ (h.length % 2 = 1) := by omega
  simp only [this, if_false]
  calc h.map lowerHex = h.map id := List.map_congr_left (fun c hc => lowerHex_of_lower c (hl c hc))
    _ = h := by simp



/-! ## binary strings -/

/-- bit `y` of a two's-complement int -/
def bitOf (n : Int) (y : Nat) : Nat := if (n >>> y) % 2 = 1 then 1 else 0

theorem digitVal_bitChar (n : Int) (y : Nat) : digitVal? (bitChar n y) = some (bitOf n y) := by
  unfold bitChar bitOf
  split <;> rfl

theorem emod_two_pow_succ (n : Int) (k : Nat) :
    (n % 2 ^ (k + 1)).toNat = bitOf n k * 2 ^ k + (n % 2 ^ k).toNat := by
  have hP : (0:Int) < 2 ^ k := Int.pow_pos (by omega)
  have hcast : ((2 ^ k : Nat) : Int) = 2 ^ k := by simp
  have key : n % (2 ^ k * 2) = (n / 2 ^ k % 2) * 2 ^ k + n % 2 ^ k := by
    have h0 := Int.emod_nonneg n (Int.ne_of_gt hP)
    have h1 := Int.emod_lt_of_pos n hP
    have hq := Int.emod_add_mul_ediv n (2 ^ k)
    have hq2 : n / 2 ^ k = 2 * (n / 2 ^ k / 2) + n / 2 ^ k % 2 := by omega
    have ht := Int.emod_two_eq (n / 2 ^ k)
    have := (Int.ediv_emod_unique (a := n) (b := 2 ^ k * 2) (r := (n / 2 ^ k % 2) * 2 ^ k + n % 2 ^ k)
      (q := n / 2 ^ k / 2) (by omega)).2 ⟨?_, ?_, ?_⟩
    · exact this.2
    · generalize n / 2 ^ k / 2 = s at *
      generalize n / 2 ^ k % 2 = t at *
      generalize n / 2 ^ k = q at *
      subst hq2
      calc _ = n % 2 ^ k + 2 ^ k * (2 * s + t) := by grind
        _ = n := hq
    · rcases ht with ht | ht <;> rw [ht] <;> omega
    · rcases ht with ht | ht <;> rw [ht] <;> omega
  rw [Int.pow_succ, key]
  unfold bitOf
  rw [Int.shiftRight_eq_div_pow, hcast]
  have h0 := Int.emod_nonneg n (Int.ne_of_gt hP)
  rcases Int.emod_two_eq (n / 2 ^ k) with ht | ht <;> rw [ht]
  · simp
  · simp only [if_true, Int.one_mul, Nat.one_mul]
    have : (2:Int) ^ k + n % 2 ^ k = ((2 ^ k + (n % 2 ^ k).toNat : Nat) : Int) := by
      rw [Int.natCast_add, Int.toNat_of_nonneg h0, hcast]
    rw [this, Int.toNat_natCast]

theorem range_succ_reverse (k : Nat) : (List.range (k + 1)).reverse = k :: (List.range k).reverse := by
  rw [List.range_succ, List.reverse_append]; rfl

theorem unbinizeLoop_binize (n : Int) : ∀ (k a : Nat),
    unbinizeLoop ((List.range k).reverse.map (bitChar n)) a = .ok (a * 2 ^ k + (n % 2 ^ k).toNat)
  | 0, a => by simp [unbinizeLoop, Int.emod_one]
  | k + 1, a => by
    rw [range_succ_reverse, List.map_cons, unbinizeLoop, digitVal_bitChar]
    simp only []
    have hb : (if bitOf n k ≠ 0 then 1 else 0) = bitOf n k := by unfold bitOf; split <;> simp
    have hlt : bitOf n k < 2 ^ 1 := by unfold bitOf; split <;> omega
    rw [hb, ← Nat.shiftLeft_add_eq_or_of_lt hlt, unbinizeLoop_binize n k, emod_two_pow_succ,
      Nat.shiftLeft_eq]
    congr 1
    grind

theorem unbinize_binize (n : Int) (size : Int) :
    unbinize (binize n size) = .ok (n % 2 ^ size.toNat).toNat := by
  unfold unbinize binize
  rw [unbinizeLoop_binize]; simp




/-- the bit a character contributes in `unbinize` (`1 if int(bit) else 0`) -/
def bitVal (c : Char) : Nat :=
  match digitVal? c with
  | some d => if d ≠ 0 then 1 else 0
  | none => 0

/-- value of a digit string read as bits, most significant first -/
def uval : List Char → Nat
  | [] => 0
  | c :: t => bitVal c * 2 ^ t.length + uval t

theorem bitVal_le (c : Char) : bitVal c ≤ 1 := by
  unfold bitVal; split
  · split <;> omega
  · omega

theorem uval_lt : ∀ u : List Char, uval u < 2 ^ u.length
  | [] => by simp [uval]
  | c :: t => by
    have := uval_lt t
    have := bitVal_le c
    have : bitVal c * 2 ^ t.length ≤ 1 * 2 ^ t.length := Nat.mul_le_mul_right _ (by omega)
    simp only [uval, List.length_cons, Nat.pow_succ]; omega

theorem unbinizeLoop_ok : ∀ (u : List Char) (a : Nat), (∀ c ∈ u, digitVal? c ≠ none) →
    unbinizeLoop u a = .ok (a * 2 ^ u.length + uval u)
  | [], a, _ => by simp [unbinizeLoop, uval]
  | c :: t, a, h => by
    have hc := h c (by simp)
    have ht := unbinizeLoop_ok t
    rw [unbinizeLoop]
    cases hd : digitVal? c with
    | none => exact absurd hd hc
    | some d =>
      simp only []
      rw [ht _ (fun x hx => h x (by simp [hx]))]
      have hlt : (if d ≠ 0 then 1 else 0) < 2 ^ 1 := by split <;> omega
      rw [← Nat.shiftLeft_add_eq_or_of_lt hlt, Nat.shiftLeft_eq]
      simp only [uval, bitVal, hd, List.length_cons]
      congr 1
      grind

theorem bitChar_nat (v y : Nat) : bitChar (v : Int) y = if v.testBit y then '1' else '0' := by
  unfold bitChar
  rw [Int.shiftRight_eq_div_pow, Nat.testBit_eq_decide_div_mod_eq]
  have : ((v : Int) / ((2 ^ y : Nat) : Int)) % 2 = ((v / 2 ^ y % 2 : Nat) : Int) := by
    rw [Int.natCast_emod, Int.natCast_ediv]; rfl
  have hc : ((v : Int) / ((2 ^ y : Nat) : Int)) % 2 = 1 ↔ v / 2 ^ y % 2 = 1 := by rw [this]; omega
  simp only [hc, decide_eq_true_eq]

theorem binize_uval : ∀ u : List Char,
    binize (uval u) u.length = u.map (fun c => if bitVal c = 1 then '1' else '0')
  | [] => by simp [binize]
  | c :: t => by
    have ih := binize_uval t
    have hlt := uval_lt t
    unfold binize at ih ⊢
    simp only [List.length_cons, Int.toNat_natCast, List.map_cons] at ih ⊢
    rw [range_succ_reverse, List.map_cons, ← ih]
    congr 1
    · rw [bitChar_nat, uval, Nat.mul_comm, Nat.testBit_mul_two_pow_add_eq, Nat.testBit_lt_two_pow hlt]
      have := bitVal_le c
      by_cases h : bitVal c = 1
      · simp [h]
      · have : bitVal c = 0 := by omega
        simp [this]
    · apply List.map_congr_left
      intro y hy
      have hy : y < t.length := by simpa using hy
      rw [bitChar_nat, bitChar_nat, uval, Nat.mul_comm, Nat.testBit_two_pow_mul_add _ hlt]
      simp [hy]

/-- `'0'`/`'1'` strings -/
def isBinary (u : List Char) : Prop := ∀ c ∈ u, c = '0' ∨ c = '1'

theorem binize_unbinize (u : List Char) (h : isBinary u) :
    ∃ v, unbinize u = .ok v ∧ binize v u.length = u := by
  refine ⟨uval u, ?_, ?_⟩
  · unfold unbinize
    rw [unbinizeLoop_ok u 0 (fun c hc => by rcases h c hc with rfl | rfl <;> decide)]
    simp
  · rw [binize_uval]
    calc _ = u.map id := List.map_congr_left (fun c hc => by rcases h c hc with rfl | rfl <;> rfl)
      _ = u := by simp

/-! ## signExtend -/

theorem signExtend_spec (x : Int) (n : Int) (hn : 1 ≤ n) (h0 : 0 ≤ x) (hx : x < 2 ^ n.toNat) :
    signExtend x n = .ok (if x < 2 ^ (n - 1).toNat then x else x - 2 ^ n.toNat) := by
  unfold signExtend
  have : ¬ (n - 1 < 0) := by omega
  simp only [this, if_false]
  obtain ⟨k, rfl⟩ : ∃ k : Nat, n = k + 1 := ⟨(n - 1).toNat, by omega⟩
  have e1 : ((k : Int) + 1 - 1).toNat = k := by omega
  have e2 : ((k : Int) + 1).toNat = k + 1 := by omega
  rw [e1]; rw [e2] at hx ⊢
  have hP : (0:Int) < 2 ^ k := Int.pow_pos (by omega)
  have hcast : ((2 ^ k : Nat) : Int) = 2 ^ k := by simp
  rw [Int.pow_succ] at hx ⊢
  unfold xorBit
  rw [Int.shiftRight_eq_div_pow, hcast]
  by_cases hlt : x < 2 ^ k
  · rw [Int.ediv_eq_zero_of_lt h0 hlt]
    simp only [Int.zero_emod, if_true, hlt]
    congr 1; omega
  · have hq : x / 2 ^ k = 1 := by
      have := (Int.ediv_emod_unique (a := x) (b := 2 ^ k) (r := x - 2 ^ k) (q := 1) hP).2
        ⟨by omega, by omega, by omega⟩
      exact this.1
    rw [hq]
    simp only [hlt, if_false]
    have : ¬ ((1:Int) % 2 = 0) := by omega
    simp only [this, if_false]
    congr 1; omega



/-! ## packByte / unpackByte -/


/-- the widths of a `packByte` format as `packify` widths -/
def widths (fmt : List Nat) : List Int := fmt.map (fun (w : Nat) => (w : Int))

theorem packBits_nat (w : Nat) (f : Int) :
    packBits (w : Int) f
      = .ok (if w = 1 then (if f ≠ 0 then 1 else 0) else (f % 2 ^ w).toNat) := by
  unfold packBits
  by_cases h1 : w = 1
  · subst h1; simp
  · have h2 : ¬ ((w : Int) = 1) := by omega
    have h3 : ¬ ((w : Int) < 0) := by omega
    simp [h1, h2, h3]

/-- `packByte`'s loop is `packify`'s loop on the same widths (plus its own range checks) -/
theorem packByteLoop_sim : ∀ (fmt : List Nat) (fs : List Int) (n bfp r : Nat),
    packByteLoop fmt fs n bfp = .ok r →
    (∀ w ∈ fmt, 0 < w ∧ w ≤ 8) ∧
    ∃ bfp', packLoop (widths fmt) fs n bfp = .ok (r, bfp')
  | [], fs, n, bfp, r, h => by
    simp only [packByteLoop] at h; injection h with h; subst h
    exact ⟨by simp, bfp, by simp [widths, packLoop]⟩
  | w :: fmt, fs, n, bfp, r, h => by
    simp only [packByteLoop] at h
    split at h
    · cases h
    · next hr =>
      split at h
      · cases h
      · next hb =>
        cases fs with
        | nil => cases h
        | cons f fs =>
          simp only [] at h
          obtain ⟨ih1, bfp', ih2⟩ := packByteLoop_sim fmt fs _ _ r h
          have hr' : 0 < w ∧ w ≤ 8 := by
            simp only [Decidable.not_not] at hr; exact hr
          refine ⟨?_, bfp', ?_⟩
          · intro v hv
            rcases List.mem_cons.1 hv with rfl | hv
            · exact hr'
            · exact ih1 v hv
          · simp only [widths, List.map_cons]
            rw [packLoop, packBits_nat]
            simp only [Int.toNat_natCast]
            have : ¬ bfp < w := hb
            simp only [this, if_false]
            exact ih2

theorem unpackByteLoop_sim (m : Nat) (boolean : Bool) : ∀ (fmt : List Nat) (bfp : Nat) (fs : List Fld) (bfp' : Nat),
    (∀ w ∈ fmt, 0 < w ∧ w ≤ 8) →
    unpackLoop m boolean (widths fmt) bfp = .ok (fs, bfp') →
    unpackByteLoop m boolean fmt bfp = .ok fs
  | [], bfp, fs, bfp', _, h => by
    simp only [widths, List.map_nil, unpackLoop] at h
    injection h with h; injection h with h1 h2; subst h1
    simp [unpackByteLoop]
  | w :: fmt, bfp, fs, bfp', hw, h => by
    have hw0 := hw w (by simp)
    simp only [widths, List.map_cons] at h
    rw [unpackLoop] at h
    have h1 : ¬ ((w : Int) < 0) := by omega
    simp only [h1, if_false, Int.toNat_natCast] at h
    split at h
    · cases h
    · next hb =>
      split at h
      · cases h
      · next fs1 bfp1 hrec =>
        injection h with h; injection h with h2 h3; subst h2
        rw [unpackByteLoop]
        have hc : ¬ ¬ (0 < w ∧ w ≤ 8) := by simp [hw0]
        simp only [hc, if_false, hb]
        rw [unpackByteLoop_sim m boolean fmt _ fs1 bfp1 (fun v hv => hw v (by simp [hv])) hrec]

/-- **packByte / unpackByte round trip** -/
theorem unpackByte_packByte (fmt : List Nat) (fields : List Int) (boolean : Bool) (b : Nat)
    (h : packByte fmt fields = .ok b) :
    b < 256 ∧ unpackByte fmt (b : Int) boolean
      = .ok (specFields boolean (widths fmt) fields) := by
  unfold packByte at h
  obtain ⟨hw, bfp', hp⟩ := packByteLoop_sim fmt fields 0 8 b h
  obtain ⟨_, _, f3, _⟩ := packLoop_frame _ fields 0 8 (b, bfp') hp
  have hb : b < 2 ^ 8 := lt_of_high_clear (fun j hj => by rw [f3 j hj]; simp)
  have hu := unpackLoop_packLoop boolean _ fields 0 8 (b, bfp') hp (lowClear_zero _)
  refine ⟨hb, ?_⟩
  unfold unpackByte
  have : ((b : Int) % 256).toNat = b := by omega
  rw [this]
  exact unpackByteLoop_sim b boolean fmt 8 _ bfp' hw hu




/-! ## format text -/

theorem unpack_pack_text (txt : List Char) (fields : List Int) (size : Option Int) (boolean rev : Bool)
    (b : List Byte) (hp : packifyText txt fields size rev = .ok b) :
    ∃ ws sz, parseFmt txt = .ok ws ∧ checkSize ws size = .ok sz ∧
      unpackifyText txt b boolean size rev
        = .ok (specFields boolean ws fields ++ padFields boolean (8 * sz - ws.sum.toNat)) := by
  unfold packifyText at hp
  split at hp
  · cases hp
  · next ws hws =>
    obtain ⟨sz, h1, _, h3⟩ := unpack_pack ws fields size boolean rev b hp
    refine ⟨ws, sz, hws, h1, ?_⟩
    unfold unpackifyText
    simp only [hws, h3]

/-! ## packifyInto in full -/

theorem sliceBounds_inside (n o k : Nat) (h : o + k ≤ n) :
    sliceBounds n (o : Int) ((o : Int) + (k : Nat)) = (o, o + k) := by
  unfold sliceBounds
  simp only []
  have h1 : ¬ ((o : Int) < 0) := by omega
  have h2 : ¬ ((o : Int) + (k : Int) < 0) := by omega
  simp only [h1, h2, if_false]
  have e1 : (min (o : Int) (n : Int)).toNat = o := by omega
  have e2 : (min ((o : Int) + (k : Int)) (n : Int)).toNat = o + k := by omega
  rw [e1, e2]
  have : ¬ (o + k < o) := by omega
  simp [this]

theorem sliceBounds_neg (n k : Nat) (i : Int) (h1 : -(n : Int) ≤ i) (h2 : i + (k : Int) < 0) :
    sliceBounds n i (i + (k : Nat)) = ((i + n).toNat, (i + n).toNat + k) := by
  unfold sliceBounds
  simp only []
  have hi : i < 0 := by omega
  simp only [hi, h2, if_true]
  have e1 : (max (i + (n : Int)) 0).toNat = (i + n).toNat := by omega
  have e2 : (max (i + (k : Int) + (n : Int)) 0).toNat = (i + n).toNat + k := by omega
  rw [e1, e2]
  have : ¬ ((i + n).toNat + k < (i + n).toNat) := by omega
  simp [this]


theorem packIntoFull_ok (kind : BufKind) (hk : kind ≠ .bytes) (b : List Byte) (fmt fields : List Int)
    (size : Option Int) (o : Nat) (rev : Bool) (p : List Byte)
    (hp : packify fmt fields size rev = .ok p) :
    packifyIntoFull kind b fmt fields size (o : Int) rev =
      ((b ++ List.replicate (o + p.length - b.length) 0#8).take o ++ p ++
        (b ++ List.replicate (o + p.length - b.length) 0#8).drop (o + p.length), .ok p.length) := by
  obtain ⟨sz, n, bfp, hs, hl, hb⟩ := packify_ok hp
  have hlen := packify_length hp hs
  have hkb : (kind == BufKind.bytes) = false := by cases kind <;> simp_all
  unfold packifyIntoFull
  simp only [hs, hl, ← hb, hlen, hkb, Bool.and_false, Bool.false_eq_true, if_false]
  by_cases hshort : (b.length : Int) < (o : Int) + (sz : Nat)
  · have hnat : b.length < o + sz := by omega
    have e : ((o : Int) + (sz : Nat) - (b.length : Int)).toNat = o + sz - b.length := by omega
    simp only [hshort, decide_true, if_true, e]
    have hl2 : (b ++ List.replicate (o + sz - b.length) 0#8).length = o + sz := by
      simp only [List.length_append, List.length_replicate]; omega
    unfold sliceAssign
    rw [hl2, sliceBounds_inside (o + sz) o sz (by omega)]
  · have hnat : ¬ b.length < o + sz := by omega
    have e : o + sz - b.length = 0 := by omega
    simp only [hshort, decide_false, Bool.false_eq_true, if_false, e, List.replicate_zero, List.append_nil]
    unfold sliceAssign
    rw [sliceBounds_inside b.length o sz (by omega)]

/-- after ANY exception the caller's buffer is the old buffer, possibly with zero bytes appended -/
theorem packIntoFull_error (kind : BufKind) (b b' : List Byte) (fmt fields : List Int)
    (size : Option Int) (offset : Int) (rev : Bool) (e : IntoErr)
    (h : packifyIntoFull kind b fmt fields size offset rev = (b', .error e)) :
    (∃ k, b' = b ++ List.replicate k 0#8) ∧
    ((∃ e', checkSize fmt size = .error e') → b' = b) ∧ (e = .attributeError → b' = b) := by
  unfold packifyIntoFull at h
  split at h
  · next e' he =>
    injection h with h1 h2; subst h1
    exact ⟨⟨0, by simp⟩, fun _ => rfl, fun _ => rfl⟩
  · next sz hs =>
    have hno : ¬ ∃ e', checkSize fmt size = .error e' := by
      rintro ⟨e', he'⟩; rw [hs] at he'; cases he'
    simp only [] at h
    split at h
    · injection h with h1 h2; subst h1
      exact ⟨⟨0, by simp⟩, fun _ => rfl, fun _ => rfl⟩
    · split at h
      · next e' _ =>
        injection h with h1 h2; subst h1
        injection h2 with h2; subst h2
        refine ⟨?_, fun hh => absurd hh hno, fun hh => by cases hh⟩
        split
        · exact ⟨_, rfl⟩
        · exact ⟨0, by simp⟩
      · split at h
        · injection h with h1 h2; subst h1
          injection h2 with h2; subst h2
          refine ⟨?_, fun hh => absurd hh hno, fun hh => by cases hh⟩
          split
          · exact ⟨_, rfl⟩
          · exact ⟨0, by simp⟩
        · injection h with h1 h2; cases h2

/-- a negative offset that stays negative to its end overwrites in place, counted from the end -/
theorem packIntoFull_neg (kind : BufKind) (hk : kind ≠ .bytes) (b : List Byte) (fmt fields : List Int)
    (size : Option Int) (offset : Int) (rev : Bool) (p : List Byte)
    (hp : packify fmt fields size rev = .ok p)
    (h1 : -(b.length : Int) ≤ offset) (h2 : offset + (p.length : Nat) < 0) :
    packifyIntoFull kind b fmt fields size offset rev =
      (b.take (offset + b.length).toNat ++ p ++ b.drop ((offset + b.length).toNat + p.length),
        .ok p.length) := by
  obtain ⟨sz, n, bfp, hs, hl, hb⟩ := packify_ok hp
  have hlen := packify_length hp hs
  have hkb : (kind == BufKind.bytes) = false := by cases kind <;> simp_all
  rw [hlen] at h2
  unfold packifyIntoFull
  have hshort : ¬ ((b.length : Int) < offset + (sz : Nat)) := by omega
  simp only [hs, hl, ← hb, hlen, hkb, hshort, decide_false, Bool.and_false, Bool.false_eq_true, if_false]
  unfold sliceAssign
  rw [sliceBounds_neg b.length sz offset h1 h2]



/-! ## a well-formed format text parses to its widths -/

def digitChar (d : Nat) : Char := Char.ofNat (48 + d)

/-- decimal digits of `n`, most significant first, in front of `acc` (what `str(n)` prints) -/
def decimalAux (n : Nat) (acc : List Char) : List Char :=
  if h : n < 10 then digitChar n :: acc else decimalAux (n / 10) (digitChar (n % 10) :: acc)
decreasing_by omega

def decimal (n : Nat) : List Char := decimalAux n []

/-- a string of decimal digits -/
def AllDigits (l : List Char) : Prop := ∀ c ∈ l, isDigit c = true

theorem digitChar_spec : ∀ d : Fin 10, isDigit (digitChar d.val) = true ∧ digitOf (digitChar d.val) = d.val ∧
    isSpace (digitChar d.val) = false ∧ digitChar d.val ≠ '_' ∧ digitChar d.val ≠ '+' ∧ digitChar d.val ≠ '-' := by
  decide

theorem isDigit_facts (c : Char) (h : isDigit c = true) :
    isSpace c = false ∧ c ≠ '_' ∧ c ≠ '+' ∧ c ≠ '-' := by
  unfold isDigit at h
  simp only [Bool.and_eq_true, decide_eq_true_eq] at h
  refine ⟨?_, ?_, ?_, ?_⟩
  · unfold isSpace
    have : c.toNat ≠ 32 := by omega
    simp [this]; omega
  all_goals (intro e; subst e; revert h; decide)

/-- value of a digit string continuing from `acc` -/
def decVal (l : List Char) (acc : Nat) : Nat := l.foldl (fun a c => a * 10 + digitOf c) acc

theorem digitsLoop_digits : ∀ (l : List Char) (acc : Nat), AllDigits l →
    digitsLoop l acc = some (decVal l acc)
  | [], acc, _ => by simp [digitsLoop, decVal]
  | c :: rest, acc, h => by
    have hc := h c (by simp)
    have hne := (isDigit_facts c hc).2.1
    have ih := digitsLoop_digits rest (acc * 10 + digitOf c) (fun x hx => h x (by simp [hx]))
    unfold digitsLoop
    simp only [hne, if_false, hc, if_true, ih]
    simp [decVal]

theorem decimalAux_spec (n : Nat) (acc : List Char) (hacc : AllDigits acc) :
    AllDigits (decimalAux n acc) ∧ (decimalAux n acc) ≠ [] ∧
    decVal (decimalAux n acc) 0 = decVal acc n := by
  fun_induction decimalAux n acc with
  | case1 n acc hn =>
    obtain ⟨h1, h2, _⟩ := digitChar_spec ⟨n, hn⟩
    refine ⟨?_, by simp, ?_⟩
    · intro c hc
      rcases List.mem_cons.1 hc with rfl | hc
      · exact h1
      · exact hacc c hc
    · simp only [decVal, List.foldl_cons] at h2 ⊢
      rw [h2]; simp
  | case2 n acc hn ih =>
    have hd : n % 10 < 10 := by omega
    obtain ⟨h1, h2, _⟩ := digitChar_spec ⟨n % 10, hd⟩
    have hacc' : AllDigits (digitChar (n % 10) :: acc) := by
      intro c hc
      rcases List.mem_cons.1 hc with rfl | hc
      · exact h1
      · exact hacc c hc
    obtain ⟨i1, i2, i3⟩ := ih hacc'
    refine ⟨i1, i2, ?_⟩
    rw [i3]
    simp only [decVal, List.foldl_cons] at h2 ⊢
    rw [h2]
    congr 1
    omega

/-- `int(str(n)) == n` -/
theorem parseInt_decimal (n : Nat) : parseInt (decimal n) = some (n : Int) ∧ AllDigits (decimal n) ∧ decimal n ≠ [] := by
  obtain ⟨h1, h2, h3⟩ := decimalAux_spec n [] (by intro c hc; simp at hc)
  refine ⟨?_, h1, h2⟩
  unfold decimal at *
  cases hl : decimalAux n [] with
  | nil => exact absurd hl h2
  | cons c rest =>
    rw [hl] at h1 h3
    have hc := h1 c (by simp)
    obtain ⟨_, _, hp, hm⟩ := isDigit_facts c hc
    have hrest : AllDigits rest := fun x hx => h1 x (by simp [hx])
    have : parseInt (c :: rest) = (parseDigits (c :: rest)).map Int.ofNat := by
      unfold parseInt
      split
      · next heq => injection heq with h _; exact absurd h hp
      · next heq => injection heq with h _; exact absurd h hm
      · rfl
    rw [this]
    simp only [parseDigits, hc, if_true, digitsLoop_digits rest _ hrest]
    simp only [decVal, List.foldl_cons, Nat.zero_mul, Nat.zero_add] at h3
    simp only [decVal, Option.map_some, h3, List.foldl_nil]
    rfl


theorem tokensAux_run (tok : List Char) (h : ∀ c ∈ tok, isSpace c = false) (rest cur : List Char) :
    tokensAux (tok ++ rest) cur = tokensAux rest (tok.reverse ++ cur) := by
  induction tok generalizing cur with
  | nil => rfl
  | cons c t ih =>
    have hc := h c (by simp)
    simp only [List.cons_append, tokensAux, hc, Bool.false_eq_true, if_false]
    rw [ih (fun x hx => h x (by simp [hx]))]
    simp

theorem tokensAux_spaces (sp : List Char) (h : ∀ c ∈ sp, isSpace c = true) (rest : List Char) :
    tokensAux (sp ++ rest) [] = tokensAux rest [] := by
  induction sp with
  | nil => rfl
  | cons c t ih =>
    have hc := h c (by simp)
    simp only [List.cons_append, tokensAux, hc, if_true, List.isEmpty_nil]
    exact ih (fun x hx => h x (by simp [hx]))

/-- a format text: decimal widths, each followed by its separator -/
def renderFmt : List (Nat × List Char) → List Char
  | [] => []
  | (w, sep) :: rest => decimal w ++ sep ++ renderFmt rest

/-- separators are white space, and non-empty except possibly after the last width -/
def SepsOk : List (Nat × List Char) → Prop
  | [] => True
  | (_, sep) :: rest => (∀ c ∈ sep, isSpace c = true) ∧ (rest ≠ [] → sep ≠ []) ∧ SepsOk rest

theorem tokens_render : ∀ (items : List (Nat × List Char)), SepsOk items →
    tokensAux (renderFmt items) [] = items.map (fun x => decimal x.1)
  | [], _ => rfl
  | (w, sep) :: rest, h => by
    obtain ⟨hs, hne, hrest⟩ := h
    obtain ⟨_, hd, hnil⟩ := parseInt_decimal w
    have hns : ∀ c ∈ decimal w, isSpace c = false := fun c hc => (isDigit_facts c (hd c hc)).1
    have hcur : ((decimal w).reverse ++ ([] : List Char)).isEmpty = false := by
      cases hdw : decimal w with
      | nil => exact absurd hdw hnil
      | cons a t => simp
    simp only [renderFmt, List.map_cons, List.append_assoc]
    rw [tokensAux_run _ hns]
    cases sep with
    | nil =>
      cases rest with
      | nil => simp [renderFmt, tokensAux]; simpa using hcur
      | cons r rs => exact absurd rfl (hne (by simp))
    | cons c cs =>
      have hc := hs c (by simp)
      simp only [List.cons_append, tokensAux, hc, if_true, hcur, Bool.false_eq_true, if_false]
      rw [tokensAux_spaces cs (fun x hx => hs x (by simp [hx])), tokens_render rest hrest]
      simp

/-- **Every well-formed format text parses to its widths**: optional leading white space, the
widths in decimal, separated by non-empty white space (any of the ten ASCII white-space
characters), optional trailing white space. -/
theorem parseFmt_render (pre : List Char) (hpre : ∀ c ∈ pre, isSpace c = true)
    (items : List (Nat × List Char)) (h : SepsOk items) :
    parseFmt (pre ++ renderFmt items) = .ok (items.map (fun x => (x.1 : Int))) := by
  unfold parseFmt tokens
  rw [tokensAux_spaces pre hpre, tokens_render items h]
  have : (items.map (fun x => decimal x.1)).mapM parseInt = some (items.map (fun x => (x.1 : Int))) := by
    induction items with
    | nil => rfl
    | cons it rest ih =>
      have := (parseInt_decimal it.1).1
      simp only [List.map_cons, List.mapM_cons, this, ih h.2.2]
      rfl
  rw [this]


end Ioflo.Bits
