import IofloModel.Lemmas.Clauses
/-! Per-verb lemmas for C15: the clauses of each verb commute (they set different fields), and a clause
that parses on its own is local — under the stated condition on the connectives that may follow it. -/
namespace Ioflo.Clauses
open Ioflo.Literal

/-- the clause text `c = key body…` parses on its own: from any configuration, consuming every token -/
def Alone {σ : Type} (v : Verb σ) (c : List Str) : Prop :=
  ∃ k b, c = k :: b ∧ ∀ s, ∃ s', v.clause k b s = .ok (s', [])

/-- connectives that are reserved words other than `of` and `in` -/
def PlainRes (K : List Str) : Prop := ∀ k ∈ K, isReserved k = true ∧ k ≠ str "of" ∧ k ≠ str "in"
/-- connectives that are reserved words other than `of` -/
def ResNotOf (K : List Str) : Prop := ∀ k ∈ K, isReserved k = true ∧ k ≠ str "of"

theorem follows_restOK {K : List Str} (hK : ResNotOf K) {rest : List Str} (h : Follows K rest)
    (toks : List Str) : RestOK toks rest := by
  rcases h with rfl | ⟨k, r, hk, rfl⟩
  · exact Or.inl rfl
  · exact Or.inr ⟨k, r, rfl, (hK k hk).2, Or.inl (hK k hk).1⟩

theorem follows_resFollow {K : List Str} (hK : PlainRes K) {rest : List Str} (h : Follows K rest) :
    ResFollow rest := by
  rcases h with rfl | ⟨k, r, hk, rfl⟩
  · exact Or.inl rfl
  · exact Or.inr ⟨k, r, rfl, (hK k hk).1, (hK k hk).2.2, (hK k hk).2.1⟩

theorem follows_reserved {K : List Str} (hK : ∀ k ∈ K, isReserved k = true) {rest : List Str}
    (h : Follows K rest) : rest = [] ∨ ∃ k r, rest = k :: r ∧ isReserved k = true := by
  rcases h with rfl | ⟨k, r, hk, rfl⟩
  · exact Or.inl rfl
  · exact Or.inr ⟨k, r, rfl, hK k hk⟩


/-! ### frame -/

def frameKeys : List Str := [str "in", str "via"]

theorem frame_in : frameClause (str "in") = clauseOf oneTok accept (fun s v => { s with over := some v }) := by
  funext toks s; rfl
theorem frame_via : frameClause (str "via") = clauseOf (parseIndirect true) accept (fun s v => { s with inode := v }) := by
  funext toks s; rfl

theorem frame_commutes : Commutes frameVerb frameKeys := by
  intro k1 k2 b1 b2 s s1 s2 s12 s21 hk1 hk2 hne h1 h12 h2 h21
  simp only [frameKeys, List.mem_cons, List.not_mem_nil, or_false] at hk1 hk2
  change frameClause k1 b1 s = _ at h1
  change frameClause k2 b2 s1 = _ at h12
  change frameClause k2 b2 s = _ at h2
  change frameClause k1 b1 s2 = _ at h21
  rcases hk1 with rfl | rfl <;> rcases hk2 with rfl | rfl <;>
    first
      | (simp only [frame_in, frame_via] at h1 h12 h2 h21
         obtain ⟨c1, rfl, hc1⟩ := clauseOf_state h1
         obtain ⟨c2, rfl, hc2⟩ := clauseOf_state h2
         rw [hc2] at h12; rw [hc1] at h21
         cases h12; cases h21; rfl)
      | exact absurd rfl hne

theorem frame_local (K : List Str) (hK : ∀ k ∈ K, k ∈ frameKeys) (c : List Str) (ha : Alone frameVerb c) :
    LocalText frameVerb K c := by
  obtain ⟨k, b, rfl, hal⟩ := ha
  refine ⟨k, b, rfl, fun s rest hr => ?_⟩
  obtain ⟨s', h⟩ := hal s
  refine ⟨s', h, ?_⟩
  have hres : ResNotOf K := by
    intro x hx
    have := hK x hx
    simp only [frameKeys, List.mem_cons, List.not_mem_nil, or_false] at this
    rcases this with rfl | rfl <;> decide
  change frameClause k b s = _ at h
  change frameClause k (b ++ rest) s = _
  unfold frameClause at h ⊢
  split
  · rename_i hk; rw [if_pos hk] at h
    exact clauseOf_ctx h (fun a ha => oneTok_ctx ha rest)
  · rename_i hk; rw [if_neg hk] at h
    split
    · rename_i hk2; rw [if_pos hk2] at h
      exact clauseOf_ctx h (fun a ha => parseIndirect_ctx true b a ha rest (follows_restOK hres hr _))
    · rename_i hk2; rw [if_neg hk2] at h; cases h

/-! ### framer -/

def framerKeys : List Str := [str "at", str "be", str "in", str "first", str "via"]

theorem framer_at : framerClause (str "at") = clauseOf oneTok max0 (fun s v => { s with period := v }) := by
  funext toks s; rfl
theorem framer_be : framerClause (str "be") = clauseOf oneTok (oneOf ScheduleWords) (fun s v => { s with schedule := v }) := by
  funext toks s; rfl
theorem framer_in : framerClause (str "in") = clauseOf oneTok (oneOf OrderWords) (fun s v => { s with order := v }) := by
  funext toks s; rfl
theorem framer_first : framerClause (str "first") = clauseOf oneTok named (fun s v => { s with first := v }) := by
  funext toks s; rfl
theorem framer_via : framerClause (str "via") = clauseOf (parseIndirect true) accept (fun s v => { s with inode := v }) := by
  funext toks s; rfl

theorem framer_commutes : Commutes framerVerb framerKeys := by
  intro k1 k2 b1 b2 s s1 s2 s12 s21 hk1 hk2 hne h1 h12 h2 h21
  simp only [framerKeys, List.mem_cons, List.not_mem_nil, or_false] at hk1 hk2
  change framerClause k1 b1 s = _ at h1
  change framerClause k2 b2 s1 = _ at h12
  change framerClause k2 b2 s = _ at h2
  change framerClause k1 b1 s2 = _ at h21
  rcases hk1 with rfl | rfl | rfl | rfl | rfl <;> rcases hk2 with rfl | rfl | rfl | rfl | rfl <;>
    first
      | (simp only [framer_at, framer_be, framer_in, framer_first, framer_via] at h1 h12 h2 h21
         obtain ⟨c1, rfl, hc1⟩ := clauseOf_state h1
         obtain ⟨c2, rfl, hc2⟩ := clauseOf_state h2
         rw [hc2] at h12; rw [hc1] at h21
         cases h12; cases h21; rfl)
      | exact absurd rfl hne

/-- a framer clause that parses alone is local, provided — for a `via` clause, when a `first` clause is
among the clauses — its relation does not end with an omitted name (`Closed`) -/
theorem framer_local (K : List Str) (hK : ∀ k ∈ K, k ∈ framerKeys) (c : List Str) (ha : Alone framerVerb c)
    (hv : c.head? = some (str "via") → str "first" ∈ K → Closed c.tail.tail) :
    LocalText framerVerb K c := by
  obtain ⟨k, b, rfl, hal⟩ := ha
  refine ⟨k, b, rfl, fun s rest hr => ?_⟩
  obtain ⟨s', h⟩ := hal s
  refine ⟨s', h, ?_⟩
  change framerClause k b s = _ at h
  change framerClause k (b ++ rest) s = _
  unfold framerClause at h ⊢
  split
  · rename_i hk; rw [if_pos hk] at h; exact clauseOf_ctx h (fun a ha => oneTok_ctx ha rest)
  · rename_i hk1; rw [if_neg hk1] at h
    split
    · rename_i hk; rw [if_pos hk] at h; exact clauseOf_ctx h (fun a ha => oneTok_ctx ha rest)
    · rename_i hk2; rw [if_neg hk2] at h
      split
      · rename_i hk; rw [if_pos hk] at h; exact clauseOf_ctx h (fun a ha => oneTok_ctx ha rest)
      · rename_i hk3; rw [if_neg hk3] at h
        split
        · rename_i hk; rw [if_pos hk] at h; exact clauseOf_ctx h (fun a ha => oneTok_ctx ha rest)
        · rename_i hk4; rw [if_neg hk4] at h
          split
          · rename_i hk; rw [if_pos hk] at h
            have hkv : k = str "via" := by simpa using hk
            refine clauseOf_ctx h (fun a ha => parseIndirect_ctx true b a ha rest ?_)
            rcases hr with rfl | ⟨x, r, hx, rfl⟩
            · exact Or.inl rfl
            · have hxm := hK x hx
              simp only [framerKeys, List.mem_cons, List.not_mem_nil, or_false] at hxm
              refine Or.inr ⟨x, r, rfl, ?_, ?_⟩
              · rcases hxm with rfl | rfl | rfl | rfl | rfl <;> decide
              · rcases hxm with rfl | rfl | rfl | rfl | rfl
                · exact Or.inl (by decide)
                · exact Or.inl (by decide)
                · exact Or.inl (by decide)
                · right; exact hv (by simp [hkv]) hx
                · exact Or.inl (by decide)
          · rename_i hk5; rw [if_neg hk5] at h; cases h

/-! ### log, logger: every value is a single token (or none): local whatever follows -/

def logKeys : List Str := [str "as", str "to", str "on"]

theorem log_as : logClause (str "as") = clauseOf oneTok (oneOf [str "text", str "binary"]) (fun s v => { s with kind := v }) := by
  funext toks s; rfl
theorem log_to : logClause (str "to") = clauseOf oneTok accept (fun s v => { s with file := v }) := by
  funext toks s; rfl
theorem log_on : logClause (str "on") = clauseOf oneTok logRule (fun s v => { s with rule := v }) := by
  funext toks s; rfl

theorem log_commutes : Commutes logVerb logKeys := by
  intro k1 k2 b1 b2 s s1 s2 s12 s21 hk1 hk2 hne h1 h12 h2 h21
  simp only [logKeys, List.mem_cons, List.not_mem_nil, or_false] at hk1 hk2
  change logClause k1 b1 s = _ at h1
  change logClause k2 b2 s1 = _ at h12
  change logClause k2 b2 s = _ at h2
  change logClause k1 b1 s2 = _ at h21
  rcases hk1 with rfl | rfl | rfl <;> rcases hk2 with rfl | rfl | rfl <;>
    first
      | (simp only [log_as, log_to, log_on] at h1 h12 h2 h21
         obtain ⟨c1, rfl, hc1⟩ := clauseOf_state h1
         obtain ⟨c2, rfl, hc2⟩ := clauseOf_state h2
         rw [hc2] at h12; rw [hc1] at h21
         cases h12; cases h21; rfl)
      | exact absurd rfl hne

theorem log_local (K : List Str) (c : List Str) (ha : Alone logVerb c) : LocalText logVerb K c := by
  obtain ⟨k, b, rfl, hal⟩ := ha
  refine ⟨k, b, rfl, fun s rest hr => ?_⟩
  obtain ⟨s', h⟩ := hal s
  refine ⟨s', h, ?_⟩
  change logClause k b s = _ at h
  change logClause k (b ++ rest) s = _
  unfold logClause at h ⊢
  repeat' split
  all_goals first
    | (simp only [*, if_true, if_false] at h; exact clauseOf_ctx h (fun a ha => oneTok_ctx ha rest))
    | (simp only [*, if_true, if_false] at h; cases h)

/-! ### logger -/

def loggerKeys : List Str :=
  [str "at", str "to", str "be", str "in", str "flush", str "keep", str "cycle", str "size", str "reuse"]

theorem logger_at : loggerClause (str "at") = clauseOf oneTok numF (fun s v => { s with period := some v }) := by
  funext toks s; rfl
theorem logger_to : loggerClause (str "to") = clauseOf oneTok accept (fun s v => { s with prefix_ := v }) := by
  funext toks s; rfl
theorem logger_be : loggerClause (str "be") = clauseOf oneTok (oneOf ServiceWords) (fun s v => { s with schedule := v }) := by
  funext toks s; rfl
theorem logger_in : loggerClause (str "in") = clauseOf oneTok (oneOf OrderWords) (fun s v => { s with order := v }) := by
  funext toks s; rfl
theorem logger_flush : loggerClause (str "flush") = clauseOf oneTok num (fun s v => { s with flush := some v }) := by
  funext toks s; rfl
theorem logger_keep : loggerClause (str "keep") = clauseOf oneTok numInt (fun s v => { s with keep := some v }) := by
  funext toks s; rfl
theorem logger_cycle : loggerClause (str "cycle") = clauseOf oneTok num (fun s v => { s with cycle := some v }) := by
  funext toks s; rfl
theorem logger_size : loggerClause (str "size") = clauseOf oneTok num (fun s v => { s with size := some v }) := by
  funext toks s; rfl
theorem logger_reuse : loggerClause (str "reuse") = clauseOf noToks accept (fun s _ => { s with reuse := true }) := by
  funext toks s; rfl

set_option maxHeartbeats 4000000 in
theorem logger_commutes : Commutes loggerVerb loggerKeys := by
  intro k1 k2 b1 b2 s s1 s2 s12 s21 hk1 hk2 hne h1 h12 h2 h21
  simp only [loggerKeys, List.mem_cons, List.not_mem_nil, or_false] at hk1 hk2
  change loggerClause k1 b1 s = _ at h1
  change loggerClause k2 b2 s1 = _ at h12
  change loggerClause k2 b2 s = _ at h2
  change loggerClause k1 b1 s2 = _ at h21
  rcases hk1 with rfl | rfl | rfl | rfl | rfl | rfl | rfl | rfl | rfl <;>
  rcases hk2 with rfl | rfl | rfl | rfl | rfl | rfl | rfl | rfl | rfl <;>
    first
      | (simp only [logger_at, logger_to, logger_be, logger_in, logger_flush, logger_keep, logger_cycle,
           logger_size, logger_reuse] at h1 h12 h2 h21
         obtain ⟨c1, rfl, hc1⟩ := clauseOf_state h1
         obtain ⟨c2, rfl, hc2⟩ := clauseOf_state h2
         rw [hc2] at h12; rw [hc1] at h21
         cases h12; cases h21; rfl)
      | exact absurd rfl hne

theorem noToks_ctx {body : List Str} {a : Unit} (h : noToks body = .ok (a, [])) (rest : List Str) :
    noToks (body ++ rest) = .ok (a, rest) := by
  simp only [noToks, Except.ok.injEq, Prod.mk.injEq] at h
  simp [noToks, h.2]

theorem logger_local (K : List Str) (c : List Str) (ha : Alone loggerVerb c) : LocalText loggerVerb K c := by
  obtain ⟨k, b, rfl, hal⟩ := ha
  refine ⟨k, b, rfl, fun s rest hr => ?_⟩
  obtain ⟨s', h⟩ := hal s
  refine ⟨s', h, ?_⟩
  change loggerClause k b s = _ at h
  change loggerClause k (b ++ rest) s = _
  unfold loggerClause at h ⊢
  repeat' split
  all_goals first
    | (simp only [*, if_true, if_false] at h; exact clauseOf_ctx h (fun a ha => oneTok_ctx ha rest))
    | (simp only [*, if_true, if_false] at h; exact clauseOf_ctx h (fun a ha => noToks_ctx ha rest))
    | (simp only [*, if_true, if_false] at h; cases h)

/-! ### rear -/

def rearKeys : List Str := [str "as", str "be", str "in"]

theorem rear_as : rearClause (str "as") = clauseOf oneTok named (fun s v => { s with clone := v }) := by
  funext toks s; rfl
theorem rear_be : rearClause (str "be") = clauseOf oneTok accept (fun s v => { s with schedule := v }) := by
  funext toks s; rfl
theorem rear_in : rearClause (str "in") = clauseOf inFrameAny accept (fun s v => { s with frame := v.getD s.frame }) := by
  funext toks s; rfl

/-- `in frame <name>` with the name present -/
theorem inFrameAny_ctx {body : List Str} {a : Option Str} (h : inFrameAny body = .ok (a, []))
    (hlen : body.length = 2) (rest : List Str) : inFrameAny (body ++ rest) = .ok (a, rest) := by
  match body, hlen with
  | [p, n], _ =>
    unfold inFrameAny at h ⊢
    simp only [List.cons_append, List.nil_append] at h ⊢
    split at h
    · cases h
    · rename_i hp; simp only [if_neg hp]; cases h; rfl

/-- `rear`'s `in` clause does not commute with itself only; with the others it does — but its update reads
the old frame (`getD`), so the lemma is stated for clauses whose `in` clause names a frame -/
theorem rear_local (K : List Str) (c : List Str) (ha : Alone rearVerb c)
    (hin : c.head? = some (str "in") → c.length = 3) : LocalText rearVerb K c := by
  obtain ⟨k, b, rfl, hal⟩ := ha
  refine ⟨k, b, rfl, fun s rest hr => ?_⟩
  obtain ⟨s', h⟩ := hal s
  refine ⟨s', h, ?_⟩
  change rearClause k b s = _ at h
  change rearClause k (b ++ rest) s = _
  unfold rearClause at h ⊢
  split
  · rename_i hk; rw [if_pos hk] at h; exact clauseOf_ctx h (fun a ha => oneTok_ctx ha rest)
  · rename_i hk1; rw [if_neg hk1] at h
    split
    · rename_i hk; rw [if_pos hk] at h; exact clauseOf_ctx h (fun a ha => oneTok_ctx ha rest)
    · rename_i hk2; rw [if_neg hk2] at h
      split
      · rename_i hk; rw [if_pos hk] at h
        have hkv : k = str "in" := by simpa using hk
        have hl : b.length = 2 := by
          have := hin (by simp [hkv]); simp at this; omega
        exact clauseOf_ctx h (fun a ha => inFrameAny_ctx ha hl rest)
      · rename_i hk3; rw [if_neg hk3] at h; cases h

theorem rear_commutes : Commutes rearVerb rearKeys := by
  intro k1 k2 b1 b2 s s1 s2 s12 s21 hk1 hk2 hne h1 h12 h2 h21
  simp only [rearKeys, List.mem_cons, List.not_mem_nil, or_false] at hk1 hk2
  change rearClause k1 b1 s = _ at h1
  change rearClause k2 b2 s1 = _ at h12
  change rearClause k2 b2 s = _ at h2
  change rearClause k1 b1 s2 = _ at h21
  rcases hk1 with rfl | rfl | rfl <;> rcases hk2 with rfl | rfl | rfl <;>
    first
      | (simp only [rear_as, rear_be, rear_in] at h1 h12 h2 h21
         obtain ⟨c1, rfl, hc1⟩ := clauseOf_state h1
         obtain ⟨c2, rfl, hc2⟩ := clauseOf_state h2
         rw [hc2] at h12; rw [hc1] at h21
         cases h12; cases h21; rfl)
      | exact absurd rfl hne

/-! ### aux (the clauses before the trailing `if`) -/

def auxKeys : List Str := [str "as", str "via"]

theorem aux_as : auxClause (str "as") = clauseOf oneTok named (fun s v => { s with clone := some v }) := by
  funext toks s; rfl
theorem aux_via : auxClause (str "via") = clauseOf (parseIndirect true) accept (fun s v => { s with inode := v }) := by
  funext toks s; rfl

theorem aux_commutes : Commutes auxVerb auxKeys := by
  intro k1 k2 b1 b2 s s1 s2 s12 s21 hk1 hk2 hne h1 h12 h2 h21
  simp only [auxKeys, List.mem_cons, List.not_mem_nil, or_false] at hk1 hk2
  change auxClause k1 b1 s = _ at h1
  change auxClause k2 b2 s1 = _ at h12
  change auxClause k2 b2 s = _ at h2
  change auxClause k1 b1 s2 = _ at h21
  rcases hk1 with rfl | rfl <;> rcases hk2 with rfl | rfl <;>
    first
      | (simp only [aux_as, aux_via] at h1 h12 h2 h21
         obtain ⟨c1, rfl, hc1⟩ := clauseOf_state h1
         obtain ⟨c2, rfl, hc2⟩ := clauseOf_state h2
         rw [hc2] at h12; rw [hc1] at h21
         cases h12; cases h21; rfl)
      | exact absurd rfl hne

/-- `as` and `via` clauses of `aux` are local before `as`, `via` and `if` -/
theorem aux_local (K : List Str) (hK : ∀ k ∈ K, k ∈ [str "as", str "via", str "if"]) (c : List Str)
    (hc : c.head? ≠ some (str "if")) (ha : Alone auxVerb c) : LocalText auxVerb K c := by
  obtain ⟨k, b, rfl, hal⟩ := ha
  refine ⟨k, b, rfl, fun s rest hr => ?_⟩
  obtain ⟨s', h⟩ := hal s
  refine ⟨s', h, ?_⟩
  have hres : ResNotOf K := by
    intro x hx
    have := hK x hx
    simp only [List.mem_cons, List.not_mem_nil, or_false] at this
    rcases this with rfl | rfl | rfl <;> decide
  change auxClause k b s = _ at h
  change auxClause k (b ++ rest) s = _
  unfold auxClause at h ⊢
  split
  · rename_i hk; rw [if_pos hk] at h; exact clauseOf_ctx h (fun a ha => oneTok_ctx ha rest)
  · rename_i hk1; rw [if_neg hk1] at h
    split
    · rename_i hk; rw [if_pos hk] at h
      exact clauseOf_ctx h (fun a ha => parseIndirect_ctx true b a ha rest (follows_restOK hres hr _))
    · rename_i hk2; rw [if_neg hk2] at h
      split
      · rename_i hk; exfalso; apply hc; have : k = str "if" := by simpa using hk
        simp [this]
      · rename_i hk3; rw [if_neg hk3] at h; cases h

/-! ### do -/

theorem do_as (fix : Bool) : doClause fix (str "as") = clauseOf (asName fix) nonEmpty (fun s v => { s with name := v }) := by
  funext toks s; rfl
theorem do_at (fix : Bool) : doClause fix (str "at") = clauseOf oneTok (oneOf ContextWords) (fun s v => { s with context := some v }) := by
  funext toks s; rfl
theorem do_via (fix : Bool) : doClause fix (str "via") = clauseOf (parseIndirect true) accept (fun s v => { s with inode := some v }) := by
  funext toks s; rfl
theorem do_with (fix : Bool) : doClause fix (str "with") = clauseOf parseDirect accept (fun s d => { s with parms := odictMerge s.parms d }) := by
  funext toks s; rfl
theorem do_from (fix : Bool) : doClause fix (str "from") =
    clauseOf parseSource accept (fun s ps => { s with preParms := assocSet s.preParms ps.1 ps.2 }) := by
  funext toks s; rfl
theorem do_per (fix : Bool) : doClause fix (str "per") = clauseOf parseDirect accept (fun s d => { s with ioinits := odictMerge s.ioinits d }) := by
  funext toks s; rfl
theorem do_for (fix : Bool) : doClause fix (str "for") =
    clauseOf parseSource accept (fun s ps => { s with preIoinits := assocSet s.preIoinits ps.1 ps.2 }) := by
  funext toks s; rfl
theorem do_cum (fix : Bool) : doClause fix (str "cum") = clauseOf parseDirect accept (fun s d => { s with inits := odictMerge s.inits d }) := by
  funext toks s; rfl
theorem do_qua (fix : Bool) : doClause fix (str "qua") =
    clauseOf parseSource accept (fun s ps => { s with preInits := assocSet s.preInits ps.1 ps.2 }) := by
  funext toks s; rfl

set_option maxHeartbeats 4000000 in
theorem do_commutes (fix : Bool) : Commutes (doVerb fix) doStops := by
  intro k1 k2 b1 b2 s s1 s2 s12 s21 hk1 hk2 hne h1 h12 h2 h21
  have e : doStops = [str "as", str "at", str "via", str "with", str "from", str "per", str "for", str "cum", str "qua"] := rfl
  simp only [e, List.mem_cons, List.not_mem_nil, or_false] at hk1 hk2
  change doClause fix k1 b1 s = _ at h1
  change doClause fix k2 b2 s1 = _ at h12
  change doClause fix k2 b2 s = _ at h2
  change doClause fix k1 b1 s2 = _ at h21
  rcases hk1 with rfl | rfl | rfl | rfl | rfl | rfl | rfl | rfl | rfl <;>
  rcases hk2 with rfl | rfl | rfl | rfl | rfl | rfl | rfl | rfl | rfl <;>
    first
      | (simp only [do_as, do_at, do_via, do_with, do_from, do_per, do_for, do_cum, do_qua] at h1 h12 h2 h21
         obtain ⟨c1, rfl, hc1⟩ := clauseOf_state h1
         obtain ⟨c2, rfl, hc2⟩ := clauseOf_state h2
         rw [hc2] at h12; rw [hc1] at h21
         cases h12; cases h21; rfl)
      | exact absurd rfl hne

theorem doStops_plain : PlainRes doStops := by
  intro k hk
  have e : doStops = [str "as", str "at", str "via", str "with", str "from", str "per", str "for", str "cum", str "qua"] := rfl
  simp only [e, List.mem_cons, List.not_mem_nil, or_false] at hk
  rcases hk with rfl | rfl | rfl | rfl | rfl | rfl | rfl | rfl | rfl <;> decide

/-- a `do` clause that parses alone is local before the connectives of `do`; for the `as` clause the
connectives that may follow must all be in the terminator list of the name loop (always the case for
the repaired list) -/
theorem do_local (fix : Bool) (K : List Str) (hK : ∀ k ∈ K, k ∈ doStops) (c : List Str)
    (ha : Alone (doVerb fix) c)
    (has : c.head? = some (str "as") → ∀ x ∈ K, (doAsStops fix).contains x = true) :
    LocalText (doVerb fix) K c := by
  obtain ⟨k, b, rfl, hal⟩ := ha
  refine ⟨k, b, rfl, fun s rest hr => ?_⟩
  obtain ⟨s', h⟩ := hal s
  refine ⟨s', h, ?_⟩
  have hplain : PlainRes K := fun x hx => doStops_plain x (hK x hx)
  have hres : ResNotOf K := fun x hx => ⟨(hplain x hx).1, (hplain x hx).2.1⟩
  have hrsv := follows_reserved (fun x hx => (hplain x hx).1) hr
  change doClause fix k b s = _ at h
  change doClause fix k (b ++ rest) s = _
  unfold doClause at h ⊢
  split
  · rename_i hk; rw [if_pos hk] at h
    have hkv : k = str "as" := by simpa using hk
    refine clauseOf_ctx h (fun a ha => asName_ctx ha rest ?_)
    rcases hr with rfl | ⟨x, r, hx, rfl⟩
    · exact Or.inl rfl
    · exact Or.inr ⟨x, r, rfl, has (by simp [hkv]) x hx⟩
  · rename_i hk1; rw [if_neg hk1] at h
    split
    · rename_i hk; rw [if_pos hk] at h; exact clauseOf_ctx h (fun a ha => oneTok_ctx ha rest)
    · rename_i hk2; rw [if_neg hk2] at h
      split
      · rename_i hk; rw [if_pos hk] at h
        exact clauseOf_ctx h (fun a ha => parseIndirect_ctx true b a ha rest (follows_restOK hres hr _))
      · rename_i hk3; rw [if_neg hk3] at h
        split
        · rename_i hk; rw [if_pos hk] at h; exact clauseOf_ctx h (fun a ha => parseDirect_ctx ha rest hrsv)
        · rename_i hk4; rw [if_neg hk4] at h
          split
          · rename_i hk; rw [if_pos hk] at h
            exact clauseOf_ctx h (fun a ha => parseSource_ctx ha rest (follows_resFollow hplain hr))
          · rename_i hk5; rw [if_neg hk5] at h
            split
            · rename_i hk; rw [if_pos hk] at h; exact clauseOf_ctx h (fun a ha => parseDirect_ctx ha rest hrsv)
            · rename_i hk6; rw [if_neg hk6] at h
              split
              · rename_i hk; rw [if_pos hk] at h
                exact clauseOf_ctx h (fun a ha => parseSource_ctx ha rest (follows_resFollow hplain hr))
              · rename_i hk7; rw [if_neg hk7] at h
                split
                · rename_i hk; rw [if_pos hk] at h; exact clauseOf_ctx h (fun a ha => parseDirect_ctx ha rest hrsv)
                · rename_i hk8; rw [if_neg hk8] at h
                  split
                  · rename_i hk; rw [if_pos hk] at h
                    exact clauseOf_ctx h (fun a ha => parseSource_ctx ha rest (follows_resFollow hplain hr))
                  · rename_i hk9; rw [if_neg hk9] at h; cases h

/-! ### server -/

def serverKeys : List Str :=
  [str "at", str "to", str "be", str "in", str "rx", str "tx", str "per", str "for"]

theorem server_at : serverClause (str "at") = clauseOf oneTok numF (fun s v => { s with period := some v }) := by
  funext toks s; rfl
theorem server_to : serverClause (str "to") = clauseOf oneTok accept (fun s v => { s with prefix_ := v }) := by
  funext toks s; rfl
theorem server_be : serverClause (str "be") = clauseOf oneTok (oneOf ServiceWords) (fun s v => { s with schedule := v }) := by
  funext toks s; rfl
theorem server_in : serverClause (str "in") = clauseOf oneTok (oneOf OrderWords) (fun s v => { s with order := v }) := by
  funext toks s; rfl
theorem server_rx : serverClause (str "rx") = clauseOf oneTok accept (fun s v => { s with rx := v }) := by
  funext toks s; rfl
theorem server_tx : serverClause (str "tx") = clauseOf oneTok accept (fun s v => { s with tx := v }) := by
  funext toks s; rfl
theorem server_per : serverClause (str "per") = clauseOf parseDirect accept (fun s d => { s with init := odictMerge s.init d }) := by
  funext toks s; rfl
theorem server_for : serverClause (str "for") = clauseOf parseFieldsPath accept (fun s v => { s with source := some v }) := by
  funext toks s; rfl

set_option maxHeartbeats 4000000 in
theorem server_commutes : Commutes serverVerb serverKeys := by
  intro k1 k2 b1 b2 s s1 s2 s12 s21 hk1 hk2 hne h1 h12 h2 h21
  simp only [serverKeys, List.mem_cons, List.not_mem_nil, or_false] at hk1 hk2
  change serverClause k1 b1 s = _ at h1
  change serverClause k2 b2 s1 = _ at h12
  change serverClause k2 b2 s = _ at h2
  change serverClause k1 b1 s2 = _ at h21
  rcases hk1 with rfl | rfl | rfl | rfl | rfl | rfl | rfl | rfl <;>
  rcases hk2 with rfl | rfl | rfl | rfl | rfl | rfl | rfl | rfl <;>
    first
      | (simp only [server_at, server_to, server_be, server_in, server_rx, server_tx, server_per, server_for] at h1 h12 h2 h21
         obtain ⟨c1, rfl, hc1⟩ := clauseOf_state h1
         obtain ⟨c2, rfl, hc2⟩ := clauseOf_state h2
         rw [hc2] at h12; rw [hc1] at h21
         cases h12; cases h21; rfl)
      | exact absurd rfl hne

theorem parsePath_ctx {body : List Str} {a : Str} (h : parsePath body = .ok (a, [])) (rest : List Str) :
    parsePath (body ++ rest) = .ok (a, rest) := by
  cases body with
  | nil => simp [parsePath] at h
  | cons p tl =>
    unfold parsePath at h ⊢
    simp only [List.cons_append] at h ⊢
    split at h
    · rename_i hp; cases h; simp [hp]
    · cases h

theorem parseFieldsPath_ctx {body : List Str} {a : Str × List Str} (h : parseFieldsPath body = .ok (a, []))
    (rest : List Str) (hr : ResFollow rest) : parseFieldsPath (body ++ rest) = .ok (a, rest) := by
  unfold parseFieldsPath at h ⊢
  cases hf : parseFields body with
  | error e => rw [hf] at h; cases h
  | ok p =>
    obtain ⟨fs, r⟩ := p
    rw [hf] at h
    rw [parseFields_ctx hf rest hr]
    simp only [] at h ⊢
    cases hi : parsePath r with
    | error e => rw [hi] at h; cases h
    | ok q =>
      obtain ⟨pth, r'⟩ := q
      rw [hi] at h
      simp only [] at h
      cases h
      rw [parsePath_ctx hi rest]

/-- a `server` clause that parses alone is local; `per` needs every connective that may follow to be
reserved (`rx`, `tx` are not: defect D62), `for` needs them reserved and different from `in` (D63) -/
theorem server_local (K : List Str) (c : List Str) (ha : Alone serverVerb c)
    (hper : c.head? = some (str "per") → ∀ x ∈ K, isReserved x = true)
    (hfor : c.head? = some (str "for") → PlainRes K) : LocalText serverVerb K c := by
  obtain ⟨k, b, rfl, hal⟩ := ha
  refine ⟨k, b, rfl, fun s rest hr => ?_⟩
  obtain ⟨s', h⟩ := hal s
  refine ⟨s', h, ?_⟩
  change serverClause k b s = _ at h
  change serverClause k (b ++ rest) s = _
  unfold serverClause at h ⊢
  split
  · rename_i hk; rw [if_pos hk] at h; exact clauseOf_ctx h (fun a ha => oneTok_ctx ha rest)
  · rename_i hk1; rw [if_neg hk1] at h
    split
    · rename_i hk; rw [if_pos hk] at h; exact clauseOf_ctx h (fun a ha => oneTok_ctx ha rest)
    · rename_i hk2; rw [if_neg hk2] at h
      split
      · rename_i hk; rw [if_pos hk] at h; exact clauseOf_ctx h (fun a ha => oneTok_ctx ha rest)
      · rename_i hk3; rw [if_neg hk3] at h
        split
        · rename_i hk; rw [if_pos hk] at h; exact clauseOf_ctx h (fun a ha => oneTok_ctx ha rest)
        · rename_i hk4; rw [if_neg hk4] at h
          split
          · rename_i hk; rw [if_pos hk] at h; exact clauseOf_ctx h (fun a ha => oneTok_ctx ha rest)
          · rename_i hk5; rw [if_neg hk5] at h
            split
            · rename_i hk; rw [if_pos hk] at h; exact clauseOf_ctx h (fun a ha => oneTok_ctx ha rest)
            · rename_i hk6; rw [if_neg hk6] at h
              split
              · rename_i hk; rw [if_pos hk] at h
                have hkv : k = str "per" := by simpa using hk
                exact clauseOf_ctx h (fun a ha => parseDirect_ctx ha rest
                  (follows_reserved (hper (by simp [hkv])) hr))
              · rename_i hk7; rw [if_neg hk7] at h
                split
                · rename_i hk; rw [if_pos hk] at h
                  have hkv : k = str "for" := by simpa using hk
                  exact clauseOf_ctx h (fun a ha => parseFieldsPath_ctx ha rest
                    (follows_resFollow (hfor (by simp [hkv])) hr))
                · rename_i hk8; rw [if_neg hk8] at h; cases h

end Ioflo.Clauses
