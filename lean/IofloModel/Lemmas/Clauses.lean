import IofloModel.Model.Clauses
/-! Helper lemmas for C15: the generic permutation theorem for option loops, and the "no absorption"
(locality) lemmas of the sub-parsers. -/
namespace Ioflo.Clauses
open Ioflo.Literal

/-! ## option loops: locality of every clause gives order independence -/

/-- a clause as written (`key body…`) and the change it makes to the configuration -/
structure ClauseSem (σ : Type) where
  key : Str
  body : List Str
  upd : σ → σ

def ClauseSem.text {σ : Type} (c : ClauseSem σ) : List Str := c.key :: c.body

/-- what may follow a clause: the end of the command, or one of the words `K` -/
def Follows (K : List Str) (rest : List Str) : Prop := rest = [] ∨ ∃ k r, k ∈ K ∧ rest = k :: r

/-- **locality** of a clause for a verb: from any state and before any admissible continuation the
verb's clause function consumes exactly the clause's own tokens and applies the clause's update.
This is the "no clause absorbs the words of the clause that follows it" statement. -/
def Local {σ : Type} (v : Verb σ) (K : List Str) (c : ClauseSem σ) : Prop :=
  ∀ s rest, Follows K rest → v.clause c.key (c.body ++ rest) s = .ok (c.upd s, rest)

def flat {σ : Type} (cs : List (ClauseSem σ)) : List Str := cs.flatMap ClauseSem.text

theorem follows_flat {σ : Type} {K : List Str} (cs : List (ClauseSem σ)) (hk : ∀ c ∈ cs, c.key ∈ K)
    (tail : List Str) (ht : Follows K tail) : Follows K (flat cs ++ tail) := by
  cases cs with
  | nil => simpa [flat] using ht
  | cons c cs' =>
    right
    exact ⟨c.key, c.body ++ (flat cs' ++ tail), hk c (List.mem_cons_self ..), by simp [flat, ClauseSem.text]⟩

/-- the loop over local clauses is the fold of their updates -/
theorem runClauses_local {σ : Type} (v : Verb σ) (K : List Str) (cs : List (ClauseSem σ))
    (hk : ∀ c ∈ cs, c.key ∈ K) (hl : ∀ c ∈ cs, Local v K c) (s : σ) :
    runClauses v (flat cs) s = .ok (cs.foldl (fun s c => c.upd s) s) := by
  induction cs generalizing s with
  | nil => simp [flat, runClauses]
  | cons c cs ih =>
    have hf : Follows K (flat cs ++ []) :=
      follows_flat cs (fun x hx => hk x (List.mem_cons_of_mem _ hx)) [] (Or.inl rfl)
    have h1 := hl c (List.mem_cons_self ..) s (flat cs) (by simpa using hf)
    have e : flat (c :: cs) = c.key :: (c.body ++ flat cs) := by simp [flat, ClauseSem.text]
    rw [e, runClauses]
    split
    · rename_i e' h'; rw [h1] at h'; cases h'
    · rename_i s' r h'
      rw [h1] at h'; cases h'
      exact ih (fun x hx => hk x (List.mem_cons_of_mem _ hx)) (fun x hx => hl x (List.mem_cons_of_mem _ hx)) _

/-- **order independence**: two arrangements of the same local clauses whose updates commute give
the same configuration -/
theorem runClauses_perm {σ : Type} (v : Verb σ) (K : List Str) (cs₁ cs₂ : List (ClauseSem σ))
    (hp : cs₁.Perm cs₂) (hk : ∀ c ∈ cs₁, c.key ∈ K) (hl : ∀ c ∈ cs₁, Local v K c)
    (hc : ∀ a ∈ cs₁, ∀ b ∈ cs₁, ∀ s, b.upd (a.upd s) = a.upd (b.upd s)) (s : σ) :
    runClauses v (flat cs₁) s = runClauses v (flat cs₂) s := by
  rw [runClauses_local v K cs₁ hk hl,
    runClauses_local v K cs₂ (fun c hc' => hk c (hp.mem_iff.mpr hc')) (fun c hc' => hl c (hp.mem_iff.mpr hc'))]
  congr 1
  exact hp.foldl_eq' (fun x hx y hy z => hc x hx y hy z) s

end Ioflo.Clauses
