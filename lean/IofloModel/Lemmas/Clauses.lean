import IofloModel.Model.Clauses
/-! Helper lemmas for C15: the generic permutation theorem for option loops, and the "no absorption"
(locality) lemmas of the sub-parsers. -/
namespace Ioflo.Clauses
open Ioflo.Literal

/-! ## option loops: locality of every clause gives order independence -/

/-- a clause as written (`key body…`) and the change it makes to the configuration -/
structure ClauseSem (σ : Type) where
  key : Str
  body : List Str
  upd : σ → σ

def ClauseSem.text {σ : Type} (c : ClauseSem σ) : List Str := c.key :: c.body

/-- what may follow a clause: the end of the command, or one of the words `K` -/
def Follows (K : List Str) (rest : List Str) : Prop := rest = [] ∨ ∃ k r, k ∈ K ∧ rest = k :: r

/-- **locality** of a clause for a verb: from any state and before any admissible continuation the
verb's clause function consumes exactly the clause's own tokens and applies the clause's update.
This is the "no clause absorbs the words of the clause that follows it" statement. -/
def Local {σ : Type} (v : Verb σ) (K : List Str) (c : ClauseSem σ) : Prop :=
  ∀ s rest, Follows K rest → v.clause c.key (c.body ++ rest) s = .ok (c.upd s, rest)

def flat {σ : Type} (cs : List (ClauseSem σ)) : List Str := cs.flatMap ClauseSem.text

theorem follows_flat {σ : Type} {K : List Str} (cs : List (ClauseSem σ)) (hk : ∀ c ∈ cs, c.key ∈ K)
    (tail : List Str) (ht : Follows K tail) : Follows K (flat cs ++ tail) := by
  cases cs with
  | nil => simpa [flat] using ht
  | cons c cs' =>
    right
    exact ⟨c.key, c.body ++ (flat cs' ++ tail), hk c (List.mem_cons_self ..), by simp [flat, ClauseSem.text]⟩

/-- the loop over local clauses is the fold of their updates; then it goes on with what follows -/
theorem runClauses_local_tail {σ : Type} (v : Verb σ) (K : List Str) (cs : List (ClauseSem σ))
    (hk : ∀ c ∈ cs, c.key ∈ K) (hl : ∀ c ∈ cs, Local v K c) (tail : List Str) (ht : Follows K tail) (s : σ) :
    runClauses v (flat cs ++ tail) s = runClauses v tail (cs.foldl (fun s c => c.upd s) s) := by
  induction cs generalizing s with
  | nil => simp [flat]
  | cons c cs ih =>
    have hf : Follows K (flat cs ++ tail) :=
      follows_flat cs (fun x hx => hk x (List.mem_cons_of_mem _ hx)) tail ht
    have h1 := hl c (List.mem_cons_self ..) s (flat cs ++ tail) hf
    have e : flat (c :: cs) ++ tail = c.key :: (c.body ++ (flat cs ++ tail)) := by simp [flat, ClauseSem.text]
    rw [e, runClauses]
    split
    · rename_i e' h'; rw [h1] at h'; cases h'
    · rename_i s' r h'
      rw [h1] at h'; cases h'
      exact ih (fun x hx => hk x (List.mem_cons_of_mem _ hx)) (fun x hx => hl x (List.mem_cons_of_mem _ hx)) _

theorem runClauses_nil {σ : Type} (v : Verb σ) (s : σ) : runClauses v [] s = .ok s := by
  rw [runClauses]

theorem runClauses_local {σ : Type} (v : Verb σ) (K : List Str) (cs : List (ClauseSem σ))
    (hk : ∀ c ∈ cs, c.key ∈ K) (hl : ∀ c ∈ cs, Local v K c) (s : σ) :
    runClauses v (flat cs) s = .ok (cs.foldl (fun s c => c.upd s) s) := by
  have := runClauses_local_tail v K cs hk hl [] (Or.inl rfl) s
  simpa [runClauses_nil] using this

/-- **order independence**: two arrangements of the same local clauses whose updates commute give
the same configuration (also when more tokens `tail`, starting with a word of `K`, follow) -/
theorem runClauses_perm {σ : Type} (v : Verb σ) (K : List Str) (cs₁ cs₂ : List (ClauseSem σ))
    (hp : cs₁.Perm cs₂) (hk : ∀ c ∈ cs₁, c.key ∈ K) (hl : ∀ c ∈ cs₁, Local v K c)
    (hc : ∀ a ∈ cs₁, ∀ b ∈ cs₁, ∀ s, b.upd (a.upd s) = a.upd (b.upd s))
    (tail : List Str) (ht : Follows K tail) (s : σ) :
    runClauses v (flat cs₁ ++ tail) s = runClauses v (flat cs₂ ++ tail) s := by
  rw [runClauses_local_tail v K cs₁ hk hl tail ht,
    runClauses_local_tail v K cs₂ (fun c hc' => hk c (hp.mem_iff.mpr hc'))
      (fun c hc' => hl c (hp.mem_iff.mpr hc')) tail ht]
  congr 1
  exact hp.foldl_eq' (fun x hx y hy z => hc x hx y hy z) s

/-! ## no absorption after a relation (`parseRelation`, `parseIndirect`) -/

/-- a relation text is *closed* when it does not end with a relation word whose optional name is
omitted (`… of framer`, `… of frame`, `… of actor`) -/
def Closed (toks : List Str) : Prop :=
  toks.getLast? ≠ some (str "framer") ∧ toks.getLast? ≠ some (str "frame") ∧ toks.getLast? ≠ some (str "actor")

theorem closed_of_not_open {toks : List Str} (h : openRel toks = false) : Closed toks := by
  simp only [openRel, Bool.or_eq_false_iff, beq_eq_false_iff_ne, ne_eq] at h
  exact ⟨h.1.1, h.1.2, h.2⟩

/-- what may follow a relation in context without being absorbed: nothing; or a word other than `of`
that is reserved, or any word other than `of` when the relation is closed -/
def RestOK (toks rest : List Str) : Prop :=
  rest = [] ∨ ∃ k r, rest = k :: r ∧ k ≠ str "of" ∧ (isReserved k = true ∨ Closed toks)

theorem frameRel_inv {n f : Str} {inner : P (Str × List Str)} {v : Str} {r : List Str}
    (h : frameRel n f inner = .ok (v, r)) :
    ∃ fr, inner = .ok (fr, r) ∧ ∀ r', frameRel n f (.ok (fr, r')) = .ok (v, r') := by
  unfold frameRel at h
  cases inner with
  | error e => simp at h
  | ok p =>
    obtain ⟨fr, r0⟩ := p
    simp only [] at h
    split at h
    · cases h
    · split at h
      · rename_i h1 h2; cases h; refine ⟨fr, rfl, fun r' => ?_⟩; simp only [frameRel, if_neg h1, if_pos h2]
      · rename_i h1 h2; cases h; refine ⟨fr, rfl, fun r' => ?_⟩; simp only [frameRel, if_neg h1, if_neg h2]

theorem actorRel_inv {n : Str} {inner : P (Str × List Str)} {v : Str} {r : List Str}
    (h : actorRel n inner = .ok (v, r)) :
    ∃ fr, inner = .ok (fr, r) ∧ ∀ r', actorRel n (.ok (fr, r')) = .ok (v, r') := by
  unfold actorRel at h
  cases inner with
  | error e => simp at h
  | ok p =>
    obtain ⟨fr, r0⟩ := p
    simp only [] at h
    split at h
    · cases h
    · split at h
      · rename_i h1 h2; cases h; refine ⟨fr, rfl, fun r' => ?_⟩; simp only [actorRel, if_neg h1, if_pos h2]
      · rename_i h1 h2; cases h; refine ⟨fr, rfl, fun r' => ?_⟩; simp only [actorRel, if_neg h1, if_neg h2]

theorem parseRelation_notof {k : Str} (r : List Str) (fn : Str) (h : k ≠ str "of") :
    parseRelation (k :: r) fn = .ok ([], k :: r) := by
  unfold parseRelation; simp [h]

theorem parseRelation_restOK {toks rest : List Str} (fn : Str) (h : RestOK toks rest) :
    parseRelation rest fn = .ok ([], rest) := by
  rcases h with rfl | ⟨k, r, rfl, hk, _⟩
  · unfold parseRelation; rfl
  · exact parseRelation_notof r fn hk

theorem RestOK.sub {toks sub rest : List Str} (h : RestOK toks rest)
    (hs : sub = [] ∨ sub.getLast? = toks.getLast?) : RestOK sub rest := by
  rcases h with rfl | ⟨k, r, rfl, hk, hc⟩
  · exact Or.inl rfl
  · refine Or.inr ⟨k, r, rfl, hk, ?_⟩
    rcases hc with hc | hc
    · exact Or.inl hc
    · right
      rcases hs with rfl | hs
      · simp [Closed]
      · unfold Closed at hc ⊢; rw [hs]; exact hc

/-- **no absorption after a relation**: a relation that parses on its own (consuming all its tokens)
parses to the same value in context, leaving the context untouched. -/
theorem parseRelation_ctx (toks : List Str) (fn : Str) : ∀ v, parseRelation toks fn = .ok (v, []) →
    ∀ rest, RestOK toks rest → parseRelation (toks ++ rest) fn = .ok (v, rest) := by
  fun_induction parseRelation toks fn
  case case1 => intro v h rest hr; cases h; simpa using parseRelation_restOK _ hr
  case case2 => intro v h; cases h
  case case3 => intro v h; cases h
  case case4 => intro v h; cases h
  case case5 t fn h1 rel tl h2 h3 =>
    intro v h rest hr; cases h
    simp only [List.cons_append, List.nil_append]
    unfold parseRelation; simp only [if_neg h1, if_neg h2, if_pos h3]
  case case6 t fn h1 rel tl h2 h3 h4 =>
    intro v h rest hr; cases h
    simp only [List.cons_append, List.nil_append]
    unfold parseRelation; simp only [if_neg h1, if_neg h2, if_neg h3, if_pos h4]
  case case7 t fn h1 rel h2 h3 h4 h5 =>
    intro v h rest hr; cases h
    simp only [List.cons_append, List.nil_append]
    rcases hr with rfl | ⟨k, r, rfl, _, hk | hc⟩
    · unfold parseRelation; simp only [if_neg h1, if_neg h2, if_neg h3, if_neg h4, if_pos h5]
    · unfold parseRelation; simp only [if_neg h1, if_neg h2, if_neg h3, if_neg h4, if_pos h5]; simp [hk]
    · exfalso; apply hc.1; simp at h5; simp [h5]
  case case8 t fn h1 rel h2 h3 h4 h5 name tl h6 h7 =>
    intro v h rest hr; cases h
    simp only [List.cons_append, List.nil_append]
    unfold parseRelation; simp only [if_neg h1, if_neg h2, if_neg h3, if_neg h4, if_pos h5, if_pos h6, if_pos h7]
  case case9 => intro v h; cases h
  case case10 => intro v h; cases h
  case case11 t fn h1 rel h2 h3 h4 h5 h6 =>
    intro v h rest hr
    simp only [List.cons_append, List.nil_append]
    rcases hr with rfl | ⟨k, r, rfl, hk2, hk | hc⟩
    · unfold parseRelation; simp only [if_neg h1, if_neg h2, if_neg h3, if_neg h4, if_neg h5, if_pos h6]; exact h
    · obtain ⟨fr, hfr, hall⟩ := frameRel_inv h
      cases hfr
      unfold parseRelation
      simp only [if_neg h1, if_neg h2, if_neg h3, if_neg h4, if_neg h5, if_pos h6]
      simp [hk, parseRelation_notof r [] hk2, hall]
    · exfalso; apply hc.2.1; simp at h6; simp [h6]
  case case12 t fn h1 rel h2 h3 h4 h5 h6 name tl h7 h8 ih =>
    intro v h rest hr
    obtain ⟨fr, hfr, hall⟩ := frameRel_inv h
    have := ih fr hfr rest (hr.sub (by cases tl with | nil => exact Or.inl rfl | cons a b => right; simp))
    simp only [List.cons_append, List.nil_append]
    unfold parseRelation
    simp only [if_neg h1, if_neg h2, if_neg h3, if_neg h4, if_neg h5, if_pos h6, if_pos h7, if_pos h8, this, hall]
  case case13 => intro v h; cases h
  case case14 t fn h1 rel h2 h3 h4 h5 h6 name tl h7 ih =>
    intro v h rest hr
    obtain ⟨fr, hfr, hall⟩ := frameRel_inv h
    have := ih fr hfr rest (hr.sub (by right; simp))
    simp only [List.cons_append] at this ⊢
    unfold parseRelation
    simp only [if_neg h1, if_neg h2, if_neg h3, if_neg h4, if_neg h5, if_pos h6, if_neg h7, this, hall]
  case case15 t fn h1 rel h2 h3 h4 h5 h6 =>
    intro v h rest hr
    simp only [List.cons_append, List.nil_append]
    have hact : rel = str "actor" := by
      simp at h2 h3 h4 h5 h6
      exact h2 h3 h4 h5 h6
    rcases hr with rfl | ⟨k, r, rfl, hk2, hk | hc⟩
    · unfold parseRelation; simp only [if_neg h1, if_neg h2, if_neg h3, if_neg h4, if_neg h5, if_neg h6]; exact h
    · obtain ⟨fr, hfr, hall⟩ := actorRel_inv h
      cases hfr
      unfold parseRelation
      simp only [if_neg h1, if_neg h2, if_neg h3, if_neg h4, if_neg h5, if_neg h6]
      simp [hk, parseRelation_notof r [] hk2, hall]
    · exfalso; apply hc.2.2; simp [hact]
  case case16 t fn h1 rel h2 h3 h4 h5 h6 name tl h7 h8 ih =>
    intro v h rest hr
    obtain ⟨fr, hfr, hall⟩ := actorRel_inv h
    have := ih fr hfr rest (hr.sub (by cases tl with | nil => exact Or.inl rfl | cons a b => right; simp))
    simp only [List.cons_append, List.nil_append]
    unfold parseRelation
    simp only [if_neg h1, if_neg h2, if_neg h3, if_neg h4, if_neg h5, if_neg h6, if_pos h7, if_pos h8, this, hall]
  case case17 => intro v h; cases h
  case case18 t fn h1 rel h2 h3 h4 h5 h6 name tl h7 ih =>
    intro v h rest hr
    obtain ⟨fr, hfr, hall⟩ := actorRel_inv h
    have := ih fr hfr rest (hr.sub (by right; simp))
    simp only [List.cons_append] at this ⊢
    unfold parseRelation
    simp only [if_neg h1, if_neg h2, if_neg h3, if_neg h4, if_neg h5, if_neg h6, if_neg h7, this, hall]


/-- `parseIndirect`: a path with its relation that parses alone parses the same in context -/
theorem parseIndirect_ctx (node : Bool) (body : List Str) (a : Str)
    (h : parseIndirect node body = .ok (a, [])) (rest : List Str) (hr : RestOK body.tail rest) :
    parseIndirect node (body ++ rest) = .ok (a, rest) := by
  cases body with
  | nil => simp [parseIndirect] at h
  | cons path rel =>
    unfold parseIndirect at h ⊢
    simp only [List.cons_append] at h ⊢
    split at h
    · cases h
    · rename_i h1
      split at h
      · cases h
      · rename_i h2
        simp only [if_neg h1, if_neg h2]
        cases hp : parseRelation rel [] with
        | error e => rw [hp] at h; cases h
        | ok q =>
          obtain ⟨relation, rest'⟩ := q
          rw [hp] at h
          simp only [] at h
          cases hi : indirectPath node path relation with
          | error e => rw [hi] at h; cases h
          | ok pth =>
            rw [hi] at h
            simp only [] at h
            cases h
            rw [parseRelation_ctx rel [] relation hp rest hr]
            simp only [hi]

/-! ## no absorption: name parts, field lists, direct data -/

theorem takeParts_ctx (stops : List Str) (body : List Str) (h : takeParts stops body = (body, []))
    (rest : List Str) (hr : rest = [] ∨ ∃ k r, rest = k :: r ∧ stops.contains k = true) :
    takeParts stops (body ++ rest) = (body, rest) := by
  induction body with
  | nil =>
    rcases hr with rfl | ⟨k, r, rfl, hk⟩
    · simp [takeParts]
    · have hk' : k ∈ stops := by simpa using hk
      simp [takeParts, hk']
  | cons t tl ih =>
    unfold takeParts at h
    split at h
    · cases h
    · rename_i hs
      simp only [Prod.mk.injEq, List.cons.injEq, true_and] at h
      have := ih (Prod.ext h.1 h.2)
      simp only [List.cons_append]
      unfold takeParts
      simp only [if_neg hs, this]

theorem scanFields_ctx_some {body : List Str} {fs r : List Str} (h : scanFields body = some (fs, r))
    (rest : List Str) : scanFields (body ++ rest) = some (fs, r ++ rest) := by
  induction body generalizing fs r with
  | nil => simp [scanFields] at h
  | cons t tl ih =>
    unfold scanFields at h
    simp only [List.cons_append]
    unfold scanFields
    split at h
    · rename_i h1; cases h; simp [h1]
    · rename_i h1
      split at h
      · cases h
      · rename_i h2
        simp only [if_neg h1, if_neg h2]
        split at h
        · rename_i fs' r' hs; cases h; rw [ih hs]
        · cases h

/-- no field list, and the scan stopped inside the clause at a reserved word or ran to its end:
in context it stops at the same place, provided the word that follows is reserved and is not `in` -/
theorem scanFields_ctx_none {body : List Str} (h : scanFields body = none)
    (rest : List Str) (hr : rest = [] ∨ ∃ k r, rest = k :: r ∧ isReserved k = true ∧ k ≠ str "in") :
    scanFields (body ++ rest) = none := by
  induction body with
  | nil =>
    rcases hr with rfl | ⟨k, r, rfl, hk, hk2⟩
    · simp [scanFields]
    · have : (k == str "in") = false := by simpa using hk2
      simp [scanFields, this, hk]
  | cons t tl ih =>
    unfold scanFields at h
    simp only [List.cons_append]
    unfold scanFields
    split at h
    · cases h
    · rename_i h1
      split at h
      · rename_i h2; simp only [if_neg h1, if_pos h2]
      · rename_i h2
        simp only [if_neg h1, if_neg h2]
        split at h
        · cases h
        · rename_i hs; rw [ih hs]

/-- what may follow a field list / source / direct data: nothing, or a reserved word (not `in`, not `of`) -/
def ResFollow (rest : List Str) : Prop :=
  rest = [] ∨ ∃ k r, rest = k :: r ∧ isReserved k = true ∧ k ≠ str "in" ∧ k ≠ str "of"

theorem ResFollow.restOK {rest : List Str} (h : ResFollow rest) (toks : List Str) : RestOK toks rest := by
  rcases h with rfl | ⟨k, r, rfl, hk, _, hof⟩
  · exact Or.inl rfl
  · exact Or.inr ⟨k, r, rfl, hof, Or.inl hk⟩

theorem parseFields_ctx {body fs r : List Str} (h : parseFields body = .ok (fs, r)) (rest : List Str)
    (hr : ResFollow rest) : parseFields (body ++ rest) = .ok (fs, r ++ rest) := by
  unfold parseFields at h ⊢
  cases hs : scanFields body with
  | none =>
    rw [hs] at h; cases h
    have : scanFields (body ++ rest) = none := by
      apply scanFields_ctx_none hs
      rcases hr with rfl | ⟨k, r, rfl, hk, hin, _⟩
      · exact Or.inl rfl
      · exact Or.inr ⟨k, r, rfl, hk, hin⟩
    rw [this]
  | some p =>
    obtain ⟨fs', r'⟩ := p
    rw [hs] at h
    rw [scanFields_ctx_some hs rest]
    simp only [] at h ⊢
    split at h
    · cases h
    · rename_i h1
      split at h
      · rename_i h2; cases h; simp only [if_neg h1, if_pos h2]
      · cases h

theorem parseSource_ctx {body : List Str} {a : Str × List Str} (h : parseSource body = .ok (a, []))
    (rest : List Str) (hr : ResFollow rest) : parseSource (body ++ rest) = .ok (a, rest) := by
  unfold parseSource at h ⊢
  cases hf : parseFields body with
  | error e => rw [hf] at h; cases h
  | ok p =>
    obtain ⟨fs, r⟩ := p
    rw [hf] at h
    rw [parseFields_ctx hf rest hr]
    simp only [] at h ⊢
    cases hi : parseIndirect false r with
    | error e => rw [hi] at h; cases h
    | ok q =>
      obtain ⟨pth, r'⟩ := q
      rw [hi] at h
      simp only [] at h
      cases h
      rw [parseIndirect_ctx false r pth hi rest (hr.restOK _)]

theorem directPairs_ctx (more : List Str) (acc : List (Str × Val)) :
    ∀ pairs, directPairs more acc = .ok (pairs, []) →
    ∀ rest, (rest = [] ∨ ∃ k r, rest = k :: r ∧ isReserved k = true) →
      directPairs (more ++ rest) acc = .ok (pairs, rest) := by
  fun_induction directPairs more acc
  case case1 acc =>
    intro pairs h rest hr; cases h
    rcases hr with rfl | ⟨k, r, rfl, hk⟩
    · simp [directPairs]
    · cases r with
      | nil => simp [directPairs, hk]
      | cons v r' => simp [directPairs, hk]
  case case2 => intro pairs h; cases h
  case case3 => intro pairs h; cases h
  case case4 => intro pairs h; cases h
  case case5 => intro pairs h; cases h
  case case6 => intro pairs h; cases h
  case case7 f v rest0 acc h1 h2 val hv ih =>
    intro pairs h rest hr
    have := ih pairs h rest hr
    simp only [List.cons_append]
    unfold directPairs
    simp only [if_neg h1, if_neg h2, hv, this]

theorem directFirst_ctx {body : List Str} {fv : Str × Str} {more : List Str}
    (h : directFirst body = .ok (fv, more)) (hmore : ∀ k r, more = k :: r → isReserved k = false)
    (rest : List Str) (hr : rest = [] ∨ ∃ k r, rest = k :: r ∧ isReserved k = true) :
    directFirst (body ++ rest) = .ok (fv, more ++ rest) := by
  unfold directFirst at h
  split at h
  · cases h
  · rename_i v
    split at h
    · cases h
    · rename_i hv
      cases h
      rcases hr with rfl | ⟨k, r, rfl, hk⟩
      · simp [directFirst, hv]
      · simp [directFirst, hv, hk]
  · rename_i f v rest0
    split at h
    · cases h
    · rename_i hf
      split at h
      · rename_i hv
        cases h
        exact absurd hv (by simp [hmore v rest0 rfl])
      · rename_i hv
        cases h
        simp [directFirst, hf, hv]

/-- `parseDirect`: direct data that parses alone parses the same before a reserved word -/
theorem parseDirect_ctx {body : List Str} {d : List (Str × Val)} (h : parseDirect body = .ok (d, []))
    (rest : List Str) (hr : rest = [] ∨ ∃ k r, rest = k :: r ∧ isReserved k = true) :
    parseDirect (body ++ rest) = .ok (d, rest) := by
  unfold parseDirect at h ⊢
  cases hf : directFirst body with
  | error e => rw [hf] at h; cases h
  | ok p =>
    obtain ⟨⟨field, vtext⟩, more⟩ := p
    rw [hf] at h
    simp only [] at h
    cases hc : convert2StrBoolPathCoordPointNum vtext with
    | error e => rw [hc] at h; cases h
    | ok val =>
      rw [hc] at h
      simp only [] at h
      cases hp : directPairs more [(field, val)] with
      | error e => rw [hp] at h; cases h
      | ok q =>
        obtain ⟨pairs, r'⟩ := q
        rw [hp] at h
        simp only [] at h
        have hr' : r' = [] := by
          unfold directFinish at h
          simp only [] at h
          split at h
          · cases h
          · split at h
            · cases h; rfl
            · cases h
        subst hr'
        -- the token after the first field/value is not reserved: otherwise the pair loop stops there
        have hmore : ∀ k r, more = k :: r → isReserved k = false := by
          intro k r e
          subst e
          cases hk : isReserved k with
          | false => rfl
          | true =>
            exfalso
            cases r with
            | nil => simp [directPairs, hk] at hp
            | cons v r2 => simp [directPairs, hk] at hp
        rw [directFirst_ctx hf hmore rest hr]
        simp only [hc]
        rw [directPairs_ctx more _ pairs hp rest hr]
        simp only []
        unfold directFinish at h ⊢
        simp only [] at h ⊢
        split at h
        · cases h
        · rename_i h1
          split at h
          · rename_i h2; cases h; simp only [if_neg h1, if_pos h2]
          · cases h

/-! ## from "parses on its own" to "local" -/

/-- a clause built with `clauseOf`: if it parses alone (all tokens consumed) and its value parser is
insensitive to what follows, the clause gives the same configuration in context -/
theorem clauseOf_ctx {α β σ : Type} {parse : List Str → P (α × List Str)} {check : α → P β}
    {upd : σ → β → σ} {body rest : List Str} {s s' : σ}
    (h : clauseOf parse check upd body s = .ok (s', []))
    (hp : ∀ a, parse body = .ok (a, []) → parse (body ++ rest) = .ok (a, rest)) :
    clauseOf parse check upd (body ++ rest) s = .ok (s', rest) := by
  unfold clauseOf at h ⊢
  cases hb : parse body with
  | error e => rw [hb] at h; cases h
  | ok p =>
    obtain ⟨a, r⟩ := p
    rw [hb] at h
    simp only [] at h
    cases hc : check a with
    | error e => rw [hc] at h; cases h
    | ok b =>
      rw [hc] at h
      simp only [] at h
      cases h
      rw [hp a hb]
      simp only [hc]

/-- the update a `clauseOf` clause makes does not depend on the state it starts from -/
theorem clauseOf_state {α β σ : Type} {parse : List Str → P (α × List Str)} {check : α → P β}
    {upd : σ → β → σ} {body : List Str} {s s' : σ} {r : List Str}
    (h : clauseOf parse check upd body s = .ok (s', r)) :
    ∃ b, s' = upd s b ∧ ∀ t, clauseOf parse check upd body t = .ok (upd t b, r) := by
  unfold clauseOf at h
  cases hb : parse body with
  | error e => rw [hb] at h; cases h
  | ok p =>
    obtain ⟨a, r0⟩ := p
    rw [hb] at h
    simp only [] at h
    cases hc : check a with
    | error e => rw [hc] at h; cases h
    | ok b =>
      rw [hc] at h
      simp only [] at h
      cases h
      exact ⟨b, rfl, fun t => by simp [clauseOf, hb, hc]⟩

theorem oneTok_ctx {body : List Str} {a : Str} (h : oneTok body = .ok (a, [])) (rest : List Str) :
    oneTok (body ++ rest) = .ok (a, rest) := by
  cases body with
  | nil => simp [oneTok] at h
  | cons t tl =>
    simp only [oneTok] at h
    cases h
    simp [oneTok]

theorem takeParts_append (stops body : List Str) :
    (takeParts stops body).1 ++ (takeParts stops body).2 = body := by
  induction body with
  | nil => simp [takeParts]
  | cons t tl ih =>
    unfold takeParts
    split
    · simp
    · simp [ih]

theorem asName_ctx {fix : Bool} {body : List Str} {a : Str} (h : asName fix body = .ok (a, []))
    (rest : List Str) (hr : rest = [] ∨ ∃ k r, rest = k :: r ∧ (doAsStops fix).contains k = true) :
    asName fix (body ++ rest) = .ok (a, rest) := by
  unfold asName at h ⊢
  simp only [Except.ok.injEq, Prod.mk.injEq] at h
  have happ := takeParts_append (doAsStops fix) body
  rw [h.2, List.append_nil] at happ
  have hst : takeParts (doAsStops fix) body = (body, []) := Prod.ext happ h.2
  rw [takeParts_ctx _ body hst rest hr]
  simp only [Except.ok.injEq, Prod.mk.injEq, and_true]
  rw [← h.1, hst]

/-! ## order independence for clause texts -/

/-- the configuration after one clause run on its own -/
def run1 {σ : Type} (v : Verb σ) (k : Str) (b : List Str) (s : σ) : σ :=
  match v.clause k b s with
  | .ok (s', _) => s'
  | .error _ => s

def semOf {σ : Type} (v : Verb σ) (c : List Str) : ClauseSem σ :=
  match c with
  | k :: b => ⟨k, b, run1 v k b⟩
  | [] => ⟨[], [], id⟩

/-- **locality of a clause text**: it parses on its own from any state (consuming all its tokens) and
parses to the same configuration, leaving the continuation untouched, whenever the continuation is
empty or starts with one of the words `K` -/
def LocalText {σ : Type} (v : Verb σ) (K : List Str) (c : List Str) : Prop :=
  ∃ k b, c = k :: b ∧ ∀ s rest, Follows K rest →
    ∃ s', v.clause k b s = .ok (s', []) ∧ v.clause k (b ++ rest) s = .ok (s', rest)

/-- clauses with different connectives change different parts of the configuration -/
def Commutes {σ : Type} (v : Verb σ) (K : List Str) : Prop :=
  ∀ k1 k2 b1 b2 s s1 s2 s12 s21, k1 ∈ K → k2 ∈ K → k1 ≠ k2 →
    v.clause k1 b1 s = .ok (s1, []) → v.clause k2 b2 s1 = .ok (s12, []) →
    v.clause k2 b2 s = .ok (s2, []) → v.clause k1 b1 s2 = .ok (s21, []) → s12 = s21

theorem flat_semOf {σ : Type} (v : Verb σ) (cs : List (List Str)) (h : ∀ c ∈ cs, c ≠ []) :
    flat (cs.map (semOf v)) = cs.flatten := by
  induction cs with
  | nil => rfl
  | cons c cs ih =>
    have hc := h c (List.mem_cons_self ..)
    cases c with
    | nil => exact absurd rfl hc
    | cons k b =>
      simp only [List.map_cons, List.flatten_cons]
      rw [← ih (fun x hx => h x (List.mem_cons_of_mem _ hx))]
      simp [flat, semOf, ClauseSem.text]

theorem mem_keysOf {cs : List (List Str)} {k : Str} {b : List Str} (h : (k :: b) ∈ cs) : k ∈ keysOf cs := by
  unfold keysOf
  rw [List.mem_filterMap]
  exact ⟨k :: b, h, rfl⟩

/-- **C15 for clause texts.** Clause texts with pairwise different connectives, each local with respect
to the connectives actually present (and the words `E` that may start what follows the clauses), for a
verb whose clauses commute: all arrangements give the same result, and the clauses themselves always
parse (the result is that of the tail run from the folded configuration). -/
theorem texts_order_independent {σ : Type} (v : Verb σ) (K E : List Str) (cs₁ cs₂ : List (List Str))
    (hp : cs₁.Perm cs₂) (hK : ∀ k ∈ keysOf cs₁, k ∈ K)
    (hd : ∀ a ∈ cs₁, ∀ b ∈ cs₁, a ≠ b → a.head? ≠ b.head?)
    (hl : ∀ c ∈ cs₁, LocalText v (keysOf cs₁ ++ E) c) (hc : Commutes v K)
    (tail : List Str) (ht : Follows E tail) (s : σ) :
    runClauses v (cs₁.flatten ++ tail) s = runClauses v (cs₂.flatten ++ tail) s ∧
    ∃ cfg, runClauses v (cs₁.flatten ++ tail) s = runClauses v tail cfg := by
  have hne : ∀ c ∈ cs₁, c ≠ [] := by
    intro c hcm; obtain ⟨k, b, e, _⟩ := hl c hcm; rw [e]; simp
  have hne2 : ∀ c ∈ cs₂, c ≠ [] := fun c hcm => hne c (hp.mem_iff.mpr hcm)
  rw [← flat_semOf v cs₁ hne, ← flat_semOf v cs₂ hne2]
  have ht' : Follows (keysOf cs₁ ++ E) tail := by
    rcases ht with rfl | ⟨k, r, hk, rfl⟩
    · exact Or.inl rfl
    · exact Or.inr ⟨k, r, List.mem_append_right _ hk, rfl⟩
  have hkey : ∀ c ∈ cs₁.map (semOf v), c.key ∈ keysOf cs₁ ++ E := by
    intro c hcm
    obtain ⟨t, ht, rfl⟩ := List.mem_map.mp hcm
    obtain ⟨k, b, e, _⟩ := hl t ht
    subst e
    exact List.mem_append_left _ (mem_keysOf ht)
  have hloc : ∀ c ∈ cs₁.map (semOf v), Local v (keysOf cs₁ ++ E) c := by
    intro c hcm
    obtain ⟨t, ht, rfl⟩ := List.mem_map.mp hcm
    obtain ⟨k, b, e, hloc⟩ := hl t ht
    subst e
    intro s rest hr
    obtain ⟨s', h1, h2⟩ := hloc s rest hr
    simp only [semOf, run1, h1]
    exact h2
  have hcomm : ∀ a ∈ cs₁.map (semOf v), ∀ b ∈ cs₁.map (semOf v), ∀ s, b.upd (a.upd s) = a.upd (b.upd s) := by
    intro a ha b hb s
    obtain ⟨ta, hta, rfl⟩ := List.mem_map.mp ha
    obtain ⟨tb, htb, rfl⟩ := List.mem_map.mp hb
    by_cases e : ta = tb
    · subst e; rfl
    · obtain ⟨ka, ba, ea, hla⟩ := hl ta hta
      obtain ⟨kb, bb, eb, hlb⟩ := hl tb htb
      subst ea; subst eb
      have hkne : ka ≠ kb := by
        have := hd _ hta _ htb e
        simpa using this
      obtain ⟨s1, h1, _⟩ := hla s [] (Or.inl rfl)
      obtain ⟨s12, h12, _⟩ := hlb s1 [] (Or.inl rfl)
      obtain ⟨s2, h2, _⟩ := hlb s [] (Or.inl rfl)
      obtain ⟨s21, h21, _⟩ := hla s2 [] (Or.inl rfl)
      have := hc ka kb ba bb s s1 s2 s12 s21 (hK _ (mem_keysOf hta)) (hK _ (mem_keysOf htb)) hkne h1 h12 h2 h21
      simp only [semOf, run1, h1, h12, h2, h21]
      exact this
  refine ⟨runClauses_perm v _ _ _ (hp.map _) hkey hloc hcomm tail ht' s, ?_⟩
  exact ⟨_, runClauses_local_tail v _ _ hkey hloc tail ht' s⟩

end Ioflo.Clauses
