import IofloModel.Model.Clones
/-!
Helper lemmas for C12 (clones, rear, raze).  Core Lean only.
-/
namespace Ioflo.Clones
open Ioflo.ResolvePath

/-! ## relative paths -/

/-- the resolved form of a path that starts `framer.me`: only the guard of fix D68 and the substitution block work on it -/
theorem resolveParts_framer_me (c : Ctx) (inode : Option (List String)) (rest : List String) :
    resolveParts c inode ("framer" :: "me" :: rest)
      = if incompletePath ("framer" :: "me" :: rest) then .error .incomplete else substFramer c ("me" :: rest) := by
  unfold resolveParts prepend
  have h1 : addInode (framerParts c) (overParts c) inode ("framer" :: "me" :: rest) = "framer" :: "me" :: rest := by
    unfold addInode
    cases inode <;> simp
  simp [h1, addCtx, absOrFramer]

/-- what `substFramer` does to the part after `framer.me`: the frame, main and actor substitutions; it does not
look at the framer's own name -/
def substTail (c : Ctx) : List String → Except Ioflo.ResolvePath.Err (List String)
  | [] => .ok []
  | p2 :: rest3 =>
    if p2 = "frame" then
      match rest3 with
      | [] => .error .incomplete
      | p3 :: rest4 => do
        let p3 ← substFrameName c p3
        match rest4 with
        | [] => return ["frame", p3]
        | p4 :: rest5 =>
          if p4 = "actor" then do
            let tail ← substActor c rest5
            return "frame" :: p3 :: "actor" :: tail
          else return "frame" :: p3 :: p4 :: rest5
    else if p2 = "actor" then do
      let tail ← substActor c rest3
      return "actor" :: tail
    else return p2 :: rest3

theorem substFramer_me (c : Ctx) (rest : List String) :
    substFramer c ("me" :: rest) = (substTail c rest).map (fun t => "framer" :: c.framerName :: t) := by
  unfold substFramer substTail
  simp only [substFramerName, if_true, bind, Except.bind, pure, Except.pure]
  cases rest with
  | nil => rfl
  | cons p2 rest3 =>
    simp only []
    by_cases h2 : p2 = "frame"
    · simp only [h2, if_true]
      cases rest3 with
      | nil => rfl
      | cons p3 rest4 =>
        simp only []
        cases substFrameName c p3 with
        | error e => rfl
        | ok q3 =>
          simp only []
          cases rest4 with
          | nil => rfl
          | cons p4 rest5 =>
            simp only []
            by_cases h4 : p4 = "actor"
            · simp only [h4, if_true]
              cases substActor c rest5 <;> rfl
            · simp only [h4, if_false]; rfl
    · simp only [h2, if_false]
      by_cases h2' : p2 = "actor"
      · simp only [h2', if_true]
        cases substActor c rest3 <;> rfl
      · simp only [h2', if_false]; rfl

/-- the frame / main / actor substitutions read the own frame's name, the main frame and framer, and the actor only -/
theorem substTail_congr (c1 c2 : Ctx) (rest : List String)
    (hf : c1.frames.head?.map (·.name) = c2.frames.head?.map (·.name))
    (hm : c1.mains.head?.map (fun m => m.chain.head?.map (·.name)) = c2.mains.head?.map (fun m => m.chain.head?.map (·.name)))
    (ha : c1.actor = c2.actor) :
    substTail c1 rest = substTail c2 rest := by
  have hfn : ∀ p, substFrameName c1 p = substFrameName c2 p := by
    intro p
    unfold substFrameName
    rw [hf]
    cases h1 : c1.mains <;> cases h2 : c2.mains <;> simp [h1, h2] at hm ⊢
    rw [hm]
  have hact : ∀ l, substActor c1 l = substActor c2 l := by
    intro l
    unfold substActor
    rw [ha]
  unfold substTail
  cases rest with
  | nil => rfl
  | cons p2 rest3 =>
    simp only []
    cases rest3 with
    | nil => simp [hact]
    | cons p3 rest4 => simp [hfn, hact]

/-- replace the second segment -/
def setName (n : String) : List String → List String
  | a :: _ :: t => a :: n :: t
  | l => l

/-! ## association lists -/

theorem lookup_nil {α : Type} (k : String) : lookup ([] : List (String × α)) k = none := rfl

theorem lookup_cons {α : Type} (a : String × α) (t : List (String × α)) (k : String) :
    lookup (a :: t) k = if a.1 = k then some a.2 else lookup t k := by
  unfold lookup
  by_cases h : a.1 = k <;> simp [List.find?_cons, h]

theorem lookup_append {α : Type} (l1 l2 : List (String × α)) (k : String) :
    lookup (l1 ++ l2) k = (lookup l1 k).or (lookup l2 k) := by
  induction l1 with
  | nil => simp [lookup_nil]
  | cons a t ih =>
    rw [List.cons_append, lookup_cons, lookup_cons]
    by_cases h : a.1 = k <;> simp [h, ih]

theorem any_key_iff {α : Type} (l : List (String × α)) (k : String) :
    l.any (fun kv => kv.1 == k) = (lookup l k).isSome := by
  induction l with
  | nil => rfl
  | cons a t ih =>
    rw [lookup_cons]
    by_cases h : a.1 = k <;> simp [h, ih]

theorem lookup_replace_self {α : Type} (l : List (String × α)) (k : String) (v : α) :
    lookup (l.map (fun kv => if kv.1 == k then (k, v) else kv)) k = (lookup l k).map (fun _ => v) := by
  induction l with
  | nil => rfl
  | cons a t ih =>
    rw [List.map_cons, lookup_cons, lookup_cons]
    by_cases ha : a.1 = k
    · simp [ha]
    · simp [ha]; simpa using ih

theorem lookup_replace_other {α : Type} (l : List (String × α)) (k k' : String) (v : α) (h : k' ≠ k) :
    lookup (l.map (fun kv => if kv.1 == k then (k, v) else kv)) k' = lookup l k' := by
  induction l with
  | nil => rfl
  | cons a t ih =>
    rw [List.map_cons, lookup_cons, lookup_cons]
    by_cases ha : a.1 = k
    · have h1 : ¬ k = k' := fun e => h e.symm
      have h2 : ¬ a.1 = k' := fun e => h (e.symm.trans ha)
      simp [ha, h1]; simpa [ha] using ih
    · simp [ha]
      by_cases hb : a.1 = k'
      · simp [hb]
      · simp [hb]; simpa using ih

theorem lookup_assign_self {α : Type} (l : List (String × α)) (k : String) (v : α) :
    lookup (assign l k v) k = some v := by
  unfold assign
  rw [any_key_iff]
  split
  · rename_i h
    rw [lookup_replace_self]
    cases hl : lookup l k with
    | some x => rfl
    | none => simp [hl] at h
  · rename_i h
    rw [lookup_append]
    cases hl : lookup l k with
    | some x => simp [hl] at h
    | none => simp [lookup_cons]

theorem lookup_assign_other {α : Type} (l : List (String × α)) (k k' : String) (v : α) (h : k' ≠ k) :
    lookup (assign l k v) k' = lookup l k' := by
  unfold assign
  split
  · exact lookup_replace_other l k k' v h
  · rw [lookup_append]
    have h1 : ¬ k = k' := fun e => h e.symm
    simp [lookup_cons, lookup_nil, h1]

theorem lookup_erase_self {α : Type} (l : List (String × α)) (k : String) : lookup (erase l k) k = none := by
  unfold erase
  induction l with
  | nil => rfl
  | cons a t ih =>
    by_cases ha : a.1 = k
    · simp [List.filter_cons, ha, ih]
    · simp [List.filter_cons, ha, lookup_cons, ih]

theorem lookup_erase_other {α : Type} (l : List (String × α)) (k k' : String) (h : k' ≠ k) :
    lookup (erase l k) k' = lookup l k' := by
  unfold erase
  induction l with
  | nil => rfl
  | cons a t ih =>
    by_cases ha : a.1 = k
    · have h2 : ¬ a.1 = k' := fun e => h (e.symm.trans ha)
      rw [lookup_cons]
      simp only [h2, if_false]
      simp [List.filter_cons, ha, ih]
    · simp [List.filter_cons, ha, lookup_cons, ih]

/-- the keys of an association list -/
def keys {α : Type} (l : List (String × α)) : List String := l.map (·.1)

theorem lookup_isSome_iff {α : Type} (l : List (String × α)) (k : String) : (lookup l k).isSome ↔ k ∈ keys l := by
  unfold keys
  induction l with
  | nil => simp [lookup_nil]
  | cons a t ih =>
    rw [lookup_cons]
    by_cases ha : a.1 = k
    · simp [ha]
    · have : ¬ k = a.1 := fun e => ha e.symm
      simp [ha, this, ih]

theorem lookup_none_iff {α : Type} (l : List (String × α)) (k : String) : lookup l k = none ↔ k ∉ keys l := by
  rw [← lookup_isSome_iff]
  cases lookup l k <;> simp

theorem keys_assign_fresh {α : Type} (l : List (String × α)) (k : String) (v : α) (h : k ∉ keys l) :
    keys (assign l k v) = keys l ++ [k] := by
  unfold assign
  rw [any_key_iff]
  have : (lookup l k).isSome = false := by
    cases hl : (lookup l k).isSome
    · rfl
    · exact absurd ((lookup_isSome_iff l k).mp hl) h
  simp [this, keys]

theorem keys_erase {α : Type} (l : List (String × α)) (k : String) : keys (erase l k) = (keys l).filter (· != k) := by
  unfold erase keys
  induction l with
  | nil => rfl
  | cons a t ih =>
    by_cases ha : a.1 = k <;> simp [List.filter_cons, ha, ih]

/-! ## the heap -/

theorem find_map_mod' (l : List Fr) (u v : Nat) (f : Fr → Fr) (hf : ∀ o, o.uid = u → (f o).uid = u) :
    (l.map (fun o => if o.uid == u then f o else o)).find? (fun o => o.uid == v)
      = if v = u then (l.find? (fun o => o.uid == v)).map f else l.find? (fun o => o.uid == v) := by
  induction l with
  | nil => simp
  | cons a t ih =>
    rw [List.map_cons]
    have huid : (if (a.uid == u) = true then f a else a).uid = a.uid := by
      split
      · rename_i h; have h' : a.uid = u := by simpa using h
        rw [hf a h', h']
      · rfl
    by_cases hav : a.uid = v
    · rw [List.find?_cons_of_pos (by rw [huid]; simp [hav]), List.find?_cons_of_pos (by simp [hav])]
      by_cases hvu : v = u
      · simp [hvu, hav.trans hvu]
      · have : ¬ a.uid = u := fun e => hvu (hav.symm.trans e)
        simp [hvu, this]
    · rw [List.find?_cons_of_neg (by rw [huid]; simp [hav]), List.find?_cons_of_neg (by simp [hav])]
      exact ih

theorem get?_mod' (s : St) (u v : Nat) (f : Fr → Fr) (hf : ∀ o, o.uid = u → (f o).uid = u) :
    (s.mod u f).get? v = if v = u then (s.get? v).map f else s.get? v :=
  find_map_mod' s.objs u v f hf

theorem find_map_mod (l : List Fr) (u v : Nat) (f : Fr → Fr) (hf : ∀ o, (f o).uid = o.uid) :
    (l.map (fun o => if o.uid == u then f o else o)).find? (fun o => o.uid == v)
      = if v = u then (l.find? (fun o => o.uid == v)).map f else l.find? (fun o => o.uid == v) :=
  find_map_mod' l u v f (fun o h => (hf o).trans h)

theorem get?_mod (s : St) (u v : Nat) (f : Fr → Fr) (hf : ∀ o, (f o).uid = o.uid) :
    (s.mod u f).get? v = if v = u then (s.get? v).map f else s.get? v :=
  find_map_mod s.objs u v f hf

theorem get?_mod_self (s : St) (u : Nat) (f : Fr → Fr) (hf : ∀ o, (f o).uid = o.uid) :
    (s.mod u f).get? u = (s.get? u).map f := by
  rw [get?_mod s u u f hf]; simp

theorem get?_mod_other (s : St) (u v : Nat) (f : Fr → Fr) (hf : ∀ o, (f o).uid = o.uid) (h : v ≠ u) :
    (s.mod u f).get? v = s.get? v := by
  rw [get?_mod s u v f hf]; simp [h]


theorem get?_append_fresh (s : St) (c : Fr) (h : s.get? c.uid = none) (v : Nat) :
    ({ s with objs := s.objs ++ [c] } : St).get? v = if v = c.uid then some c else s.get? v := by
  unfold St.get? at *
  simp only [List.find?_append]
  by_cases hv : v = c.uid
  · subst hv
    simp [h]
  · have : ¬ c.uid = v := fun e => hv e.symm
    cases hf : s.objs.find? (fun o => o.uid == v) <;> simp [hv, this]

/-- what `Framer(name=…)` does to the heap -/
theorem get?_newFramer (s : St) (house name tag : String) (sched : Sched) (hfresh : s.get? s.nextUid = none) (v : Nat) :
    (newFramer s house name tag sched).1.get? v
      = if v = s.nextUid then some (newFramer s house name tag sched).2 else s.get? v := by
  simp only [newFramer]
  exact get?_append_fresh s _ hfresh v

/-- what a successful `Framer.clone` does to the house -/
theorem cloneFramer_spec (s s1 : St) (orig c1 : Fr) (name tag : String) (hfresh : s.get? s.nextUid = none)
    (hc : cloneFramer s orig name tag = .ok (s1, c1)) :
    c1.uid = s.nextUid ∧ c1.name = name ∧ c1.tag = (if tag = "" then name else tag) ∧
    c1.frames = orig.frames.map Frame.clone ∧ c1.original = true ∧ c1.ctl = {} ∧ c1.main = none ∧
    (∀ v, s1.get? v = if v = s.nextUid then some c1 else s.get? v) ∧
    s1.names = assign s.names name s.nextUid ∧ s1.presolvables = s.presolvables ∧ s1.nextUid = s.nextUid + 1 ∧
    lookup s.names name = none := by
  unfold cloneFramer at hc
  split at hc
  · cases hc
  · split at hc
    · cases hc
    · rename_i hn
      split at hc
      · cases hc
      · have hl : lookup s.names name = none := by
          cases hq : lookup s.names name with
          | none => rfl
          | some x => simp [hq] at hn
        have hget : ∀ v, (newFramer s orig.house name tag .aux).1.get? v
            = if v = s.nextUid then some (newFramer s orig.house name tag .aux).2 else s.get? v :=
          get?_newFramer s orig.house name tag .aux hfresh
        generalize hnf : newFramer s orig.house name tag .aux = r at hc hget
        obtain ⟨s2, c2⟩ := r
        have hc2 : c2.uid = s.nextUid ∧ c2.name = name ∧ c2.tag = (if tag = "" then name else tag) ∧
            c2.original = true ∧ c2.ctl = {} ∧ c2.main = none ∧
            s2.names = assign s.names name s.nextUid ∧ s2.presolvables = s.presolvables ∧ s2.nextUid = s.nextUid + 1 := by
          simp only [newFramer] at hnf
          injection hnf with e1 e2
          subst e1 e2
          exact ⟨rfl, rfl, rfl, rfl, rfl, rfl, rfl, rfl, rfl⟩
        simp only [] at hc
        injection hc with hc
        injection hc with hc1 hc2'
        subst hc2'
        subst hc1
        obtain ⟨u1, u2, u3, u4, u5, u6, u7, u8, u9⟩ := hc2
        refine ⟨u1, u2, u3, rfl, u4, u5, u6, ?_, u7, u8, u9, hl⟩
        intro v
        have := get?_mod' s2 c2.uid v
          (fun _ => { c2 with first := orig.first, moots := orig.moots, inode := orig.inode,
                              frames := orig.frames.map Frame.clone }) (fun _ _ => rfl)
        rw [this, u1]
        by_cases hv : v = s.nextUid
        · simp [hv, hget]
        · simp [hv, hget]

end Ioflo.Clones
