import IofloModel.Lemmas.Clones
/-!
A stand-alone interpreter for ONE framer without auxiliaries (`Leaf`), over a private store keyed by the references of
its script, and the proof that the framer core of Model/Clones.lean, run on such a framer object inside any house,
is this interpreter seen through the resolution map of the object.
-/
namespace Ioflo.Clones

/-! ### renaming the references of a script -/

def NeedK.mapRef (g : String → String) : NeedK → NeedK
  | .state r op v => .state (g r) op v
  | k => k

def Need.mapRef (g : String → String) (n : Need) : Need := { n with k := n.k.mapRef g }

def ActK.mapRef (g : String → String) : ActK → ActK
  | .io r => .io (g r)
  | .put v r => .put v (g r)
  | .inc r v => .inc (g r) v
  | a => a

def Item.mapRef (g : String → String) : Item → Item
  | .act c a => .act c (a.mapRef g)
  | .go far ns => .go far (ns.map (Need.mapRef g))
  | .cond ns => .cond (ns.map (Need.mapRef g))
  | it => it

def Frame.mapRef (g : String → String) (f : Frame) : Frame := { f with items := f.items.map (Item.mapRef g) }

/-! ### what a leaf script may contain -/

def ActK.leafy : ActK → Bool
  | .rear _ _ => false
  | .raze _ _ => false
  | _ => true

def NeedK.leafy : NeedK → Bool
  | .auxTag _ => false
  | .auxObj _ => false
  | _ => true

def Item.leafy : Item → Bool
  | .act _ a => a.leafy
  | .go _ ns => ns.all (fun n => n.k.leafy)
  | .aux _ _ _ => true
  | .under _ => true
  | .cond ns => ns.all (fun n => n.k.leafy)

def Frame.leafy (f : Frame) : Bool := f.auxes.isEmpty && f.items.all Item.leafy

/-! ### the leaf interpreter -/

structure LSt where
  ctl : Ctl
  mem : String → Option Int
  now : Int
  ev : List (String × Ctxt × String) := []      -- (frame, context, tag), newest first

def upd (m : String → Option Int) (k : String) (v : Option Int) : String → Option Int :=
  fun k' => if k' = k then v else m k'

def kElapsed : String := "state.elapsed"
def kRecurred : String := "state.recurred"

def lforEach {α : Type} (f : α → LSt → Except Err LSt) : List α → LSt → Except Err LSt
  | [], l => .ok l
  | x :: xs, l =>
    match f x l with
    | .error e => .error e
    | .ok l' => lforEach f xs l'

section leaf
variable (P : List Frame) (first : String)

def lframe (fn : String) : Except Err Frame :=
  match P.find? (fun f => f.name == fn) with
  | none => .error .internal
  | some f => .ok f

def lrunAct (fn : String) (c : Ctxt) (a : ActK) (l : LSt) : Except Err LSt :=
  match a with
  | .record tag => .ok { l with ev := (fn, c, tag) :: l.ev }
  | .io k =>
    let v := match l.mem k with | none => 1 | some v => v + 1
    .ok { l with mem := upd l.mem k (some v), ev := (fn, c, "io=" ++ toString v) :: l.ev }
  | .put v k => .ok { l with mem := upd l.mem k (some v) }
  | .inc k d => match l.mem k with | none => .ok l | some v => .ok { l with mem := upd l.mem k (some (v + d)) }
  | .done => .ok { l with ctl := { l.ctl with done := true } }
  | .rear _ _ => .error .internal
  | .raze _ _ => .error .internal

def lrunActs (fn : String) (c : Ctxt) (acts : List ActK) (l : LSt) : Except Err LSt :=
  lforEach (lrunAct fn c) acts l

def lneedHolds (l : LSt) (n : Need) : Except Err Bool :=
  let r : Except Err Bool :=
    match n.k with
    | .state k op v => check (l.mem k) op v
    | .allDone => .ok false
    | .anyDone => .ok false
    | .auxObj _ => .error .internal
    | .auxTag _ => .error .internal
  r.map (fun b => if n.neg then !b else b)

def lframeCheckEnter (l : LSt) (fn : String) : Except Err Bool :=
  match lframe P fn with
  | .error e => .error e
  | .ok f => allM (lneedHolds l) f.beacts

def lcheckEnter (enters : List String) (l : LSt) : Except Err Bool :=
  if enters.isEmpty then .ok false
  else allM (lframeCheckEnter P l) enters

def lframeEnter (fn : String) (l : LSt) : Except Err LSt :=
  match lframe P fn with
  | .error e => .error e
  | .ok f => lrunActs fn .enter (f.acts .enter) l

def lrestart (l : LSt) : LSt :=
  { l with ctl := { l.ctl with stamp := l.now, elapsed := 0, recurred := 0 },
           mem := upd (upd l.mem kElapsed (some 0)) kRecurred (some 0) }

def lupdate (l : LSt) : LSt :=
  let el := l.now - l.ctl.stamp
  let rc := l.ctl.recurred + 1
  { l with ctl := { l.ctl with elapsed := el, recurred := rc },
           mem := upd (upd l.mem kElapsed (some el)) kRecurred (some rc) }

def lenter (enters : List String) (l : LSt) : Except Err LSt :=
  lforEach (lframeEnter P) enters (if enters.isEmpty then l else lrestart l)

def lframeExit (fn : String) (l : LSt) : Except Err LSt :=
  match lframe P fn with
  | .error e => .error e
  | .ok f => lrunActs fn .exit (f.acts .exit) l

def lexit (exits : List String) (l : LSt) : Except Err LSt := lforEach (lframeExit P) exits.reverse l

def lrexit (rexits : List String) (l : LSt) : Except Err LSt :=
  lforEach (fun fn l =>
    match lframe P fn with
    | .error e => .error e
    | .ok f => lrunActs fn .rexit (f.acts .rexit) l) rexits.reverse l

def lrenter (renters : List String) (l : LSt) : Except Err LSt :=
  lforEach (fun fn l =>
    match lframe P fn with
    | .error e => .error e
    | .ok f => lrunActs fn .renter (f.acts .renter) l) renters l

def lactivate (fn : String) (l : LSt) : Except Err LSt :=
  match lframe P fn with
  | .error e => .error e
  | .ok f => .ok { l with ctl := { l.ctl with active := some fn, actives := f.outline } }

def lenterAll (l : LSt) : Except Err LSt :=
  match lactivate P first { l with ctl := { l.ctl with done := false } } with
  | .error e => .error e
  | .ok l => lenter P l.ctl.actives l

def lexitAll (abort : Bool) (l : LSt) : Except Err LSt :=
  match lexit P l.ctl.actives l with
  | .error e => .error e
  | .ok l =>
    let l := { l with ctl := { l.ctl with active := none, actives := [] } }
    .ok (if abort then l else { l with ctl := { l.ctl with done := true } })

def lframeRecur (fn : String) (l : LSt) : Except Err LSt :=
  match lframe P fn with
  | .error e => .error e
  | .ok f => lrunActs fn .recur (f.acts .recur) l

def lrecur (l : LSt) : Except Err LSt := lforEach (lframeRecur P) l.ctl.actives l

def lcheckStart (l : LSt) : Except Err Bool :=
  match lframe P first with
  | .error e => .error e
  | .ok f => lcheckEnter P f.outline l

def ltransitBody (exits reexens enters : List String) (l : LSt) : Except Err LSt :=
  match lexit P exits l with
  | .error e => .error e
  | .ok l =>
    match lrexit P reexens l with
    | .error e => .error e
    | .ok l =>
      match lrenter P reexens l with
      | .error e => .error e
      | .ok l => lenter P enters l

def ltransit (far : String) (needs : List Need) (l : LSt) : Except Err (Bool × LSt) :=
  match allM (lneedHolds l) needs with
  | .error e => .error e
  | .ok false => .ok (false, l)
  | .ok true =>
    match lframe P far with
    | .error e => .error e
    | .ok ff =>
      let (exits, enters, reexens) := exEn far l.ctl.actives ff.outline []
      match lcheckEnter P enters l with
      | .error e => .error e
      | .ok false => .ok (false, l)
      | .ok true =>
        match ltransitBody P exits reexens enters l with
        | .error e => .error e
        | .ok l => (lactivate P far l).map (fun l => (true, l))

def lprecurLoop (fn : String) : List Pre → LSt → Except Err (Bool × LSt)
  | [], l => .ok (false, l)
  | .act a :: ps, l =>
    match lrunAct fn .precur a l with
    | .error e => .error e
    | .ok l => lprecurLoop fn ps l
  | .go far needs :: ps, l =>
    match ltransit P far needs l with
    | .error e => .error e
    | .ok (true, l) => .ok (true, l)
    | .ok (false, l) => lprecurLoop fn ps l

def lsegueLoop : List String → LSt → Except Err LSt
  | [], l => .ok l
  | fn :: fns, l =>
    match lframe P fn with
    | .error e => .error e
    | .ok f =>
      match lprecurLoop P fn f.preacts l with
      | .error e => .error e
      | .ok (true, l) => .ok l
      | .ok (false, l) => lsegueLoop fns l

def lsegue (l : LSt) : Except Err LSt :=
  let l := lupdate l
  match lforEach (fun fn l => (lframe P fn).map (fun _ => l)) l.ctl.actives l with
  | .error e => .error e
  | .ok l' => lsegueLoop P l.ctl.actives l'

end leaf

/-! ### store lemmas -/

theorem read_eq_lookup (s : St) (p : String) : s.read p = (lookup s.store p).join := rfl

theorem storeSet_eq_assign (st : Store) (p : String) (v : Option Int) : storeSet st p v = assign st p v := rfl

theorem read_write_same (s : St) (p : String) (v : Int) : (s.write p v).read p = some v := by
  simp [St.write, read_eq_lookup, storeSet_eq_assign, lookup_assign_self]

theorem read_write_other (s : St) (p p' : String) (v : Int) (h : p' ≠ p) : (s.write p v).read p' = s.read p' := by
  simp [St.write, read_eq_lookup, storeSet_eq_assign, lookup_assign_other _ _ _ _ h]

@[simp] theorem get?_write (s : St) (p : String) (v : Int) (w : Nat) : (s.write p v).get? w = s.get? w := rfl
@[simp] theorem get?_emit (s : St) (x : String) (w : Nat) : (s.emit x).get? w = s.get? w := rfl
@[simp] theorem read_emit (s : St) (x : String) (p : String) : (s.emit x).read p = s.read p := rfl
@[simp] theorem now_write (s : St) (p : String) (v : Int) : (s.write p v).now = s.now := rfl
@[simp] theorem now_emit (s : St) (x : String) : (s.emit x).now = s.now := rfl
@[simp] theorem out_write (s : St) (p : String) (v : Int) : (s.write p v).out = s.out := rfl
@[simp] theorem out_emit (s : St) (x : String) : (s.emit x).out = x :: s.out := rfl
@[simp] theorem read_mod (s : St) (u : Nat) (f : Fr → Fr) (p : String) : (s.mod u f).read p = s.read p := rfl
@[simp] theorem now_mod (s : St) (u : Nat) (f : Fr → Fr) : (s.mod u f).now = s.now := rfl
@[simp] theorem out_mod (s : St) (u : Nat) (f : Fr → Fr) : (s.mod u f).out = s.out := rfl

theorem get?_modCtl_self (s : St) (u : Nat) (g : Ctl → Ctl) :
    (s.modCtl u g).get? u = (s.get? u).map (fun o => { o with ctl := g o.ctl }) :=
  get?_mod_self s u _ (fun _ => rfl)

/-! ### the simulation relation -/

def render (name : String) (e : String × Ctxt × String) : String :=
  "E " ++ name ++ " " ++ e.1 ++ " " ++ ctxName e.2.1 ++ " " ++ e.2.2

/-- what a framer object without auxiliaries leaves alone: every other object, every field of its own object except
the control state, the registry, the worklists, every share its references do not resolve to -/
structure Rest (ι : String → String) (u : Nat) (s0 s : St) : Prop where
  others : ∀ v, v ≠ u → s.get? v = s0.get? v
  self : ∀ o, s.get? u = some o → ∃ o0, s0.get? u = some o0 ∧ o = { o0 with ctl := o.ctl }
  names : s.names = s0.names
  nextUid : s.nextUid = s0.nextUid
  work : s.presolvables = s0.presolvables ∧ s.resolvables = s0.resolvables
  shares : ∀ p, (∀ k, ι k ≠ p) → s.read p = s0.read p
  uids : s.objs.map (·.uid) = s0.objs.map (·.uid)
  now : s.now = s0.now
  regs : s.cur = s0.cur ∧ s.regs = s0.regs ∧ s.houses = s0.houses

structure Sim (ι : String → String) (house name : String) (P : List Frame) (first : String) (u : Nat) (base : List String)
    (s0 : St) (s : St) (l : LSt) : Prop where
  obj : ∃ o, s.get? u = some o ∧ o.name = name ∧ o.frames = P.map (Frame.mapRef ι) ∧ o.first = first ∧ o.ctl = l.ctl
  mem : ∀ k, s.read (ι k) = l.mem k
  now : s.now = l.now
  out : s.out = l.ev.map (render name) ++ base
  rest : Rest ι u s0 s
  hs : ∀ o, s.get? u = some o → o.house = house

def CorrSt (R : St → LSt → Prop) (r : Except Err St) (r' : Except Err LSt) : Prop :=
  match r, r' with
  | .ok s', .ok l' => R s' l'
  | .error e, .error e' => e = e'
  | _, _ => False

def CorrB (r : Except Err Bool) (r' : Except Err Bool) : Prop := r = r'

def CorrBS (R : St → LSt → Prop) (r : Except Err (Bool × St)) (r' : Except Err (Bool × LSt)) : Prop :=
  match r, r' with
  | .ok (b, s'), .ok (b', l') => b = b' ∧ R s' l'
  | .error e, .error e' => e = e'
  | _, _ => False

/-- the ghost state of finding D12r is invisible to the relation -/
theorem Rest.ghost {ι : String → String} {u : Nat} {s0 s : St} (r : Rest ι u s0 s) (q : List (Nat × String)) :
    Rest ι u s0 { s with pending := q } :=
  { others := r.others, self := r.self, names := r.names, nextUid := r.nextUid, work := r.work, shares := r.shares,
    uids := r.uids, now := r.now, regs := r.regs }

theorem Sim.ghost {ι house name P first u base s0} {s : St} {l : LSt} (h : Sim ι house name P first u base s0 s l)
    (q : List (Nat × String)) : Sim ι house name P first u base s0 { s with pending := q } l :=
  { obj := h.obj, mem := h.mem, now := h.now, out := h.out, rest := h.rest.ghost q, hs := h.hs }

theorem corr_ghosted (R : St → LSt → Prop) (hR : ∀ s l q, R s l → R { s with pending := q } l)
    (p : List (Nat × String)) (k : St → Except Err St) (k' : LSt → Except Err LSt)
    (hk : ∀ s l, R s l → CorrSt R (k s) (k' l)) (s : St) (l : LSt) (h : R s l) :
    CorrSt R (ghosted p k s) (k' l) := by
  unfold ghosted
  have c := hk _ l (hR s l (s.pending ++ p) h)
  cases r : k { s with pending := s.pending ++ p } with
  | error e =>
    cases r' : k' l with
    | error e' => rw [r, r'] at c; exact c
    | ok l1 => rw [r, r'] at c; exact c.elim
  | ok s1 =>
    cases r' : k' l with
    | error e' => rw [r, r'] at c; exact c.elim
    | ok l1 => rw [r, r'] at c; exact hR _ _ _ c

theorem corr_forEach {α β : Type} (R : St → LSt → Prop) (f : α → St → Except Err St) (g : β → LSt → Except Err LSt)
    (xs : List α) (ys : List β) (hlen : xs.length = ys.length)
    (h : ∀ x y, (x, y) ∈ xs.zip ys → ∀ s l, R s l → CorrSt R (f x s) (g y l)) :
    ∀ s l, R s l → CorrSt R (forEach f xs s) (lforEach g ys l) := by
  induction xs generalizing ys with
  | nil =>
    cases ys with
    | nil => intro s l hR; exact hR
    | cons y ys => simp at hlen
  | cons x xs ih =>
    cases ys with
    | nil => simp at hlen
    | cons y ys =>
      intro s l hR
      have hx := h x y (by simp) s l hR
      simp only [forEach, lforEach]
      cases hf : f x s with
      | error e =>
        cases hg : g y l with
        | error e' => rw [hf, hg] at hx; exact hx
        | ok l' => rw [hf, hg] at hx; exact hx.elim
      | ok s' =>
        cases hg : g y l with
        | error e' => rw [hf, hg] at hx; exact hx.elim
        | ok l' =>
          rw [hf, hg] at hx
          exact ih ys (by simpa using hlen) (fun a b hab => h a b (by simp [hab])) s' l' hx


/-! ### a frame with renamed references -/

def Pre.mapRef (g : String → String) : Pre → Pre
  | .act a => .act (a.mapRef g)
  | .go far ns => .go far (ns.map (Need.mapRef g))

theorem acts_mapRef (g : String → String) (f : Frame) (c : Ctxt) :
    (Frame.mapRef g f).acts c = (f.acts c).map (ActK.mapRef g) := by
  unfold Frame.acts Frame.mapRef
  simp only
  induction f.items with
  | nil => rfl
  | cons it rest ih =>
    cases it with
    | aux a b d => simpa [List.filterMap_cons, Item.mapRef] using ih
    | under n => simpa [List.filterMap_cons, Item.mapRef] using ih
    | cond ns => simpa [List.filterMap_cons, Item.mapRef] using ih
    | go far ns => simpa [List.filterMap_cons, Item.mapRef] using ih
    | act c' a =>
      by_cases h : c' = c
      · simp [List.filterMap_cons, Item.mapRef, h, ih]
      · simp [List.filterMap_cons, Item.mapRef, h, ih]

theorem preacts_mapRef (g : String → String) (f : Frame) :
    (Frame.mapRef g f).preacts = f.preacts.map (Pre.mapRef g) := by
  unfold Frame.preacts Frame.mapRef
  simp only
  induction f.items with
  | nil => rfl
  | cons it rest ih =>
    cases it with
    | aux a b d => simpa [List.filterMap_cons, Item.mapRef] using ih
    | under n => simpa [List.filterMap_cons, Item.mapRef] using ih
    | cond ns => simpa [List.filterMap_cons, Item.mapRef] using ih
    | go far ns => simp [List.filterMap_cons, Item.mapRef, Pre.mapRef, ih]
    | act c' a =>
      cases c' <;> simp [List.filterMap_cons, Item.mapRef, Pre.mapRef, ih]

theorem find_mapRef (g : String → String) (P : List Frame) (fn : String) :
    (P.map (Frame.mapRef g)).find? (fun f => f.name == fn) = (P.find? (fun f => f.name == fn)).map (Frame.mapRef g) := by
  induction P with
  | nil => rfl
  | cons f rest ih =>
    rw [List.map_cons]
    by_cases h : f.name = fn
    · rw [List.find?_cons_of_pos (by simp [Frame.mapRef, h]), List.find?_cons_of_pos (by simp [h])]; rfl
    · rw [List.find?_cons_of_neg (by simp [Frame.mapRef, h]), List.find?_cons_of_neg (by simp [h])]; exact ih


/-! ### the simulation -/

section sim
variable (lo : Ops) (ι : String → String) (house name : String) (P : List Frame) (first : String) (u : Nat)
  (base : List String) (s0 : St)

theorem Sim.emit {ι house name P first u base s0} {s : St} {l : LSt} (h : Sim ι house name P first u base s0 s l)
    (e : String × Ctxt × String) : Sim ι house name P first u base s0 (s.emit (render name e)) { l with ev := e :: l.ev } :=
  { obj := h.obj, mem := h.mem, now := h.now, out := by simp [h.out]
    rest := { others := h.rest.others, self := h.rest.self, names := h.rest.names, nextUid := h.rest.nextUid,
              work := h.rest.work, shares := h.rest.shares, uids := h.rest.uids, now := h.rest.now, regs := h.rest.regs }
    hs := h.hs }

theorem Sim.write {ι house name P first u base s0} {s : St} {l : LSt} (h : Sim ι house name P first u base s0 s l)
    (hinj : ∀ a b, ι a = ι b → a = b) (k : String) (v : Int) :
    Sim ι house name P first u base s0 (s.write (ι k) v) { l with mem := upd l.mem k (some v) } :=
  { obj := h.obj
    mem := by
      intro k'
      by_cases hk : k' = k
      · subst hk; simp [read_write_same, upd]
      · have : ι k' ≠ ι k := fun e => hk (hinj _ _ e)
        simp [read_write_other _ _ _ _ this, upd, hk, h.mem]
    now := h.now
    out := h.out
    rest :=
      { others := h.rest.others, self := h.rest.self, names := h.rest.names, nextUid := h.rest.nextUid,
        work := h.rest.work, uids := h.rest.uids, now := h.rest.now, regs := h.rest.regs
        shares := fun p hp => by
          have : p ≠ ι k := fun e => hp k e.symm
          rw [read_write_other _ _ _ _ this]
          exact h.rest.shares p hp }
    hs := h.hs }

theorem Sim.modCtl {ι house name P first u base s0} {s : St} {l : LSt} (h : Sim ι house name P first u base s0 s l) (g : Ctl → Ctl) :
    Sim ι house name P first u base s0 (s.modCtl u g) { l with ctl := g l.ctl } := by
  obtain ⟨o, ho, h1, h2, h3, h4⟩ := h.obj
  exact { obj := ⟨{ o with ctl := g o.ctl }, by rw [get?_modCtl_self, ho]; rfl, h1, h2, h3, by simp [h4]⟩
          mem := h.mem, now := h.now, out := h.out
          rest :=
            { others := fun v hv => by
                have := get?_mod_other s u v (fun o => { o with ctl := g o.ctl }) (fun _ => rfl) hv
                rw [St.modCtl, this]; exact h.rest.others v hv
              self := fun o' ho' => by
                rw [get?_modCtl_self, ho] at ho'
                obtain ⟨o0, h0, e0⟩ := h.rest.self o ho
                refine ⟨o0, h0, ?_⟩
                injection ho' with ho'
                subst ho'
                rw [e0]
              names := h.rest.names, nextUid := h.rest.nextUid, work := h.rest.work, now := h.rest.now, regs := h.rest.regs
              shares := h.rest.shares
              uids := by
                rw [← h.rest.uids]
                simp only [St.modCtl, St.mod, List.map_map]
                apply List.map_congr_left
                intro x _
                simp only [Function.comp]
                split <;> rfl }
          hs := fun o' ho' => by
            rw [get?_modCtl_self, ho] at ho'
            injection ho' with ho'
            subst ho'
            exact h.hs o ho }

theorem Sim.fr {ι house name P first u base s0} {s : St} {l : LSt} (h : Sim ι house name P first u base s0 s l) :
    ∃ o, s.fr u = .ok o ∧ o.name = name ∧ o.frames = P.map (Frame.mapRef ι) ∧ o.first = first ∧ o.ctl = l.ctl := by
  obtain ⟨o, ho, rest⟩ := h.obj
  exact ⟨o, by simp [St.fr, ho], rest⟩

theorem Sim.frameOf {ι house name P first u base s0} {s : St} {l : LSt} (h : Sim ι house name P first u base s0 s l) (fn : String) :
    s.frameOf u fn = (lframe P fn).map (Frame.mapRef ι) := by
  obtain ⟨o, ho, _, h2, _, _⟩ := h.obj
  unfold St.frameOf lframe Fr.frame?
  rw [ho]
  simp only [h2, find_mapRef]
  cases P.find? (fun f => f.name == fn) <;> rfl

theorem render_io (name fn : String) (c : Ctxt) (v : Int) :
    "E " ++ name ++ " " ++ fn ++ " " ++ ctxName c ++ " io=" ++ toString v = render name (fn, c, "io=" ++ toString v) := by
  unfold render
  simp only [String.append_assoc]
  rfl

theorem sim_runAct (hinj : ∀ a b, ι a = ι b → a = b) (fn : String) (c : Ctxt) (a : ActK) (ha : a.leafy = true)
    (s : St) (l : LSt) (h : Sim ι house name P first u base s0 s l) :
    CorrSt (Sim ι house name P first u base s0) (runAct lo u fn c (a.mapRef ι) s) (lrunAct fn c a l) := by
  obtain ⟨o, ho, h1, _⟩ := h.fr
  unfold runAct lrunAct
  rw [ho]
  cases a with
  | record tag =>
    simp only [ActK.mapRef, CorrSt]
    have := h.emit (fn, c, tag)
    simpa [render, h1] using this
  | io k =>
    simp only [ActK.mapRef, CorrSt, h.mem k]
    rw [h1, render_io]
    exact (h.write hinj k _).emit _
  | put v k =>
    simp only [ActK.mapRef, CorrSt]
    exact h.write hinj k v
  | inc k d =>
    simp only [ActK.mapRef, h.mem k]
    cases l.mem k with
    | none => exact h
    | some v => exact h.write hinj k (v + d)
  | done =>
    simp only [ActK.mapRef, CorrSt]
    exact h.modCtl (fun x => { x with done := true })
  | rear m f => simp [ActK.leafy] at ha
  | raze w f => simp [ActK.leafy] at ha


theorem corr_forEach_map {α β : Type} (R : St → LSt → Prop) (f : α → St → Except Err St)
    (g : β → LSt → Except Err LSt) (m : β → α) (ys : List β)
    (h : ∀ y, y ∈ ys → ∀ s l, R s l → CorrSt R (f (m y) s) (g y l)) :
    ∀ s l, R s l → CorrSt R (forEach f (ys.map m) s) (lforEach g ys l) := by
  induction ys with
  | nil => intro s l hR; exact hR
  | cons y ys ih =>
    intro s l hR
    have hx := h y (by simp) s l hR
    simp only [List.map_cons, forEach, lforEach]
    cases hf : f (m y) s with
    | error e =>
      cases hg : g y l with
      | error e' => rw [hf, hg] at hx; exact hx
      | ok l' => rw [hf, hg] at hx; exact hx.elim
    | ok s' =>
      cases hg : g y l with
      | error e' => rw [hf, hg] at hx; exact hx.elim
      | ok l' =>
        rw [hf, hg] at hx
        exact ih (fun a ha => h a (by simp [ha])) s' l' hx

theorem corr_forEach_id {β : Type} (R : St → LSt → Prop) (f : β → St → Except Err St)
    (g : β → LSt → Except Err LSt) (ys : List β)
    (h : ∀ y, y ∈ ys → ∀ s l, R s l → CorrSt R (f y s) (g y l)) :
    ∀ s l, R s l → CorrSt R (forEach f ys s) (lforEach g ys l) := by
  have := corr_forEach_map R f g id ys h
  simpa using this

theorem acts_leafy (f : Frame) (hf : f.leafy = true) (c : Ctxt) : ∀ a ∈ f.acts c, a.leafy = true := by
  intro a ha
  unfold Frame.acts at ha
  simp only [List.mem_filterMap] at ha
  obtain ⟨it, hit, hm⟩ := ha
  unfold Frame.leafy at hf
  simp only [Bool.and_eq_true, List.all_eq_true] at hf
  have := hf.2 it hit
  cases it with
  | aux x y z => simp at hm
  | under n => simp at hm
  | cond ns => simp at hm
  | go far ns => simp at hm
  | act c' a' =>
    simp at hm
    obtain ⟨_, rfl⟩ := hm
    simpa [Item.leafy] using this

theorem sim_runActs (hinj : ∀ a b, ι a = ι b → a = b) (fn : String) (c : Ctxt) (acts : List ActK)
    (ha : ∀ a ∈ acts, a.leafy = true) (s : St) (l : LSt) (h : Sim ι house name P first u base s0 s l) :
    CorrSt (Sim ι house name P first u base s0) (runActs lo u fn c (acts.map (ActK.mapRef ι)) s) (lrunActs fn c acts l) := by
  unfold runActs lrunActs
  exact corr_forEach_map _ _ _ _ acts (fun a hm s l hs => sim_runAct lo ι house name P first u base s0 hinj fn c a (ha a hm) s l hs) s l h


theorem lframe_mem {P : List Frame} {fn : String} {f : Frame} (h : lframe P fn = .ok f) : f ∈ P ∧ f.name = fn := by
  unfold lframe at h
  cases hf : P.find? (fun f => f.name == fn) with
  | none => simp [hf] at h
  | some g =>
    simp [hf] at h
    subst h
    exact ⟨List.mem_of_find?_eq_some hf, by simpa using List.find?_some hf⟩

theorem auxes_of_leafy {f : Frame} (h : f.leafy = true) : f.auxes = [] := by
  unfold Frame.leafy at h
  simp only [Bool.and_eq_true, List.isEmpty_iff] at h
  exact h.1

/-- the shape shared by `Frame.enter` and `Frame.recur`: the acts of one context, then the (absent) auxiliaries -/
theorem sim_frameActsThenAuxes (hinj : ∀ a b, ι a = ι b → a = b) (hleaf : ∀ f ∈ P, f.leafy = true)
    (c : Ctxt) (k : Nat → St → Except Err St) (fn : String) (s : St) (l : LSt) (h : Sim ι house name P first u base s0 s l) :
    CorrSt (Sim ι house name P first u base s0)
      (match s.frameOf u fn with
       | .error e => .error e
       | .ok f =>
         match runActs lo u fn c (f.acts c) s with
         | .error e => .error e
         | .ok s =>
           match s.frameOf u fn with
           | .error e => .error e
           | .ok f => forEach k f.auxes s)
      (match lframe P fn with
       | .error e => .error e
       | .ok f => lrunActs fn c (f.acts c) l) := by
  rw [h.frameOf]
  cases hf : lframe P fn with
  | error e => exact rfl
  | ok f =>
    obtain ⟨hmem, _⟩ := lframe_mem hf
    have hl := hleaf f hmem
    simp only [Except.map, acts_mapRef]
    have hc := sim_runActs lo ι house name P first u base s0 hinj fn c (f.acts c) (acts_leafy f hl c) s l h
    cases hr : runActs lo u fn c ((f.acts c).map (ActK.mapRef ι)) s with
    | error e =>
      cases hr' : lrunActs fn c (f.acts c) l with
      | error e' => rw [hr, hr'] at hc; exact hc
      | ok l' => rw [hr, hr'] at hc; exact hc.elim
    | ok s' =>
      cases hr' : lrunActs fn c (f.acts c) l with
      | error e' => rw [hr, hr'] at hc; exact hc.elim
      | ok l' =>
        rw [hr, hr'] at hc
        simp only [hc.frameOf, hf, Except.map]
        have : (Frame.mapRef ι f).auxes = [] := auxes_of_leafy (f := f) hl
        rw [this]
        exact hc

theorem sim_frameEnter (hinj : ∀ a b, ι a = ι b → a = b) (hleaf : ∀ f ∈ P, f.leafy = true)
    (fn : String) (s : St) (l : LSt) (h : Sim ι house name P first u base s0 s l) :
    CorrSt (Sim ι house name P first u base s0) (frameEnter lo u fn s) (lframeEnter P fn l) := by
  unfold frameEnter lframeEnter
  exact sim_frameActsThenAuxes lo ι house name P first u base s0 hinj hleaf .enter _ fn s l h

theorem sim_frameRecur (hinj : ∀ a b, ι a = ι b → a = b) (hleaf : ∀ f ∈ P, f.leafy = true)
    (fn : String) (s : St) (l : LSt) (h : Sim ι house name P first u base s0 s l) :
    CorrSt (Sim ι house name P first u base s0) (frameRecur lo u fn s) (lframeRecur P fn l) := by
  unfold frameRecur lframeRecur
  exact sim_frameActsThenAuxes lo ι house name P first u base s0 hinj hleaf .recur _ fn s l h


theorem sim_restartClocks (hinj : ∀ a b, ι a = ι b → a = b)
    (hE : ι kElapsed = statePath house name "elapsed") (hR : ι kRecurred = statePath house name "recurred")
    (s : St) (l : LSt) (h : Sim ι house name P first u base s0 s l) :
    CorrSt (Sim ι house name P first u base s0) (restartClocks u s) (.ok (lrestart l)) := by
  obtain ⟨o, ho, h1, _⟩ := h.fr
  have hh : o.house = house := by
    obtain ⟨o', ho', _⟩ := h.obj
    have : o' = o := by simp [St.fr, ho'] at ho; exact ho
    exact this ▸ h.hs o' ho'
  unfold restartClocks lrestart
  rw [ho]
  simp only [CorrSt, h1, hh, ← hE, ← hR, h.now]
  exact ((h.modCtl (fun x => { x with stamp := l.now, elapsed := 0, recurred := 0 })).write hinj kElapsed 0).write hinj kRecurred 0

theorem sim_updateClocks (hinj : ∀ a b, ι a = ι b → a = b)
    (hE : ι kElapsed = statePath house name "elapsed") (hR : ι kRecurred = statePath house name "recurred")
    (s : St) (l : LSt) (h : Sim ι house name P first u base s0 s l) :
    CorrSt (Sim ι house name P first u base s0) (updateClocks u s) (.ok (lupdate l)) := by
  obtain ⟨o, ho, h1, _, _, h4⟩ := h.fr
  have hh : o.house = house := by
    obtain ⟨o', ho', _⟩ := h.obj
    have : o' = o := by simp [St.fr, ho'] at ho; exact ho
    exact this ▸ h.hs o' ho'
  unfold updateClocks lupdate
  rw [ho]
  simp only [CorrSt, h1, hh, ← hE, ← hR, h.now, h4]
  exact ((h.modCtl (fun x => { x with elapsed := l.now - l.ctl.stamp, recurred := l.ctl.recurred + 1 })).write hinj
    kElapsed (l.now - l.ctl.stamp)).write hinj kRecurred (l.ctl.recurred + 1)


theorem corr_bind (R : St → LSt → Prop) (r : Except Err St) (r' : Except Err LSt)
    (k : St → Except Err St) (k' : LSt → Except Err LSt) (h : CorrSt R r r')
    (hk : ∀ s l, R s l → CorrSt R (k s) (k' l)) :
    CorrSt R (match r with | .error e => .error e | .ok s => k s) (match r' with | .error e => .error e | .ok l => k' l) := by
  cases r with
  | error e => cases r' with
    | error e' => exact h
    | ok l => exact h.elim
  | ok s => cases r' with
    | error e' => exact h.elim
    | ok l => exact hk s l h

theorem sim_enter (hinj : ∀ a b, ι a = ι b → a = b) (hleaf : ∀ f ∈ P, f.leafy = true)
    (hE : ι kElapsed = statePath house name "elapsed") (hR : ι kRecurred = statePath house name "recurred")
    (enters : List String) (s : St) (l : LSt) (h : Sim ι house name P first u base s0 s l) :
    CorrSt (Sim ι house name P first u base s0) (enter lo u enters s) (lenter P enters l) := by
  unfold enter lenter
  have hloop := corr_forEach_id (Sim ι house name P first u base s0) (frameEnter lo u) (lframeEnter P) enters
    (fun fn _ s l hs => sim_frameEnter lo ι house name P first u base s0 hinj hleaf fn s l hs)
  by_cases he : enters.isEmpty = true
  · simp only [he, if_true]
    exact hloop s l h
  · simp only [he]
    have hc := sim_restartClocks ι house name P first u base s0 hinj hE hR s l h
    cases hr : restartClocks u s with
    | error e => rw [hr] at hc; exact hc.elim
    | ok s' =>
      rw [hr] at hc
      exact hloop s' (lrestart l) hc

theorem sim_frameExit (hinj : ∀ a b, ι a = ι b → a = b) (hleaf : ∀ f ∈ P, f.leafy = true)
    (fn : String) (s : St) (l : LSt) (h : Sim ι house name P first u base s0 s l) :
    CorrSt (Sim ι house name P first u base s0) (frameExit lo u fn s) (lframeExit P fn l) := by
  unfold frameExit lframeExit
  rw [h.frameOf]
  cases hf : lframe P fn with
  | error e => exact rfl
  | ok f =>
    obtain ⟨hmem, _⟩ := lframe_mem hf
    have hl := hleaf f hmem
    have : (Frame.mapRef ι f).auxes = [] := auxes_of_leafy (f := f) hl
    simp only [Except.map, this, forEach, acts_mapRef]
    exact sim_runActs lo ι house name P first u base s0 hinj fn .exit (f.acts .exit) (acts_leafy f hl .exit) s l h

theorem sim_exit (hinj : ∀ a b, ι a = ι b → a = b) (hleaf : ∀ f ∈ P, f.leafy = true)
    (exits : List String) (s : St) (l : LSt) (h : Sim ι house name P first u base s0 s l) :
    CorrSt (Sim ι house name P first u base s0) (exit lo u exits s) (lexit P exits l) := by
  unfold exit lexit
  exact corr_forEach_id _ _ _ exits.reverse
    (fun fn _ s l hs => sim_frameExit lo ι house name P first u base s0 hinj hleaf fn s l hs) s l h

theorem sim_frameActsOnly (hinj : ∀ a b, ι a = ι b → a = b) (hleaf : ∀ f ∈ P, f.leafy = true)
    (c : Ctxt) (fn : String) (s : St) (l : LSt) (h : Sim ι house name P first u base s0 s l) :
    CorrSt (Sim ι house name P first u base s0)
      (match s.frameOf u fn with
       | .error e => .error e
       | .ok f => runActs lo u fn c (f.acts c) s)
      (match lframe P fn with
       | .error e => .error e
       | .ok f => lrunActs fn c (f.acts c) l) := by
  rw [h.frameOf]
  cases hf : lframe P fn with
  | error e => exact rfl
  | ok f =>
    obtain ⟨hmem, _⟩ := lframe_mem hf
    have hl := hleaf f hmem
    simp only [Except.map, acts_mapRef]
    exact sim_runActs lo ι house name P first u base s0 hinj fn c (f.acts c) (acts_leafy f hl c) s l h

theorem sim_rexit (hinj : ∀ a b, ι a = ι b → a = b) (hleaf : ∀ f ∈ P, f.leafy = true)
    (xs : List String) (s : St) (l : LSt) (h : Sim ι house name P first u base s0 s l) :
    CorrSt (Sim ι house name P first u base s0) (rexit lo u xs s) (lrexit P xs l) := by
  unfold rexit lrexit
  exact corr_forEach_id _ _ _ xs.reverse
    (fun fn _ s l hs => sim_frameActsOnly lo ι house name P first u base s0 hinj hleaf .rexit fn s l hs) s l h

theorem sim_renter (hinj : ∀ a b, ι a = ι b → a = b) (hleaf : ∀ f ∈ P, f.leafy = true)
    (xs : List String) (s : St) (l : LSt) (h : Sim ι house name P first u base s0 s l) :
    CorrSt (Sim ι house name P first u base s0) (renter lo u xs s) (lrenter P xs l) := by
  unfold renter lrenter
  exact corr_forEach_id _ _ _ xs
    (fun fn _ s l hs => sim_frameActsOnly lo ι house name P first u base s0 hinj hleaf .renter fn s l hs) s l h

theorem sim_activate (fn : String) (s : St) (l : LSt) (h : Sim ι house name P first u base s0 s l) :
    CorrSt (Sim ι house name P first u base s0) (activate u fn s) (lactivate P fn l) := by
  unfold activate lactivate
  rw [h.frameOf]
  cases hf : lframe P fn with
  | error e => exact rfl
  | ok f =>
    simp only [Except.map, CorrSt]
    exact h.modCtl (fun x => { x with active := some fn, actives := f.outline })


theorem sim_enterAll (hinj : ∀ a b, ι a = ι b → a = b) (hleaf : ∀ f ∈ P, f.leafy = true)
    (hE : ι kElapsed = statePath house name "elapsed") (hR : ι kRecurred = statePath house name "recurred")
    (s : St) (l : LSt) (h : Sim ι house name P first u base s0 s l) :
    CorrSt (Sim ι house name P first u base s0) (enterAll lo u s) (lenterAll P first l) := by
  obtain ⟨o, ho, _, _, h3, _⟩ := h.fr
  unfold enterAll lenterAll
  rw [ho]
  simp only [h3]
  have h1 := h.modCtl (fun x => { x with done := false })
  have hc := sim_activate ι house name P first u base s0 first _ _ h1
  cases hr : activate u first (s.modCtl u fun x => { x with done := false }) with
  | error e =>
    cases hr' : lactivate P first { l with ctl := { l.ctl with done := false } } with
    | error e' => rw [hr, hr'] at hc; exact hc
    | ok l' => rw [hr, hr'] at hc; exact hc.elim
  | ok s' =>
    cases hr' : lactivate P first { l with ctl := { l.ctl with done := false } } with
    | error e' => rw [hr, hr'] at hc; exact hc.elim
    | ok l' =>
      rw [hr, hr'] at hc
      obtain ⟨o', ho', _, _, _, h4'⟩ := hc.fr
      simp only [ho', h4']
      exact corr_ghosted _ (fun _ _ q hh => hh.ghost q) _ _ _
        (fun s l hh => sim_enter lo ι house name P first u base s0 hinj hleaf hE hR _ s l hh) s' l' hc

theorem sim_exitAll (hinj : ∀ a b, ι a = ι b → a = b) (hleaf : ∀ f ∈ P, f.leafy = true)
    (abort : Bool) (s : St) (l : LSt) (h : Sim ι house name P first u base s0 s l) :
    CorrSt (Sim ι house name P first u base s0) (exitAll lo abort u s) (lexitAll P abort l) := by
  obtain ⟨o, ho, _, _, _, h4⟩ := h.fr
  unfold exitAll lexitAll
  rw [ho]
  simp only [h4]
  have hc := sim_exit lo ι house name P first u base s0 hinj hleaf l.ctl.actives s l h
  cases hr : exit lo u l.ctl.actives s with
  | error e =>
    cases hr' : lexit P l.ctl.actives l with
    | error e' => rw [hr, hr'] at hc; exact hc
    | ok l' => rw [hr, hr'] at hc; exact hc.elim
  | ok s' =>
    cases hr' : lexit P l.ctl.actives l with
    | error e' => rw [hr, hr'] at hc; exact hc.elim
    | ok l' =>
      rw [hr, hr'] at hc
      have h1 := hc.modCtl (fun x => { x with active := none, actives := [] })
      cases abort with
      | true => exact h1
      | false => exact h1.modCtl (fun x => { x with done := true })

theorem sim_recur (hinj : ∀ a b, ι a = ι b → a = b) (hleaf : ∀ f ∈ P, f.leafy = true)
    (s : St) (l : LSt) (h : Sim ι house name P first u base s0 s l) :
    CorrSt (Sim ι house name P first u base s0) (recur lo u s) (lrecur P l) := by
  obtain ⟨o, ho, _, _, _, h4⟩ := h.fr
  unfold recur lrecur
  rw [ho]
  simp only [h4]
  exact corr_forEach_id _ _ _ l.ctl.actives
    (fun fn _ s l hs => sim_frameRecur lo ι house name P first u base s0 hinj hleaf fn s l hs) s l h


theorem allM_congr {α : Type} (p q : α → Except Err Bool) (xs : List α) (h : ∀ x ∈ xs, p x = q x) :
    allM p xs = allM q xs := by
  induction xs with
  | nil => rfl
  | cons x xs ih =>
    simp only [allM, h x (by simp)]
    cases q x with
    | error e => rfl
    | ok b => cases b with
      | false => rfl
      | true => exact ih (fun y hy => h y (by simp [hy]))

theorem allM_map {α β : Type} (p : α → Except Err Bool) (m : β → α) (ys : List β) :
    allM p (ys.map m) = allM (fun y => p (m y)) ys := by
  induction ys with
  | nil => rfl
  | cons y ys ih =>
    simp only [List.map_cons, allM]
    cases p (m y) with
    | error e => rfl
    | ok b => cases b with
      | false => rfl
      | true => exact ih

theorem allC_nil_each {α : Type} (p : α → List Nat → Except Err (Bool × List Nat)) (q : α → Except Err Bool)
    (xs : List α) (cl : List Nat) (h : ∀ x ∈ xs, p x cl = (q x).map (fun b => (b, cl))) :
    allC p xs cl = (allM q xs).map (fun b => (b, cl)) := by
  induction xs with
  | nil => rfl
  | cons x xs ih =>
    simp only [allC, allM, h x (by simp)]
    cases q x with
    | error e => rfl
    | ok b =>
      cases b with
      | false => rfl
      | true => exact ih (fun y hy => h y (by simp [hy]))

theorem sim_needHolds (hleaf : ∀ f ∈ P, f.leafy = true) (fn : String) (hfn : ∃ f, lframe P fn = .ok f)
    (n : Need) (hn : n.k.leafy = true) (s : St) (l : LSt) (h : Sim ι house name P first u base s0 s l) :
    needHolds u fn s (n.mapRef ι) = lneedHolds l n := by
  obtain ⟨f, hf⟩ := hfn
  obtain ⟨hmem, _⟩ := lframe_mem hf
  have haux : (Frame.mapRef ι f).auxes = [] := auxes_of_leafy (f := f) (hleaf f hmem)
  unfold needHolds lneedHolds
  cases hk : n.k with
  | state k op v => simp [Need.mapRef, NeedK.mapRef, hk, h.mem]
  | allDone => simp [Need.mapRef, NeedK.mapRef, hk, h.frameOf, hf, Except.map, haux]
  | anyDone => simp [Need.mapRef, NeedK.mapRef, hk, h.frameOf, hf, Except.map, haux]
  | auxTag t => simp [hk, NeedK.leafy] at hn
  | auxObj a => simp [hk, NeedK.leafy] at hn


theorem beacts_mapRef (g : String → String) (f : Frame) :
    (Frame.mapRef g f).beacts = f.beacts.map (Need.mapRef g) := by
  unfold Frame.beacts Frame.mapRef
  simp only
  induction f.items with
  | nil => rfl
  | cons it rest ih =>
    cases it <;> simp [List.flatMap_cons, Item.mapRef, ih]

theorem beacts_leafy (f : Frame) (hf : f.leafy = true) : ∀ n ∈ f.beacts, n.k.leafy = true := by
  intro n hn
  unfold Frame.beacts at hn
  simp only [List.mem_flatMap] at hn
  obtain ⟨it, hit, hm⟩ := hn
  unfold Frame.leafy at hf
  simp only [Bool.and_eq_true, List.all_eq_true] at hf
  have := hf.2 it hit
  cases it with
  | cond ns =>
    simp only [Item.leafy, List.all_eq_true] at this
    exact this n hm
  | aux x y z => simp at hm
  | under x => simp at hm
  | go far ns => simp at hm
  | act c a => simp at hm

theorem sim_checkEnter (hleaf : ∀ f ∈ P, f.leafy = true) (enters exits : List String) (cl : List Nat) (s : St)
    (l : LSt) (h : Sim ι house name P first u base s0 s l) :
    checkEnter lo u enters exits cl s = (lcheckEnter P enters l).map (fun b => (b, cl)) := by
  unfold checkEnter lcheckEnter
  by_cases he : enters.isEmpty = true
  · simp [he, Except.map]
  · simp only [he]
    apply allC_nil_each
    intro fn _
    unfold frameCheckEnter lframeCheckEnter
    rw [h.frameOf]
    cases hf : lframe P fn with
    | error e => rfl
    | ok f =>
      obtain ⟨hmem, _⟩ := lframe_mem hf
      have hl := hleaf f hmem
      have haux : (Frame.mapRef ι f).auxes = [] := auxes_of_leafy (f := f) hl
      have hneed : allM (needHolds u fn s) (Frame.mapRef ι f).beacts = allM (lneedHolds l) f.beacts := by
        rw [beacts_mapRef, allM_map]
        exact allM_congr _ _ _ (fun n hn =>
          sim_needHolds ι house name P first u base s0 hleaf fn ⟨f, hf⟩ n (beacts_leafy f hl n hn) s l h)
      simp only [Except.map, hneed, haux]
      cases allM (lneedHolds l) f.beacts with
      | error e => rfl
      | ok b => cases b <;> rfl

theorem sim_checkStart (hleaf : ∀ f ∈ P, f.leafy = true) (cl : List Nat) (s : St) (l : LSt)
    (h : Sim ι house name P first u base s0 s l) :
    checkStart lo u cl s = (lcheckStart P first l).map (fun b => (b, cl)) := by
  obtain ⟨o, ho, _, _, h3, _⟩ := h.fr
  unfold checkStart lcheckStart
  rw [ho]
  simp only [h3, h.frameOf]
  cases hf : lframe P first with
  | error e => rfl
  | ok f =>
    simp only [Except.map]
    exact sim_checkEnter lo ι house name P first u base s0 hleaf _ _ cl s l h

theorem sim_transitBody (hinj : ∀ a b, ι a = ι b → a = b) (hleaf : ∀ f ∈ P, f.leafy = true)
    (hE : ι kElapsed = statePath house name "elapsed") (hR : ι kRecurred = statePath house name "recurred")
    (exits reexens enters : List String) (s : St) (l : LSt) (h : Sim ι house name P first u base s0 s l) :
    CorrSt (Sim ι house name P first u base s0) (transitBody lo u exits reexens enters s)
      (ltransitBody P exits reexens enters l) := by
  unfold transitBody ltransitBody
  have c1 := sim_exit lo ι house name P first u base s0 hinj hleaf exits s l h
  cases r1 : exit lo u exits s with
  | error e =>
    cases r1' : lexit P exits l with
    | error e' => rw [r1, r1'] at c1; exact c1
    | ok l1 => rw [r1, r1'] at c1; exact c1.elim
  | ok s1 =>
    cases r1' : lexit P exits l with
    | error e' => rw [r1, r1'] at c1; exact c1.elim
    | ok l1 =>
      rw [r1, r1'] at c1
      simp only []
      have c2 := sim_rexit lo ι house name P first u base s0 hinj hleaf reexens s1 l1 c1
      cases r2 : rexit lo u reexens s1 with
      | error e =>
        cases r2' : lrexit P reexens l1 with
        | error e' => rw [r2, r2'] at c2; exact c2
        | ok l2 => rw [r2, r2'] at c2; exact c2.elim
      | ok s2 =>
        cases r2' : lrexit P reexens l1 with
        | error e' => rw [r2, r2'] at c2; exact c2.elim
        | ok l2 =>
          rw [r2, r2'] at c2
          simp only []
          have c3 := sim_renter lo ι house name P first u base s0 hinj hleaf reexens s2 l2 c2
          cases r3 : renter lo u reexens s2 with
          | error e =>
            cases r3' : lrenter P reexens l2 with
            | error e' => rw [r3, r3'] at c3; exact c3
            | ok l3 => rw [r3, r3'] at c3; exact c3.elim
          | ok s3 =>
            cases r3' : lrenter P reexens l2 with
            | error e' => rw [r3, r3'] at c3; exact c3.elim
            | ok l3 =>
              rw [r3, r3'] at c3
              simp only []
              exact sim_enter lo ι house name P first u base s0 hinj hleaf hE hR enters s3 l3 c3

theorem sim_transit (hinj : ∀ a b, ι a = ι b → a = b) (hleaf : ∀ f ∈ P, f.leafy = true)
    (hE : ι kElapsed = statePath house name "elapsed") (hR : ι kRecurred = statePath house name "recurred")
    (fn : String) (hfn : ∃ f, lframe P fn = .ok f) (far : String) (needs : List Need)
    (hneeds : ∀ n ∈ needs, n.k.leafy = true) (s : St) (l : LSt) (h : Sim ι house name P first u base s0 s l) :
    CorrBS (Sim ι house name P first u base s0) (transit lo u fn far (needs.map (Need.mapRef ι)) s) (ltransit P far needs l) := by
  unfold transit ltransit
  have hneed : allM (needHolds u fn s) (needs.map (Need.mapRef ι)) = allM (lneedHolds l) needs := by
    rw [allM_map]
    exact allM_congr _ _ _ (fun n hn => sim_needHolds ι house name P first u base s0 hleaf fn hfn n (hneeds n hn) s l h)
  rw [hneed]
  cases allM (lneedHolds l) needs with
  | error e => exact rfl
  | ok b =>
    cases b with
    | false => exact ⟨rfl, h⟩
    | true =>
      obtain ⟨o, ho, _, _, _, h4⟩ := h.fr
      simp only [ho, h.frameOf]
      cases hf : lframe P far with
      | error e => exact rfl
      | ok ff =>
        simp only [Except.map, h4]
        have hout : (Frame.mapRef ι ff).outline = ff.outline := rfl
        rw [hout]
        generalize exEn far l.ctl.actives ff.outline [] = tr
        obtain ⟨exits, enters, reexens⟩ := tr
        simp only []
        rw [sim_checkEnter lo ι house name P first u base s0 hleaf enters exits [] s l h]
        cases lcheckEnter P enters l with
        | error e => exact rfl
        | ok b =>
          simp only [Except.map]
          cases b with
          | false => exact ⟨rfl, h⟩
          | true =>
            simp only []
            have cb := corr_ghosted _ (fun _ _ q hh => hh.ghost q) (enters.map (fun f => (u, f))) _ _
              (fun s l hh => sim_transitBody lo ι house name P first u base s0 hinj hleaf hE hR exits reexens enters s l hh) s l h
            cases rb : ghosted (enters.map (fun f => (u, f))) (transitBody lo u exits reexens enters) s with
            | error e =>
              cases rb' : ltransitBody P exits reexens enters l with
              | error e' => rw [rb, rb'] at cb; exact cb
              | ok l4 => rw [rb, rb'] at cb; exact cb.elim
            | ok s4 =>
              cases rb' : ltransitBody P exits reexens enters l with
              | error e' => rw [rb, rb'] at cb; exact cb.elim
              | ok l4 =>
                rw [rb, rb'] at cb
                simp only []
                have c5 := sim_activate ι house name P first u base s0 far s4 l4 cb
                cases r5 : activate u far s4 with
                | error e =>
                  cases r5' : lactivate P far l4 with
                  | error e' => rw [r5, r5'] at c5; exact c5
                  | ok l5 => rw [r5, r5'] at c5; exact c5.elim
                | ok s5 =>
                  cases r5' : lactivate P far l4 with
                  | error e' => rw [r5, r5'] at c5; exact c5.elim
                  | ok l5 =>
                    rw [r5, r5'] at c5
                    exact ⟨rfl, c5⟩

def Pre.leafy : Pre → Bool
  | .act a => a.leafy
  | .go _ ns => ns.all (fun n => n.k.leafy)

theorem preacts_leafy (f : Frame) (hf : f.leafy = true) : ∀ p ∈ f.preacts, p.leafy = true := by
  intro p hp
  unfold Frame.preacts at hp
  simp only [List.mem_filterMap] at hp
  obtain ⟨it, hit, hm⟩ := hp
  unfold Frame.leafy at hf
  simp only [Bool.and_eq_true, List.all_eq_true] at hf
  have := hf.2 it hit
  cases it with
  | aux x y z => simp at hm
  | under n => simp at hm
  | cond ns => simp at hm
  | go far ns =>
    simp at hm
    subst hm
    simpa [Item.leafy, Pre.leafy] using this
  | act c' a' =>
    cases c' <;> simp at hm
    subst hm
    simpa [Item.leafy, Pre.leafy] using this

theorem sim_precurLoop (hinj : ∀ a b, ι a = ι b → a = b) (hleaf : ∀ f ∈ P, f.leafy = true)
    (hE : ι kElapsed = statePath house name "elapsed") (hR : ι kRecurred = statePath house name "recurred")
    (fn : String) (hfn : ∃ f, lframe P fn = .ok f) (ps : List Pre) (hps : ∀ p ∈ ps, p.leafy = true) :
    ∀ (s : St) (l : LSt), Sim ι house name P first u base s0 s l →
    CorrBS (Sim ι house name P first u base s0) (precurLoop lo u fn (ps.map (Pre.mapRef ι)) s) (lprecurLoop P fn ps l) := by
  induction ps with
  | nil => intro s l h; exact ⟨rfl, h⟩
  | cons p ps ih =>
    intro s l h
    have ih' := ih (fun q hq => hps q (by simp [hq]))
    have hp := hps p (by simp)
    cases p with
    | act a =>
      simp only [List.map_cons, Pre.mapRef, precurLoop, lprecurLoop]
      have c1 := sim_runAct lo ι house name P first u base s0 hinj fn .precur a (by simpa [Pre.leafy] using hp) s l h
      cases r1 : runAct lo u fn .precur (a.mapRef ι) s with
      | error e =>
        cases r1' : lrunAct fn .precur a l with
        | error e' => rw [r1, r1'] at c1; exact c1
        | ok l1 => rw [r1, r1'] at c1; exact c1.elim
      | ok s1 =>
        cases r1' : lrunAct fn .precur a l with
        | error e' => rw [r1, r1'] at c1; exact c1.elim
        | ok l1 =>
          rw [r1, r1'] at c1
          exact ih' s1 l1 c1
    | go far ns =>
      simp only [List.map_cons, Pre.mapRef, precurLoop, lprecurLoop]
      have hns : ∀ n ∈ ns, n.k.leafy = true := by
        simpa [Pre.leafy, List.all_eq_true] using hp
      have c1 := sim_transit lo ι house name P first u base s0 hinj hleaf hE hR fn hfn far ns hns s l h
      cases r1 : transit lo u fn far (ns.map (Need.mapRef ι)) s with
      | error e =>
        cases r1' : ltransit P far ns l with
        | error e' => rw [r1, r1'] at c1; exact c1
        | ok bl => rw [r1, r1'] at c1; exact c1.elim
      | ok bs =>
        cases r1' : ltransit P far ns l with
        | error e' => rw [r1, r1'] at c1; exact c1.elim
        | ok bl =>
          rw [r1, r1'] at c1
          obtain ⟨b, s1⟩ := bs
          obtain ⟨b', l1⟩ := bl
          obtain ⟨hb, hs⟩ := c1
          subst hb
          cases b with
          | true => exact ⟨rfl, hs⟩
          | false => exact ih' s1 l1 hs

theorem sim_segueLoop (hinj : ∀ a b, ι a = ι b → a = b) (hleaf : ∀ f ∈ P, f.leafy = true)
    (hE : ι kElapsed = statePath house name "elapsed") (hR : ι kRecurred = statePath house name "recurred")
    (fns : List String) :
    ∀ (s : St) (l : LSt), Sim ι house name P first u base s0 s l →
    CorrSt (Sim ι house name P first u base s0) (segueLoop lo u fns s) (lsegueLoop P fns l) := by
  induction fns with
  | nil => intro s l h; exact h
  | cons fn fns ih =>
    intro s l h
    simp only [segueLoop, lsegueLoop, h.frameOf]
    cases hf : lframe P fn with
    | error e => exact rfl
    | ok f =>
      obtain ⟨hmem, _⟩ := lframe_mem hf
      simp only [Except.map, preacts_mapRef]
      have c1 := sim_precurLoop lo ι house name P first u base s0 hinj hleaf hE hR fn ⟨f, hf⟩ f.preacts
        (preacts_leafy f (hleaf f hmem)) s l h
      cases r1 : precurLoop lo u fn (f.preacts.map (Pre.mapRef ι)) s with
      | error e =>
        cases r1' : lprecurLoop P fn f.preacts l with
        | error e' => rw [r1, r1'] at c1; exact c1
        | ok bl => rw [r1, r1'] at c1; exact c1.elim
      | ok bs =>
        cases r1' : lprecurLoop P fn f.preacts l with
        | error e' => rw [r1, r1'] at c1; exact c1.elim
        | ok bl =>
          rw [r1, r1'] at c1
          obtain ⟨b, s1⟩ := bs
          obtain ⟨b', l1⟩ := bl
          obtain ⟨hb, hs⟩ := c1
          subst hb
          cases b with
          | true => exact hs
          | false => exact ih s1 l1 hs

theorem sim_segue (hinj : ∀ a b, ι a = ι b → a = b) (hleaf : ∀ f ∈ P, f.leafy = true)
    (hE : ι kElapsed = statePath house name "elapsed") (hR : ι kRecurred = statePath house name "recurred")
    (s : St) (l : LSt) (h : Sim ι house name P first u base s0 s l) :
    CorrSt (Sim ι house name P first u base s0) (segue lo u s) (lsegue P l) := by
  unfold segue lsegue
  have c0 := sim_updateClocks ι house name P first u base s0 hinj hE hR s l h
  cases r0 : updateClocks u s with
  | error e => rw [r0] at c0; exact c0.elim
  | ok sA =>
    rw [r0] at c0
    obtain ⟨o, ho, _, _, _, h4⟩ := c0.fr
    simp only [ho, h4]
    have c1 := corr_forEach_id (Sim ι house name P first u base s0)
      (fun fn s => match s.frameOf u fn with | .error e => .error e | .ok f => forEach lo.segue f.auxes s)
      (fun fn l => (lframe P fn).map (fun _ => l)) (lupdate l).ctl.actives
      (fun fn _ s l hs => by
        simp only [hs.frameOf]
        cases hf : lframe P fn with
        | error e => exact rfl
        | ok f =>
          obtain ⟨hmem, _⟩ := lframe_mem hf
          have : (Frame.mapRef ι f).auxes = [] := auxes_of_leafy (f := f) (hleaf f hmem)
          simp only [Except.map, this, forEach]
          exact hs) sA (lupdate l) c0
    cases r1 : forEach (fun fn s => match s.frameOf u fn with | .error e => .error e | .ok f => forEach lo.segue f.auxes s)
        (lupdate l).ctl.actives sA with
    | error e =>
      cases r1' : lforEach (fun fn l => (lframe P fn).map (fun _ => l)) (lupdate l).ctl.actives (lupdate l) with
      | error e' => rw [r1, r1'] at c1; exact c1
      | ok l1 => rw [r1, r1'] at c1; exact c1.elim
    | ok s1 =>
      cases r1' : lforEach (fun fn l => (lframe P fn).map (fun _ => l)) (lupdate l).ctl.actives (lupdate l) with
      | error e' => rw [r1, r1'] at c1; exact c1.elim
      | ok l1 =>
        rw [r1, r1'] at c1
        exact sim_segueLoop lo ι house name P first u base s0 hinj hleaf hE hR _ s1 l1 c1

end sim


/-! ### pruning a framer object without auxiliaries -/

theorem lframe_of_mem {P : List Frame} {f : Frame} (hf : f ∈ P) : ∃ g, lframe P f.name = .ok g := by
  unfold lframe
  cases h : P.find? (fun g => g.name == f.name) with
  | some g => exact ⟨g, rfl⟩
  | none =>
    have := List.find?_eq_none.mp h f hf
    simp at this

theorem forEach_id_of_ok {α : Type} (k : α → St → Except Err St) (xs : List α) (s : St)
    (h : ∀ x ∈ xs, k x s = .ok s) : forEach k xs s = .ok s := by
  induction xs with
  | nil => rfl
  | cons x xs ih =>
    simp only [forEach, h x (by simp)]
    exact ih (fun y hy => h y (by simp [hy]))

/-- the loop of `Framer.prune` over the frames of a framer object without auxiliaries does nothing -/
theorem prune_loop_leaf (lo : Ops) (ι : String → String) (house name : String) (P : List Frame) (first : String) (u : Nat)
    (base : List String) (s0 : St) (hleaf : ∀ f ∈ P, f.leafy = true) (s : St) (l : LSt)
    (h : Sim ι house name P first u base s0 s l) :
    forEach (pruneFrame lo u) ((P.map (Frame.mapRef ι)).map (·.name)) s = .ok s := by
  apply forEach_id_of_ok
  intro fn hfn
  simp only [List.map_map, List.mem_map, Function.comp] at hfn
  obtain ⟨f, hf, rfl⟩ := hfn
  obtain ⟨g, hg⟩ := lframe_of_mem hf
  obtain ⟨hgm, _⟩ := lframe_mem hg
  have hx : (Frame.mapRef ι f).name = f.name := rfl
  unfold pruneFrame
  rw [hx, h.frameOf, hg]
  have : (Frame.mapRef ι g).auxes = [] := auxes_of_leafy (f := g) (hleaf g hgm)
  simp [Except.map, this, forEach]

theorem lexitAll_inactive (P : List Frame) (b : Bool) (l l1 : LSt) (h : lexitAll P b l = .ok l1) :
    l1.ctl.active = none ∧ l1.ctl.actives = [] := by
  unfold lexitAll at h
  cases hx : lexit P l.ctl.actives l with
  | error e => simp [hx] at h
  | ok l' =>
    simp only [hx] at h
    cases b <;> (injection h with h; subst h; exact ⟨rfl, rfl⟩)

/-- **Pruning a framer object without auxiliaries**: it is exited if it is still entered (all its active frames,
bottom-up, through the stand-alone `lexitAll`), nothing else in the house changes except its own control state and
the shares its references resolve to, and finally its registration is removed. -/
theorem prune_leaf (lo : Ops) (ι : String → String) (house name : String) (P : List Frame) (first : String) (u : Nat)
    (base : List String) (hinj : ∀ a b, ι a = ι b → a = b) (hleaf : ∀ f ∈ P, f.leafy = true)
    (s : St) (l : LSt) (h : Sim ι house name P first u base s s l) (s' : St) (hp : prune lo u s = .ok s') :
    ∃ s1 l1 me, s.get? u = some me ∧ Sim ι house name P first u base s s1 l1 ∧
      s' = unregister (assignRegistries me.house s1) me ∧
      l1.ctl.active = none ∧
      (l.ctl.active.isSome = true → lexitAll P false l = .ok l1) ∧ (l.ctl.active.isSome = false → s1 = s ∧ l1 = l) := by
  obtain ⟨me, hme, _, h2, _, h4⟩ := h.obj
  unfold prune at hp
  simp only [St.fr, hme] at hp
  by_cases hact : me.ctl.active.isSome = true
  · simp only [hact, if_true] at hp
    have c1 := sim_exitAll lo ι house name P first u base s hinj hleaf false s l h
    cases r1 : exitAll lo false u s with
    | error e => simp [r1] at hp
    | ok s1 =>
      cases r1' : lexitAll P false l with
      | error e => rw [r1, r1'] at c1; exact c1.elim
      | ok l1 =>
        rw [r1, r1'] at c1
        simp only [r1] at hp
        rw [h2] at hp
        rw [prune_loop_leaf lo ι house name P first u base s hleaf s1 l1 c1] at hp
        injection hp with hp
        refine ⟨s1, l1, me, hme, c1, hp.symm, (lexitAll_inactive P false l l1 r1').1, fun _ => rfl, ?_⟩
        intro hn
        rw [← h4, hact] at hn
        cases hn
  · rw [if_neg hact] at hp
    simp only [] at hp
    rw [h2] at hp
    rw [prune_loop_leaf lo ι house name P first u base s hleaf s l h] at hp
    injection hp with hp
    have hnone : l.ctl.active = none := by
      rw [← h4]
      cases hm : me.ctl.active with
      | none => rfl
      | some x => simp [hm] at hact
    refine ⟨s, l, me, hme, h, hp.symm, hnone, ?_, fun _ => ⟨rfl, rfl⟩⟩
    intro hs
    rw [hnone] at hs
    cases hs

end Ioflo.Clones
