import IofloModel.Lemmas.ClonesLeaf
/-!
Razing framer objects that have no auxiliaries below them: the exact effect of `Razer.action` on the house
(proof device for C12; core Lean only).
-/
namespace Ioflo.Clones

/-- a framer object without auxiliaries whose script is a leaf script -/
def LeafObj (s : St) (a : Nat) : Prop :=
  ∃ (o : Fr) (ι : String → String) (P : List Frame), s.get? a = some o ∧ o.frames = P.map (Frame.mapRef ι) ∧
    (∀ f ∈ P, f.leafy = true) ∧ (∀ x y : String, ι x = ι y → x = y) ∧ o.house = s.cur

theorem LeafObj.of_get? {s s' : St} {a : Nat} (h : LeafObj s a) (e : s'.get? a = s.get? a) (ec : s'.cur = s.cur) :
    LeafObj s' a := by
  obtain ⟨o, ι, P, h1, h2, h3, h4, h5⟩ := h
  exact ⟨o, ι, P, e.trans h1, h2, h3, h4, h5.trans ec.symm⟩

theorem assignRegistries_self (s : St) (h : String) (e : s.cur = h) : assignRegistries h s = s := by
  unfold assignRegistries; simp [e]

theorem Rest.refl (ι : String → String) (u : Nat) (s : St) : Rest ι u s s :=
  { others := fun _ _ => rfl
    self := fun o ho => ⟨o, ho, by cases o; rfl⟩
    names := rfl, nextUid := rfl, work := ⟨rfl, rfl⟩, shares := fun _ _ => rfl, uids := rfl, now := rfl, regs := ⟨rfl, rfl, rfl⟩ }

theorem sim_of_obj (ι : String → String) (P : List Frame) (a : Nat) (s : St) (o : Fr) (ho : s.get? a = some o)
    (hfr : o.frames = P.map (Frame.mapRef ι)) :
    Sim ι o.house o.name P o.first a s.out s s { ctl := o.ctl, mem := fun k => s.read (ι k), now := s.now, ev := [] } :=
  { obj := ⟨o, ho, rfl, hfr, rfl, rfl⟩, mem := fun _ => rfl, now := rfl, out := by simp, rest := Rest.refl ι a s
    hs := fun o' ho' => by rw [ho] at ho'; injection ho' with ho'; rw [← ho'] }

@[simp] theorem get?_unregister (s : St) (o : Fr) (v : Nat) : (unregister s o).get? v = s.get? v := by
  unfold unregister; split <;> rfl

theorem names_unregister_sub (s : St) (o : Fr) (n : String) (x : Nat)
    (h : lookup (unregister s o).names n = some x) : lookup s.names n = some x := by
  unfold unregister at h
  split at h
  · by_cases hn : n = o.name
    · subst hn; rw [lookup_erase_self] at h; cases h
    · rwa [lookup_erase_other _ _ _ hn] at h
  · exact h

theorem unregister_frees (s : St) (o : Fr) : lookup (unregister s o).names o.name ≠ some o.uid := by
  unfold unregister
  by_cases h : lookup s.names o.name = some o.uid
  · rw [if_pos h, lookup_erase_self]; simp
  · rw [if_neg h]; exact h

theorem uid_of_get? {s : St} {a : Nat} {o : Fr} (h : s.get? a = some o) : o.uid = a := by
  have := List.find?_some h
  simpa using this

/-- what `dropAux` does to the razing framer's own object -/
def dropObj (fn : String) (a : Nat) (tag : String) (o : Fr) : Fr :=
  { (o.modFrame fn (fun f => { f with auxes := f.auxes.erase a })) with
    auxes := erase (o.modFrame fn (fun f => { f with auxes := f.auxes.erase a })).auxes tag }

theorem get?_dropAux_self (u : Nat) (fn : String) (a : Nat) (tag : String) (s : St) :
    (dropAux u fn a tag s).get? u = (s.get? u).map (dropObj fn a tag) := by
  unfold dropAux St.modFrame
  have h1 := get?_mod_self s u (fun o => o.modFrame fn (fun f => { f with auxes := f.auxes.erase a })) (fun _ => rfl)
  have h2 := get?_mod_self (s.mod u (fun o => o.modFrame fn (fun f => { f with auxes := f.auxes.erase a }))) u
    (fun o => { o with auxes := erase o.auxes tag }) (fun _ => rfl)
  rw [h2, h1]
  cases s.get? u <;> rfl

theorem get?_dropAux_other (u : Nat) (fn : String) (a : Nat) (tag : String) (s : St) (v : Nat) (hv : v ≠ u) :
    (dropAux u fn a tag s).get? v = s.get? v := by
  unfold dropAux St.modFrame
  have h1 := get?_mod_other s u v (fun o => o.modFrame fn (fun f => { f with auxes := f.auxes.erase a })) (fun _ => rfl) hv
  have h2 := get?_mod_other (s.mod u (fun o => o.modFrame fn (fun f => { f with auxes := f.auxes.erase a }))) u v
    (fun o => { o with auxes := erase o.auxes tag }) (fun _ => rfl) hv
  rw [h2, h1]

@[simp] theorem names_dropAux (u : Nat) (fn : String) (a : Nat) (tag : String) (s : St) :
    (dropAux u fn a tag s).names = s.names := rfl

/-- **One step of raze / prune on a framer object without auxiliaries** -/
theorem pruneStep_leaf (lo' : Ops) (u : Nat) (fn : String) (a : Nat) (s s' : St)
    (hau : a ≠ u) (hl : LeafObj s a) (h : pruneStep (nextOps lo') u fn a s = .ok s') :
    ∃ oa oa', s.get? a = some oa ∧ s'.get? a = some oa' ∧ oa' = { oa with ctl := oa'.ctl } ∧
      oa'.ctl.active = none ∧ lookup s'.names oa.name ≠ some a ∧
      (∀ n x, lookup s'.names n = some x → lookup s.names n = some x) ∧
      (∀ v, v ≠ a → v ≠ u → s'.get? v = s.get? v) ∧
      s'.get? u = (s.get? u).map (dropObj fn a oa.tag) ∧ s'.cur = s.cur := by
  obtain ⟨o, ι, P, ho, hfr, hleaf, hinj, hcur⟩ := hl
  unfold pruneStep at h
  have hp : (nextOps lo').prune a s = prune lo' a s := rfl
  rw [hp] at h
  cases hr : prune lo' a s with
  | error e => simp [hr] at h
  | ok s1 =>
    simp only [hr] at h
    obtain ⟨s2, l2, me, hme, hsim, hs1, hact, _, _⟩ :=
      prune_leaf lo' ι o.house o.name P o.first a s.out hinj hleaf s _ (sim_of_obj ι P a s o ho hfr) s1 hr
    have hmeo : me = o := by rw [ho] at hme; injection hme with hme; exact hme.symm
    subst hmeo
    rw [assignRegistries_self s2 me.house (by rw [hsim.rest.regs.1]; exact hcur.symm)] at hs1
    obtain ⟨o2, ho2, _, _, _, hctl2⟩ := hsim.obj
    have hs1a : s1.get? a = some o2 := by rw [hs1, get?_unregister]; exact ho2
    simp only [hs1a] at h
    injection h with h
    subst h
    obtain ⟨o0, ho0, heq⟩ := hsim.rest.self o2 ho2
    have ho0' : o0 = me := by rw [ho] at ho0; injection ho0 with ho0; exact ho0.symm
    subst ho0'
    have htag : o2.tag = o0.tag := by rw [heq]
    have hname : o2.name = o0.name := by rw [heq]
    refine ⟨o0, o2, ho, ?_, heq, ?_, ?_, ?_, ?_, ?_, ?_⟩
    · rw [get?_dropAux_other _ _ _ _ _ _ hau]; exact hs1a
    · rw [hctl2]; exact hact
    · rw [names_dropAux, hs1]
      have := unregister_frees s2 o0
      rwa [uid_of_get? ho] at this
    · intro n x hx
      rw [names_dropAux, hs1] at hx
      have := names_unregister_sub s2 o0 n x hx
      rwa [hsim.rest.names] at this
    · intro v hva hvu
      rw [get?_dropAux_other _ _ _ _ _ _ hvu, hs1, get?_unregister]
      exact hsim.rest.others v hva
    · rw [get?_dropAux_self, hs1, get?_unregister, hsim.rest.others u (fun e => hau e.symm), htag]
    · have e1 : (dropAux u fn a o2.tag s1).cur = s1.cur := rfl
      have e2 : (unregister s2 o0).cur = s2.cur := by unfold unregister; split <;> rfl
      rw [e1, hs1, e2]; exact hsim.rest.regs.1


theorem frame?_modFrame (o : Fr) (F fn : String) (g : Frame → Frame) (hg : ∀ f, (g f).name = f.name) :
    (o.modFrame F g).frame? fn = (o.frame? fn).map (fun f => if fn = F then g f else f) := by
  unfold Fr.modFrame Fr.frame?
  simp only
  induction o.frames with
  | nil => rfl
  | cons f rest ih =>
    rw [List.map_cons]
    have hn : (if (f.name == F) = true then g f else f).name = f.name := by split <;> simp [hg]
    by_cases hf : f.name = fn
    · rw [List.find?_cons_of_pos (by rw [hn]; simp [hf]), List.find?_cons_of_pos (by simp [hf])]
      subst hf
      by_cases hF : f.name = F <;> simp [hF]
    · rw [List.find?_cons_of_neg (by rw [hn]; simp [hf]), List.find?_cons_of_neg (by simp [hf])]
      exact ih

theorem frame?_dropObj (o : Fr) (F : String) (a : Nat) (tag : String) (fn : String) :
    (dropObj F a tag o).frame? fn
      = (o.frame? fn).map (fun f => if fn = F then { f with auxes := f.auxes.erase a } else f) := by
  have := frame?_modFrame o F fn (fun f => { f with auxes := f.auxes.erase a }) (fun _ => rfl)
  exact this

/-- the state of the house after `done` of the selected objects have been pruned and dropped -/
structure Razed (u : Nat) (F : String) (s : St) (done : List Nat) (si : St) : Prop where
  self : ∃ ou oi, s.get? u = some ou ∧ si.get? u = some oi ∧
    ∀ fn, oi.frame? fn = (ou.frame? fn).map (fun f => if fn = F then { f with auxes := done.foldl List.erase f.auxes } else f)
  others : ∀ v, v ≠ u → v ∉ done → si.get? v = s.get? v
  gone : ∀ a ∈ done, ∃ oa oa', s.get? a = some oa ∧ si.get? a = some oa' ∧ oa'.ctl.active = none ∧
    lookup si.names oa.name ≠ some a
  names : ∀ n x, lookup si.names n = some x → lookup s.names n = some x
  notSelf : u ∉ done
  cur : si.cur = s.cur

theorem Razed.start (u : Nat) (F : String) (s : St) (ou : Fr) (h : s.get? u = some ou) : Razed u F s [] s :=
  { self := ⟨ou, ou, h, h, fun fn => by cases ou.frame? fn <;> simp⟩
    others := fun _ _ _ => rfl
    gone := fun a ha => by cases ha
    names := fun _ _ h => h
    notSelf := by simp
    cur := rfl }

theorem Razed.step (lo' : Ops) (u : Nat) (F : String) (s si si' : St) (done : List Nat) (a : Nat)
    (hR : Razed u F s done si) (hau : a ≠ u) (had : a ∉ done) (hl : LeafObj s a)
    (h : pruneStep (nextOps lo') u F a si = .ok si') : Razed u F s (done ++ [a]) si' := by
  have hsa : si.get? a = s.get? a := hR.others a hau had
  obtain ⟨oa, oa', h1, h2, _, h4, h5, h6, h7, h8, h9⟩ := pruneStep_leaf lo' u F a si si' hau (hl.of_get? hsa hR.cur) h
  obtain ⟨ou, oi, hu, hui, hfr⟩ := hR.self
  refine { self := ⟨ou, dropObj F a oa.tag oi, hu, by rw [h8, hui]; rfl, ?_⟩, others := ?_, gone := ?_, names := ?_, notSelf := ?_, cur := h9.trans hR.cur }
  · intro fn
    rw [frame?_dropObj, hfr fn]
    cases ou.frame? fn with
    | none => rfl
    | some f =>
      simp only [Option.map_some]
      by_cases hF : fn = F
      · simp [hF, List.foldl_append]
      · simp [hF]
  · intro v hvu hvd
    have hva : v ≠ a := fun e => hvd (by simp [e])
    have hvd' : v ∉ done := fun e => hvd (by simp [e])
    rw [h7 v hva hvu]
    exact hR.others v hvu hvd'
  · intro b hb
    rcases List.mem_append.mp hb with hb | hb
    · obtain ⟨ob, ob', g1, g2, g3, g4⟩ := hR.gone b hb
      have hba : b ≠ a := fun e => had (e ▸ hb)
      have hbu : b ≠ u := fun e => hR.notSelf (e ▸ hb)
      refine ⟨ob, ob', g1, ?_, g3, ?_⟩
      · rw [h7 b hba hbu]; exact g2
      · intro e
        exact g4 (h6 _ _ e)
    · simp at hb
      subst hb
      refine ⟨oa, oa', by rw [← hsa]; exact h1, h2, h4, ?_⟩
      exact h5
  · intro n x hx
    exact hR.names n x (h6 n x hx)
  · intro e
    rcases List.mem_append.mp e with e | e
    · exact hR.notSelf e
    · simp at e; exact hau e.symm


theorem razed_forEach (lo' : Ops) (u : Nat) (F : String) (s : St) (R : List Nat) :
    ∀ (done : List Nat) (si : St), Razed u F s done si → (∀ a ∈ R, a ≠ u ∧ LeafObj s a) → (done ++ R).Nodup →
      ∀ s', forEach (pruneStep (nextOps lo') u F) R si = .ok s' → Razed u F s (done ++ R) s' := by
  induction R with
  | nil =>
    intro done si hR _ _ s' h
    simp only [forEach] at h
    injection h with h
    subst h
    simpa using hR
  | cons a rest ih =>
    intro done si hR hl hnd s' h
    simp only [forEach] at h
    cases hstep : pruneStep (nextOps lo') u F a si with
    | error e => simp [hstep] at h
    | ok si1 =>
      simp only [hstep] at h
      have had : a ∉ done := by
        intro e
        have := List.nodup_append.mp hnd
        exact this.2.2 a e a (by simp) rfl
      have h1 := hR.step lo' u F s si si1 done a (hl a (by simp)).1 had (hl a (by simp)).2 hstep
      have := ih (done ++ [a]) si1 h1 (fun b hb => hl b (by simp [hb])) (by simpa using hnd) s' h
      simpa using this

theorem foldl_erase_eq_filter (R A : List Nat) (hA : A.Nodup) :
    R.foldl List.erase A = A.filter (fun x => !R.contains x) := by
  induction R generalizing A with
  | nil =>
    simp only [List.foldl_nil, List.contains_nil, Bool.not_false]
    exact (List.filter_eq_self.mpr (fun _ _ => rfl)).symm
  | cons a rest ih =>
    simp only [List.foldl_cons]
    rw [ih (A.erase a) (hA.erase a), hA.erase_eq_filter a, List.filter_filter]
    congr 1
    funext x
    by_cases hx : x = a
    · simp [hx]
    · simp [hx]

theorem razeables_sublist (s : St) (who : Who) (A : List Nat) : (razeables s who A).Sublist A := by
  unfold razeables
  cases who with
  | all => exact List.filter_sublist
  | first =>
    cases h : A.find? (isRazeable s) with
    | none => simp
    | some x => simpa using List.singleton_sublist.mpr (List.mem_of_find?_eq_some h)
  | last =>
    cases h : A.reverse.find? (isRazeable s) with
    | none => simp
    | some x => simpa using List.singleton_sublist.mpr (List.mem_reverse.mp (List.mem_of_find?_eq_some h))

/-- **The exact effect of raze when the selected clones have no auxiliaries below them.** -/
theorem raze_leaf (lo' : Ops) (u : Nat) (who : Who) (F : String) (s s' : St) (f : Frame)
    (hf : s.frameOf u F = .ok f) (hnd : f.auxes.Nodup)
    (hl : ∀ a ∈ razeables s who f.auxes, a ≠ u ∧ LeafObj s a)
    (h : raze (nextOps lo') u who F s = .ok s') :
    (∃ f', s'.frameOf u F = .ok f' ∧ f'.auxes = f.auxes.filter (fun x => !(razeables s who f.auxes).contains x) ∧
        { f' with auxes := f.auxes } = f) ∧
    (∀ fn, fn ≠ F → s'.frameOf u fn = s.frameOf u fn) ∧
    (∀ v, v ≠ u → v ∉ razeables s who f.auxes → s'.get? v = s.get? v) ∧
    (∀ a ∈ razeables s who f.auxes, ∃ oa oa', s.get? a = some oa ∧ s'.get? a = some oa' ∧ oa'.ctl.active = none ∧
        lookup s'.names oa.name ≠ some a) ∧
    (∀ n x, lookup s'.names n = some x → lookup s.names n = some x) := by
  unfold raze at h
  rw [hf] at h
  simp only [] at h
  have hfo : ∃ ou, s.get? u = some ou ∧ ou.frame? F = some f := by
    unfold St.frameOf at hf
    cases hg : s.get? u with
    | none => simp [hg] at hf
    | some ou =>
      simp only [hg] at hf
      cases hq : ou.frame? F with
      | none => simp [hq] at hf
      | some g => simp [hq] at hf; exact ⟨ou, rfl, by rw [hq, hf]⟩
  obtain ⟨ou, hou, hfr⟩ := hfo
  have hR := razed_forEach lo' u F s (razeables s who f.auxes) [] s (Razed.start u F s ou hou) hl
    (by simpa using hnd.sublist (razeables_sublist s who f.auxes)) s' h
  simp only [List.nil_append] at hR
  obtain ⟨ou', oi, hu, hui, hfrm⟩ := hR.self
  have : ou' = ou := by rw [hou] at hu; injection hu with hu; exact hu.symm
  subst this
  refine ⟨?_, ?_, hR.others, hR.gone, hR.names⟩
  · refine ⟨{ f with auxes := (razeables s who f.auxes).foldl List.erase f.auxes }, ?_, ?_, rfl⟩
    · unfold St.frameOf
      rw [hui]
      simp only [hfrm F, hfr, Option.map_some, if_true]
    · exact foldl_erase_eq_filter _ _ hnd
  · intro fn hfn
    unfold St.frameOf
    rw [hui, hou]
    simp only [hfrm fn]
    cases ou'.frame? fn with
    | none => rfl
    | some g => simp [hfn]


theorem filter_not_contains_filter (A : List Nat) (p : Nat → Bool) :
    A.filter (fun x => !(A.filter p).contains x) = A.filter (fun x => !p x) := by
  apply List.filter_congr
  intro x hx
  have hc : (A.filter p).contains x = p x := by
    cases hp : p x with
    | true => simp [List.mem_filter, hx, hp]
    | false => simp [List.mem_filter, hp]
  rw [hc]

/-- **Pruning the clones of one frame, whatever their positions.**  The frame loop of `Framer.prune` on a frame whose
clone auxiliaries have no auxiliaries below them: EVERY clone of the frame — adjacent or not, named or insular — is
pruned, dropped from the frame's aux list and from the framer's `auxes`, ends not entered and unregistered; the
original (plain) auxiliaries keep their places; nothing else changes. -/
theorem pruneFrame_leaf (lo' : Ops) (u : Nat) (F : String) (s s' : St) (f : Frame)
    (hf : s.frameOf u F = .ok f) (hnd : f.auxes.Nodup)
    (hl : ∀ a ∈ f.auxes.filter (isCloneAux s), a ≠ u ∧ LeafObj s a)
    (h : pruneFrame (nextOps lo') u F s = .ok s') :
    (∃ f', s'.frameOf u F = .ok f' ∧ f'.auxes = f.auxes.filter (fun x => !isCloneAux s x) ∧
        { f' with auxes := f.auxes } = f) ∧
    (∀ fn, fn ≠ F → s'.frameOf u fn = s.frameOf u fn) ∧
    (∀ v, v ≠ u → v ∉ f.auxes.filter (isCloneAux s) → s'.get? v = s.get? v) ∧
    (∀ a ∈ f.auxes.filter (isCloneAux s), ∃ oa oa', s.get? a = some oa ∧ s'.get? a = some oa' ∧
        oa'.ctl.active = none ∧ lookup s'.names oa.name ≠ some a) ∧
    (∀ n x, lookup s'.names n = some x → lookup s.names n = some x) := by
  unfold pruneFrame at h
  rw [hf] at h
  simp only [] at h
  have hfo : ∃ ou, s.get? u = some ou ∧ ou.frame? F = some f := by
    unfold St.frameOf at hf
    cases hg : s.get? u with
    | none => simp [hg] at hf
    | some ou =>
      simp only [hg] at hf
      cases hq : ou.frame? F with
      | none => simp [hq] at hf
      | some g => simp [hq] at hf; exact ⟨ou, rfl, by rw [hq, hf]⟩
  obtain ⟨ou, hou, hfr⟩ := hfo
  have hR := razed_forEach lo' u F s (f.auxes.filter (isCloneAux s)) [] s (Razed.start u F s ou hou) hl
    (by simpa using hnd.sublist List.filter_sublist) s' h
  simp only [List.nil_append] at hR
  obtain ⟨ou', oi, hu, hui, hfrm⟩ := hR.self
  have : ou' = ou := by rw [hou] at hu; injection hu with hu; exact hu.symm
  subst this
  refine ⟨?_, ?_, hR.others, hR.gone, hR.names⟩
  · refine ⟨{ f with auxes := (f.auxes.filter (isCloneAux s)).foldl List.erase f.auxes }, ?_, ?_, rfl⟩
    · unfold St.frameOf
      rw [hui]
      simp only [hfrm F, hfr, Option.map_some, if_true]
    · show (f.auxes.filter (isCloneAux s)).foldl List.erase f.auxes = _
      rw [foldl_erase_eq_filter _ _ hnd, filter_not_contains_filter]
  · intro fn hfn
    unfold St.frameOf
    rw [hui, hou]
    simp only [hfrm fn]
    cases ou'.frame? fn with
    | none => rfl
    | some g => simp [hfn]

/-! ### rearing -/

/-- **Rearing** (`Rearer.action` up to the presolve / resolve of the new clone): the tag is `<original's tag><n>`
and not in use in the rearing framer, the name is `surname_tag` and was free, the new object is a copy of the original
flagged clone, insular and razeable, with the named frame as its fixed main frame, appended to that frame's aux list,
entered in the framer's `auxes` under its tag and queued for presolve; nothing else in the house changes. -/
theorem rearCreate_spec (u : Nat) (moot frame : String) (s s' : St) (c : Fr)
    (hfresh : s.get? s.nextUid = none) (h : rearCreate u moot frame s = .ok (s', c)) :
    ∃ orig me tag sn, resolveFramer s moot none = .ok orig ∧ s.get? u = some me ∧
      newTag (me.auxes.map (·.1)) orig.tag = .ok tag ∧ surname s u = .ok sn ∧
      c.name = sn ++ "_" ++ tag ∧ c.uid = s.nextUid ∧ lookup s.names c.name = none ∧
      lookup s'.names c.name = some c.uid ∧
      (∃ c', s'.get? c.uid = some c' ∧ c'.name = c.name ∧ c'.tag = (if tag = "" then c.name else tag) ∧
        c'.original = false ∧ c'.insular = true ∧ c'.razeable = true ∧ c'.main = some (u, frame) ∧
        c'.frames = orig.frames.map Frame.clone ∧ c'.ctl = {}) ∧
      (∃ me', s'.get? u = some me' ∧ lookup me'.auxes tag = some c.uid ∧
        ∀ fn, me'.frame? fn = (me.frame? fn).map (fun f => if fn = frame then { f with auxes := f.auxes ++ [c.uid] } else f)) ∧
      (∀ v, v ≠ u → v ≠ c.uid → s'.get? v = s.get? v) ∧
      s'.presolvables = s.presolvables ++ [c.uid] := by
  unfold rearCreate at h
  cases ho : resolveFramer s moot none with
  | error e => simp [ho] at h
  | ok orig =>
    simp only [ho] at h
    cases hme : s.get? u with
    | none => simp [hme] at h
    | some me =>
      simp only [hme] at h
      cases ht : newTag (me.auxes.map (·.1)) orig.tag with
      | error e => simp [ht] at h
      | ok tag =>
        simp only [ht] at h
        cases hs : surname s u with
        | error e => simp [hs] at h
        | ok sn =>
          simp only [hs] at h
          cases hc : cloneFramer s orig (sn ++ "_" ++ tag) tag with
          | error e => simp [hc] at h
          | ok sc =>
            obtain ⟨s1, c1⟩ := sc
            simp only [hc] at h
            injection h with h
            injection h with h1 h2
            subst h2
            obtain ⟨k1, k2, k3, k4, k5, k6, k7, k8, k9, k10, k11, k12⟩ :=
              cloneFramer_spec s s1 orig c1 (sn ++ "_" ++ tag) tag hfresh hc
            have hu : u ≠ s.nextUid := by
              intro e
              rw [e, hfresh] at hme
              cases hme
            have hcu : c1.uid ≠ u := by rw [k1]; exact fun e => hu e.symm
            -- the three updates
            let fl : Fr → Fr := fun o => { o with original := false, insular := true, razeable := true, main := some (u, frame) }
            let fa : Fr → Fr := fun o => { o with auxes := assign o.auxes tag c1.uid }
            let ff : Fr → Fr := fun o => o.modFrame frame (fun f => { f with auxes := f.auxes ++ [c1.uid] })
            have g1 : ∀ v, (s1.mod c1.uid fl).get? v = if v = c1.uid then (s1.get? v).map fl else s1.get? v :=
              fun v => get?_mod s1 c1.uid v fl (fun _ => rfl)
            have g2 : ∀ v, ((s1.mod c1.uid fl).mod u fa).get? v
                = if v = u then ((s1.mod c1.uid fl).get? v).map fa else (s1.mod c1.uid fl).get? v :=
              fun v => get?_mod _ u v fa (fun _ => rfl)
            have g3 : ∀ v, (((s1.mod c1.uid fl).mod u fa).mod u ff).get? v
                = if v = u then (((s1.mod c1.uid fl).mod u fa).get? v).map ff else ((s1.mod c1.uid fl).mod u fa).get? v :=
              fun v => get?_mod _ u v ff (fun _ => rfl)
            have hfin : ∀ v, s'.get? v = (((s1.mod c1.uid fl).mod u fa).mod u ff).get? v := by
              intro v; rw [← h1]; rfl
            refine ⟨orig, me, tag, sn, rfl, rfl, ht, rfl, k2, k1, by rw [k2]; exact k12, ?_, ?_, ?_, ?_, ?_⟩
            · rw [← h1]
              show lookup s1.names c1.name = some c1.uid
              rw [k9, k2, k1]
              exact lookup_assign_self _ _ _
            · refine ⟨fl c1, ?_, rfl, by rw [k2]; exact k3, rfl, rfl, rfl, rfl, k4, k6⟩
              rw [hfin, g3, if_neg hcu, g2, if_neg hcu, g1, if_pos rfl, k8, k1, if_pos rfl]
              rfl
            · refine ⟨ff (fa me), ?_, ?_, ?_⟩
              · rw [hfin, g3, if_pos rfl, g2, if_pos rfl, g1, if_neg (fun e => hcu e.symm), k8, if_neg hu, hme]
                rfl
              · show lookup (assign me.auxes tag c1.uid) tag = some c1.uid
                exact lookup_assign_self _ _ _
              · intro fn
                exact frame?_modFrame (fa me) frame fn (fun f => { f with auxes := f.auxes ++ [c1.uid] }) (fun _ => rfl)
            · intro v hvu hvc
              rw [hfin, g3, if_neg hvu, g2, if_neg hvu, g1, if_neg hvc, k8, if_neg (by rw [← k1]; exact hvc)]
            · rw [← h1]
              show s1.presolvables ++ [c1.uid] = s.presolvables ++ [c1.uid]
              rw [k10]


/-! ### static clones -/

/-- one entry of `Framer.resolveMoots`: what a clone clause `aux orig as tag [via inode]` of framer `u` makes -/
theorem resolveMoot_spec (u : Nat) (s s' : St) (tag : String) (d : Moot)
    (hfresh : s.get? s.nextUid = none) (h : resolveMoot u s (tag, d) = .ok s') :
    ∃ orig me sn, d.clone = tag ∧ tag ≠ "mine" ∧ resolveFramer s d.original (some .moot) = .ok orig ∧
      s.get? u = some me ∧ me.lineage.contains orig.name = false ∧ lookup me.auxes tag = none ∧
      surname s u = .ok sn ∧ lookup s.names (sn ++ "_" ++ tag) = none ∧
      lookup s'.names (sn ++ "_" ++ tag) = some s.nextUid ∧
      (∃ c', s'.get? s.nextUid = some c' ∧ c'.name = sn ++ "_" ++ tag ∧ c'.original = false ∧
        c'.insular = d.insular ∧ c'.razeable = false ∧ c'.main = none ∧
        c'.inode = (if d.inode ≠ "mine" then d.inode else orig.inode) ∧
        c'.lineage = me.lineage ++ [orig.name] ∧ c'.frames = orig.frames.map Frame.clone ∧ c'.first = orig.first ∧
        c'.moots = orig.moots ∧ c'.ctl = {}) ∧
      (∃ me', s'.get? u = some me' ∧ lookup me'.auxes tag = some s.nextUid ∧ me'.frames = me.frames) ∧
      (∀ v, v ≠ u → v ≠ s.nextUid → s'.get? v = s.get? v) ∧
      s'.presolvables = s.presolvables ++ [s.nextUid] := by
  unfold resolveMoot at h
  simp only [] at h
  split at h
  · cases h
  · rename_i h1
    split at h
    · cases h
    · rename_i h2
      cases ho : resolveFramer s d.original (some .moot) with
      | error e => simp [ho] at h
      | ok orig =>
        simp only [ho] at h
        cases hme : s.get? u with
        | none => simp [hme] at h
        | some me =>
          simp only [hme] at h
          split at h
          · cases h
          · rename_i h3
            split at h
            · cases h
            · rename_i h4
              cases hs : surname s u with
              | error e => simp [hs] at h
              | ok sn =>
                simp only [hs] at h
                cases hc : cloneFramer s orig (sn ++ "_" ++ tag) tag with
                | error e => cases e <;> simp [hc] at h
                | ok sc =>
                  obtain ⟨s1, c1⟩ := sc
                  simp only [hc] at h
                  injection h with h
                  obtain ⟨k1, k2, k3, k4, k5, k6, k7, k8, k9, k10, k11, k12⟩ :=
                    cloneFramer_spec s s1 orig c1 (sn ++ "_" ++ tag) tag hfresh hc
                  have kdef := (show c1.first = orig.first ∧ c1.moots = orig.moots ∧ c1.inode = orig.inode ∧
                      c1.razeable = false ∧ c1.insular = false from by
                    unfold cloneFramer at hc
                    split at hc
                    · cases hc
                    · split at hc
                      · cases hc
                      · split at hc
                        · cases hc
                        · simp only [newFramer] at hc
                          injection hc with hc
                          injection hc with _ hc2
                          subst hc2
                          exact ⟨rfl, rfl, rfl, rfl, rfl⟩)
                  have hu : u ≠ s.nextUid := by
                    intro e
                    rw [e, hfresh] at hme
                    cases hme
                  have hcu : c1.uid ≠ u := by rw [k1]; exact fun e => hu e.symm
                  let fa : Fr → Fr := fun o => { o with auxes := assign o.auxes tag c1.uid }
                  let fl : Fr → Fr := fun o => { o with lineage := me.lineage ++ [orig.name],
                                                        inode := if d.inode ≠ "mine" then d.inode else o.inode,
                                                        original := false, insular := d.insular }
                  have g1 : ∀ v, (s1.mod u fa).get? v = if v = u then (s1.get? v).map fa else s1.get? v :=
                    fun v => get?_mod s1 u v fa (fun _ => rfl)
                  have g2 : ∀ v, ((s1.mod u fa).mod c1.uid fl).get? v
                      = if v = c1.uid then ((s1.mod u fa).get? v).map fl else (s1.mod u fa).get? v :=
                    fun v => get?_mod _ c1.uid v fl (fun _ => rfl)
                  have hfin : ∀ v, s'.get? v = ((s1.mod u fa).mod c1.uid fl).get? v := by
                    intro v; rw [← h]; rfl
                  have hnot : (me.lineage.contains orig.name) = false := by
                    cases hq : me.lineage.contains orig.name with
                    | false => rfl
                    | true => exact absurd hq h3
                  have hnone : lookup me.auxes tag = none := by
                    cases hq : lookup me.auxes tag with
                    | none => rfl
                    | some x => simp [hq] at h4
                  refine ⟨orig, me, sn, ?_, ?_, rfl, rfl, hnot, hnone, rfl, k12, ?_, ?_, ?_, ?_, ?_⟩
                  · exact Decidable.of_not_not h1
                  · intro e; apply h2; rw [Decidable.of_not_not h1, e]
                  · rw [← h]
                    show lookup s1.names (sn ++ "_" ++ tag) = some s.nextUid
                    rw [k9]
                    exact lookup_assign_self _ _ _
                  · refine ⟨fl c1, ?_, k2, rfl, rfl, kdef.2.2.2.1, k7, ?_, rfl, k4, kdef.1, kdef.2.1, k6⟩
                    · rw [hfin, ← k1, g2, if_pos rfl, g1, if_neg hcu, k8, k1, if_pos rfl]
                      rfl
                    · show (if d.inode ≠ "mine" then d.inode else c1.inode) = _
                      rw [kdef.2.2.1]
                  · refine ⟨fa me, ?_, ?_, rfl⟩
                    · rw [hfin, g2, if_neg (fun e => hcu e.symm), g1, if_pos rfl, k8, if_neg hu, hme]
                      rfl
                    · show lookup (assign me.auxes tag c1.uid) tag = some s.nextUid
                      rw [k1]
                      exact lookup_assign_self _ _ _
                  · intro v hvu hvc
                    rw [hfin, g2, if_neg (by rw [k1]; exact hvc), g1, if_neg hvu, k8, if_neg hvc]
                  · rw [← h]
                    show s1.presolvables ++ [c1.uid] = s.presolvables ++ [s.nextUid]
                    rw [k10, k1]

end Ioflo.Clones
