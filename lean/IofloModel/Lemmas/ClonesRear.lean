import IofloModel.Lemmas.ClonesRaze
/-!
Rear followed by raze: the exact effect of `Rearer.action` on the registry and on the rearing framer, the exact effect
of the prune step on a clone without auxiliaries, and the round trip (proof device for C12; core Lean only).
-/
namespace Ioflo.Clones

/-! ### association lists and aux lists -/

theorem erase_assign_fresh {α : Type} (l : List (String × α)) (k : String) (v : α) (h : lookup l k = none) :
    erase (assign l k v) k = l := by
  have hk : k ∉ keys l := (lookup_none_iff l k).mp h
  unfold assign
  rw [any_key_iff, h]
  simp only [Option.isSome_none, Bool.false_eq_true, if_false]
  unfold erase
  rw [List.filter_append]
  have h1 : l.filter (fun kv => kv.1 != k) = l := by
    apply List.filter_eq_self.mpr
    intro a ha
    have : a.1 ≠ k := by
      intro e
      apply hk
      unfold keys
      exact List.mem_map.mpr ⟨a, ha, e⟩
    simp [this]
  rw [h1]
  simp

theorem erase_append_fresh (l : List Nat) (c : Nat) (h : c ∉ l) : (l ++ [c]).erase c = l := by
  rw [List.erase_append_right _ h]
  simp

/-- what `rearCreate` does to the rearing framer's own object -/
def rearObj (frame tag : String) (c : Nat) (me : Fr) : Fr :=
  ({ me with auxes := assign me.auxes tag c } : Fr).modFrame frame (fun f => { f with auxes := f.auxes ++ [c] })

theorem Fr.eta2 (o : Fr) (fs : List Frame) (ax : List (String × Nat)) (h1 : fs = o.frames) (h2 : ax = o.auxes) :
    ({ o with frames := fs, auxes := ax } : Fr) = o := by
  subst h1 h2
  cases o
  rfl

/-- **dropping what the rear added gives the rearing framer back** -/
theorem dropObj_rearObj (F tag : String) (c : Nat) (me : Fr) (h1 : lookup me.auxes tag = none)
    (h2 : ∀ f ∈ me.frames, c ∉ f.auxes) : dropObj F c tag (rearObj F tag c me) = me := by
  apply Fr.eta2 me
  · show (me.frames.map _).map _ = me.frames
    rw [List.map_map]
    conv => rhs; rw [← List.map_id me.frames]
    apply List.map_congr_left
    intro f hf
    simp only [Function.comp, id]
    by_cases hn : (f.name == F) = true
    · simp only [hn, if_true]
      rw [erase_append_fresh _ _ (h2 f hf)]
    · have e : (f.name == F) = false := by
        cases hb : (f.name == F)
        · rfl
        · exact absurd hb hn
      simp only [e]
      simp
      intro hF
      simp [hF] at e
  · show erase (assign me.auxes tag c) tag = me.auxes
    exact erase_assign_fresh _ _ _ h1

/-! ### the exact effect of `rearCreate` -/

theorem cloneFramer_regs (s s1 : St) (orig c1 : Fr) (name tag : String)
    (hc : cloneFramer s orig name tag = .ok (s1, c1)) : s1.cur = s.cur ∧ s1.regs = s.regs ∧ c1.moots = orig.moots := by
  unfold cloneFramer at hc
  split at hc
  · cases hc
  · split at hc
    · cases hc
    · split at hc
      · cases hc
      · simp only [newFramer] at hc
        injection hc with hc
        injection hc with hc1 hc2
        subst hc1 hc2
        exact ⟨rfl, rfl, rfl⟩

theorem newTag_spec (ks : List String) (base t : String) (h : newTag ks base = .ok t) : t ∉ ks ∧ t ≠ "" := by
  unfold newTag at h
  split at h
  · rename_i n hf
    cases h
    have hp := List.find?_some hf
    refine ⟨by simpa using hp, ?_⟩
    intro e
    have h2 := (String.append_eq_empty_iff.mp e).2
    have := congrArg String.length h2
    simp at this
  · cases h

theorem lookup_none_of_not_key {α : Type} (l : List (String × α)) (k : String) (h : k ∉ l.map (·.1)) :
    lookup l k = none := (lookup_none_iff l k).mpr h

/-- **Rearing, exactly**: the registry gains the clone's (free) name, the class pointers stay, the rearing framer's
object gains the tag and the aux-list entry, every other existing object stays as it is. -/
theorem rearCreate_exact (u : Nat) (moot frame : String) (s s' : St) (c : Fr)
    (hfresh : s.get? s.nextUid = none) (h : rearCreate u moot frame s = .ok (s', c)) :
    ∃ me tag orig, s.get? u = some me ∧ lookup me.auxes tag = none ∧ tag ≠ "" ∧ c.uid = s.nextUid ∧ c.uid ≠ u ∧
      lookup s.names c.name = none ∧
      s'.names = assign s.names c.name c.uid ∧ s'.cur = s.cur ∧ s'.regs = s.regs ∧
      s'.get? u = some (rearObj frame tag c.uid me) ∧
      (∃ c', s'.get? c.uid = some c' ∧ c'.name = c.name ∧ c'.tag = tag ∧ resolveFramer s moot none = .ok orig ∧
        c'.moots = orig.moots ∧ c'.frames = orig.frames.map Frame.clone) ∧
      (∀ v, v ≠ u → v ≠ c.uid → s'.get? v = s.get? v) ∧ s'.presolvables = s.presolvables ++ [c.uid] ∧
      s'.resolvables = s.resolvables := by
  obtain ⟨orig, me, tag, sn, h1, h2, h3, h4, h5, h6, h7, h8, ⟨c', g1, g2, g3, _⟩, ⟨me', m1, m2, m3⟩, h11, h12⟩ :=
    rearCreate_spec u moot frame s s' c hfresh h
  obtain ⟨t1, t2⟩ := newTag_spec _ _ _ h3
  have hu : c.uid ≠ u := by
    rw [h6]
    intro e
    rw [e, h2] at hfresh
    cases hfresh
  unfold rearCreate at h
  simp only [h1, h2, h3, h4] at h
  cases hc : cloneFramer s orig (sn ++ "_" ++ tag) tag with
  | error e => simp [hc] at h
  | ok sc =>
    obtain ⟨s1, c1⟩ := sc
    simp only [hc] at h
    injection h with h
    injection h with e1 e2
    subst e2
    obtain ⟨k1, k2, k3, k4, k5, k6, k7, k8, k9, k10, k11, k12⟩ :=
      cloneFramer_spec s s1 orig c1 (sn ++ "_" ++ tag) tag hfresh hc
    obtain ⟨r1, r2, r3⟩ := cloneFramer_regs s s1 orig c1 _ _ hc
    have hun : u ≠ s.nextUid := by rw [← k1]; exact fun e => hu e.symm
    let fl : Fr → Fr := fun o => { o with original := false, insular := true, razeable := true, main := some (u, frame) }
    let fa : Fr → Fr := fun o => { o with auxes := assign o.auxes tag c1.uid }
    let ff : Fr → Fr := fun o => o.modFrame frame (fun f => { f with auxes := f.auxes ++ [c1.uid] })
    have g1' : ∀ v, (s1.mod c1.uid fl).get? v = if v = c1.uid then (s1.get? v).map fl else s1.get? v :=
      fun v => get?_mod s1 c1.uid v fl (fun _ => rfl)
    have g2' : ∀ v, ((s1.mod c1.uid fl).mod u fa).get? v
        = if v = u then ((s1.mod c1.uid fl).get? v).map fa else (s1.mod c1.uid fl).get? v :=
      fun v => get?_mod _ u v fa (fun _ => rfl)
    have g3' : ∀ v, (((s1.mod c1.uid fl).mod u fa).mod u ff).get? v
        = if v = u then (((s1.mod c1.uid fl).mod u fa).get? v).map ff else ((s1.mod c1.uid fl).mod u fa).get? v :=
      fun v => get?_mod _ u v ff (fun _ => rfl)
    have hfin : s'.get? u = (((s1.mod c1.uid fl).mod u fa).mod u ff).get? u := by rw [← e1]; rfl
    have hfc : s'.get? c1.uid = (((s1.mod c1.uid fl).mod u fa).mod u ff).get? c1.uid := by rw [← e1]; rfl
    have hc1 : s'.get? c1.uid = some (fl c1) := by
      rw [hfc, g3', if_neg hu, g2', if_neg hu, g1', if_pos rfl, k8, k1, if_pos rfl]
      rfl
    have hres : s'.resolvables = s.resolvables := by
      rw [← e1]
      show s1.resolvables = s.resolvables
      unfold cloneFramer at hc
      split at hc
      · cases hc
      · split at hc
        · cases hc
        · split at hc
          · cases hc
          · simp only [newFramer] at hc
            injection hc with hc
            injection hc with hc1' hc2'
            subst hc1'
            rfl
    refine ⟨me, tag, orig, h2, lookup_none_of_not_key _ _ t1, t2, h6, hu, h7, ?_, ?_, ?_, ?_,
      ⟨fl c1, hc1, rfl, ?_, h1, r3, k4⟩, h11, h12, hres⟩
    rotate_left 4
    · show c1.tag = tag
      rw [k3, if_neg t2]
    · rw [← e1]
      show s1.names = _
      rw [k9, k2, k1]
    · rw [← e1]; exact r1
    · rw [← e1]; exact r2
    · rw [hfin, g3', if_pos rfl, g2', if_pos rfl, g1', if_neg (fun e => hu e.symm), k8, if_neg hun, h2]
      rfl

/-! ### quiet steps: only one object (and the store, the worklists) changes -/

/-- between the rear and the raze: the registry, the class pointers and every object but `c` stay as they are; `c`
keeps its name and tag -/
structure Quiet (c : Nat) (s s' : St) : Prop where
  others : ∀ v, v ≠ c → s'.get? v = s.get? v
  names : s'.names = s.names
  cur : s'.cur = s.cur
  regs : s'.regs = s.regs
  self : ∀ o, s.get? c = some o → ∃ o', s'.get? c = some o' ∧ o'.name = o.name ∧ o'.tag = o.tag ∧ o'.house = o.house

theorem Quiet.refl (c : Nat) (s : St) : Quiet c s s :=
  { others := fun _ _ => rfl, names := rfl, cur := rfl, regs := rfl, self := fun o h => ⟨o, h, rfl, rfl, rfl⟩ }

theorem Quiet.trans {c : Nat} {s1 s2 s3 : St} (a : Quiet c s1 s2) (b : Quiet c s2 s3) : Quiet c s1 s3 :=
  { others := fun v hv => (b.others v hv).trans (a.others v hv)
    names := b.names.trans a.names
    cur := b.cur.trans a.cur
    regs := b.regs.trans a.regs
    self := fun o h => by
      obtain ⟨o2, h2, n2, t2, u2⟩ := a.self o h
      obtain ⟨o3, h3, n3, t3, u3⟩ := b.self o2 h2
      exact ⟨o3, h3, n3.trans n2, t3.trans t2, u3.trans u2⟩ }

/-- every step of a framer object without auxiliaries is quiet (`Rest` is what the leaf refinement maintains) -/
theorem Quiet.of_rest {ι : String → String} {c : Nat} {s s' : St} (r : Rest ι c s s') (hc : (s'.get? c).isSome) :
    Quiet c s s' :=
  { others := r.others, names := r.names, cur := r.regs.1, regs := r.regs.2.1
    self := fun o h => by
      cases h' : s'.get? c with
      | none => simp [h'] at hc
      | some o' =>
        obtain ⟨o0, e0, e1⟩ := r.self o' h'
        rw [h] at e0
        injection e0 with e0
        subst e0
        exact ⟨o', rfl, by rw [e1], by rw [e1], by rw [e1]⟩ }

/-! ### the exact effect of the prune step on a clone without auxiliaries -/

theorem pruneStep_leaf_exact (lo' : Ops) (u : Nat) (fn : String) (a : Nat) (s s' : St)
    (hau : a ≠ u) (hl : LeafObj s a) (h : pruneStep (nextOps lo') u fn a s = .ok s') :
    ∃ oa oa', s.get? a = some oa ∧ s'.get? a = some oa' ∧ oa' = { oa with ctl := oa'.ctl } ∧
      oa'.ctl.active = none ∧
      s'.names = (if lookup s.names oa.name = some a then erase s.names oa.name else s.names) ∧
      s'.cur = s.cur ∧ s'.regs = s.regs ∧
      (∀ v, v ≠ a → v ≠ u → s'.get? v = s.get? v) ∧
      s'.get? u = (s.get? u).map (dropObj fn a oa.tag) := by
  obtain ⟨o, ι, P, ho, hfr, hleaf, hinj, hcur⟩ := hl
  unfold pruneStep at h
  have hp : (nextOps lo').prune a s = prune lo' a s := rfl
  rw [hp] at h
  cases hr : prune lo' a s with
  | error e => simp [hr] at h
  | ok s1 =>
    simp only [hr] at h
    obtain ⟨s2, l2, me, hme, hsim, hs1, hact, _, _⟩ :=
      prune_leaf lo' ι o.house o.name P o.first a s.out hinj hleaf s _ (sim_of_obj ι P a s o ho hfr) s1 hr
    have hmeo : me = o := by rw [ho] at hme; injection hme with hme; exact hme.symm
    subst hmeo
    rw [assignRegistries_self s2 me.house (by rw [hsim.rest.regs.1]; exact hcur.symm)] at hs1
    obtain ⟨o2, ho2, _, _, _, hctl2⟩ := hsim.obj
    have hs1a : s1.get? a = some o2 := by rw [hs1, get?_unregister]; exact ho2
    simp only [hs1a] at h
    injection h with h
    subst h
    obtain ⟨o0, ho0, heq⟩ := hsim.rest.self o2 ho2
    have ho0' : o0 = me := by rw [ho] at ho0; injection ho0 with ho0; exact ho0.symm
    subst ho0'
    have htag : o2.tag = o0.tag := by rw [heq]
    have e2 : ∀ x : Fr, (unregister s2 x).cur = s2.cur := by intro x; unfold unregister; split <;> rfl
    have e3 : ∀ x : Fr, (unregister s2 x).regs = s2.regs := by intro x; unfold unregister; split <;> rfl
    refine ⟨o0, o2, ho, ?_, heq, ?_, ?_, ?_, ?_, ?_, ?_⟩
    · rw [get?_dropAux_other _ _ _ _ _ _ hau]; exact hs1a
    · rw [hctl2]; exact hact
    · rw [names_dropAux, hs1]
      unfold unregister
      rw [hsim.rest.names, uid_of_get? ho]
      split
      · rfl
      · exact hsim.rest.names
    · have e1 : (dropAux u fn a o2.tag s1).cur = s1.cur := rfl
      rw [e1, hs1, e2]; exact hsim.rest.regs.1
    · have e1 : (dropAux u fn a o2.tag s1).regs = s1.regs := rfl
      rw [e1, hs1, e3]; exact hsim.rest.regs.2.1
    · intro v hva hvu
      rw [get?_dropAux_other _ _ _ _ _ _ hvu, hs1, get?_unregister]
      exact hsim.rest.others v hva
    · rw [get?_dropAux_self, hs1, get?_unregister, hsim.rest.others u (fun e => hau e.symm), htag]

/-! ### the round trip -/

/-- **Rear, run, raze**: a clone is reared into frame `F` of framer `u`, anything quiet happens (its presolve and
resolve, its own run), and then the prune step of `Razer.action` / `Framer.prune` removes it.  The registry and the
class pointers are exactly those before the rear and every object that existed before the rear — the rearing framer with
its aux lists and tags included — is exactly as it was; the clone is left inactive and unnamed. -/
theorem rear_raze_roundtrip (lo' : Ops) (u : Nat) (moot F : String) (s0 s1 s2 s3 : St) (c : Fr)
    (hfresh : s0.get? s0.nextUid = none)
    (hnc : ∀ me f, s0.get? u = some me → f ∈ me.frames → s0.nextUid ∉ f.auxes)
    (hc : rearCreate u moot F s0 = .ok (s1, c))
    (hq : Quiet c.uid s1 s2) (hl : LeafObj s2 c.uid)
    (hp : pruneStep (nextOps lo') u F c.uid s2 = .ok s3) :
    s3.names = s0.names ∧ s3.cur = s0.cur ∧ s3.regs = s0.regs ∧
    (∀ v, v ≠ c.uid → s3.get? v = s0.get? v) ∧
    (∃ oc, s3.get? c.uid = some oc ∧ oc.ctl.active = none ∧ oc.name = c.name) ∧
    lookup s3.names c.name = none := by
  obtain ⟨me, tag, orig, hme, htf, _, hcu, hne, hnm, hn1, hcur1, hregs1, hu1, ⟨c', hc', hc'n, hc't, _⟩, hoth1, _⟩ :=
    rearCreate_exact u moot F s0 s1 c hfresh hc
  obtain ⟨o2, ho2, ho2n, ho2t, _⟩ := hq.self c' hc'
  obtain ⟨oa, oa', p1, p2, p3, p4, p5, p6, p7, p8, p9⟩ := pruneStep_leaf_exact lo' u F c.uid s2 s3 hne hl hp
  have hoa : oa = o2 := by rw [ho2] at p1; injection p1 with p1; exact p1.symm
  subst hoa
  have hnames : s3.names = s0.names := by
    rw [p5, hq.names, hn1, ho2n, hc'n, lookup_assign_self, if_pos rfl]
    exact erase_assign_fresh _ _ _ hnm
  refine ⟨hnames, ?_, ?_, ?_, ⟨oa', p2, p4, ?_⟩, ?_⟩
  · rw [p6, hq.cur, hcur1]
  · rw [p7, hq.regs, hregs1]
  · intro v hv
    by_cases hvu : v = u
    · subst hvu
      rw [p9, hq.others v hv, hu1, hme, ho2t, hc't]
      simp only [Option.map_some]
      rw [dropObj_rearObj F tag c.uid me htf (fun f hf => by rw [hcu]; exact hnc me f hme hf)]
    · rw [p8 v hv hvu, hq.others v hv, hoth1 v hvu hv]
  · rw [p3]
    show oa.name = c.name
    rw [ho2n, hc'n]
  · rw [hnames]; exact hnm

/-! ### presolve and resolve of the new clone are quiet -/

/-- quiet, and the worklists stay -/
def QW (c : Nat) (s s' : St) : Prop :=
  Quiet c s s' ∧ s'.presolvables = s.presolvables ∧ s'.resolvables = s.resolvables

theorem QW.refl (c : Nat) (s : St) : QW c s s := ⟨Quiet.refl c s, rfl, rfl⟩

theorem QW.trans {c : Nat} {s1 s2 s3 : St} (a : QW c s1 s2) (b : QW c s2 s3) : QW c s1 s3 :=
  ⟨a.1.trans b.1, b.2.1.trans a.2.1, b.2.2.trans a.2.2⟩

theorem qw_mod (c : Nat) (s : St) (g : Fr → Fr) (hu : ∀ x, x.uid = c → (g x).uid = c)
    (hg : ∀ o, s.get? c = some o → (g o).name = o.name ∧ (g o).tag = o.tag ∧ (g o).house = o.house) :
    QW c s (s.mod c g) := by
  refine ⟨{ others := ?_, names := rfl, cur := rfl, regs := rfl, self := ?_ }, rfl, rfl⟩
  · intro v hv
    rw [get?_mod' s c v g hu, if_neg hv]
  · intro o ho
    refine ⟨g o, ?_, (hg o ho).1, (hg o ho).2.1, (hg o ho).2.2⟩
    rw [get?_mod' s c c g hu, if_pos rfl, ho]
    rfl

theorem qw_store (c : Nat) (s : St) (st : Store) : QW c s { s with store := st } :=
  ⟨{ others := fun _ _ => rfl, names := rfl, cur := rfl, regs := rfl, self := fun o h => ⟨o, h, rfl, rfl, rfl⟩ }, rfl, rfl⟩

theorem qw_modFrame (c : Nat) (s : St) (fn : String) (g : Frame → Frame) : QW c s (s.modFrame c fn g) :=
  qw_mod c s _ (fun _ h => h) (fun _ _ => ⟨rfl, rfl, rfl⟩)

theorem qw_forEach {α : Type} (c : Nat) (k : α → St → Except Err St) (xs : List α)
    (hk : ∀ x ∈ xs, ∀ s s', k x s = .ok s' → QW c s s') :
    ∀ s s', forEach k xs s = .ok s' → QW c s s' := by
  induction xs with
  | nil =>
    intro s s' h
    simp only [forEach] at h
    injection h with h
    subst h
    exact QW.refl c s
  | cons x rest ih =>
    intro s s' h
    simp only [forEach] at h
    cases hx : k x s with
    | error e => simp [hx] at h
    | ok s1 =>
      simp only [hx] at h
      exact (hk x (by simp) s s1 hx).trans (ih (fun y hy => hk y (by simp [hy])) s1 s' h)

theorem resolveFrame_qw (c : Nat) (fn : String) (s s' : St) (h : resolveFrame c s fn = .ok s') : QW c s s' := by
  unfold resolveFrame at h
  cases hg : s.get? c with
  | none => simp [hg] at h
  | some o =>
    simp only [hg] at h
    cases hf : o.frame? fn with
    | none => simp [hf] at h
    | some f =>
      simp only [hf] at h
      have hou : o.uid = c := uid_of_get? hg
      have q1 : ∀ frames, QW c s (s.mod c (fun _ => { o with frames := frames })) := fun frames =>
        qw_mod c s _ (fun _ _ => hou) (fun o' ho' => by
          rw [hg] at ho'; injection ho' with ho'; subst ho'; exact ⟨rfl, rfl, rfl⟩)
      repeat' split at h
      all_goals first | (cases h; done) | skip
      all_goals
        injection h with h
        subst h
        exact ((q1 _).trans (qw_modFrame c _ fn _)).trans (qw_store c _ _)

theorem traceOutlines_qw (c : Nat) (s s' : St) (h : traceOutlines c s = .ok s') : QW c s s' := by
  unfold traceOutlines at h
  cases hg : s.get? c with
  | none => simp [hg] at h
  | some o =>
    simp only [hg] at h
    split at h
    · cases h
    · injection h with h
      subst h
      exact qw_mod c s _ (fun _ hx => hx) (fun _ _ => ⟨rfl, rfl, rfl⟩)

/-- `Framer.resolve` touches nothing but the framer's own object and the store -/
theorem resolve_qw (c : Nat) (s s' : St) (h : resolve c s = .ok s') : QW c s s' := by
  unfold resolve at h
  cases hg : s.get? c with
  | none => simp [hg] at h
  | some o =>
    simp only [hg] at h
    split at h
    · cases h
    · cases h1 : forEach (fun fn s => resolveFrame c s fn) (o.frames.map (·.name)) s with
      | error e => simp [h1] at h
      | ok s1 =>
        simp only [h1] at h
        cases h2 : traceOutlines c s1 with
        | error e => simp [h2] at h
        | ok s2 =>
          simp only [h2] at h
          injection h with h
          subst h
          have q1 := qw_forEach c (fun fn s => resolveFrame c s fn) _ (fun fn _ s s' hh => resolveFrame_qw c fn s s' hh) s s1 h1
          exact (q1.trans (traceOutlines_qw c s1 s2 h2)).trans
            (qw_mod c s2 _ (fun _ hx => hx) (fun _ _ => ⟨rfl, rfl, rfl⟩))

/-- `Framer.presolve` of a framer without clone clauses and without aux links touches nothing but its own object -/
theorem presolve_qw (c : Nat) (s s' : St) (o : Fr) (ho : s.get? c = some o) (hm : o.moots = [])
    (hlk : ∀ f ∈ o.frames, f.links = []) (h : presolve c s = .ok s') : QW c s s' := by
  unfold presolve resolveMoots at h
  simp only [ho, hm, forEach] at h
  have q1 : QW c s (s.mod c (fun o => { o with moots := [] })) :=
    qw_mod c s _ (fun _ hx => hx) (fun _ _ => ⟨rfl, rfl, rfl⟩)
  have hg1 : (s.mod c (fun o => { o with moots := [] })).get? c = some { o with moots := [] } := by
    rw [get?_mod' s c c (fun o => { o with moots := [] }) (fun _ hx => hx), if_pos rfl, ho]; rfl
  simp only [hg1] at h
  split at h
  · cases h
  · cases h1 : forEach (fun f s => presolveFrame c s f) o.frames (s.mod c (fun o => { o with moots := [] })) with
    | error e => simp [h1] at h
    | ok s1 =>
      simp only [h1] at h
      injection h with h
      subst h
      have q2 := qw_forEach c (fun f s => presolveFrame c s f) o.frames (fun f hf s s' hh => by
        unfold presolveFrame at hh
        simp only [hlk f hf, forEach] at hh
        injection hh with hh
        subst hh
        exact qw_modFrame c s f.name _) _ s1 h1
      exact (q1.trans q2).trans (qw_mod c s1 _ (fun _ hx => hx) (fun _ _ => ⟨rfl, rfl, rfl⟩))

theorem presolveAll_nil (n : Nat) (s : St) (h : s.presolvables = []) : presolveAll n s = .ok s := by
  cases n <;> simp [presolveAll, h]

theorem resolveAll_nil (n : Nat) (s : St) (h : s.resolvables = []) : resolveAll n s = .ok s := by
  cases n <;> simp [resolveAll, h]

theorem presolveAll_single (n : Nat) (s sb : St) (c : Nat) (h : s.presolvables = [c])
    (hq : ∀ sa, presolve c { s with presolvables := [] } = .ok sa → sa.presolvables = [])
    (hpa : presolveAll (n + 1) s = .ok sb) :
    ∃ sa, presolve c { s with presolvables := [] } = .ok sa ∧ sb = { sa with resolvables := sa.resolvables ++ [c] } := by
  rw [presolveAll] at hpa
  simp only [h] at hpa
  cases hps : presolve c { s with presolvables := [] } with
  | error e => simp [hps] at hpa
  | ok sa =>
    simp only [hps] at hpa
    rw [presolveAll_nil _ _ (show ({ sa with resolvables := sa.resolvables ++ [c] } : St).presolvables = [] from hq sa hps)] at hpa
    injection hpa with hpa
    exact ⟨sa, rfl, hpa.symm⟩

theorem resolveAll_single (n : Nat) (s sb : St) (c : Nat) (h : s.resolvables = [c])
    (hq : ∀ sa, resolve c { s with resolvables := [] } = .ok sa → sa.resolvables = [])
    (hpa : resolveAll (n + 1) s = .ok sb) : resolve c { s with resolvables := [] } = .ok sb := by
  rw [resolveAll] at hpa
  simp only [h] at hpa
  cases hps : resolve c { s with resolvables := [] } with
  | error e => simp [hps] at hpa
  | ok sa =>
    simp only [hps] at hpa
    rw [resolveAll_nil _ _ (hq sa hps)] at hpa
    injection hpa with hpa
    rw [hpa]

theorem quiet_work (c : Nat) (s : St) (p r : List Nat) : Quiet c s { s with presolvables := p, resolvables := r } :=
  { others := fun _ _ => rfl, names := rfl, cur := rfl, regs := rfl, self := fun o h => ⟨o, h, rfl, rfl, rfl⟩ }

/-- **`Rearer.action` is `rearCreate` followed by quiet steps** when the worklists are empty (as they are at run time)
and the moot has neither clone clauses nor aux links: the presolve and the resolve of the new clone touch nothing but
the clone and the store, and leave the worklists empty again. -/
theorem rear_quiet (u : Nat) (fn moot F : String) (s0 s2 : St) (me : Fr) (af : Frame)
    (hme : s0.get? u = some me) (hh : s0.cur = me.house) (haf : me.frame? fn = some af)
    (hout : af.outline.contains F = false)
    (hw : s0.presolvables = [] ∧ s0.resolvables = [])
    (hfresh : s0.get? s0.nextUid = none)
    (hm : ∀ orig, resolveFramer s0 moot none = .ok orig → orig.moots = [] ∧ ∀ f ∈ orig.frames, f.links = [])
    (h : rear u fn moot F s0 = .ok s2) :
    ∃ s1 c, rearCreate u moot F s0 = .ok (s1, c) ∧ Quiet c.uid s1 s2 ∧ s2.presolvables = [] ∧ s2.resolvables = [] := by
  unfold rear at h
  simp only [hme, haf, hout, Bool.false_eq_true, if_false] at h
  rw [assignRegistries_self s0 me.house hh] at h
  cases hc : rearCreate u moot F s0 with
  | error e => simp [hc] at h
  | ok sc =>
    obtain ⟨s1, c⟩ := sc
    simp only [hc] at h
    obtain ⟨_, tag, orig, _, _, _, hcu, hne, _, _, _, _, _, ⟨c', hc', _, _, hres, hmo, hfr⟩, _, hp1, hr1⟩ :=
      rearCreate_exact u moot F s0 s1 c hfresh hc
    obtain ⟨hm1, hm2⟩ := hm orig hres
    have hpre : s1.presolvables = [c.uid] := by rw [hp1, hw.1]; rfl
    have hlinks : ∀ f ∈ c'.frames, f.links = [] := by
      intro f hf
      rw [hfr] at hf
      obtain ⟨g, hg, rfl⟩ := List.mem_map.mp hf
      exact hm2 g hg
    have hpq : ∀ sa, presolve c.uid { s1 with presolvables := [] } = .ok sa → QW c.uid { s1 with presolvables := [] } sa :=
      fun sa hsa => presolve_qw c.uid _ sa c' hc' (by rw [hmo, hm1]) hlinks hsa
    have hwf : worklistFuel = 19999 + 1 := rfl
    rw [hwf] at h
    cases hpa : presolveAll (19999 + 1) s1 with
    | error e => simp [hpa] at h
    | ok sb =>
      simp only [hpa] at h
      obtain ⟨sa, hsa, hsb⟩ := presolveAll_single 19999 s1 sb c.uid hpre (fun sa hsa => (hpq sa hsa).2.1) hpa
      have qa := hpq sa hsa
      have hrb : sb.resolvables = [c.uid] := by
        rw [hsb]
        show sa.resolvables ++ [c.uid] = [c.uid]
        rw [qa.2.2]
        show s1.resolvables ++ [c.uid] = [c.uid]
        rw [hr1, hw.2]; rfl
      have hrq : ∀ sx, resolve c.uid { sb with resolvables := [] } = .ok sx → QW c.uid { sb with resolvables := [] } sx :=
        fun sx hsx => resolve_qw c.uid _ sx hsx
      have hrs := resolveAll_single 19999 sb s2 c.uid hrb (fun sx hsx => (hrq sx hsx).2.2) h
      have qb := hrq s2 hrs
      refine ⟨s1, c, rfl, ?_, ?_, qb.2.2⟩
      · -- s1 → {s1 with presolvables := []} → sa → sb → {sb with resolvables := []} → s2
        have e1 : Quiet c.uid s1 { s1 with presolvables := [] } :=
          { others := fun _ _ => rfl, names := rfl, cur := rfl, regs := rfl, self := fun o h => ⟨o, h, rfl, rfl, rfl⟩ }
        have e2 : Quiet c.uid sa { sb with resolvables := [] } := by
          rw [hsb]
          exact { others := fun _ _ => rfl, names := rfl, cur := rfl, regs := rfl, self := fun o h => ⟨o, h, rfl, rfl, rfl⟩ }
        exact ((e1.trans qa.1).trans e2).trans qb.1
      · rw [qb.2.1]
        show sb.presolvables = []
        rw [hsb]
        exact qa.2.1

/-! ### the second rear -/

theorem surnameParts_agree (s s' : St) (hag : ∀ v o, s.get? v = some o → s'.get? v = some o) :
    ∀ (f1 f2 u : Nat) (p1 p2 : List String), surnameParts s f1 u = .ok p1 → surnameParts s' f2 u = .ok p2 → p1 = p2 := by
  intro f1
  induction f1 with
  | zero => intro f2 u p1 p2 h1 _; simp [surnameParts] at h1
  | succ n ih =>
    intro f2 u p1 p2 h1 h2
    cases f2 with
    | zero => simp [surnameParts] at h2
    | succ m =>
      rw [surnameParts] at h1 h2
      cases hg : s.get? u with
      | none => simp [hg] at h1
      | some o =>
        simp only [hg] at h1
        simp only [hag u o hg] at h2
        by_cases ho : o.original = true
        · simp only [ho, if_true] at h1 h2
          injection h1 with h1
          injection h2 with h2
          rw [← h1, ← h2]
        · simp only [ho] at h1 h2
          cases hm : o.main with
          | none => simp [hm] at h1
          | some mm =>
            obtain ⟨mu, mf⟩ := mm
            simp only [hm] at h1 h2
            cases r1 : surnameParts s n mu with
            | error e => simp [r1] at h1
            | ok q1 =>
              cases r2 : surnameParts s' m mu with
              | error e => simp [r2] at h2
              | ok q2 =>
                simp only [r1] at h1
                simp only [r2] at h2
                injection h1 with h1
                injection h2 with h2
                rw [← h1, ← h2, ih m mu q1 q2 r1 r2]

theorem surname_agree (s s' : St) (hag : ∀ v o, s.get? v = some o → s'.get? v = some o) (u : Nat) (a b : String)
    (h1 : surname s u = .ok a) (h2 : surname s' u = .ok b) : a = b := by
  unfold surname at h1 h2
  cases r1 : surnameParts s (s.objs.length + 1) u with
  | error e => simp [r1] at h1
  | ok q1 =>
    cases r2 : surnameParts s' (s'.objs.length + 1) u with
    | error e => simp [r2] at h2
    | ok q2 =>
      simp only [r1] at h1
      simp only [r2] at h2
      injection h1 with h1
      injection h2 with h2
      rw [← h1, ← h2, surnameParts_agree s s' hag _ _ u q1 q2 r1 r2]

theorem resolveFramer_agree (s s' : St) (hn : s'.names = s.names) (hag : ∀ v o, s.get? v = some o → s'.get? v = some o)
    (name : String) (sc : Option Sched) (o : Fr) (h : resolveFramer s name sc = .ok o) : resolveFramer s' name sc = .ok o := by
  unfold resolveFramer at h ⊢
  rw [hn]
  cases hl : lookup s.names name with
  | none => simp [hl] at h
  | some m =>
    simp only [hl] at h ⊢
    cases hg : s.get? m with
    | none => simp [hg] at h
    | some o' =>
      simp only [hg] at h
      simp only [hag m o' hg]
      exact h

/-- **A second rear after the round trip makes the same clone**: the same tag, the same name, the same definition, the
same flags and main frame (only the object identity is new). -/
theorem second_rear_like_first (u : Nat) (moot F : String) (s0 s1 s3 s4 : St) (c c2 : Fr)
    (hfresh0 : s0.get? s0.nextUid = none) (hfresh3 : s3.get? s3.nextUid = none)
    (hn : s3.names = s0.names) (hg : ∀ v, v ≠ c.uid → s3.get? v = s0.get? v)
    (h0 : rearCreate u moot F s0 = .ok (s1, c)) (h3 : rearCreate u moot F s3 = .ok (s4, c2)) :
    c2.name = c.name ∧
    ∃ o1 o2, s1.get? c.uid = some o1 ∧ s4.get? c2.uid = some o2 ∧ o2.name = o1.name ∧ o2.tag = o1.tag ∧
      o2.frames = o1.frames ∧ o2.main = o1.main ∧ o2.original = o1.original ∧ o2.insular = o1.insular ∧
      o2.razeable = o1.razeable ∧ o2.ctl = o1.ctl := by
  obtain ⟨orig, me, tag, sn, a1, a2, a3, a4, a5, a6, _, _, ⟨o1, b1, b2, b3, b4, b5, b6, b7, b8, b9⟩, _, _, _⟩ :=
    rearCreate_spec u moot F s0 s1 c hfresh0 h0
  obtain ⟨orig', me', tag', sn', d1, d2, d3, d4, d5, _, _, _, ⟨o2, e1, e2, e3, e4, e5, e6, e7, e8, e9⟩, _, _, _⟩ :=
    rearCreate_spec u moot F s3 s4 c2 hfresh3 h3
  have hag : ∀ v o, s0.get? v = some o → s3.get? v = some o := by
    intro v o hv
    have hvc : v ≠ c.uid := by
      intro e
      rw [e, a6, hfresh0] at hv
      cases hv
    rw [hg v hvc]; exact hv
  have horig : orig' = orig := by
    have := resolveFramer_agree s0 s3 hn hag moot none orig a1
    rw [d1] at this
    injection this
  have hme : me' = me := by
    have := hag u me a2
    rw [d2] at this
    injection this
  subst horig hme
  have htag : tag' = tag := by
    rw [a3] at d3
    injection d3 with d3
    exact d3.symm
  have hsn : sn' = sn := (surname_agree s0 s3 hag u sn sn' a4 d4).symm
  subst htag hsn
  have hname : c2.name = c.name := by rw [d5, a5]
  refine ⟨hname, o1, o2, b1, e1, ?_, ?_, ?_, ?_, ?_, ?_, ?_, ?_⟩
  · rw [e2, b2, hname]
  · rw [e3, b3, hname]
  · rw [e8, b8]
  · rw [e7, b7]
  · rw [e4, b4]
  · rw [e5, b5]
  · rw [e6, b6]
  · rw [e9, b9]

end Ioflo.Clones
