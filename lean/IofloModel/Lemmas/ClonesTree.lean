import IofloModel.Lemmas.ClonesLeaf
/-!
Proof device for C12 (not a transcription): a stand-alone interpreter for a TREE of framers — a framer whose frames
carry auxiliaries that carry auxiliaries … (no rear / raze) — in canonical coordinates: members are addressed by the
suffix of their name below the root (`""`, `"_n1"`, `"_n1_mb1"`, …), the memory is keyed by (member, reference), no
object identities, no names.  `TSim` relates a house to it through the resolution maps `ι` and the identities `uid` of
the members; `tsim_…` show that the framer core of Model/Clones.lean run on the root (or on any member) is this
interpreter, by induction over the `Ops` level.  Core Lean only.
-/
namespace Ioflo.Clones

/-- the child members of a script frame: the tags of its aux links -/
def kidsOf (f : Frame) : List String :=
  f.links.filterMap (fun l => match l with | .tag t => some t | .name _ => none)

structure TSt where
  ctls : String → Ctl
  mem : String → String → Option Int
  now : Int
  ev : List (String × String × Ctxt × String) := []     -- (member, frame, context, tag), newest first

def TSt.modCtl (l : TSt) (σ : String) (g : Ctl → Ctl) : TSt :=
  { l with ctls := fun τ => if τ = σ then g (l.ctls σ) else l.ctls τ }

def upd2 (m : String → String → Option Int) (σ k : String) (v : Option Int) : String → String → Option Int :=
  fun τ k' => if τ = σ ∧ k' = k then v else m τ k'

/-- the tree: member ↦ its script frames (aux links = child members) and its first frame -/
abbrev TProg := String → Option (List Frame × String)

structure TOps where
  enterAll : String → TSt → Except Err TSt
  exitAll : String → TSt → Except Err TSt
  recur : String → TSt → Except Err TSt
  segue : String → TSt → Except Err TSt
  checkStart : String → TSt → Except Err Bool

def TOps.bottom : TOps :=
  { enterAll := fun _ _ => .error .depth, exitAll := fun _ _ => .error .depth, recur := fun _ _ => .error .depth,
    segue := fun _ _ => .error .depth, checkStart := fun _ _ => .error .depth }

def tforEach {α : Type} (f : α → TSt → Except Err TSt) : List α → TSt → Except Err TSt
  | [], l => .ok l
  | x :: xs, l =>
    match f x l with
    | .error e => .error e
    | .ok l' => tforEach f xs l'

section tree
variable (TP : TProg) (tlo : TOps)

def tframe (σ fn : String) : Except Err Frame :=
  match TP σ with
  | none => .error .internal
  | some (fs, _) =>
    match fs.find? (fun f => f.name == fn) with
    | none => .error .internal
    | some f => .ok f

def trunAct (σ fn : String) (c : Ctxt) (a : ActK) (l : TSt) : Except Err TSt :=
  match TP σ with
  | none => .error .internal
  | some _ =>
    match a with
    | .record tag => .ok { l with ev := (σ, fn, c, tag) :: l.ev }
    | .io k =>
      let v := match l.mem σ k with | none => 1 | some v => v + 1
      .ok { l with mem := upd2 l.mem σ k (some v), ev := (σ, fn, c, "io=" ++ toString v) :: l.ev }
    | .put v k => .ok { l with mem := upd2 l.mem σ k (some v) }
    | .inc k d => match l.mem σ k with | none => .ok l | some v => .ok { l with mem := upd2 l.mem σ k (some (v + d)) }
    | .done => .ok (l.modCtl σ (fun x => { x with done := true }))
    | .rear _ _ => .error .internal
    | .raze _ _ => .error .internal

def trunActs (σ fn : String) (c : Ctxt) (acts : List ActK) (l : TSt) : Except Err TSt :=
  tforEach (trunAct TP σ fn c) acts l

def tneedHolds (σ fn : String) (l : TSt) (n : Need) : Except Err Bool :=
  let r : Except Err Bool :=
    match n.k with
    | .state k op v => check (l.mem σ k) op v
    | .allDone =>
      match tframe TP σ fn with
      | .error e => .error e
      | .ok f => .ok (!(kidsOf f).isEmpty && (kidsOf f).all (fun τ => (l.ctls τ).done))
    | .anyDone =>
      match tframe TP σ fn with
      | .error e => .error e
      | .ok f => .ok ((kidsOf f).any (fun τ => (l.ctls τ).done))
    | .auxTag τ => match TP τ with | some _ => .ok (l.ctls τ).done | none => .error .internal
    | .auxObj _ => .error .internal
  r.map (fun b => if n.neg then !b else b)

def tframeCheckEnter (σ : String) (l : TSt) (fn : String) : Except Err Bool :=
  match tframe TP σ fn with
  | .error e => .error e
  | .ok f =>
    match allM (tneedHolds TP σ fn l) f.beacts with
    | .error e => .error e
    | .ok false => .ok false
    | .ok true => allM (fun τ => tlo.checkStart τ l) (kidsOf f)

def tcheckEnter (σ : String) (enters : List String) (l : TSt) : Except Err Bool :=
  if enters.isEmpty then .ok false else allM (tframeCheckEnter TP tlo σ l) enters

def tframeEnter (σ fn : String) (l : TSt) : Except Err TSt :=
  match tframe TP σ fn with
  | .error e => .error e
  | .ok f =>
    match trunActs TP σ fn .enter (f.acts .enter) l with
    | .error e => .error e
    | .ok l => tforEach tlo.enterAll (kidsOf f) l

def trestart (σ : String) (l : TSt) : TSt :=
  { (l.modCtl σ (fun x => { x with stamp := l.now, elapsed := 0, recurred := 0 })) with
    mem := upd2 (upd2 l.mem σ kElapsed (some 0)) σ kRecurred (some 0) }

def tupdate (σ : String) (l : TSt) : TSt :=
  let el := l.now - (l.ctls σ).stamp
  let rc := (l.ctls σ).recurred + 1
  { (l.modCtl σ (fun x => { x with elapsed := el, recurred := rc })) with
    mem := upd2 (upd2 l.mem σ kElapsed (some el)) σ kRecurred (some rc) }

def tenter (σ : String) (enters : List String) (l : TSt) : Except Err TSt :=
  match TP σ with
  | none => .error .internal
  | some _ => tforEach (tframeEnter TP tlo σ) enters (if enters.isEmpty then l else trestart σ l)

def tframeExit (σ fn : String) (l : TSt) : Except Err TSt :=
  match tframe TP σ fn with
  | .error e => .error e
  | .ok f =>
    match tforEach tlo.exitAll (kidsOf f) l with
    | .error e => .error e
    | .ok l => trunActs TP σ fn .exit (f.acts .exit) l

def texit (σ : String) (exits : List String) (l : TSt) : Except Err TSt :=
  tforEach (tframeExit TP tlo σ) exits.reverse l

def tframeActs (σ : String) (c : Ctxt) (fn : String) (l : TSt) : Except Err TSt :=
  match tframe TP σ fn with
  | .error e => .error e
  | .ok f => trunActs TP σ fn c (f.acts c) l

def trexit (σ : String) (xs : List String) (l : TSt) : Except Err TSt := tforEach (tframeActs TP σ .rexit) xs.reverse l
def trenter (σ : String) (xs : List String) (l : TSt) : Except Err TSt := tforEach (tframeActs TP σ .renter) xs l

def tactivate (σ fn : String) (l : TSt) : Except Err TSt :=
  match tframe TP σ fn with
  | .error e => .error e
  | .ok f => .ok (l.modCtl σ (fun x => { x with active := some fn, actives := f.outline }))

def tenterAll (σ : String) (l : TSt) : Except Err TSt :=
  match TP σ with
  | none => .error .internal
  | some (_, first) =>
    match tactivate TP σ first (l.modCtl σ (fun x => { x with done := false })) with
    | .error e => .error e
    | .ok l => tenter TP tlo σ (l.ctls σ).actives l

def texitAll (abort : Bool) (σ : String) (l : TSt) : Except Err TSt :=
  match TP σ with
  | none => .error .internal
  | some _ =>
    match texit TP tlo σ (l.ctls σ).actives l with
    | .error e => .error e
    | .ok l =>
      let l := l.modCtl σ (fun x => { x with active := none, actives := [] })
      .ok (if abort then l else l.modCtl σ (fun x => { x with done := true }))

def tframeRecur (σ fn : String) (l : TSt) : Except Err TSt :=
  match tframe TP σ fn with
  | .error e => .error e
  | .ok f =>
    match trunActs TP σ fn .recur (f.acts .recur) l with
    | .error e => .error e
    | .ok l => tforEach tlo.recur (kidsOf f) l

def trecur (σ : String) (l : TSt) : Except Err TSt :=
  match TP σ with
  | none => .error .internal
  | some _ => tforEach (tframeRecur TP tlo σ) (l.ctls σ).actives l

def tcheckStart (σ : String) (l : TSt) : Except Err Bool :=
  match TP σ with
  | none => .error .internal
  | some (_, first) =>
    match tframe TP σ first with
    | .error e => .error e
    | .ok f => tcheckEnter TP tlo σ f.outline l

def ttransitBody (σ : String) (exits reexens enters : List String) (l : TSt) : Except Err TSt :=
  match texit TP tlo σ exits l with
  | .error e => .error e
  | .ok l =>
    match trexit TP σ reexens l with
    | .error e => .error e
    | .ok l =>
      match trenter TP σ reexens l with
      | .error e => .error e
      | .ok l => tenter TP tlo σ enters l

def ttransit (σ fn far : String) (needs : List Need) (l : TSt) : Except Err (Bool × TSt) :=
  match allM (tneedHolds TP σ fn l) needs with
  | .error e => .error e
  | .ok false => .ok (false, l)
  | .ok true =>
    match tframe TP σ far with
    | .error e => .error e
    | .ok ff =>
      let (exits, enters, reexens) := exEn far (l.ctls σ).actives ff.outline []
      match tcheckEnter TP tlo σ enters l with
      | .error e => .error e
      | .ok false => .ok (false, l)
      | .ok true =>
        match ttransitBody TP tlo σ exits reexens enters l with
        | .error e => .error e
        | .ok l => (tactivate TP σ far l).map (fun l => (true, l))

def tprecurLoop (σ fn : String) : List Pre → TSt → Except Err (Bool × TSt)
  | [], l => .ok (false, l)
  | .act a :: ps, l =>
    match trunAct TP σ fn .precur a l with
    | .error e => .error e
    | .ok l => tprecurLoop σ fn ps l
  | .go far needs :: ps, l =>
    match ttransit TP tlo σ fn far needs l with
    | .error e => .error e
    | .ok (true, l) => .ok (true, l)
    | .ok (false, l) => tprecurLoop σ fn ps l

def tsegueLoop (σ : String) : List String → TSt → Except Err TSt
  | [], l => .ok l
  | fn :: fns, l =>
    match tframe TP σ fn with
    | .error e => .error e
    | .ok f =>
      match tprecurLoop TP tlo σ fn f.preacts l with
      | .error e => .error e
      | .ok (true, l) => .ok l
      | .ok (false, l) => tsegueLoop σ fns l

def tsegue (σ : String) (l : TSt) : Except Err TSt :=
  match TP σ with
  | none => .error .internal
  | some _ =>
    let l := tupdate σ l
    match tforEach (fun fn l =>
            match tframe TP σ fn with
            | .error e => .error e
            | .ok f => tforEach tlo.segue (kidsOf f) l) (l.ctls σ).actives l with
    | .error e => .error e
    | .ok l' => tsegueLoop TP tlo σ (l.ctls σ).actives l'

def tnextOps : TOps :=
  { enterAll := tenterAll TP tlo, exitAll := texitAll TP tlo false, recur := trecur TP tlo, segue := tsegue TP tlo,
    checkStart := tcheckStart TP tlo }

end tree

def topsAt (TP : TProg) : Nat → TOps
  | 0 => TOps.bottom
  | n + 1 => tnextOps TP (topsAt TP n)


/-! ### from the tree's script to the resolved objects of a house -/

def gNeedK (ι : String → String → String) (uid : String → Nat) (σ : String) : NeedK → NeedK
  | .state r op v => .state (ι σ r) op v
  | .auxTag τ => .auxObj (uid τ)
  | k => k

def gNeed (ι : String → String → String) (uid : String → Nat) (σ : String) (n : Need) : Need :=
  { n with k := gNeedK ι uid σ n.k }

def gItem (ι : String → String → String) (uid : String → Nat) (σ : String) : Item → Item
  | .act c a => .act c (a.mapRef (ι σ))
  | .go far ns => .go far (ns.map (gNeed ι uid σ))
  | .cond ns => .cond (ns.map (gNeed ι uid σ))
  | it => it

def gFrame (ι : String → String → String) (uid : String → Nat) (σ : String) (f : Frame) : Frame :=
  { f with items := f.items.map (gItem ι uid σ), auxes := (kidsOf f).map uid, links := [] }

def gPre (ι : String → String → String) (uid : String → Nat) (σ : String) : Pre → Pre
  | .act a => .act (a.mapRef (ι σ))
  | .go far ns => .go far (ns.map (gNeed ι uid σ))

theorem acts_g (ι : String → String → String) (uid : String → Nat) (σ : String) (f : Frame) (c : Ctxt) :
    (gFrame ι uid σ f).acts c = (f.acts c).map (ActK.mapRef (ι σ)) := by
  unfold Frame.acts gFrame
  simp only
  induction f.items with
  | nil => rfl
  | cons it rest ih =>
    cases it with
    | act c' a =>
      by_cases h : c' = c
      · simp [gItem, h, ih]
      · simp [gItem, h, ih]
    | _ => simpa [gItem] using ih

theorem preacts_g (ι : String → String → String) (uid : String → Nat) (σ : String) (f : Frame) :
    (gFrame ι uid σ f).preacts = f.preacts.map (gPre ι uid σ) := by
  unfold Frame.preacts gFrame
  simp only
  induction f.items with
  | nil => rfl
  | cons it rest ih =>
    cases it with
    | act c' a => cases c' <;> simp [gItem, gPre, ih]
    | go far ns => simp [gItem, gPre, ih]
    | _ => simpa [gItem] using ih

theorem beacts_g (ι : String → String → String) (uid : String → Nat) (σ : String) (f : Frame) :
    (gFrame ι uid σ f).beacts = f.beacts.map (gNeed ι uid σ) := by
  unfold Frame.beacts gFrame
  simp only
  induction f.items with
  | nil => rfl
  | cons it rest ih => cases it <;> simp [List.flatMap_cons, gItem, ih]

theorem find_g (ι : String → String → String) (uid : String → Nat) (σ : String) (fs : List Frame) (fn : String) :
    (fs.map (gFrame ι uid σ)).find? (fun f => f.name == fn) = (fs.find? (fun f => f.name == fn)).map (gFrame ι uid σ) := by
  induction fs with
  | nil => rfl
  | cons f rest ih =>
    rw [List.map_cons]
    by_cases h : f.name = fn
    · rw [List.find?_cons_of_pos (by simp [gFrame, h]), List.find?_cons_of_pos (by simp [h])]; rfl
    · rw [List.find?_cons_of_neg (by simp [gFrame, h]), List.find?_cons_of_neg (by simp [h])]; exact ih

/-! ### what a tree script may contain -/

def NeedK.tok (TP : TProg) : NeedK → Bool
  | .auxObj _ => false
  | .auxTag τ => (TP τ).isSome
  | _ => true

def Item.tok (TP : TProg) : Item → Bool
  | .act _ a => a.leafy
  | .go _ ns => ns.all (fun n => n.k.tok TP)
  | .cond ns => ns.all (fun n => n.k.tok TP)
  | _ => true

def Frame.tok (TP : TProg) (f : Frame) : Bool :=
  f.items.all (Item.tok TP) && (kidsOf f).all (fun τ => (TP τ).isSome)

def renderT (root : String) (e : String × String × Ctxt × String) : String :=
  "E " ++ (root ++ e.1) ++ " " ++ e.2.1 ++ " " ++ ctxName e.2.2.1 ++ " " ++ e.2.2.2

/-- the static side conditions: the resolution maps of the members are jointly injective, the members are different
objects, the clock references go to the members' own state shares, the scripts stay inside the tree -/
structure TreeOK (ι : String → String → String) (uid : String → Nat) (house root : String) (TP : TProg) : Prop where
  inj : ∀ σ k σ' k', (TP σ).isSome = true → (TP σ').isSome = true → ι σ k = ι σ' k' → σ = σ' ∧ k = k'
  uinj : ∀ σ τ, (TP σ).isSome → (TP τ).isSome → uid σ = uid τ → σ = τ
  clkE : ∀ σ, ι σ kElapsed = statePath house (root ++ σ) "elapsed"
  clkR : ∀ σ, ι σ kRecurred = statePath house (root ++ σ) "recurred"
  ok : ∀ σ fs first, TP σ = some (fs, first) → ∀ f ∈ fs, f.tok TP = true

structure TSim (ι : String → String → String) (uid : String → Nat) (house root : String) (TP : TProg)
    (base : List String) (s : St) (l : TSt) : Prop where
  obj : ∀ σ fs first, TP σ = some (fs, first) → ∃ o, s.get? (uid σ) = some o ∧ o.name = root ++ σ ∧ o.house = house ∧
    o.frames = fs.map (gFrame ι uid σ) ∧ o.first = first ∧ o.ctl = l.ctls σ
  kid : ∀ σ fs first f τ, TP σ = some (fs, first) → f ∈ fs → τ ∈ kidsOf f →
    ∃ o, s.get? (uid τ) = some o ∧ o.original = false ∧ o.main = some (uid σ, f.name)
  mem : ∀ σ k, (TP σ).isSome = true → s.read (ι σ k) = l.mem σ k
  now : s.now = l.now
  out : s.out = l.ev.map (renderT root) ++ base

def CorrT (R : St → TSt → Prop) (r : Except Err St) (r' : Except Err TSt) : Prop :=
  match r, r' with
  | .ok s', .ok l' => R s' l'
  | .error e, .error e' => e = e'
  | _, _ => False

def CorrTB (R : St → TSt → Prop) (r : Except Err (Bool × St)) (r' : Except Err (Bool × TSt)) : Prop :=
  match r, r' with
  | .ok (b, s'), .ok (b', l') => b = b' ∧ R s' l'
  | .error e, .error e' => e = e'
  | _, _ => False


/-- the ghost state of finding D12r is invisible to the relation -/
theorem TSim.ghost {ι uid house root TP base} {s : St} {l : TSt} (h : TSim ι uid house root TP base s l)
    (q : List (Nat × String)) : TSim ι uid house root TP base { s with pending := q } l :=
  { obj := h.obj, kid := h.kid, mem := h.mem, now := h.now, out := h.out }

theorem corrT_ghosted (R : St → TSt → Prop) (hR : ∀ s l q, R s l → R { s with pending := q } l)
    (p : List (Nat × String)) (k : St → Except Err St) (k' : TSt → Except Err TSt)
    (hk : ∀ s l, R s l → CorrT R (k s) (k' l)) (s : St) (l : TSt) (h : R s l) :
    CorrT R (ghosted p k s) (k' l) := by
  unfold ghosted
  have c := hk _ l (hR s l (s.pending ++ p) h)
  cases r : k { s with pending := s.pending ++ p } with
  | error e =>
    cases r' : k' l with
    | error e' => rw [r, r'] at c; exact c
    | ok l1 => rw [r, r'] at c; exact c.elim
  | ok s1 =>
    cases r' : k' l with
    | error e' => rw [r, r'] at c; exact c.elim
    | ok l1 => rw [r, r'] at c; exact hR _ _ _ c

theorem corrT_forEach_map {α β : Type} (R : St → TSt → Prop) (f : α → St → Except Err St)
    (g : β → TSt → Except Err TSt) (m : β → α) (ys : List β)
    (h : ∀ y, y ∈ ys → ∀ s l, R s l → CorrT R (f (m y) s) (g y l)) :
    ∀ s l, R s l → CorrT R (forEach f (ys.map m) s) (tforEach g ys l) := by
  induction ys with
  | nil => intro s l hR; exact hR
  | cons y ys ih =>
    intro s l hR
    have hx := h y (by simp) s l hR
    simp only [List.map_cons, forEach, tforEach]
    cases hf : f (m y) s with
    | error e =>
      cases hg : g y l with
      | error e' => rw [hf, hg] at hx; exact hx
      | ok l' => rw [hf, hg] at hx; exact hx.elim
    | ok s' =>
      cases hg : g y l with
      | error e' => rw [hf, hg] at hx; exact hx.elim
      | ok l' =>
        rw [hf, hg] at hx
        exact ih (fun a ha => h a (by simp [ha])) s' l' hx

theorem corrT_forEach_id {β : Type} (R : St → TSt → Prop) (f : β → St → Except Err St)
    (g : β → TSt → Except Err TSt) (ys : List β)
    (h : ∀ y, y ∈ ys → ∀ s l, R s l → CorrT R (f y s) (g y l)) :
    ∀ s l, R s l → CorrT R (forEach f ys s) (tforEach g ys l) := by
  have := corrT_forEach_map R f g id ys h
  simpa using this

/-! ### the simulation -/

section tsim
variable (lo : Ops) (tlo : TOps) (ι : String → String → String) (uid : String → Nat) (house root : String)
  (TP : TProg) (base : List String)

theorem TSim.emit {ι uid house root TP base} {s : St} {l : TSt} (h : TSim ι uid house root TP base s l)
    (e : String × String × Ctxt × String) :
    TSim ι uid house root TP base (s.emit (renderT root e)) { l with ev := e :: l.ev } :=
  { obj := h.obj, kid := h.kid, mem := h.mem, now := h.now, out := by simp [h.out] }

theorem TSim.write {ι uid house root TP base} {s : St} {l : TSt} (h : TSim ι uid house root TP base s l)
    (hok : TreeOK ι uid house root TP) (σ : String) (hσ : (TP σ).isSome = true) (k : String) (v : Int) :
    TSim ι uid house root TP base (s.write (ι σ k) v) { l with mem := upd2 l.mem σ k (some v) } :=
  { obj := h.obj, kid := h.kid
    mem := by
      intro σ' k' hσ'
      by_cases hk : σ' = σ ∧ k' = k
      · obtain ⟨rfl, rfl⟩ := hk; simp [read_write_same, upd2]
      · have : ι σ' k' ≠ ι σ k := fun e => hk (hok.inj _ _ _ _ hσ' hσ e)
        simp [read_write_other _ _ _ _ this, upd2, hk, h.mem σ' k' hσ']
    now := h.now
    out := h.out }

theorem TSim.modCtl {ι uid house root TP base} {s : St} {l : TSt} (h : TSim ι uid house root TP base s l)
    (hok : TreeOK ι uid house root TP) (σ : String) (hσ : (TP σ).isSome = true) (g : Ctl → Ctl) :
    TSim ι uid house root TP base (s.modCtl (uid σ) g) (l.modCtl σ g) := by
  have hget : ∀ v, (s.modCtl (uid σ) g).get? v
      = if v = uid σ then (s.get? v).map (fun o => { o with ctl := g o.ctl }) else s.get? v :=
    fun v => get?_mod s (uid σ) v _ (fun _ => rfl)
  refine { obj := ?_, kid := ?_, mem := h.mem, now := h.now, out := h.out }
  · intro τ fs first hτ
    obtain ⟨o, ho, h1, h2, h3, h4, h5⟩ := h.obj τ fs first hτ
    by_cases e : τ = σ
    · subst e
      refine ⟨{ o with ctl := g o.ctl }, by rw [hget, if_pos rfl, ho]; rfl, h1, h2, h3, h4, ?_⟩
      simp [TSt.modCtl, h5]
    · have hne : uid τ ≠ uid σ := fun e' => e (hok.uinj τ σ (by rw [hτ]; rfl) hσ e')
      refine ⟨o, by rw [hget, if_neg hne]; exact ho, h1, h2, h3, h4, ?_⟩
      simp [TSt.modCtl, e, h5]
  · intro τ fs first f κ hτ hf hκ
    obtain ⟨o, ho, h1, h2⟩ := h.kid τ fs first f κ hτ hf hκ
    by_cases e : uid κ = uid σ
    · exact ⟨{ o with ctl := g o.ctl }, by rw [hget, if_pos e, ho]; rfl, h1, h2⟩
    · exact ⟨o, by rw [hget, if_neg e]; exact ho, h1, h2⟩

theorem TSim.fr {ι uid house root TP base} {s : St} {l : TSt} (h : TSim ι uid house root TP base s l)
    {σ : String} {fs : List Frame} {first : String} (hσ : TP σ = some (fs, first)) :
    ∃ o, s.fr (uid σ) = .ok o ∧ o.name = root ++ σ ∧ o.house = house ∧ o.frames = fs.map (gFrame ι uid σ) ∧
      o.first = first ∧ o.ctl = l.ctls σ := by
  obtain ⟨o, ho, rest⟩ := h.obj σ fs first hσ
  exact ⟨o, by simp [St.fr, ho], rest⟩

theorem TSim.frameOf {ι uid house root TP base} {s : St} {l : TSt} (h : TSim ι uid house root TP base s l)
    {σ : String} (hσ : (TP σ).isSome = true) (fn : String) :
    s.frameOf (uid σ) fn = (tframe TP σ fn).map (gFrame ι uid σ) := by
  cases hp : TP σ with
  | none => simp [hp] at hσ
  | some p =>
    obtain ⟨fs, first⟩ := p
    obtain ⟨o, ho, _, _, h3, _, _⟩ := h.obj σ fs first hp
    unfold St.frameOf tframe Fr.frame?
    rw [ho, hp]
    simp only [h3, find_g]
    cases fs.find? (fun f => f.name == fn) <;> rfl

theorem renderT_io (root σ fn : String) (c : Ctxt) (v : Int) :
    "E " ++ (root ++ σ) ++ " " ++ fn ++ " " ++ ctxName c ++ " io=" ++ toString v
      = renderT root (σ, fn, c, "io=" ++ toString v) := by
  unfold renderT
  simp only [String.append_assoc]
  rfl

theorem tsim_runAct (hok : TreeOK ι uid house root TP) (σ : String) (hσ : (TP σ).isSome = true) (fn : String) (c : Ctxt)
    (a : ActK) (ha : a.leafy = true) (s : St) (l : TSt) (h : TSim ι uid house root TP base s l) :
    CorrT (TSim ι uid house root TP base) (runAct lo (uid σ) fn c (a.mapRef (ι σ)) s) (trunAct TP σ fn c a l) := by
  cases hp : TP σ with
  | none => simp [hp] at hσ
  | some p =>
    obtain ⟨fs, first⟩ := p
    obtain ⟨o, ho, h1, _⟩ := h.fr hp
    unfold runAct trunAct
    rw [ho, hp]
    cases a with
    | record tag =>
      simp only [ActK.mapRef, CorrT]
      have := h.emit (σ, fn, c, tag)
      simpa [renderT, h1] using this
    | io k =>
      simp only [ActK.mapRef, CorrT, h.mem σ k hσ]
      rw [h1, renderT_io]
      exact (h.write hok σ hσ k _).emit _
    | put v k =>
      simp only [ActK.mapRef, CorrT]
      exact h.write hok σ hσ k v
    | inc k d =>
      simp only [ActK.mapRef, h.mem σ k hσ]
      cases l.mem σ k with
      | none => exact h
      | some v => exact h.write hok σ hσ k (v + d)
    | done =>
      simp only [ActK.mapRef, CorrT]
      exact h.modCtl hok σ hσ (fun x => { x with done := true })
    | rear m f => simp [ActK.leafy] at ha
    | raze w f => simp [ActK.leafy] at ha

theorem tsim_runActs (hok : TreeOK ι uid house root TP) (σ : String) (hσ : (TP σ).isSome = true) (fn : String) (c : Ctxt)
    (acts : List ActK) (ha : ∀ a ∈ acts, a.leafy = true) (s : St) (l : TSt) (h : TSim ι uid house root TP base s l) :
    CorrT (TSim ι uid house root TP base) (runActs lo (uid σ) fn c (acts.map (ActK.mapRef (ι σ))) s)
      (trunActs TP σ fn c acts l) := by
  unfold runActs trunActs
  exact corrT_forEach_map _ _ _ _ acts
    (fun a hm s l hs => tsim_runAct lo ι uid house root TP base hok σ hσ fn c a (ha a hm) s l hs) s l h


/-- the induction hypothesis: the entry points of the level below, on every member, refine the tree interpreter -/
structure KidsOK (R : St → TSt → Prop) (lo : Ops) (tlo : TOps) (uid : String → Nat) (TP : TProg) : Prop where
  enterAll : ∀ τ, (TP τ).isSome = true → ∀ s l, R s l → CorrT R (lo.enterAll (uid τ) s) (tlo.enterAll τ l)
  exitAll : ∀ τ, (TP τ).isSome = true → ∀ s l, R s l → CorrT R (lo.exitAll (uid τ) s) (tlo.exitAll τ l)
  recur : ∀ τ, (TP τ).isSome = true → ∀ s l, R s l → CorrT R (lo.recur (uid τ) s) (tlo.recur τ l)
  segue : ∀ τ, (TP τ).isSome = true → ∀ s l, R s l → CorrT R (lo.segue (uid τ) s) (tlo.segue τ l)
  checkStart : ∀ τ, (TP τ).isSome = true → ∀ cl s l, R s l →
    lo.checkStart (uid τ) cl s = (tlo.checkStart τ l).map (fun b => (b, cl))

theorem tframe_mem {TP : TProg} {σ fn : String} {f : Frame} (h : tframe TP σ fn = .ok f) :
    ∃ fs first, TP σ = some (fs, first) ∧ f ∈ fs ∧ f.name = fn := by
  unfold tframe at h
  cases hp : TP σ with
  | none => simp [hp] at h
  | some p =>
    obtain ⟨fs, first⟩ := p
    simp only [hp] at h
    cases hf : fs.find? (fun f => f.name == fn) with
    | none => simp [hf] at h
    | some g =>
      simp [hf] at h
      subst h
      exact ⟨fs, first, rfl, List.mem_of_find?_eq_some hf, by simpa using List.find?_some hf⟩

theorem acts_tok {TP : TProg} (f : Frame) (hf : f.tok TP = true) (c : Ctxt) : ∀ a ∈ f.acts c, a.leafy = true := by
  intro a ha
  unfold Frame.acts at ha
  simp only [List.mem_filterMap] at ha
  obtain ⟨it, hit, hm⟩ := ha
  unfold Frame.tok at hf
  simp only [Bool.and_eq_true, List.all_eq_true] at hf
  have := hf.1 it hit
  cases it with
  | act c' a' =>
    simp at hm
    obtain ⟨_, rfl⟩ := hm
    simpa [Item.tok] using this
  | _ => simp at hm

theorem beacts_tok {TP : TProg} (f : Frame) (hf : f.tok TP = true) : ∀ n ∈ f.beacts, n.k.tok TP = true := by
  intro n hn
  unfold Frame.beacts at hn
  simp only [List.mem_flatMap] at hn
  obtain ⟨it, hit, hm⟩ := hn
  unfold Frame.tok at hf
  simp only [Bool.and_eq_true, List.all_eq_true] at hf
  have := hf.1 it hit
  cases it with
  | cond ns =>
    simp only [Item.tok, List.all_eq_true] at this
    exact this n hm
  | _ => simp at hm

def Pre.tok (TP : TProg) : Pre → Bool
  | .act a => a.leafy
  | .go _ ns => ns.all (fun n => n.k.tok TP)

theorem preacts_tok {TP : TProg} (f : Frame) (hf : f.tok TP = true) : ∀ p ∈ f.preacts, p.tok TP = true := by
  intro p hp
  unfold Frame.preacts at hp
  simp only [List.mem_filterMap] at hp
  obtain ⟨it, hit, hm⟩ := hp
  unfold Frame.tok at hf
  simp only [Bool.and_eq_true, List.all_eq_true] at hf
  have := hf.1 it hit
  cases it with
  | go far ns =>
    simp at hm
    subst hm
    simpa [Item.tok, Pre.tok] using this
  | act c' a' =>
    cases c' <;> simp at hm
    subst hm
    simpa [Item.tok, Pre.tok] using this
  | _ => simp at hm

theorem kids_tok {TP : TProg} (f : Frame) (hf : f.tok TP = true) : ∀ τ ∈ kidsOf f, (TP τ).isSome = true := by
  unfold Frame.tok at hf
  simp only [Bool.and_eq_true, List.all_eq_true] at hf
  exact hf.2

/-- a loop over the auxiliaries of a frame that calls one entry point of the level below on each -/
theorem tsim_kidsLoop (f : Frame)
    (gop : Nat → St → Except Err St) (top : String → TSt → Except Err TSt)
    (hop : ∀ τ, τ ∈ kidsOf f → ∀ s l, TSim ι uid house root TP base s l →
      CorrT (TSim ι uid house root TP base) (gop (uid τ) s) (top τ l))
    (s : St) (l : TSt) (h : TSim ι uid house root TP base s l) :
    CorrT (TSim ι uid house root TP base) (forEach gop ((kidsOf f).map uid) s) (tforEach top (kidsOf f) l) :=
  corrT_forEach_map _ _ _ _ (kidsOf f) (fun τ hτ s l hs => hop τ hτ s l hs) s l h

/-- the shape shared by `Frame.enter` and `Frame.recur`: the acts of one context, then the auxiliaries -/
theorem tsim_actsThenKids (hok : TreeOK ι uid house root TP) (σ : String) (hσ : (TP σ).isSome = true) (c : Ctxt)
    (gop : Nat → St → Except Err St) (top : String → TSt → Except Err TSt)
    (hop : ∀ fs first f τ, TP σ = some (fs, first) → f ∈ fs → τ ∈ kidsOf f → ∀ s l, TSim ι uid house root TP base s l →
      CorrT (TSim ι uid house root TP base) (gop (uid τ) s) (top τ l))
    (fn : String) (s : St) (l : TSt) (h : TSim ι uid house root TP base s l) :
    CorrT (TSim ι uid house root TP base)
      (match s.frameOf (uid σ) fn with
       | .error e => .error e
       | .ok f =>
         match runActs lo (uid σ) fn c (f.acts c) s with
         | .error e => .error e
         | .ok s =>
           match s.frameOf (uid σ) fn with
           | .error e => .error e
           | .ok f => forEach gop f.auxes s)
      (match tframe TP σ fn with
       | .error e => .error e
       | .ok f =>
         match trunActs TP σ fn c (f.acts c) l with
         | .error e => .error e
         | .ok l => tforEach top (kidsOf f) l) := by
  rw [h.frameOf hσ]
  cases hf : tframe TP σ fn with
  | error e => exact rfl
  | ok f =>
    obtain ⟨fs, first, hp, hmem, _⟩ := tframe_mem hf
    have hl := hok.ok σ fs first hp f hmem
    simp only [Except.map, acts_g]
    have hc := tsim_runActs lo ι uid house root TP base hok σ hσ fn c (f.acts c) (acts_tok f hl c) s l h
    cases hr : runActs lo (uid σ) fn c ((f.acts c).map (ActK.mapRef (ι σ))) s with
    | error e =>
      cases hr' : trunActs TP σ fn c (f.acts c) l with
      | error e' => rw [hr, hr'] at hc; exact hc
      | ok l' => rw [hr, hr'] at hc; exact hc.elim
    | ok s' =>
      cases hr' : trunActs TP σ fn c (f.acts c) l with
      | error e' => rw [hr, hr'] at hc; exact hc.elim
      | ok l' =>
        rw [hr, hr'] at hc
        simp only [hc.frameOf hσ, hf, Except.map]
        have : (gFrame ι uid σ f).auxes = (kidsOf f).map uid := rfl
        rw [this]
        exact tsim_kidsLoop ι uid house root TP base f gop top (fun τ hτ => hop fs first f τ hp hmem hτ) s' l' hc

theorem tsim_frameEnter (hok : TreeOK ι uid house root TP) (hk : KidsOK (TSim ι uid house root TP base) lo tlo uid TP)
    (σ : String) (hσ : (TP σ).isSome = true) (fn : String) (s : St) (l : TSt) (h : TSim ι uid house root TP base s l) :
    CorrT (TSim ι uid house root TP base) (frameEnter lo (uid σ) fn s) (tframeEnter TP tlo σ fn l) := by
  unfold frameEnter tframeEnter
  refine tsim_actsThenKids lo ι uid house root TP base hok σ hσ .enter _ tlo.enterAll ?_ fn s l h
  intro fs first f τ hp hf hτ s l hs
  obtain ⟨o, ho, horig, _⟩ := hs.kid σ fs first f τ hp hf hτ
  simp only [ho, horig]
  exact hk.enterAll τ (kids_tok f (hok.ok σ fs first hp f hf) τ hτ) s l hs

theorem tsim_frameRecur (hok : TreeOK ι uid house root TP) (hk : KidsOK (TSim ι uid house root TP base) lo tlo uid TP)
    (σ : String) (hσ : (TP σ).isSome = true) (fn : String) (s : St) (l : TSt) (h : TSim ι uid house root TP base s l) :
    CorrT (TSim ι uid house root TP base) (frameRecur lo (uid σ) fn s) (tframeRecur TP tlo σ fn l) := by
  unfold frameRecur tframeRecur
  refine tsim_actsThenKids lo ι uid house root TP base hok σ hσ .recur _ tlo.recur ?_ fn s l h
  intro fs first f τ hp hf hτ s l hs
  exact hk.recur τ (kids_tok f (hok.ok σ fs first hp f hf) τ hτ) s l hs

theorem tsim_frameExit (hok : TreeOK ι uid house root TP) (hk : KidsOK (TSim ι uid house root TP base) lo tlo uid TP)
    (σ : String) (hσ : (TP σ).isSome = true) (fn : String) (s : St) (l : TSt) (h : TSim ι uid house root TP base s l) :
    CorrT (TSim ι uid house root TP base) (frameExit lo (uid σ) fn s) (tframeExit TP tlo σ fn l) := by
  unfold frameExit tframeExit
  rw [h.frameOf hσ]
  cases hf : tframe TP σ fn with
  | error e => exact rfl
  | ok f =>
    obtain ⟨fs, first, hp, hmem, _⟩ := tframe_mem hf
    have hl := hok.ok σ fs first hp f hmem
    simp only [Except.map]
    have hauxes : (gFrame ι uid σ f).auxes = (kidsOf f).map uid := rfl
    rw [hauxes]
    have hloop := tsim_kidsLoop ι uid house root TP base f
      (fun a s =>
        match lo.exitAll a s with
        | .error e => .error e
        | .ok s =>
          match s.get? a with
          | none => .error .internal
          | some ao => .ok (if ao.original then s.mod a (fun o => { o with main := none }) else s))
      tlo.exitAll
      (fun τ hτ s l hs => by
        have c := hk.exitAll τ (kids_tok f hl τ hτ) s l hs
        cases r : lo.exitAll (uid τ) s with
        | error e =>
          cases r' : tlo.exitAll τ l with
          | error e' => rw [r, r'] at c; exact c
          | ok l' => rw [r, r'] at c; exact c.elim
        | ok s' =>
          cases r' : tlo.exitAll τ l with
          | error e' => rw [r, r'] at c; exact c.elim
          | ok l' =>
            rw [r, r'] at c
            obtain ⟨o, ho, horig, _⟩ := c.kid σ fs first f τ hp hmem hτ
            simp only [ho, horig]
            exact c) s l h
    generalize forEach _ ((kidsOf f).map uid) s = r1 at hloop ⊢
    cases r1 with
    | error e =>
      cases r1' : tforEach tlo.exitAll (kidsOf f) l with
      | error e' => rw [r1'] at hloop; exact hloop
      | ok l1 => rw [r1'] at hloop; exact hloop.elim
    | ok s1 =>
      cases r1' : tforEach tlo.exitAll (kidsOf f) l with
      | error e' => rw [r1'] at hloop; exact hloop.elim
      | ok l1 =>
        rw [r1'] at hloop
        simp only []
        rw [acts_g]
        exact tsim_runActs lo ι uid house root TP base hok σ hσ fn .exit (f.acts .exit) (acts_tok f hl .exit) s1 l1 hloop


theorem tsim_restartClocks (hok : TreeOK ι uid house root TP) (σ : String) (fs : List Frame) (first : String)
    (hp : TP σ = some (fs, first)) (s : St) (l : TSt) (h : TSim ι uid house root TP base s l) :
    CorrT (TSim ι uid house root TP base) (restartClocks (uid σ) s) (.ok (trestart σ l)) := by
  obtain ⟨o, ho, h1, h2, _⟩ := h.fr hp
  have hσ : (TP σ).isSome = true := by rw [hp]; rfl
  unfold restartClocks trestart
  rw [ho]
  simp only [CorrT, h1, h2, ← hok.clkE σ, ← hok.clkR σ, h.now]
  exact ((h.modCtl hok σ hσ (fun x => { x with stamp := l.now, elapsed := 0, recurred := 0 })).write hok σ hσ kElapsed 0).write
    hok σ hσ kRecurred 0

theorem tsim_updateClocks (hok : TreeOK ι uid house root TP) (σ : String) (fs : List Frame) (first : String)
    (hp : TP σ = some (fs, first)) (s : St) (l : TSt) (h : TSim ι uid house root TP base s l) :
    CorrT (TSim ι uid house root TP base) (updateClocks (uid σ) s) (.ok (tupdate σ l)) := by
  obtain ⟨o, ho, h1, h2, _, _, h5⟩ := h.fr hp
  have hσ : (TP σ).isSome = true := by rw [hp]; rfl
  unfold updateClocks tupdate
  rw [ho]
  simp only [CorrT, h1, h2, ← hok.clkE σ, ← hok.clkR σ, h.now, h5]
  exact ((h.modCtl hok σ hσ (fun x => { x with elapsed := l.now - (l.ctls σ).stamp, recurred := (l.ctls σ).recurred + 1 })).write
    hok σ hσ kElapsed (l.now - (l.ctls σ).stamp)).write hok σ hσ kRecurred ((l.ctls σ).recurred + 1)

theorem tsim_enter (hok : TreeOK ι uid house root TP) (hk : KidsOK (TSim ι uid house root TP base) lo tlo uid TP)
    (σ : String) (hσ : (TP σ).isSome = true) (enters : List String) (s : St) (l : TSt)
    (h : TSim ι uid house root TP base s l) :
    CorrT (TSim ι uid house root TP base) (enter lo (uid σ) enters s) (tenter TP tlo σ enters l) := by
  cases hp : TP σ with
  | none => simp [hp] at hσ
  | some p =>
    obtain ⟨fs, first⟩ := p
    unfold enter tenter
    rw [hp]
    have hloop := corrT_forEach_id (TSim ι uid house root TP base) (frameEnter lo (uid σ)) (tframeEnter TP tlo σ) enters
      (fun fn _ s l hs => tsim_frameEnter lo tlo ι uid house root TP base hok hk σ hσ fn s l hs)
    by_cases he : enters.isEmpty = true
    · simp only [he, if_true]
      exact hloop s l h
    · simp only [he]
      have hc := tsim_restartClocks ι uid house root TP base hok σ fs first hp s l h
      cases hr : restartClocks (uid σ) s with
      | error e => rw [hr] at hc; exact hc.elim
      | ok s' =>
        rw [hr] at hc
        exact hloop s' (trestart σ l) hc

theorem tsim_exit (hok : TreeOK ι uid house root TP) (hk : KidsOK (TSim ι uid house root TP base) lo tlo uid TP)
    (σ : String) (hσ : (TP σ).isSome = true) (exits : List String) (s : St) (l : TSt)
    (h : TSim ι uid house root TP base s l) :
    CorrT (TSim ι uid house root TP base) (exit lo (uid σ) exits s) (texit TP tlo σ exits l) := by
  unfold exit texit
  exact corrT_forEach_id _ _ _ exits.reverse
    (fun fn _ s l hs => tsim_frameExit lo tlo ι uid house root TP base hok hk σ hσ fn s l hs) s l h

theorem tsim_frameActs (hok : TreeOK ι uid house root TP) (σ : String) (hσ : (TP σ).isSome = true) (c : Ctxt)
    (fn : String) (s : St) (l : TSt) (h : TSim ι uid house root TP base s l) :
    CorrT (TSim ι uid house root TP base)
      (match s.frameOf (uid σ) fn with
       | .error e => .error e
       | .ok f => runActs lo (uid σ) fn c (f.acts c) s)
      (tframeActs TP σ c fn l) := by
  unfold tframeActs
  rw [h.frameOf hσ]
  cases hf : tframe TP σ fn with
  | error e => exact rfl
  | ok f =>
    obtain ⟨fs, first, hp, hmem, _⟩ := tframe_mem hf
    simp only [Except.map, acts_g]
    exact tsim_runActs lo ι uid house root TP base hok σ hσ fn c (f.acts c)
      (acts_tok f (hok.ok σ fs first hp f hmem) c) s l h

theorem tsim_rexit (hok : TreeOK ι uid house root TP) (σ : String) (hσ : (TP σ).isSome = true)
    (xs : List String) (s : St) (l : TSt) (h : TSim ι uid house root TP base s l) :
    CorrT (TSim ι uid house root TP base) (rexit lo (uid σ) xs s) (trexit TP σ xs l) := by
  unfold rexit trexit
  exact corrT_forEach_id _ _ _ xs.reverse
    (fun fn _ s l hs => tsim_frameActs lo ι uid house root TP base hok σ hσ .rexit fn s l hs) s l h

theorem tsim_renter (hok : TreeOK ι uid house root TP) (σ : String) (hσ : (TP σ).isSome = true)
    (xs : List String) (s : St) (l : TSt) (h : TSim ι uid house root TP base s l) :
    CorrT (TSim ι uid house root TP base) (renter lo (uid σ) xs s) (trenter TP σ xs l) := by
  unfold renter trenter
  exact corrT_forEach_id _ _ _ xs
    (fun fn _ s l hs => tsim_frameActs lo ι uid house root TP base hok σ hσ .renter fn s l hs) s l h

theorem tsim_activate (hok : TreeOK ι uid house root TP) (σ : String) (hσ : (TP σ).isSome = true) (fn : String)
    (s : St) (l : TSt) (h : TSim ι uid house root TP base s l) :
    CorrT (TSim ι uid house root TP base) (activate (uid σ) fn s) (tactivate TP σ fn l) := by
  unfold activate tactivate
  rw [h.frameOf hσ]
  cases hf : tframe TP σ fn with
  | error e => exact rfl
  | ok f =>
    simp only [Except.map, CorrT]
    exact h.modCtl hok σ hσ (fun x => { x with active := some fn, actives := f.outline })

theorem modCtl_ctls (l : TSt) (σ : String) (g : Ctl → Ctl) : (l.modCtl σ g).ctls σ = g (l.ctls σ) := by
  simp [TSt.modCtl]

theorem tsim_enterAll (hok : TreeOK ι uid house root TP) (hk : KidsOK (TSim ι uid house root TP base) lo tlo uid TP)
    (σ : String) (hσ : (TP σ).isSome = true) (s : St) (l : TSt) (h : TSim ι uid house root TP base s l) :
    CorrT (TSim ι uid house root TP base) (enterAll lo (uid σ) s) (tenterAll TP tlo σ l) := by
  cases hp : TP σ with
  | none => simp [hp] at hσ
  | some p =>
    obtain ⟨fs, first⟩ := p
    obtain ⟨o, ho, _, _, _, h4, _⟩ := h.fr hp
    unfold enterAll tenterAll
    rw [ho, hp]
    simp only [h4]
    have h1 := h.modCtl hok σ hσ (fun x => { x with done := false })
    have hc := tsim_activate ι uid house root TP base hok σ hσ first _ _ h1
    cases hr : activate (uid σ) first (s.modCtl (uid σ) fun x => { x with done := false }) with
    | error e =>
      cases hr' : tactivate TP σ first (l.modCtl σ fun x => { x with done := false }) with
      | error e' => rw [hr, hr'] at hc; exact hc
      | ok l' => rw [hr, hr'] at hc; exact hc.elim
    | ok s' =>
      cases hr' : tactivate TP σ first (l.modCtl σ fun x => { x with done := false }) with
      | error e' => rw [hr, hr'] at hc; exact hc.elim
      | ok l' =>
        rw [hr, hr'] at hc
        obtain ⟨o', ho', _, _, _, _, h5'⟩ := hc.fr hp
        simp only [ho', h5']
        exact corrT_ghosted _ (fun _ _ q hh => hh.ghost q) _ _ _
          (fun s l hh => tsim_enter lo tlo ι uid house root TP base hok hk σ hσ _ s l hh) s' l' hc

theorem tsim_exitAll (hok : TreeOK ι uid house root TP) (hk : KidsOK (TSim ι uid house root TP base) lo tlo uid TP)
    (abort : Bool) (σ : String) (hσ : (TP σ).isSome = true) (s : St) (l : TSt) (h : TSim ι uid house root TP base s l) :
    CorrT (TSim ι uid house root TP base) (exitAll lo abort (uid σ) s) (texitAll TP tlo abort σ l) := by
  cases hp : TP σ with
  | none => simp [hp] at hσ
  | some p =>
    obtain ⟨fs, first⟩ := p
    obtain ⟨o, ho, _, _, _, _, h5⟩ := h.fr hp
    unfold exitAll texitAll
    rw [ho, hp]
    simp only [h5]
    have hc := tsim_exit lo tlo ι uid house root TP base hok hk σ hσ (l.ctls σ).actives s l h
    cases hr : exit lo (uid σ) (l.ctls σ).actives s with
    | error e =>
      cases hr' : texit TP tlo σ (l.ctls σ).actives l with
      | error e' => rw [hr, hr'] at hc; exact hc
      | ok l' => rw [hr, hr'] at hc; exact hc.elim
    | ok s' =>
      cases hr' : texit TP tlo σ (l.ctls σ).actives l with
      | error e' => rw [hr, hr'] at hc; exact hc.elim
      | ok l' =>
        rw [hr, hr'] at hc
        have h1 := hc.modCtl hok σ hσ (fun x => { x with active := none, actives := [] })
        cases abort with
        | true => exact h1
        | false => exact h1.modCtl hok σ hσ (fun x => { x with done := true })

theorem tsim_recur (hok : TreeOK ι uid house root TP) (hk : KidsOK (TSim ι uid house root TP base) lo tlo uid TP)
    (σ : String) (hσ : (TP σ).isSome = true) (s : St) (l : TSt) (h : TSim ι uid house root TP base s l) :
    CorrT (TSim ι uid house root TP base) (recur lo (uid σ) s) (trecur TP tlo σ l) := by
  cases hp : TP σ with
  | none => simp [hp] at hσ
  | some p =>
    obtain ⟨fs, first⟩ := p
    obtain ⟨o, ho, _, _, _, _, h5⟩ := h.fr hp
    unfold recur trecur
    rw [ho, hp]
    simp only [h5]
    exact corrT_forEach_id _ _ _ (l.ctls σ).actives
      (fun fn _ s l hs => tsim_frameRecur lo tlo ι uid house root TP base hok hk σ hσ fn s l hs) s l h


theorem TSim.objOf {ι uid house root TP base} {s : St} {l : TSt} (h : TSim ι uid house root TP base s l)
    {τ : String} (hτ : (TP τ).isSome = true) : ∃ o, s.get? (uid τ) = some o ∧ o.ctl = l.ctls τ := by
  cases hp : TP τ with
  | none => simp [hp] at hτ
  | some p =>
    obtain ⟨fs, first⟩ := p
    obtain ⟨o, ho, _, _, _, _, h5⟩ := h.obj τ fs first hp
    exact ⟨o, ho, h5⟩

theorem all_map_congr {α : Type} (xs : List α) (m : α → Nat) (p : Nat → Bool) (q : α → Bool)
    (h : ∀ x ∈ xs, p (m x) = q x) : (xs.map m).all p = xs.all q := by
  induction xs with
  | nil => rfl
  | cons x xs ih => simp [h x (by simp), ih (fun y hy => h y (by simp [hy]))]

theorem any_map_congr {α : Type} (xs : List α) (m : α → Nat) (p : Nat → Bool) (q : α → Bool)
    (h : ∀ x ∈ xs, p (m x) = q x) : (xs.map m).any p = xs.any q := by
  induction xs with
  | nil => rfl
  | cons x xs ih => simp [h x (by simp), ih (fun y hy => h y (by simp [hy]))]

theorem tsim_needHolds (hok : TreeOK ι uid house root TP) (σ : String) (hσ : (TP σ).isSome = true) (fn : String)
    (hfn : ∃ f, tframe TP σ fn = .ok f) (n : Need) (hn : n.k.tok TP = true) (s : St) (l : TSt)
    (h : TSim ι uid house root TP base s l) :
    needHolds (uid σ) fn s (gNeed ι uid σ n) = tneedHolds TP σ fn l n := by
  obtain ⟨f, hf⟩ := hfn
  obtain ⟨fs, first, hp, hmem, _⟩ := tframe_mem hf
  have hkids := kids_tok f (hok.ok σ fs first hp f hmem)
  have hauxes : (gFrame ι uid σ f).auxes = (kidsOf f).map uid := rfl
  unfold needHolds tneedHolds
  cases hk : n.k with
  | state k op v => simp [gNeed, gNeedK, hk, h.mem σ k hσ]
  | allDone =>
    simp only [gNeed, gNeedK, hk, h.frameOf hσ, hf, Except.map, hauxes]
    rw [all_map_congr (kidsOf f) uid _ (fun τ => (l.ctls τ).done)
      (fun τ hτ => by obtain ⟨o, ho, hc⟩ := h.objOf (hkids τ hτ); simp [ho, hc])]
    simp
  | anyDone =>
    simp only [gNeed, gNeedK, hk, h.frameOf hσ, hf, Except.map, hauxes]
    rw [any_map_congr (kidsOf f) uid _ (fun τ => (l.ctls τ).done)
      (fun τ hτ => by obtain ⟨o, ho, hc⟩ := h.objOf (hkids τ hτ); simp [ho, hc])]
  | auxTag τ =>
    have hτ : (TP τ).isSome = true := by simpa [hk, NeedK.tok] using hn
    obtain ⟨o, ho, hc⟩ := h.objOf hτ
    cases hp' : TP τ with
    | none => simp [hp'] at hτ
    | some p => simp [gNeed, gNeedK, hk, ho, hc, hp']
  | auxObj a => simp [hk, NeedK.tok] at hn

theorem allC_map_each {α : Type} (p : Nat → List Nat → Except Err (Bool × List Nat)) (q : α → Except Err Bool)
    (m : α → Nat) (xs : List α) (cl : List Nat) (h : ∀ x ∈ xs, p (m x) cl = (q x).map (fun b => (b, cl))) :
    allC p (xs.map m) cl = (allM q xs).map (fun b => (b, cl)) := by
  induction xs with
  | nil => rfl
  | cons x xs ih =>
    simp only [List.map_cons, allC, allM, h x (by simp)]
    cases q x with
    | error e => rfl
    | ok b =>
      cases b with
      | false => rfl
      | true => exact ih (fun y hy => h y (by simp [hy]))

theorem tsim_checkEnter (hok : TreeOK ι uid house root TP) (hk : KidsOK (TSim ι uid house root TP base) lo tlo uid TP)
    (σ : String) (hσ : (TP σ).isSome = true) (enters exits : List String) (cl : List Nat) (s : St) (l : TSt)
    (h : TSim ι uid house root TP base s l) :
    checkEnter lo (uid σ) enters exits cl s = (tcheckEnter TP tlo σ enters l).map (fun b => (b, cl)) := by
  unfold checkEnter tcheckEnter
  by_cases he : enters.isEmpty = true
  · simp [he, Except.map]
  · simp only [he]
    apply allC_nil_each
    intro fn _
    unfold frameCheckEnter tframeCheckEnter
    rw [h.frameOf hσ]
    cases hf : tframe TP σ fn with
    | error e => rfl
    | ok f =>
      obtain ⟨fs, first, hp, hmem, _⟩ := tframe_mem hf
      have hl := hok.ok σ fs first hp f hmem
      have hneed : allM (needHolds (uid σ) fn s) (gFrame ι uid σ f).beacts = allM (tneedHolds TP σ fn l) f.beacts := by
        rw [beacts_g, allM_map]
        exact allM_congr _ _ _ (fun n hn =>
          tsim_needHolds ι uid house root TP base hok σ hσ fn ⟨f, hf⟩ n (beacts_tok f hl n hn) s l h)
      have hauxes : (gFrame ι uid σ f).auxes = (kidsOf f).map uid := rfl
      simp only [Except.map, hneed, hauxes]
      cases allM (tneedHolds TP σ fn l) f.beacts with
      | error e => rfl
      | ok b =>
        cases b with
        | false => rfl
        | true =>
          simp only []
          apply allC_map_each
          intro τ hτ
          obtain ⟨o, ho, horig, hmain⟩ := h.kid σ fs first f τ hp hmem hτ
          unfold auxCheck
          have hheld : heldElsewhere (uid σ) f.name exits o = false := by simp [heldElsewhere, hmain]
          have hname : f.name = fn := (tframe_mem hf).choose_spec.choose_spec.2.2
          rw [ho]
          simp only [← hname, hheld, horig]
          exact hk.checkStart τ (kids_tok f hl τ hτ) cl s l h

theorem tsim_checkStart (hok : TreeOK ι uid house root TP) (hk : KidsOK (TSim ι uid house root TP base) lo tlo uid TP)
    (σ : String) (hσ : (TP σ).isSome = true) (cl : List Nat) (s : St) (l : TSt)
    (h : TSim ι uid house root TP base s l) :
    checkStart lo (uid σ) cl s = (tcheckStart TP tlo σ l).map (fun b => (b, cl)) := by
  cases hp : TP σ with
  | none => simp [hp] at hσ
  | some p =>
    obtain ⟨fs, first⟩ := p
    obtain ⟨o, ho, _, _, _, h4, _⟩ := h.fr hp
    unfold checkStart tcheckStart
    rw [ho, hp]
    simp only [h4, h.frameOf hσ]
    cases hf : tframe TP σ first with
    | error e => rfl
    | ok f =>
      simp only [Except.map]
      exact tsim_checkEnter lo tlo ι uid house root TP base hok hk σ hσ _ _ cl s l h


theorem tsim_transitBody (hok : TreeOK ι uid house root TP) (hk : KidsOK (TSim ι uid house root TP base) lo tlo uid TP)
    (σ : String) (hσ : (TP σ).isSome = true) (exits reexens enters : List String) (s : St) (l : TSt)
    (h : TSim ι uid house root TP base s l) :
    CorrT (TSim ι uid house root TP base) (transitBody lo (uid σ) exits reexens enters s)
      (ttransitBody TP tlo σ exits reexens enters l) := by
  unfold transitBody ttransitBody
  have c1 := tsim_exit lo tlo ι uid house root TP base hok hk σ hσ exits s l h
  cases r1 : exit lo (uid σ) exits s with
  | error e =>
    cases r1' : texit TP tlo σ exits l with
    | error e' => rw [r1, r1'] at c1; exact c1
    | ok l1 => rw [r1, r1'] at c1; exact c1.elim
  | ok s1 =>
    cases r1' : texit TP tlo σ exits l with
    | error e' => rw [r1, r1'] at c1; exact c1.elim
    | ok l1 =>
      rw [r1, r1'] at c1
      simp only []
      have c2 := tsim_rexit lo ι uid house root TP base hok σ hσ reexens s1 l1 c1
      cases r2 : rexit lo (uid σ) reexens s1 with
      | error e =>
        cases r2' : trexit TP σ reexens l1 with
        | error e' => rw [r2, r2'] at c2; exact c2
        | ok l2 => rw [r2, r2'] at c2; exact c2.elim
      | ok s2 =>
        cases r2' : trexit TP σ reexens l1 with
        | error e' => rw [r2, r2'] at c2; exact c2.elim
        | ok l2 =>
          rw [r2, r2'] at c2
          simp only []
          have c3 := tsim_renter lo ι uid house root TP base hok σ hσ reexens s2 l2 c2
          cases r3 : renter lo (uid σ) reexens s2 with
          | error e =>
            cases r3' : trenter TP σ reexens l2 with
            | error e' => rw [r3, r3'] at c3; exact c3
            | ok l3 => rw [r3, r3'] at c3; exact c3.elim
          | ok s3 =>
            cases r3' : trenter TP σ reexens l2 with
            | error e' => rw [r3, r3'] at c3; exact c3.elim
            | ok l3 =>
              rw [r3, r3'] at c3
              simp only []
              exact tsim_enter lo tlo ι uid house root TP base hok hk σ hσ enters s3 l3 c3

theorem tsim_transit (hok : TreeOK ι uid house root TP) (hk : KidsOK (TSim ι uid house root TP base) lo tlo uid TP)
    (σ : String) (hσ : (TP σ).isSome = true) (fn : String) (hfn : ∃ f, tframe TP σ fn = .ok f) (far : String)
    (needs : List Need) (hneeds : ∀ n ∈ needs, n.k.tok TP = true) (s : St) (l : TSt)
    (h : TSim ι uid house root TP base s l) :
    CorrTB (TSim ι uid house root TP base) (transit lo (uid σ) fn far (needs.map (gNeed ι uid σ)) s)
      (ttransit TP tlo σ fn far needs l) := by
  unfold transit ttransit
  have hneed : allM (needHolds (uid σ) fn s) (needs.map (gNeed ι uid σ)) = allM (tneedHolds TP σ fn l) needs := by
    rw [allM_map]
    exact allM_congr _ _ _ (fun n hn => tsim_needHolds ι uid house root TP base hok σ hσ fn hfn n (hneeds n hn) s l h)
  rw [hneed]
  cases allM (tneedHolds TP σ fn l) needs with
  | error e => exact rfl
  | ok b =>
    cases b with
    | false => exact ⟨rfl, h⟩
    | true =>
      cases hp : TP σ with
      | none => simp [hp] at hσ
      | some p =>
        obtain ⟨fs, first⟩ := p
        obtain ⟨o, ho, _, _, _, _, h5⟩ := h.fr hp
        simp only [ho, h.frameOf hσ]
        cases hf : tframe TP σ far with
        | error e => exact rfl
        | ok ff =>
          simp only [Except.map, h5]
          have hout : (gFrame ι uid σ ff).outline = ff.outline := rfl
          rw [hout]
          generalize exEn far (l.ctls σ).actives ff.outline [] = tr
          obtain ⟨exits, enters, reexens⟩ := tr
          simp only []
          rw [tsim_checkEnter lo tlo ι uid house root TP base hok hk σ hσ enters exits [] s l h]
          cases tcheckEnter TP tlo σ enters l with
          | error e => exact rfl
          | ok b =>
            simp only [Except.map]
            cases b with
            | false => exact ⟨rfl, h⟩
            | true =>
              simp only []
              have cb := corrT_ghosted _ (fun _ _ q hh => hh.ghost q) (enters.map (fun f => (uid σ, f))) _ _
                (fun s l hh => tsim_transitBody lo tlo ι uid house root TP base hok hk σ hσ exits reexens enters s l hh) s l h
              cases rb : ghosted (enters.map (fun f => (uid σ, f))) (transitBody lo (uid σ) exits reexens enters) s with
              | error e =>
                cases rb' : ttransitBody TP tlo σ exits reexens enters l with
                | error e' => rw [rb, rb'] at cb; exact cb
                | ok l4 => rw [rb, rb'] at cb; exact cb.elim
              | ok s4 =>
                cases rb' : ttransitBody TP tlo σ exits reexens enters l with
                | error e' => rw [rb, rb'] at cb; exact cb.elim
                | ok l4 =>
                  rw [rb, rb'] at cb
                  simp only []
                  have c5 := tsim_activate ι uid house root TP base hok σ hσ far s4 l4 cb
                  cases r5 : activate (uid σ) far s4 with
                  | error e =>
                    cases r5' : tactivate TP σ far l4 with
                    | error e' => rw [r5, r5'] at c5; exact c5
                    | ok l5 => rw [r5, r5'] at c5; exact c5.elim
                  | ok s5 =>
                    cases r5' : tactivate TP σ far l4 with
                    | error e' => rw [r5, r5'] at c5; exact c5.elim
                    | ok l5 =>
                      rw [r5, r5'] at c5
                      exact ⟨rfl, c5⟩

theorem tsim_precurLoop (hok : TreeOK ι uid house root TP) (hk : KidsOK (TSim ι uid house root TP base) lo tlo uid TP)
    (σ : String) (hσ : (TP σ).isSome = true) (fn : String) (hfn : ∃ f, tframe TP σ fn = .ok f)
    (ps : List Pre) (hps : ∀ p ∈ ps, p.tok TP = true) :
    ∀ (s : St) (l : TSt), TSim ι uid house root TP base s l →
    CorrTB (TSim ι uid house root TP base) (precurLoop lo (uid σ) fn (ps.map (gPre ι uid σ)) s)
      (tprecurLoop TP tlo σ fn ps l) := by
  induction ps with
  | nil => intro s l h; exact ⟨rfl, h⟩
  | cons p ps ih =>
    intro s l h
    have ih' := ih (fun q hq => hps q (by simp [hq]))
    have hp := hps p (by simp)
    cases p with
    | act a =>
      simp only [List.map_cons, gPre, precurLoop, tprecurLoop]
      have c1 := tsim_runAct lo ι uid house root TP base hok σ hσ fn .precur a (by simpa [Pre.tok] using hp) s l h
      cases r1 : runAct lo (uid σ) fn .precur (a.mapRef (ι σ)) s with
      | error e =>
        cases r1' : trunAct TP σ fn .precur a l with
        | error e' => rw [r1, r1'] at c1; exact c1
        | ok l1 => rw [r1, r1'] at c1; exact c1.elim
      | ok s1 =>
        cases r1' : trunAct TP σ fn .precur a l with
        | error e' => rw [r1, r1'] at c1; exact c1.elim
        | ok l1 =>
          rw [r1, r1'] at c1
          exact ih' s1 l1 c1
    | go far ns =>
      simp only [List.map_cons, gPre, precurLoop, tprecurLoop]
      have hns : ∀ n ∈ ns, n.k.tok TP = true := by
        simpa [Pre.tok, List.all_eq_true] using hp
      have c1 := tsim_transit lo tlo ι uid house root TP base hok hk σ hσ fn hfn far ns hns s l h
      cases r1 : transit lo (uid σ) fn far (ns.map (gNeed ι uid σ)) s with
      | error e =>
        cases r1' : ttransit TP tlo σ fn far ns l with
        | error e' => rw [r1, r1'] at c1; exact c1
        | ok bl => rw [r1, r1'] at c1; exact c1.elim
      | ok bs =>
        cases r1' : ttransit TP tlo σ fn far ns l with
        | error e' => rw [r1, r1'] at c1; exact c1.elim
        | ok bl =>
          rw [r1, r1'] at c1
          obtain ⟨b, s1⟩ := bs
          obtain ⟨b', l1⟩ := bl
          obtain ⟨hb, hs⟩ := c1
          subst hb
          cases b with
          | true => exact ⟨rfl, hs⟩
          | false => exact ih' s1 l1 hs

theorem tsim_segueLoop (hok : TreeOK ι uid house root TP) (hk : KidsOK (TSim ι uid house root TP base) lo tlo uid TP)
    (σ : String) (hσ : (TP σ).isSome = true) (fns : List String) :
    ∀ (s : St) (l : TSt), TSim ι uid house root TP base s l →
    CorrT (TSim ι uid house root TP base) (segueLoop lo (uid σ) fns s) (tsegueLoop TP tlo σ fns l) := by
  induction fns with
  | nil => intro s l h; exact h
  | cons fn fns ih =>
    intro s l h
    simp only [segueLoop, tsegueLoop, h.frameOf hσ]
    cases hf : tframe TP σ fn with
    | error e => exact rfl
    | ok f =>
      obtain ⟨fs, first, hp, hmem, _⟩ := tframe_mem hf
      simp only [Except.map, preacts_g]
      have c1 := tsim_precurLoop lo tlo ι uid house root TP base hok hk σ hσ fn ⟨f, hf⟩ f.preacts
        (preacts_tok f (hok.ok σ fs first hp f hmem)) s l h
      cases r1 : precurLoop lo (uid σ) fn (f.preacts.map (gPre ι uid σ)) s with
      | error e =>
        cases r1' : tprecurLoop TP tlo σ fn f.preacts l with
        | error e' => rw [r1, r1'] at c1; exact c1
        | ok bl => rw [r1, r1'] at c1; exact c1.elim
      | ok bs =>
        cases r1' : tprecurLoop TP tlo σ fn f.preacts l with
        | error e' => rw [r1, r1'] at c1; exact c1.elim
        | ok bl =>
          rw [r1, r1'] at c1
          obtain ⟨b, s1⟩ := bs
          obtain ⟨b', l1⟩ := bl
          obtain ⟨hb, hs⟩ := c1
          subst hb
          cases b with
          | true => exact hs
          | false => exact ih s1 l1 hs

theorem tsim_segue (hok : TreeOK ι uid house root TP) (hk : KidsOK (TSim ι uid house root TP base) lo tlo uid TP)
    (σ : String) (hσ : (TP σ).isSome = true) (s : St) (l : TSt) (h : TSim ι uid house root TP base s l) :
    CorrT (TSim ι uid house root TP base) (segue lo (uid σ) s) (tsegue TP tlo σ l) := by
  cases hp : TP σ with
  | none => simp [hp] at hσ
  | some p =>
    obtain ⟨fs, first⟩ := p
    unfold segue tsegue
    rw [hp]
    have c0 := tsim_updateClocks ι uid house root TP base hok σ fs first hp s l h
    cases r0 : updateClocks (uid σ) s with
    | error e => rw [r0] at c0; exact c0.elim
    | ok sA =>
      rw [r0] at c0
      obtain ⟨o, ho, _, _, _, _, h5⟩ := c0.fr hp
      simp only [ho, h5]
      have c1 := corrT_forEach_id (TSim ι uid house root TP base)
        (fun fn s => match s.frameOf (uid σ) fn with | .error e => .error e | .ok f => forEach lo.segue f.auxes s)
        (fun fn l => match tframe TP σ fn with | .error e => .error e | .ok f => tforEach tlo.segue (kidsOf f) l)
        ((tupdate σ l).ctls σ).actives
        (fun fn _ s l hs => by
          simp only [hs.frameOf hσ]
          cases hf : tframe TP σ fn with
          | error e => exact rfl
          | ok f =>
            obtain ⟨fs', first', hp', hmem, _⟩ := tframe_mem hf
            simp only [Except.map]
            have hauxes : (gFrame ι uid σ f).auxes = (kidsOf f).map uid := rfl
            rw [hauxes]
            exact tsim_kidsLoop ι uid house root TP base f lo.segue tlo.segue
              (fun τ hτ s l hs => hk.segue τ (kids_tok f (hok.ok σ fs' first' hp' f hmem) τ hτ) s l hs) s l hs)
        sA (tupdate σ l) c0
      generalize forEach _ ((tupdate σ l).ctls σ).actives sA = r1 at c1 ⊢
      cases r1 with
      | error e =>
        cases r1' : tforEach (fun fn l => match tframe TP σ fn with | .error e => .error e | .ok f => tforEach tlo.segue (kidsOf f) l)
            ((tupdate σ l).ctls σ).actives (tupdate σ l) with
        | error e' => rw [r1'] at c1; exact c1
        | ok l1 => rw [r1'] at c1; exact c1.elim
      | ok s1 =>
        cases r1' : tforEach (fun fn l => match tframe TP σ fn with | .error e => .error e | .ok f => tforEach tlo.segue (kidsOf f) l)
            ((tupdate σ l).ctls σ).actives (tupdate σ l) with
        | error e' => rw [r1'] at c1; exact c1.elim
        | ok l1 =>
          rw [r1'] at c1
          exact tsim_segueLoop lo tlo ι uid house root TP base hok hk σ hσ _ s1 l1 c1


end tsim

/-- **The tree refinement, every level.**  At every `Ops` level the entry points of Model/Clones.lean on any member
of the tree are the entry points of the tree interpreter at that level. -/
theorem tsim_level (ι : String → String → String) (uid : String → Nat) (house root : String) (TP : TProg)
    (base : List String) (hok : TreeOK ι uid house root TP) :
    ∀ n, KidsOK (TSim ι uid house root TP base) (opsAt n) (topsAt TP n) uid TP := by
  intro n
  induction n with
  | zero =>
    exact { enterAll := fun _ _ _ _ _ => rfl, exitAll := fun _ _ _ _ _ => rfl, recur := fun _ _ _ _ _ => rfl,
            segue := fun _ _ _ _ _ => rfl, checkStart := fun _ _ _ _ _ _ => rfl }
  | succ n ih =>
    exact
      { enterAll := fun τ hτ s l h => tsim_enterAll (opsAt n) (topsAt TP n) ι uid house root TP base hok ih τ hτ s l h
        exitAll := fun τ hτ s l h => tsim_exitAll (opsAt n) (topsAt TP n) ι uid house root TP base hok ih false τ hτ s l h
        recur := fun τ hτ s l h => tsim_recur (opsAt n) (topsAt TP n) ι uid house root TP base hok ih τ hτ s l h
        segue := fun τ hτ s l h => tsim_segue (opsAt n) (topsAt TP n) ι uid house root TP base hok ih τ hτ s l h
        checkStart := fun τ hτ cl s l h =>
          tsim_checkStart (opsAt n) (topsAt TP n) ι uid house root TP base hok ih τ hτ cl s l h }

end Ioflo.Clones
