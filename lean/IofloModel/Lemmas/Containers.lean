import IofloModel.Model.ContainersSpec
/-!
Helper lemmas for C39: association-list dictionaries (`dget/dset/ddel`), Python list insertion,
the relation `Rel` between an odict object and the ordered dictionary it represents.
-/
namespace Ioflo.Containers
set_option linter.unusedSectionVars false

section Prim
variable {K V : Type} [DecidableEq K]

@[simp] theorem dkeys_nil : dkeys ([] : List (K × V)) = [] := rfl
@[simp] theorem dkeys_cons (p : K × V) (t : List (K × V)) : dkeys (p :: t) = p.1 :: dkeys t := rfl
@[simp] theorem dkeys_append (a b : List (K × V)) : dkeys (a ++ b) = dkeys a ++ dkeys b := by
  simp [dkeys]

theorem dget_isSome_iff (d : List (K × V)) (k : K) : (dget d k).isSome ↔ k ∈ dkeys d := by
  induction d with
  | nil => simp [dget]
  | cons p t ih =>
    obtain ⟨a, b⟩ := p
    by_cases h : a = k
    · simp [dget, h]
    · have : ¬ k = a := fun e => h e.symm
      simp [dget, h, ih, this]

theorem dget_eq_none_iff (d : List (K × V)) (k : K) : dget d k = none ↔ k ∉ dkeys d := by
  rw [← dget_isSome_iff]; cases dget d k <;> simp

theorem dhas_iff (d : List (K × V)) (k : K) : dhas d k = true ↔ k ∈ dkeys d := by
  unfold dhas; exact dget_isSome_iff d k

theorem dget_some_mem {d : List (K × V)} {k : K} {v : V} (h : dget d k = some v) : k ∈ dkeys d := by
  rw [← dget_isSome_iff, h]; rfl

theorem dget_dset_self (d : List (K × V)) (k : K) (v : V) : dget (dset d k v) k = some v := by
  induction d with
  | nil => simp [dset, dget]
  | cons p t ih =>
    obtain ⟨a, b⟩ := p
    by_cases h : a = k <;> simp [dset, dget, h, ih]

theorem dget_dset_ne (d : List (K × V)) {k k' : K} (v : V) (h : k' ≠ k) :
    dget (dset d k v) k' = dget d k' := by
  induction d with
  | nil => simp [dset, dget]; exact fun e => h e.symm
  | cons p t ih =>
    obtain ⟨a, b⟩ := p
    by_cases h1 : a = k
    · subst h1
      have : ¬ a = k' := fun e => h e.symm
      simp [dset, dget, this]
    · by_cases h2 : a = k'
      · subst h2; simp [dset, dget, h1]
      · simp [dset, dget, h1, h2, ih]

theorem dget_dset (d : List (K × V)) (k k' : K) (v : V) :
    dget (dset d k v) k' = if k' = k then some v else dget d k' := by
  by_cases h : k' = k
  · subst h; simp [dget_dset_self]
  · simp [h, dget_dset_ne d v h]

theorem dkeys_dset (d : List (K × V)) (k : K) (v : V) :
    dkeys (dset d k v) = if k ∈ dkeys d then dkeys d else dkeys d ++ [k] := by
  induction d with
  | nil => simp [dset]
  | cons p t ih =>
    obtain ⟨a, b⟩ := p
    by_cases h : a = k
    · subst h; simp [dset]
    · have : ¬ k = a := fun e => h e.symm
      simp only [dset, h, if_false, dkeys_cons, ih, List.mem_cons, this, false_or]
      split <;> simp

theorem dset_of_not_mem (d : List (K × V)) {k : K} (v : V) (h : k ∉ dkeys d) :
    dset d k v = d ++ [(k, v)] := by
  induction d with
  | nil => rfl
  | cons p t ih =>
    obtain ⟨a, b⟩ := p
    simp only [dkeys_cons, List.mem_cons, not_or] at h
    have : ¬ a = k := fun e => h.1 e.symm
    simp [dset, this, ih h.2]

theorem length_dset (d : List (K × V)) (k : K) (v : V) :
    (dset d k v).length = if k ∈ dkeys d then d.length else d.length + 1 := by
  have := congrArg List.length (dkeys_dset d k v)
  simp only [dkeys, List.length_map] at this
  rw [this]; simp only [dkeys]
  by_cases h : k ∈ List.map Prod.fst d <;> simp [h]

theorem dkeys_ddel (d : List (K × V)) (k : K) : dkeys (ddel d k) = (dkeys d).erase k := by
  induction d with
  | nil => simp [ddel]
  | cons p t ih =>
    obtain ⟨a, b⟩ := p
    by_cases h : a = k
    · subst h; simp [ddel]
    · simp [ddel, h, ih, List.erase_cons_tail, beq_iff_eq]

theorem dget_ddel_ne (d : List (K × V)) {k k' : K} (h : k' ≠ k) : dget (ddel d k) k' = dget d k' := by
  induction d with
  | nil => simp [ddel]
  | cons p t ih =>
    obtain ⟨a, b⟩ := p
    by_cases h1 : a = k
    · subst h1
      have : ¬ a = k' := fun e => h e.symm
      simp [ddel, dget, this]
    · by_cases h2 : a = k'
      · subst h2; simp [ddel, dget, h1]
      · simp [ddel, dget, h1, h2, ih]

theorem dget_ddel_self (d : List (K × V)) (k : K) (hn : (dkeys d).Nodup) : dget (ddel d k) k = none := by
  rw [dget_eq_none_iff, dkeys_ddel]
  exact fun h => (List.Nodup.mem_erase_iff hn).1 h |>.1 rfl

theorem dget_ddel (d : List (K × V)) (k k' : K) (hn : (dkeys d).Nodup) :
    dget (ddel d k) k' = if k' = k then none else dget d k' := by
  by_cases h : k' = k
  · subst h; simp [dget_ddel_self d k' hn]
  · simp [h, dget_ddel_ne d h]

theorem ddel_of_not_mem (d : List (K × V)) {k : K} (h : k ∉ dkeys d) : ddel d k = d := by
  induction d with
  | nil => rfl
  | cons p t ih =>
    obtain ⟨a, b⟩ := p
    simp only [dkeys_cons, List.mem_cons, not_or] at h
    have : ¬ a = k := fun e => h.1 e.symm
    simp [ddel, this, ih h.2]

theorem nodup_dkeys_dset {d : List (K × V)} (k : K) (v : V) (hn : (dkeys d).Nodup) :
    (dkeys (dset d k v)).Nodup := by
  rw [dkeys_dset]; split
  · exact hn
  · rename_i h; exact List.nodup_append.2 ⟨hn, by simp, by simp; exact fun a ha e => h (e ▸ ha)⟩

theorem nodup_dkeys_ddel {d : List (K × V)} (k : K) (hn : (dkeys d).Nodup) :
    (dkeys (ddel d k)).Nodup := by
  rw [dkeys_ddel]; exact hn.erase k

/-- an association list without duplicate keys is determined by its key order and its lookups -/
theorem dict_ext : ∀ {m m' : List (K × V)}, dkeys m = dkeys m' → (∀ k, dget m k = dget m' k) →
    (dkeys m).Nodup → m = m'
  | [], [], _, _, _ => rfl
  | [], _ :: _, h, _, _ => by simp at h
  | _ :: _, [], h, _, _ => by simp at h
  | (a, b) :: t, (a', b') :: t', hk, hg, hn => by
    simp only [dkeys_cons, List.cons.injEq] at hk
    obtain ⟨rfl, hk⟩ := hk
    have hb := hg a
    simp only [dget, if_true, Option.some.injEq] at hb
    subst hb
    simp only [dkeys_cons, List.nodup_cons] at hn
    have : t = t' := by
      apply dict_ext hk _ hn.2
      intro k
      have := hg k
      by_cases h : a = k
      · subst h
        rw [(dget_eq_none_iff t a).2 hn.1, (dget_eq_none_iff t' a).2 (hk ▸ hn.1)]
      · simpa [dget, h] using this
    rw [this]


theorem dget_append (a b : List (K × V)) (k : K) :
    dget (a ++ b) k = match dget a k with | some v => some v | none => dget b k := by
  induction a with
  | nil => simp [dget]
  | cons p t ih =>
    obtain ⟨x, y⟩ := p
    by_cases h : x = k <;> simp [dget, h, ih]

theorem dget_of_mem_nodup {m : List (K × V)} {k : K} {v : V} (hn : (dkeys m).Nodup) (h : (k, v) ∈ m) :
    dget m k = some v := by
  induction m with
  | nil => simp at h
  | cons p t ih =>
    obtain ⟨a, b⟩ := p
    simp only [dkeys_cons, List.nodup_cons] at hn
    simp only [List.mem_cons, Prod.mk.injEq] at h
    rcases h with ⟨rfl, rfl⟩ | h
    · simp [dget]
    · have : k ∈ dkeys t := List.mem_map.2 ⟨(k, v), h, rfl⟩
      have hne : ¬ a = k := fun e => hn.1 (e ▸ this)
      simp [dget, hne, ih hn.2 h]

theorem mem_of_dget {m : List (K × V)} {k : K} {v : V} (h : dget m k = some v) : (k, v) ∈ m := by
  induction m with
  | nil => simp [dget] at h
  | cons p t ih =>
    obtain ⟨a, b⟩ := p
    by_cases h1 : a = k
    · subst h1; simp [dget] at h; simp [h]
    · simp [dget, h1] at h; simp [ih h]

theorem ddel_append_last (m : List (K × V)) (k : K) (v : V) (h : k ∉ dkeys m) :
    ddel (m ++ [(k, v)]) k = m := by
  induction m with
  | nil => simp [ddel]
  | cons p t ih =>
    obtain ⟨a, b⟩ := p
    simp only [dkeys_cons, List.mem_cons, not_or] at h
    have : ¬ a = k := fun e => h.1 e.symm
    simp [ddel, this, ih h.2]

/-! ### rawItems -/

theorem rawItems_congr {d d' : List (K × V)} (h : ∀ k, dget d k = dget d' k) (ks : List K) :
    rawItems d ks = rawItems d' ks := by
  induction ks with
  | nil => rfl
  | cons k t ih => simp only [rawItems, h k, ih]

theorem rawItems_cons_of_not_mem (a : K) (b : V) (t : List (K × V)) (ks : List K) (h : a ∉ ks) :
    rawItems ((a, b) :: t) ks = rawItems t ks := by
  induction ks with
  | nil => rfl
  | cons k r ih =>
    simp only [List.mem_cons, not_or] at h
    have : ¬ a = k := h.1
    simp only [rawItems, dget, this, if_false, ih h.2]

theorem rawItems_self (m : List (K × V)) (hn : (dkeys m).Nodup) : rawItems m (dkeys m) = .ok m := by
  induction m with
  | nil => rfl
  | cons p t ih =>
    obtain ⟨a, b⟩ := p
    simp only [dkeys_cons, List.nodup_cons] at hn
    simp only [dkeys_cons, rawItems, dget, if_true, rawItems_cons_of_not_mem a b t _ hn.1, ih hn.2]

theorem rawItems_ok_props {d : List (K × V)} {ks : List K} {l : List (K × V)} (h : rawItems d ks = .ok l) :
    dkeys l = ks ∧ ∀ p ∈ l, dget d p.1 = some p.2 := by
  induction ks generalizing l with
  | nil => simp [rawItems] at h; subst h; simp
  | cons k t ih =>
    simp only [rawItems] at h
    cases hk : dget d k with
    | none => simp [hk] at h
    | some v =>
      cases hr : rawItems d t with
      | error e => simp [hk, hr] at h
      | ok r =>
        simp [hk, hr] at h; subst h
        obtain ⟨h1, h2⟩ := ih hr
        refine ⟨by simp [h1], ?_⟩
        intro p hp
        simp only [List.mem_cons] at hp
        rcases hp with rfl | hp
        · exact hk
        · exact h2 p hp

theorem rawItems_error {d : List (K × V)} {ks : List K} {e : Err} (h : rawItems d ks = .error e) :
    e = .KeyError := by
  induction ks with
  | nil => simp [rawItems] at h
  | cons k t ih =>
    simp only [rawItems] at h
    cases hk : dget d k with
    | none => simp [hk] at h; exact h.symm
    | some v =>
      cases hr : rawItems d t with
      | error e' => simp [hk, hr] at h; subst h; exact ih hr
      | ok r => simp [hk, hr] at h

/-! ### Python list insertion -/

theorem pyInsert_map {α β : Type} (f : α → β) (l : List α) (i : Int) (x : α) :
    (pyInsert l i x).map f = pyInsert (l.map f) i (f x) := by
  simp [pyInsert, List.map_take, List.map_drop]

theorem pyInsert_eq {α : Type} (l : List α) (i : Int) (x : α) :
    ∃ j, pyInsert l i x = l.take j ++ x :: l.drop j := ⟨_, rfl⟩

theorem mem_pyInsert {α : Type} (l : List α) (i : Int) (x y : α) :
    y ∈ pyInsert l i x ↔ y = x ∨ y ∈ l := by
  obtain ⟨j, hj⟩ := pyInsert_eq l i x
  rw [hj]
  simp only [List.mem_append, List.mem_cons]
  have := List.take_append_drop j l
  constructor
  · rintro (h | h | h)
    · exact .inr (List.mem_of_mem_take h)
    · exact .inl h
    · exact .inr (List.mem_of_mem_drop h)
  · rintro (h | h)
    · exact .inr (.inl h)
    · rw [← this, List.mem_append] at h
      rcases h with h | h
      · exact .inl h
      · exact .inr (.inr h)

theorem nodup_pyInsert {α : Type} (l : List α) (i : Int) (x : α) (hn : l.Nodup) (hx : x ∉ l) :
    (pyInsert l i x).Nodup := by
  obtain ⟨j, hj⟩ := pyInsert_eq l i x
  rw [hj]
  have h := List.take_append_drop j l
  rw [← h] at hn hx
  rw [List.nodup_append] at hn
  simp only [List.mem_append, not_or] at hx
  rw [List.nodup_append]
  refine ⟨hn.1, List.nodup_cons.2 ⟨hx.2, hn.2.1⟩, ?_⟩
  intro a ha b hb
  simp only [List.mem_cons] at hb
  rcases hb with rfl | hb
  · exact fun e => hx.1 (e ▸ ha)
  · exact hn.2.2 a ha b hb

theorem dget_pyInsert (m : List (K × V)) (i : Int) (k k' : K) (v : V) (hk : k ∉ dkeys m) :
    dget (pyInsert m i (k, v)) k' = if k' = k then some v else dget m k' := by
  obtain ⟨j, hj⟩ := pyInsert_eq m i (k, v)
  rw [hj]
  have h := List.take_append_drop j m
  have h1 : k ∉ dkeys (m.take j) := fun hm => hk (by rw [← h, dkeys_append]; simp [hm])
  rw [dget_append]
  by_cases e : k' = k
  · subst e
    rw [(dget_eq_none_iff _ _).2 h1]; simp [dget]
  · have : ¬ k = k' := fun x => e x.symm
    simp only [e, if_false, dget, this]
    conv => rhs; rw [← h, dget_append]

end Prim

/-! ## the relation between an odict object and the dictionary it represents -/
section RelLemmas
variable {K V : Type} [DecidableEq K]

namespace Rel
variable {s : OD K V} {m : List (K × V)}

theorem nodupM (h : Rel s m) : (dkeys m).Nodup := h.keys ▸ h.nodupKeys

theorem mem_keys (h : Rel s m) (k : K) : k ∈ s.keys ↔ k ∈ dkeys s.d := by
  rw [← h.keys, ← dget_isSome_iff, h.get, dget_isSome_iff]

theorem mem_keys' (h : Rel s m) (k : K) : k ∈ s.keys ↔ k ∈ dkeys m := by rw [h.keys]

theorem has (h : Rel s m) (k : K) : dhas s.d k = dhas m k := by simp [dhas, h.get]

theorem inv (h : Rel s m) : Inv s := ⟨h.nodupKeys, h.nodupDict, h.mem_keys⟩

theorem unique {m' : List (K × V)} (h : Rel s m) (h' : Rel s m') : m = m' :=
  dict_ext (h.keys.trans h'.keys.symm) (fun k => (h.get k).trans (h'.get k).symm) h.nodupM

theorem length (h : Rel s m) : m.length = s.d.length := by
  have h1 : (dkeys m).length = (dkeys s.d).length := by
    rw [h.keys]
    exact ((List.perm_ext_iff_of_nodup h.nodupKeys h.nodupDict).2 h.mem_keys).length_eq
  simpa [dkeys] using h1

theorem items (h : Rel s m) : s.items = .ok m := by
  unfold OD.items
  rw [← h.keys, rawItems_congr (fun k => (h.get k).symm), rawItems_self m h.nodupM]

theorem empty : Rel (OD.empty : OD K V) [] := ⟨by simp [OD.empty], by simp [OD.empty], rfl, fun _ => rfl⟩

theorem setitem (h : Rel s m) (k : K) (v : V) : Rel (s.setitem k v) (dset m k v) := by
  refine ⟨?_, nodup_dkeys_dset k v h.nodupDict, ?_, ?_⟩
  · simp only [OD.setitem]; split
    · exact h.nodupKeys
    · rename_i hk
      exact List.nodup_append.2 ⟨h.nodupKeys, by simp, by simp; exact fun a ha e => hk (e ▸ ha)⟩
  · simp only [OD.setitem, dkeys_dset, h.keys]
  · intro k'; simp only [OD.setitem, dget_dset, h.get]

theorem delete (h : Rel s m) (k : K) :
    Rel ({ d := ddel s.d k, keys := s.keys.erase k } : OD K V) (ddel m k) := by
  refine ⟨h.nodupKeys.erase k, nodup_dkeys_ddel k h.nodupDict, ?_, ?_⟩
  · simp only [dkeys_ddel, h.keys]
  · intro k'; simp only [dget_ddel _ _ _ h.nodupM, dget_ddel _ _ _ h.nodupDict, h.get]

/-- moving a key to the end with a new value (one step of `reorder`) -/
theorem move (h : Rel s m) (k : K) (v : V) :
    Rel ({ d := dset s.d k v, keys := s.keys.erase k ++ [k] } : OD K V) (ddel m k ++ [(k, v)]) := by
  refine ⟨?_, nodup_dkeys_dset k v h.nodupDict, ?_, ?_⟩
  · refine List.nodup_append.2 ⟨h.nodupKeys.erase k, by simp, ?_⟩
    intro a ha b hb
    simp only [List.mem_singleton] at hb; subst hb
    exact fun e => ((List.Nodup.mem_erase_iff h.nodupKeys).1 ha).1 e
  · simp only [dkeys_append, dkeys_ddel, h.keys, dkeys_cons, dkeys_nil]
  · intro k'
    simp only [dget_append, dget_ddel _ _ _ h.nodupM, dget_dset, h.get]
    by_cases e : k' = k
    · subst e; simp [dget]
    · have : ¬ k = k' := fun x => e x.symm
      simp only [e, if_false, dget, this]
      cases dget s.d k' <;> rfl

theorem insert (h : Rel s m) (i : Int) (k : K) (v : V) (hk : k ∉ s.keys) :
    Rel ({ d := dset s.d k v, keys := pyInsert s.keys i k } : OD K V) (pyInsert m i (k, v)) := by
  refine ⟨nodup_pyInsert _ _ _ h.nodupKeys hk, nodup_dkeys_dset k v h.nodupDict, ?_, ?_⟩
  · show (pyInsert m i (k, v)).map Prod.fst = _
    rw [pyInsert_map]; exact congrArg (fun l => pyInsert l i k) h.keys
  · intro k'
    rw [dget_pyInsert m i k k' v (by rw [h.keys]; exact hk), dget_dset, h.get]

end Rel

/-- the dictionary an object represents, computed -/
def absOf (s : OD K V) : List (K × V) := s.keys.filterMap (fun k => (dget s.d k).map (fun v => (k, v)))

theorem absOf_aux (d : List (K × V)) (ks : List K) (h : ∀ k ∈ ks, k ∈ dkeys d) :
    dkeys (ks.filterMap (fun k => (dget d k).map (fun v => (k, v)))) = ks ∧
    ∀ k, dget (ks.filterMap (fun k => (dget d k).map (fun v => (k, v)))) k
      = if k ∈ ks then dget d k else none := by
  induction ks with
  | nil => simp [dget]
  | cons a t ih =>
    have ha : a ∈ dkeys d := h a (by simp)
    obtain ⟨v, hv⟩ := Option.isSome_iff_exists.1 ((dget_isSome_iff d a).2 ha)
    obtain ⟨ih1, ih2⟩ := ih (fun k hk => h k (by simp [hk]))
    simp only [List.filterMap_cons, hv, Option.map_some, dkeys_cons, ih1, true_and]
    intro k
    by_cases e : a = k
    · subst e; simp [dget, hv]
    · have : ¬ k = a := fun x => e x.symm
      simp [dget, e, ih2, this]

theorem Inv.rel {s : OD K V} (h : Inv s) : Rel s (absOf s) := by
  obtain ⟨h1, h2⟩ := absOf_aux s.d s.keys (fun k hk => (h.sync k).1 hk)
  refine ⟨h.nodupKeys, h.nodupDict, h1, ?_⟩
  intro k
  rw [absOf, h2]
  split
  · rfl
  · rename_i hk; exact ((dget_eq_none_iff _ _).2 (fun x => hk ((h.sync k).2 x))).symm

theorem rel_iff {s : OD K V} {m : List (K × V)} : Rel s m ↔ Inv s ∧ absOf s = m :=
  ⟨fun h => ⟨h.inv, h.inv.rel.unique h⟩, fun ⟨h, e⟩ => e ▸ h.rel⟩


/-! ### folds -/

theorem Rel.update {s : OD K V} {m : List (K × V)} (h : Rel s m) (ps : List (K × V)) :
    Rel (s.update ps) (ps.foldl (fun m p => dset m p.1 p.2) m) := by
  unfold OD.update
  induction ps generalizing s m with
  | nil => exact h
  | cons p t ih => exact ih (h.setitem p.1 p.2)

theorem Rel.init (ps : List (K × V)) : Rel (OD.init ps) (Spec.fromPairs ps) := Rel.empty.update ps

theorem Rel.create {s : OD K V} {m : List (K × V)} (h : Rel s m) (ps : List (K × V)) :
    Rel (s.create ps) (ps.foldl (fun m p => if dhas m p.1 then m else m ++ [p]) m) := by
  unfold OD.create
  induction ps generalizing s m with
  | nil => exact h
  | cons p t ih =>
    simp only [List.foldl_cons]
    by_cases hk : p.1 ∈ s.keys
    · have : dhas m p.1 = true := (dhas_iff _ _).2 ((h.mem_keys' _).1 hk)
      simp only [hk, this, if_true]; exact ih h
    · have hm : p.1 ∉ dkeys m := fun x => hk ((h.mem_keys' _).2 x)
      have : ¬ dhas m p.1 = true := fun x => hm ((dhas_iff _ _).1 x)
      simp only [hk, this, if_false]
      have h2 := h.setitem p.1 p.2
      rw [dset_of_not_mem m p.2 hm] at h2
      exact ih h2

theorem foldl_dset_append (acc m : List (K × V)) (hn : (dkeys (acc ++ m)).Nodup) :
    m.foldl (fun m p => dset m p.1 p.2) acc = acc ++ m := by
  induction m generalizing acc with
  | nil => simp
  | cons p t ih =>
    have hp : p.1 ∉ dkeys acc := by
      intro hx
      simp only [dkeys_append, dkeys_cons] at hn
      have := (List.nodup_append.1 hn).2.2 p.1 hx p.1 (by simp)
      exact this rfl
    simp only [List.foldl_cons, dset_of_not_mem acc p.2 hp]
    have : acc ++ [(p.1, p.2)] ++ t = acc ++ p :: t := by simp
    rw [ih (acc ++ [(p.1, p.2)]) (by rw [this]; exact hn), this]

/-- building a dictionary from the pairs of a dictionary gives it back -/
theorem fromPairs_self (m : List (K × V)) (hn : (dkeys m).Nodup) : Spec.fromPairs m = m := by
  have := foldl_dset_append [] m (by simpa using hn)
  simpa [Spec.fromPairs] using this

/-! ### last element -/

theorem erase_last {α : Type} [DecidableEq α] (l : List α) (a : α) (hn : (l ++ [a]).Nodup) :
    (l ++ [a]).erase a = l := by
  have : a ∉ l := fun h => (List.nodup_append.1 hn).2.2 a h a (by simp) rfl
  rw [List.erase_append, if_neg this]; simp

theorem Rel.popLast {s : OD K V} {m : List (K × V)} (h : Rel s m) {k : K} (hk : s.keys.getLast? = some k) :
    ∃ v, m.getLast? = some (k, v) ∧ dget s.d k = some v ∧
      Rel ({ d := ddel s.d k, keys := s.keys.erase k } : OD K V) m.dropLast := by
  have hm : (dkeys m).getLast? = some k := h.keys ▸ hk
  simp only [dkeys, List.getLast?_map] at hm
  cases hl : m.getLast? with
  | none => simp [hl] at hm
  | some p =>
    obtain ⟨k', v⟩ := p
    simp [hl] at hm; subst hm
    obtain ⟨ys, rfl⟩ := List.getLast?_eq_some_iff.1 hl
    have hn := h.nodupM
    have hk' : k' ∉ dkeys ys := by
      intro hx
      simp only [dkeys_append, dkeys_cons, dkeys_nil] at hn
      exact (List.nodup_append.1 hn).2.2 k' hx k' (by simp) rfl
    refine ⟨v, rfl, ?_, ?_⟩
    · rw [← h.get, dget_append, (dget_eq_none_iff _ _).2 hk']; simp [dget]
    · have := h.delete k'
      rwa [ddel_append_last ys k' v hk', ← List.dropLast_concat (l₁ := ys) (b := (k', v))] at this

/-! ### reorder -/

theorem rawUpdate_ok (other : OD K V) (o : List (K × V)) (d : List (K × V))
    (h : ∀ p ∈ o, dget other.d p.1 = some p.2) :
    OD.rawUpdate d other (dkeys o) = (o.foldl (fun d p => dset d p.1 p.2) d, .ok ()) := by
  induction o generalizing d with
  | nil => rfl
  | cons p t ih =>
    simp only [dkeys_cons, OD.rawUpdate, h p (by simp), List.foldl_cons]
    exact ih _ (fun q hq => h q (by simp [hq]))

theorem Rel.moveAll {s : OD K V} {m : List (K × V)} (h : Rel s m) (o : List (K × V)) :
    Rel ({ d := o.foldl (fun d p => dset d p.1 p.2) s.d,
           keys := (dkeys o).foldl (fun ks k => ks.erase k ++ [k]) s.keys } : OD K V)
        (o.foldl (fun m p => ddel m p.1 ++ [p]) m) := by
  induction o generalizing s m with
  | nil => exact h
  | cons p t ih => exact ih (h.move p.1 p.2)

theorem Rel.reorder {s other : OD K V} {m o : List (K × V)} (h : Rel s m) (ho : Rel other o) :
    (s.reorder other).2 = .ok () ∧ Rel (s.reorder other).1 (o.foldl (fun m p => ddel m p.1 ++ [p]) m) := by
  have h1 := rawUpdate_ok other o s.d
    (fun p hp => by rw [← ho.get]; exact dget_of_mem_nodup ho.nodupM hp)
  unfold OD.reorder
  rw [← ho.keys, h1]
  exact ⟨rfl, h.moveAll o⟩

/-! ### equality of dictionaries -/

theorem all_get_iff [DecidableEq V] (d o : List (K × V)) (hn : (dkeys d).Nodup) :
    d.all (fun p => decide (dget o p.1 = some p.2)) = true ↔ ∀ k v, dget d k = some v → dget o k = some v := by
  simp only [List.all_eq_true, decide_eq_true_eq]
  constructor
  · intro h k v hk; exact h (k, v) (mem_of_dget hk)
  · intro h p hp; exact h p.1 p.2 (dget_of_mem_nodup hn hp)

theorem Rel.eq [DecidableEq V] {s other : OD K V} {m o : List (K × V)} (h : Rel s m) (ho : Rel other o) :
    s.eq other = (m.length == o.length && m.all (fun p => decide (dget o p.1 = some p.2))) := by
  unfold OD.eq
  rw [h.length, ho.length]
  congr 1
  rw [Bool.eq_iff_iff, all_get_iff _ _ h.nodupDict, all_get_iff _ _ h.nodupM]
  simp only [h.get, ho.get]


/-! ### assigning the pairs of a dictionary built from pairs = assigning the pairs (lodict.update's detour) -/

theorem dset_dset (d : List (K × V)) (k : K) (v0 v : V) : dset (dset d k v0) k v = dset d k v := by
  induction d with
  | nil => simp [dset]
  | cons p t ih =>
    obtain ⟨a, b⟩ := p
    by_cases h : a = k <;> simp [dset, h, ih]

theorem dset_comm (d : List (K × V)) {k k' : K} (v v' : V) (hne : k ≠ k') (hk : k ∈ dkeys d) :
    dset (dset d k v) k' v' = dset (dset d k' v') k v := by
  induction d with
  | nil => simp at hk
  | cons p t ih =>
    obtain ⟨a, b⟩ := p
    by_cases h1 : a = k
    · subst h1
      simp [dset, hne]
    · have hk' : k ∈ dkeys t := by
        simp only [dkeys_cons, List.mem_cons] at hk
        rcases hk with e | e
        · exact absurd e.symm h1
        · exact e
      by_cases h2 : a = k'
      · subst h2; simp [dset, h1]
      · simp [dset, h1, h2, ih hk']

theorem mem_dkeys_dset (d : List (K × V)) (k k' : K) (v : V) :
    k' ∈ dkeys (dset d k v) ↔ k' = k ∨ k' ∈ dkeys d := by
  rw [dkeys_dset]; split
  · rename_i h; constructor
    · exact .inr
    · rintro (rfl | h') <;> assumption
  · simp [or_comm]

theorem foldl_dset_comm (t d : List (K × V)) {k : K} (v : V) (hk : k ∉ dkeys t) (hd : k ∈ dkeys d) :
    t.foldl (fun m p => dset m p.1 p.2) (dset d k v) = dset (t.foldl (fun m p => dset m p.1 p.2) d) k v := by
  induction t generalizing d with
  | nil => rfl
  | cons p r ih =>
    simp only [dkeys_cons, List.mem_cons, not_or] at hk
    simp only [List.foldl_cons]
    rw [dset_comm d v p.2 hk.1 hd]
    exact ih _ hk.2 ((mem_dkeys_dset _ _ _ _).2 (.inr hd))

theorem foldl_dset_dset_acc (acc d : List (K × V)) (k : K) (v : V) (hn : (dkeys acc).Nodup) :
    (dset acc k v).foldl (fun m p => dset m p.1 p.2) d
      = dset (acc.foldl (fun m p => dset m p.1 p.2) d) k v := by
  induction acc generalizing d with
  | nil => rfl
  | cons p t ih =>
    obtain ⟨a, b⟩ := p
    simp only [dkeys_cons, List.nodup_cons] at hn
    by_cases h : a = k
    · subst h
      simp only [dset, if_true, List.foldl_cons]
      rw [← foldl_dset_comm t (dset d a b) v hn.1 ((mem_dkeys_dset _ _ _ _).2 (.inl rfl)), dset_dset]
    · simp only [dset, h, if_false, List.foldl_cons]
      exact ih _ hn.2

theorem nodup_dkeys_foldl_dset (ps acc : List (K × V)) (hn : (dkeys acc).Nodup) :
    (dkeys (ps.foldl (fun m p => dset m p.1 p.2) acc)).Nodup := by
  induction ps generalizing acc with
  | nil => exact hn
  | cons p t ih => exact ih _ (nodup_dkeys_dset p.1 p.2 hn)

theorem foldl_dset_foldl (ps acc d : List (K × V)) (hn : (dkeys acc).Nodup) :
    (ps.foldl (fun m p => dset m p.1 p.2) acc).foldl (fun m p => dset m p.1 p.2) d
      = ps.foldl (fun m p => dset m p.1 p.2) (acc.foldl (fun m p => dset m p.1 p.2) d) := by
  induction ps generalizing acc with
  | nil => rfl
  | cons p t ih =>
    simp only [List.foldl_cons]
    rw [ih _ (nodup_dkeys_dset p.1 p.2 hn), foldl_dset_dset_acc acc d p.1 p.2 hn]

theorem foldl_dset_fromPairs (ps d : List (K × V)) :
    (Spec.fromPairs ps).foldl (fun m p => dset m p.1 p.2) d = ps.foldl (fun m p => dset m p.1 p.2) d := by
  unfold Spec.fromPairs
  rw [foldl_dset_foldl ps [] d (by simp)]; rfl

theorem nodup_fromPairs (ps : List (K × V)) : (dkeys (Spec.fromPairs ps)).Nodup :=
  nodup_dkeys_foldl_dset ps [] (by simp)

theorem mem_dkeys_foldl_dset (ps acc : List (K × V)) (k : K) :
    k ∈ dkeys (ps.foldl (fun m p => dset m p.1 p.2) acc) ↔ k ∈ dkeys ps ∨ k ∈ dkeys acc := by
  induction ps generalizing acc with
  | nil => simp
  | cons p t ih =>
    simp only [List.foldl_cons, ih, mem_dkeys_dset, dkeys_cons, List.mem_cons]
    constructor
    · rintro (h | h | h)
      · exact .inl (.inr h)
      · exact .inl (.inl h)
      · exact .inr h
    · rintro ((h | h) | h)
      · exact .inr (.inl h)
      · exact .inl h
      · exact .inr (.inr h)


/-! ### construction paths that do not start from an empty, well formed object (unpickling) -/

theorem dset_self_of_mem {l : List (K × V)} {k : K} {v : V} (hn : (dkeys l).Nodup) (h : (k, v) ∈ l) :
    dset l k v = l := by
  apply dict_ext _ _ (nodup_dkeys_dset k v hn)
  · have : k ∈ dkeys l := List.mem_map.2 ⟨(k, v), h, rfl⟩
    rw [dkeys_dset, if_pos this]
  · intro k'
    rw [dget_dset]
    by_cases e : k' = k
    · subst e; simp [dget_of_mem_nodup hn h]
    · simp [e]

theorem foldl_dset_sub {l : List (K × V)} (hn : (dkeys l).Nodup) (ps : List (K × V)) (hs : ∀ p ∈ ps, p ∈ l) :
    ps.foldl (fun m p => dset m p.1 p.2) l = l := by
  induction ps with
  | nil => rfl
  | cons p t ih =>
    simp only [List.foldl_cons]
    rw [dset_self_of_mem hn (by cases p; exact hs _ (by simp))]
    exact ih (fun q hq => hs q (by simp [hq]))

theorem OD.update_d (s : OD K V) (ps : List (K × V)) :
    (s.update ps).d = ps.foldl (fun m p => dset m p.1 p.2) s.d := by
  unfold OD.update
  induction ps generalizing s with
  | nil => rfl
  | cons p t ih => simp only [List.foldl_cons]; rw [ih]; rfl

theorem OD.update_keys (s : OD K V) (ps : List (K × V)) :
    (s.update ps).keys = (dkeys ps).foldl (fun ks k => if k ∈ ks then ks else ks ++ [k]) s.keys := by
  unfold OD.update
  induction ps generalizing s with
  | nil => rfl
  | cons p t ih => simp only [List.foldl_cons, dkeys_cons]; rw [ih]; rfl

/-- a dict part filled behind `__setitem__`'s back with the very items that are then assigned one by one:
`_keys` is rebuilt in item order and the dict part is unchanged -/
theorem Rel.rawFilled (l : List (K × V)) (hn : (dkeys l).Nodup) :
    Rel (OD.update (⟨l, []⟩ : OD K V) l) l := by
  have hd : (OD.update (⟨l, []⟩ : OD K V) l).d = l := by
    rw [OD.update_d]; exact foldl_dset_sub hn l (fun p hp => hp)
  have hk : (OD.update (⟨l, []⟩ : OD K V) l).keys = dkeys l := by
    rw [OD.update_keys]
    have : ∀ (ks acc : List K), (acc ++ ks).Nodup →
        ks.foldl (fun ks k => if k ∈ ks then ks else ks ++ [k]) acc = acc ++ ks := by
      intro ks
      induction ks with
      | nil => intro acc _; simp
      | cons a t ih =>
        intro acc h
        have ha : a ∉ acc := fun x => (List.nodup_append.1 h).2.2 a x a (by simp) rfl
        simp only [List.foldl_cons, ha, if_false]
        have e : acc ++ [a] ++ t = acc ++ a :: t := by simp
        rw [ih _ (by rw [e]; exact h), e]
    simpa using this (dkeys l) [] (by simpa using hn)
  exact ⟨by rw [hk]; exact hn, by rw [hd]; exact hn, hk.symm, fun k => by rw [hd]⟩

/-! ### which keys a call can store -/

def AOp.keyArgs : AOp K V → List K
  | .setitem k _ => [k] | .append k _ => [k] | .create ps => dkeys ps | .insert _ k _ => [k]
  | .reorder o => dkeys o | .setdefault k _ => [k] | .update ps => dkeys ps | .ior ps => dkeys ps | _ => []

theorem mem_dkeys_create (ps m : List (K × V)) (k : K)
    (h : k ∈ dkeys (ps.foldl (fun m p => if dhas m p.1 then m else m ++ [p]) m)) :
    k ∈ dkeys m ∨ k ∈ dkeys ps := by
  induction ps generalizing m with
  | nil => exact .inl h
  | cons p t ih =>
    simp only [List.foldl_cons] at h
    rcases ih _ h with h' | h'
    · split at h'
      · exact .inl h'
      · simp only [dkeys_append, dkeys_cons, dkeys_nil, List.mem_append, List.mem_singleton] at h'
        rcases h' with h' | h'
        · exact .inl h'
        · exact .inr (by simp [h'])
    · exact .inr (by simp [h'])

theorem mem_dkeys_moveAll (o m : List (K × V)) (k : K)
    (h : k ∈ dkeys (o.foldl (fun m p => ddel m p.1 ++ [p]) m)) : k ∈ dkeys m ∨ k ∈ dkeys o := by
  induction o generalizing m with
  | nil => exact .inl h
  | cons p t ih =>
    simp only [List.foldl_cons] at h
    rcases ih _ h with h' | h'
    · simp only [dkeys_append, dkeys_cons, dkeys_nil, List.mem_append, List.mem_singleton, dkeys_ddel] at h'
      rcases h' with h' | h'
      · exact .inl (List.mem_of_mem_erase h')
      · exact .inr (by simp [h'])
    · exact .inr (by simp [h'])

theorem Spec.mem_dkeys_step [DecidableEq V] (m : List (K × V)) (op : AOp K V) (k : K)
    (h : k ∈ dkeys (Spec.step m op).1) : k ∈ dkeys m ∨ k ∈ op.keyArgs := by
  cases op with
  | setitem k' v =>
    simp only [Spec.step, mem_dkeys_dset] at h
    rcases h with h | h
    · exact .inr (by simp [AOp.keyArgs, h])
    · exact .inl h
  | delitem k' =>
    simp only [Spec.step] at h
    split at h
    · rw [dkeys_ddel] at h; exact .inl (List.mem_of_mem_erase h)
    · exact .inl h
  | append k' v =>
    simp only [Spec.step] at h
    split at h
    · exact .inl h
    · simp only [dkeys_append, dkeys_cons, dkeys_nil, List.mem_append, List.mem_singleton] at h
      rcases h with h | h
      · exact .inl h
      · exact .inr (by simp [AOp.keyArgs, h])
  | clear => simp [Spec.step] at h
  | create ps => exact mem_dkeys_create ps m k h
  | insert i k' v =>
    simp only [Spec.step] at h
    split at h
    · exact .inl h
    · rw [dkeys, pyInsert_map, mem_pyInsert] at h
      rcases h with h | h
      · exact .inr (by simp [AOp.keyArgs, h])
      · exact .inl h
  | pop k' d =>
    simp only [Spec.step] at h
    split at h
    · rw [dkeys_ddel] at h; exact .inl (List.mem_of_mem_erase h)
    · exact .inl h
    · exact .inl h
  | popitem =>
    simp only [Spec.step] at h
    split at h
    · rw [dkeys, List.map_dropLast] at h; exact .inl (List.dropLast_subset _ h)
    · exact .inl h
  | reorder o => exact mem_dkeys_moveAll o m k h
  | setdefault k' d =>
    simp only [Spec.step] at h
    split at h
    · exact .inl h
    · simp only [dkeys_append, dkeys_cons, dkeys_nil, List.mem_append, List.mem_singleton] at h
      rcases h with h | h
      · exact .inl h
      · exact .inr (by simp [AOp.keyArgs, h])
  | update ps =>
    simp only [Spec.step] at h
    rcases (mem_dkeys_foldl_dset ps m k).1 h with h | h
    · exact .inr h
    · exact .inl h
  | ior ps =>
    simp only [Spec.step] at h
    rcases (mem_dkeys_foldl_dset ps m k).1 h with h | h
    · exact .inr h
    · exact .inl h
  | reversed => exact .inl h
  | or _ => exact .inl h
  | pickle => exact .inl h
  | pickleLegacy => exact .inl h
  | getitem _ => exact .inl h
  | contains _ => exact .inl h
  | get _ _ => exact .inl h
  | len => exact .inl h
  | keys => exact .inl h
  | values => exact .inl h
  | items => exact .inl h
  | copy => exact .inl h
  | sift fs => cases fs <;> exact .inl h
  | reorderBad => exact .inl h
  | eq _ => exact .inl h

end RelLemmas

/-! ## lodict -/
section LodictLemmas
variable {K V : Type} [DecidableEq K]

/-- a pair with its key lower-cased -/
def lo (lw : K → K) (p : K × V) : K × V := (lw p.1, p.2)

/-- every key of the object is in lower case -/
def Lowered (lw : K → K) (s : OD K V) : Prop := ∀ k ∈ s.keys, lw k = k
def LoweredM (lw : K → K) (m : List (K × V)) : Prop := ∀ k ∈ dkeys m, lw k = k

/-- the call with every key argument lower-cased; a dictionary passed by reference is first made
case-insensitive (`lodict(other)`) -/
def AOp.lower (lw : K → K) : AOp K V → AOp K V
  | .setitem k v => .setitem (lw k) v | .delitem k => .delitem (lw k) | .getitem k => .getitem (lw k)
  | .contains k => .contains (lw k) | .get k d => .get (lw k) d | .append k v => .append (lw k) v
  | .create ps => .create (ps.map (lo lw)) | .sift (some fs) => .sift (some (fs.map lw))
  | .insert i k v => .insert i (lw k) v | .pop k d => .pop (lw k) d
  | .reorder o => .reorder (Spec.fromPairs (o.map (lo lw)))
  | .setdefault k d => .setdefault (lw k) d | .update ps => .update (ps.map (lo lw))
  | .ior ps => .ior (ps.map (lo lw)) | .or ps => .or (ps.map (lo lw))
  | op => op

variable {lower : K → K}

theorem dkeys_map_lo (ps : List (K × V)) : dkeys (ps.map (lo lower)) = (dkeys ps).map lower := by
  simp [dkeys, lo, List.map_map, Function.comp_def]

theorem map_lo_of_lowered {m : List (K × V)} (h : LoweredM lower m) : m.map (lo lower) = m := by
  have : ∀ p ∈ m, lo lower p = p := fun p hp => by
    have := h p.1 (List.mem_map.2 ⟨p, hp, rfl⟩)
    simp [lo, this]
  rw [List.map_congr_left this]; simp

theorem Rel.lowered {s : OD K V} {m : List (K × V)} (h : Rel s m) : Lowered lower s ↔ LoweredM lower m := by
  simp [Lowered, LoweredM, h.keys]

variable (hl : ∀ k, lower (lower k) = lower k)
include hl

theorem loweredM_fromPairs_lo (ps : List (K × V)) : LoweredM lower (Spec.fromPairs (ps.map (lo lower))) := by
  intro k hk
  rcases (mem_dkeys_foldl_dset _ _ k).1 hk with h | h
  · rw [dkeys_map_lo] at h
    obtain ⟨x, _, rfl⟩ := List.mem_map.1 h
    exact hl x
  · simp at h

theorem keyArgs_lower (op : AOp K V) : ∀ k ∈ (op.lower lower).keyArgs, lower k = k := by
  intro k hk
  cases op with
  | setitem k' v => simp [AOp.lower, AOp.keyArgs] at hk; subst hk; exact hl k'
  | append k' v => simp [AOp.lower, AOp.keyArgs] at hk; subst hk; exact hl k'
  | insert i k' v => simp [AOp.lower, AOp.keyArgs] at hk; subst hk; exact hl k'
  | setdefault k' v => simp [AOp.lower, AOp.keyArgs] at hk; subst hk; exact hl k'
  | create ps =>
    simp only [AOp.lower, AOp.keyArgs, dkeys_map_lo] at hk
    obtain ⟨x, _, rfl⟩ := List.mem_map.1 hk; exact hl x
  | update ps =>
    simp only [AOp.lower, AOp.keyArgs, dkeys_map_lo] at hk
    obtain ⟨x, _, rfl⟩ := List.mem_map.1 hk; exact hl x
  | reorder o => exact loweredM_fromPairs_lo hl o k hk
  | ior ps =>
    simp only [AOp.lower, AOp.keyArgs, dkeys_map_lo] at hk
    obtain ⟨x, _, rfl⟩ := List.mem_map.1 hk; exact hl x
  | reversed => simp [AOp.lower, AOp.keyArgs] at hk
  | or _ => simp [AOp.lower, AOp.keyArgs] at hk
  | pickle => simp [AOp.lower, AOp.keyArgs] at hk
  | pickleLegacy => simp [AOp.lower, AOp.keyArgs] at hk
  | sift fs => cases fs <;> simp [AOp.lower, AOp.keyArgs] at hk
  | delitem _ => simp [AOp.lower, AOp.keyArgs] at hk
  | getitem _ => simp [AOp.lower, AOp.keyArgs] at hk
  | contains _ => simp [AOp.lower, AOp.keyArgs] at hk
  | get _ _ => simp [AOp.lower, AOp.keyArgs] at hk
  | len => simp [AOp.lower, AOp.keyArgs] at hk
  | keys => simp [AOp.lower, AOp.keyArgs] at hk
  | values => simp [AOp.lower, AOp.keyArgs] at hk
  | items => simp [AOp.lower, AOp.keyArgs] at hk
  | clear => simp [AOp.lower, AOp.keyArgs] at hk
  | copy => simp [AOp.lower, AOp.keyArgs] at hk
  | pop _ _ => simp [AOp.lower, AOp.keyArgs] at hk
  | popitem => simp [AOp.lower, AOp.keyArgs] at hk
  | reorderBad => simp [AOp.lower, AOp.keyArgs] at hk
  | eq _ => simp [AOp.lower, AOp.keyArgs] at hk

/-- a lower-cased call keeps every key of the dictionary in lower case -/
theorem loweredM_step [DecidableEq V] {m : List (K × V)} (h : LoweredM lower m) (op : AOp K V) :
    LoweredM lower (Spec.step m (op.lower lower)).1 := by
  intro k hk
  rcases Spec.mem_dkeys_step m _ k hk with h' | h'
  · exact h k h'
  · exact keyArgs_lower hl op k h'

/-- `lodict.update` is `odict.update` with the case-insensitive dictionary of the pairs, in any state -/
theorem LOD.update_eq (s : OD K V) (ps : List (K × V)) :
    LOD.update lower s ps = (s.update (Spec.fromPairs (ps.map (lo lower))), .ok ()) := by
  have hT : Rel (ps.foldl (fun t p => OD.setitem t (lower p.1) p.2) (OD.empty : OD K V))
      (Spec.fromPairs (ps.map (lo lower))) := by
    have := Rel.init (K := K) (V := V) (ps.map (lo lower))
    simpa [OD.init, OD.update, List.foldl_map, lo] using this
  have hlow := loweredM_fromPairs_lo (V := V) hl ps
  have e : (Spec.fromPairs (ps.map (lo lower))).foldl (fun s p => LOD.setitem lower s p.1 p.2) s
      = s.update ((Spec.fromPairs (ps.map (lo lower))).map (lo lower)) := by
    simp [OD.update, List.foldl_map, lo, LOD.setitem]
  rw [map_lo_of_lowered hlow] at e
  simp only [LOD.update, hT.items, e]

/-- `lodict.update` -/
theorem LOD.update_rel {s : OD K V} {m : List (K × V)} (h : Rel s m) (ps : List (K × V)) :
    (LOD.update lower s ps).2 = .ok () ∧
    Rel (LOD.update lower s ps).1 ((ps.map (lo lower)).foldl (fun m p => dset m p.1 p.2) m) := by
  have hT : Rel (ps.foldl (fun t p => OD.setitem t (lower p.1) p.2) (OD.empty : OD K V))
      (Spec.fromPairs (ps.map (lo lower))) := by
    have := Rel.init (K := K) (V := V) (ps.map (lo lower))
    simpa [OD.init, OD.update, List.foldl_map, lo] using this
  have hlow := loweredM_fromPairs_lo (V := V) hl ps
  have h2 := h.update ((Spec.fromPairs (ps.map (lo lower))).map (lo lower))
  rw [map_lo_of_lowered hlow, foldl_dset_fromPairs] at h2
  have e : (Spec.fromPairs (ps.map (lo lower))).foldl (fun s p => LOD.setitem lower s p.1 p.2) s
      = s.update ((Spec.fromPairs (ps.map (lo lower))).map (lo lower)) := by
    simp [OD.update, List.foldl_map, lo, LOD.setitem]
  rw [map_lo_of_lowered hlow] at e
  simp only [LOD.update, hT.items, e]
  exact ⟨trivial, h2⟩

/-- `lodict(pairs)` -/
theorem LOD.init_rel (ps : List (K × V)) :
    ∃ c, LOD.init lower ps = .ok c ∧ Rel c (Spec.fromPairs (ps.map (lo lower))) := by
  obtain ⟨h1, h2⟩ := LOD.update_rel hl (Rel.empty (K := K) (V := V)) ps
  refine ⟨(LOD.update lower OD.empty ps).1, ?_, h2⟩
  unfold LOD.init
  generalize LOD.update lower OD.empty ps = r at h1
  obtain ⟨a, b⟩ := r
  simp at h1; subst h1; rfl

end LodictLemmas

/-! ## modict -/
section ModictLemmas
variable {K V : Type} [DecidableEq K]

theorem mem_dset {m : List (K × V)} {k : K} {v : V} {p : K × V} (h : p ∈ dset m k v) :
    p ∈ m ∨ p = (k, v) := by
  induction m with
  | nil => simp [dset] at h; exact .inr h
  | cons q t ih =>
    obtain ⟨a, b⟩ := q
    by_cases e : a = k
    · subst e
      simp only [dset, if_true, List.mem_cons] at h
      rcases h with h | h
      · exact .inr h
      · exact .inl (by simp [h])
    · simp only [dset, e, if_false, List.mem_cons] at h
      rcases h with h | h
      · exact .inl (by simp [h])
      · rcases ih h with h' | h'
        · exact .inl (by simp [h'])
        · exact .inr h'

theorem mem_ddel {m : List (K × V)} {k : K} {p : K × V} (h : p ∈ ddel m k) : p ∈ m := by
  induction m with
  | nil => simp [ddel] at h
  | cons q t ih =>
    obtain ⟨a, b⟩ := q
    by_cases e : a = k
    · simp only [ddel, e, if_true] at h; simp [h]
    · simp only [ddel, e, if_false, List.mem_cons] at h
      rcases h with h | h
      · simp [h]
      · simp [ih h]

theorem dset_append_last (acc : List (K × V)) (k : K) (v0 v : V) (h : k ∉ dkeys acc) :
    dset (acc ++ [(k, v0)]) k v = acc ++ [(k, v)] := by
  induction acc with
  | nil => simp [dset]
  | cons p t ih =>
    obtain ⟨a, b⟩ := p
    simp only [dkeys_cons, List.mem_cons, not_or] at h
    have : ¬ a = k := fun e => h.1 e.symm
    simp [dset, this, ih h.2]

/-- `modict.append` is an assignment of the extended list -/
theorem MD.append_eq (s : OD K (List V)) (k : K) (v : V) :
    MD.append s k v = OD.setitem s k ((match dget s.d k with | some l => l | none => []) ++ [v]) := by
  unfold MD.append OD.setdefault OD.setitem
  cases dget s.d k with
  | some l => rfl
  | none => simp [dset_dset]

theorem MSpec.add_eq (m : List (K × List V)) (k : K) (v : V) :
    MSpec.add m k v = dset m k ((match dget m k with | some l => l | none => []) ++ [v]) := by
  unfold MSpec.add
  cases h : dget m k with
  | some l => rfl
  | none => simp [dset_of_not_mem m _ ((dget_eq_none_iff _ _).1 h)]

theorem MSpec.nonEmpty_add {m : List (K × List V)} (h : MSpec.NonEmpty m) (k : K) (v : V) :
    MSpec.NonEmpty (MSpec.add m k v) := by
  rw [MSpec.add_eq]
  intro p hp
  rcases mem_dset hp with hp | hp
  · exact h p hp
  · subst hp; simp

theorem MSpec.nonEmpty_addAll {m : List (K × List V)} (h : MSpec.NonEmpty m) (ps : List (K × V)) :
    MSpec.NonEmpty (MSpec.addAll m ps) := by
  unfold MSpec.addAll
  induction ps generalizing m with
  | nil => exact h
  | cons p t ih => exact ih (MSpec.nonEmpty_add h p.1 p.2)

theorem MSpec.nonEmpty_ddel {m : List (K × List V)} (h : MSpec.NonEmpty m) (k : K) :
    MSpec.NonEmpty (ddel m k) := fun p hp => h p (mem_ddel hp)

theorem Rel.madd {s : OD K (List V)} {m : List (K × List V)} (h : Rel s m) (k : K) (v : V) :
    Rel (MD.append s k v) (MSpec.add m k v) := by
  rw [MD.append_eq, MSpec.add_eq, ← h.get]; exact h.setitem k _

theorem Rel.maddAll {s : OD K (List V)} {m : List (K × List V)} (h : Rel s m) (ps : List (K × V)) :
    Rel (MD.update s ps) (MSpec.addAll m ps) := by
  unfold MD.update MSpec.addAll
  induction ps generalizing s m with
  | nil => exact h
  | cons p t ih => exact ih (h.madd p.1 p.2)

theorem Rel.mcreate {s : OD K (List V)} {m : List (K × List V)} (h : Rel s m) (ps : List (K × V)) :
    Rel (MD.create s ps) (ps.foldl (fun m p => if dhas m p.1 then m else MSpec.add m p.1 p.2) m) := by
  unfold MD.create
  induction ps generalizing s m with
  | nil => exact h
  | cons p t ih =>
    simp only [List.foldl_cons]
    by_cases hk : p.1 ∈ s.keys
    · have : dhas m p.1 = true := (dhas_iff _ _).2 ((h.mem_keys' _).1 hk)
      simp only [hk, this, if_true]; exact ih h
    · have : ¬ dhas m p.1 = true := fun x => hk ((h.mem_keys' _).2 ((dhas_iff _ _).1 x))
      simp only [hk, this, if_false]
      exact ih (h.madd p.1 p.2)

theorem MSpec.nonEmpty_create {m : List (K × List V)} (h : MSpec.NonEmpty m) (ps : List (K × V)) :
    MSpec.NonEmpty (ps.foldl (fun m p => if dhas m p.1 then m else MSpec.add m p.1 p.2) m) := by
  induction ps generalizing m with
  | nil => exact h
  | cons p t ih =>
    simp only [List.foldl_cons]
    split
    · exact ih h
    · exact ih (MSpec.nonEmpty_add h p.1 p.2)

theorem mapNewest_eq (l : List (K × List V)) :
    MD.mapNewest l = match MSpec.newestAll l with | some r => .ok r | none => .error .IndexError := by
  induction l with
  | nil => rfl
  | cons p t ih =>
    obtain ⟨k, vs⟩ := p
    simp only [MD.mapNewest, MD.newest, MSpec.newestAll, ih]
    cases vs.getLast? <;> cases MSpec.newestAll t <;> rfl

/-- storing every (key, value) of a well formed multi-dictionary again, in order, rebuilds it -/
theorem MSpec.addAll_values (acc : List (K × List V)) (k : K) (l0 l : List V) (hk : k ∉ dkeys acc) :
    MSpec.addAll (acc ++ [(k, l0)]) (l.map (fun v => (k, v))) = acc ++ [(k, l0 ++ l)] := by
  unfold MSpec.addAll
  induction l generalizing l0 with
  | nil => simp
  | cons v t ih =>
    simp only [List.map_cons, List.foldl_cons]
    have : MSpec.add (acc ++ [(k, l0)]) k v = acc ++ [(k, l0 ++ [v])] := by
      unfold MSpec.add
      rw [dget_append, (dget_eq_none_iff _ _).2 hk]
      simp [dget, dset_append_last acc k l0 _ hk]
    rw [this, ih]; simp

theorem MSpec.addAll_all (acc m : List (K × List V)) (hn : (dkeys (acc ++ m)).Nodup) (hne : MSpec.NonEmpty m) :
    MSpec.addAll acc (MSpec.all m) = acc ++ m := by
  induction m generalizing acc with
  | nil => simp [MSpec.all, MSpec.addAll]
  | cons p t ih =>
    obtain ⟨k, l⟩ := p
    have hk : k ∉ dkeys acc := by
      intro hx
      simp only [dkeys_append, dkeys_cons] at hn
      exact (List.nodup_append.1 hn).2.2 k hx k (by simp) rfl
    have hl : l ≠ [] := hne (k, l) (by simp)
    obtain ⟨v, r, rfl⟩ := List.exists_cons_of_ne_nil hl
    have e1 : MSpec.all ((k, v :: r) :: t) = (k, v) :: (r.map (fun x => (k, x)) ++ MSpec.all t) := by
      simp [MSpec.all]
    have e2 : MSpec.add acc k v = acc ++ [(k, [v])] := by
      unfold MSpec.add; rw [(dget_eq_none_iff _ _).2 hk]
    have e3 : acc ++ [(k, v :: r)] ++ t = acc ++ (k, v :: r) :: t := by simp
    rw [e1]
    unfold MSpec.addAll
    rw [List.foldl_cons, e2, List.foldl_append]
    have := MSpec.addAll_values acc k [v] r hk
    unfold MSpec.addAll at this ih
    rw [this]
    simp only [List.singleton_append]
    rw [ih (acc ++ [(k, v :: r)]) (by rw [e3]; exact hn) (fun p hp => hne p (by simp [hp])), e3]

theorem Rel.popFirst {s : OD K V} {m : List (K × V)} (h : Rel s m) {k : K} (hk : s.keys.head? = some k) :
    ∃ v, m.head? = some (k, v) ∧ dget s.d k = some v ∧
      Rel ({ d := ddel s.d k, keys := s.keys.erase k } : OD K V) m.tail := by
  cases m with
  | nil => rw [← h.keys] at hk; simp at hk
  | cons p t =>
    obtain ⟨a, b⟩ := p
    have : a = k := by rw [← h.keys] at hk; simpa using hk
    subst this
    refine ⟨b, rfl, ?_, ?_⟩
    · rw [← h.get]; simp [dget]
    · have := h.delete a
      simpa [ddel] using this

end ModictLemmas

/-! ## oset -/
section OsetLemmas
variable {K : Type} [DecidableEq K]
open SSpec

theorem mem_dedup (l : List K) (x : K) : x ∈ dedup l ↔ x ∈ l := by
  induction l with
  | nil => simp [dedup]
  | cons a t ih => simp only [dedup, List.mem_cons, List.mem_filter, ih]; grind

theorem nodup_dedup (l : List K) : (dedup l).Nodup := by
  induction l with
  | nil => simp [dedup]
  | cons a t ih =>
    simp only [dedup, List.nodup_cons, List.mem_filter]
    exact ⟨by simp, ih.sublist List.filter_sublist⟩

theorem dedup_of_nodup (l : List K) (h : l.Nodup) : dedup l = l := by
  induction l with
  | nil => rfl
  | cons a t ih =>
    simp only [List.nodup_cons] at h
    simp only [dedup, ih h.2]
    congr 1
    rw [List.filter_eq_self]
    intro x hx; simp; intro e; exact h.1 (e ▸ hx)

theorem dedup_filter (l : List K) (p : K → Bool) : dedup (l.filter p) = (dedup l).filter p := by
  induction l with
  | nil => rfl
  | cons a t ih =>
    by_cases h : p a = true
    · simp only [List.filter_cons, h, if_true, dedup, ih, List.filter_filter]
      congr 1
      apply List.filter_congr; intro x _; simp [Bool.and_comm]
    · have h' : p a = false := by simpa using h
      simp only [List.filter_cons, h', Bool.false_eq_true, if_false, dedup, ih, List.filter_filter]
      apply List.filter_congr; intro x _
      by_cases e : x = a
      · subst e; simp [h']
      · simp [e]

theorem foldl_add (it acc : List K) (h : acc.Nodup) :
    it.foldl OSet.add acc = acc ++ (dedup it).filter (· ∉ acc) := by
  induction it generalizing acc with
  | nil => simp [dedup]
  | cons a t ih =>
    simp only [List.foldl_cons, OSet.add]
    by_cases ha : a ∈ acc
    · simp only [ha, if_true, ih acc h, dedup, List.filter_cons, List.filter_filter]
      simp only [not_true_eq_false, decide_false, Bool.false_eq_true, if_false]
      congr 1
      apply List.filter_congr; intro x _
      by_cases e : x = a
      · subst e; simp [ha]
      · simp [e]
    · have hn : (acc ++ [a]).Nodup := List.nodup_append.2 ⟨h, by simp, by simp; exact fun x hx e => ha (e ▸ hx)⟩
      simp only [ha, if_false, ih _ hn, dedup, List.filter_cons, List.filter_filter]
      simp only [not_false_eq_true, decide_true, if_true, List.append_assoc, List.singleton_append]
      congr 2
      apply List.filter_congr; intro x _
      by_cases e1 : x = a <;> by_cases e2 : x ∈ acc <;> simp [e1, e2]

theorem foldl_discard (it l : List K) (h : l.Nodup) :
    it.foldl OSet.discard l = l.filter (· ∉ it) := by
  induction it generalizing l with
  | nil => exact (List.filter_eq_self.2 (by simp)).symm
  | cons a t ih =>
    simp only [List.foldl_cons, OSet.discard]
    rw [ih _ (h.erase a), List.Nodup.erase_eq_filter h, List.filter_filter]
    apply List.filter_congr; intro x _
    by_cases e : x = a <;> simp [e]

theorem oset_init (it : List K) : OSet.init it = dedup it := by
  have := foldl_add it [] (by simp)
  rw [List.filter_eq_self.2 (by simp)] at this
  simpa [OSet.init, OSet.ior] using this

theorem nodup_init (it : List K) : (OSet.init it).Nodup := oset_init it ▸ nodup_dedup it

theorem mem_init (it : List K) (x : K) : x ∈ OSet.init it ↔ x ∈ it := by rw [oset_init, mem_dedup]

theorem length_le_of_subset {l o : List K} (hn : l.Nodup) (hs : ∀ x ∈ l, x ∈ o) : l.length ≤ o.length := by
  induction l generalizing o with
  | nil => simp
  | cons a t ih =>
    simp only [List.nodup_cons] at hn
    have ha : a ∈ o := hs a (by simp)
    have : ∀ x ∈ t, x ∈ o.erase a := fun x hx =>
      (List.mem_erase_of_ne (fun (e : x = a) => hn.1 (e ▸ hx))).2 (hs x (by simp [hx]))
    have h1 := ih hn.2 this
    rw [List.length_erase_of_mem ha] at h1
    have : 0 < o.length := List.length_pos_of_mem ha
    simp only [List.length_cons]; omega

theorem clearLoop_nil (n : Nat) (l : List K) (hn : l.Nodup) (h : l.length < n) : OSet.clearLoop n l = [] := by
  induction n generalizing l with
  | zero => omega
  | succ n ih =>
    cases hl : l.getLast? with
    | none =>
      have : l = [] := List.getLast?_eq_none_iff.1 hl
      subst this; simp [OSet.clearLoop, OSet.pop]
    | some k =>
      obtain ⟨ys, rfl⟩ := List.getLast?_eq_some_iff.1 hl
      simp only [OSet.clearLoop, OSet.pop, if_true, hl, OSet.discard, erase_last ys k hn]
      apply ih _ (List.nodup_append.1 hn).1
      simp at h; omega


@[simp] theorem elems_set (l : List K) : (OSet.Arg.set l).elems = l := rfl
@[simp] theorem elems_list (l : List K) : (OSet.Arg.list l).elems = l := rfl
@[simp] theorem asSet_set (l : List K) : (OSet.Arg.set l).asSet = l := rfl

theorem filter_not_mem_init (l it : List K) :
    l.filter (· ∉ OSet.init it) = l.filter (· ∉ it) := by
  apply List.filter_congr; intro x _; simp [mem_init]

theorem oset_or (l : List K) (e : List K) (hn : l.Nodup) :
    OSet.init (l ++ e) = l ++ (dedup e).filter (· ∉ l) := by
  have h1 : l.foldl OSet.add [] = l := by
    have := oset_init l; simp only [OSet.init, OSet.ior] at this; rw [this, dedup_of_nodup l hn]
  simp only [OSet.init, OSet.ior, List.foldl_append, h1]
  exact foldl_add e l hn

theorem oset_sub (l : List K) (o : OSet.Arg K) (hn : l.Nodup) :
    OSet.sub l o = l.filter (· ∉ o.elems) := by
  unfold OSet.sub
  rw [oset_init, dedup_of_nodup _ (hn.sublist List.filter_sublist)]
  cases o with
  | set o => rfl
  | list o => exact filter_not_mem_init l o

theorem mem_oset_sub (l : List K) (o : OSet.Arg K) (hn : l.Nodup) (x : K) :
    x ∈ OSet.sub l o ↔ x ∈ l ∧ x ∉ o.elems := by
  rw [oset_sub l o hn]; simp

/-- the other operand as a duplicate-free list filtered = first occurrences of the filtered operand -/
theorem asSet_filter (o : OSet.Arg K) (ho : ∀ s, o = .set s → s.Nodup) (p : K → Bool) :
    o.asSet.filter p = dedup (o.elems.filter p) := by
  cases o with
  | set s =>
    simp only [OSet.Arg.asSet, OSet.Arg.elems]
    rw [dedup_of_nodup _ ((ho s rfl).sublist List.filter_sublist)]
  | list s =>
    simp only [OSet.Arg.asSet, OSet.Arg.elems, oset_init, dedup_filter]

theorem nodup_asSet (o : OSet.Arg K) (ho : ∀ s, o = .set s → s.Nodup) : o.asSet.Nodup := by
  cases o with
  | set s => exact ho s rfl
  | list s => exact nodup_init s

theorem mem_asSet (o : OSet.Arg K) (x : K) : x ∈ o.asSet ↔ x ∈ o.elems := by
  cases o with
  | set s => rfl
  | list s => exact mem_init s x

theorem oset_rsub (l : List K) (o : OSet.Arg K) (ho : ∀ s, o = .set s → s.Nodup) :
    OSet.rsub l o = dedup (o.elems.filter (· ∉ l)) := by
  unfold OSet.rsub
  rw [asSet_filter o ho, oset_init, dedup_of_nodup _ (nodup_dedup _)]

theorem oset_xor (l : List K) (o : OSet.Arg K) (hn : l.Nodup) (ho : ∀ s, o = .set s → s.Nodup) :
    OSet.xor l o = l.filter (· ∉ o.elems) ++ dedup (o.elems.filter (· ∉ l)) := by
  unfold OSet.xor
  simp only [OSet.or, elems_set]
  have hA : OSet.sub l (.set o.asSet) = l.filter (· ∉ o.elems) := by
    rw [oset_sub l _ hn]; apply List.filter_congr; intro x _; simp [mem_asSet]
  have hB : OSet.sub o.asSet (.set l) = dedup (o.elems.filter (· ∉ l)) := by
    rw [oset_sub _ _ (nodup_asSet o ho)]; exact asSet_filter o ho _
  rw [hA, hB, oset_or _ _ (hn.sublist List.filter_sublist), dedup_of_nodup _ (nodup_dedup _)]
  congr 1
  rw [List.filter_eq_self]
  intro x hx
  rw [mem_dedup, List.mem_filter] at hx
  simp only [List.mem_filter, decide_eq_true_eq, not_and, decide_not, Bool.not_eq_eq_eq_not,
    Bool.not_true, decide_eq_false_iff_not] at hx ⊢
  intro h; exact absurd h hx.2

theorem oset_iand (l : List K) (o : OSet.Arg K) (hn : l.Nodup) :
    OSet.iand l o = l.filter (· ∈ o.elems) := by
  unfold OSet.iand
  rw [foldl_discard _ _ hn]
  apply List.filter_congr; intro x hx
  have := mem_oset_sub l o hn x
  by_cases e : x ∈ o.elems <;> simp [this, hx, e]

theorem oset_toggle (o l : List K) (ho : o.Nodup) (hn : l.Nodup) :
    o.foldl (fun l v => if v ∈ l then OSet.discard l v else OSet.add l v) l
      = l.filter (· ∉ o) ++ o.filter (· ∉ l) := by
  induction o generalizing l with
  | nil => simp; exact (List.filter_eq_self.2 (by simp)).symm
  | cons a t ih =>
    simp only [List.nodup_cons] at ho
    simp only [List.foldl_cons]
    by_cases ha : a ∈ l
    · have e1 : (if a ∈ l then OSet.discard l a else OSet.add l a) = l.erase a := by
        simp [ha, OSet.discard]
      rw [e1, ih _ ho.2 (hn.erase a), List.Nodup.erase_eq_filter hn, List.filter_filter]
      simp only [List.filter_cons, ha, not_true_eq_false, decide_false, Bool.false_eq_true, if_false]
      congr 1
      · apply List.filter_congr; intro x _
        by_cases e : x = a <;> simp [e]
      · apply List.filter_congr; intro x hx
        have : x ≠ a := fun e => ho.1 (e ▸ hx)
        simp [this]
    · have hn' : (l ++ [a]).Nodup :=
        List.nodup_append.2 ⟨hn, by simp, by simp; exact fun x hx e => ha (e ▸ hx)⟩
      have e1 : (if a ∈ l then OSet.discard l a else OSet.add l a) = l ++ [a] := by
        simp [ha, OSet.add]
      rw [e1, ih _ ho.2 hn']
      simp only [List.filter_append, List.filter_cons, List.filter_nil, ho.1, ha, not_false_eq_true,
        decide_true, if_true, List.append_assoc, List.singleton_append]
      congr 1
      · apply List.filter_congr; intro x hx
        have : x ≠ a := fun e => ha (e ▸ hx)
        simp [this]
      · congr 1
        apply List.filter_congr; intro x hx
        have : x ≠ a := fun e => ho.1 (e ▸ hx)
        simp [this]

theorem oset_ixor (l : List K) (o : OSet.Arg K) (hn : l.Nodup) (ho : ∀ s, o = .set s → s.Nodup) :
    OSet.ixor l o = l.filter (· ∉ o.elems) ++ dedup (o.elems.filter (· ∉ l)) := by
  unfold OSet.ixor
  rw [oset_toggle _ _ (nodup_asSet o ho) hn, asSet_filter o ho]
  congr 1
  apply List.filter_congr; intro x _; simp [mem_asSet]

end OsetLemmas
end Ioflo.Containers
