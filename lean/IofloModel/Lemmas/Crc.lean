import IofloModel.Model.Crc
/-! Helper lemmas for C41: bit-serial CRC = table-driven CRC. -/
namespace Ioflo.Crc

variable {w : Nat}

/-- data-fed bit step, generic width -/
def feedBit (poly c : BitVec w) (d : Bool) : BitVec w :=
  if c.msb != d then (c <<< 1) ^^^ poly else c <<< 1

def feed (poly : BitVec w) : Nat → BitVec w → BitVec 8 → BitVec w
  | 0, c, _ => c
  | k+1, c, b => feed poly k (feedBit poly c b.msb) (b <<< 1)

/-- a byte placed in the top 8 bits of the register -/
def emb (w : Nat) (b : BitVec 8) : BitVec w := b.zeroExtend w <<< (w - 8)

/-- top byte of the register -/
def hi (c : BitVec w) : BitVec 8 := (c >>> (w - 8)).truncate 8

theorem lfsr_xor (poly a b : BitVec w) :
    lfsr w poly (a ^^^ b) = lfsr w poly a ^^^ lfsr w poly b := by
  unfold lfsr
  rw [BitVec.msb_xor, BitVec.shiftLeft_xor_distrib]
  generalize a <<< 1 = A
  generalize b <<< 1 = B
  cases a.msb <;> cases b.msb <;> simp <;> ext i hi <;> simp only [BitVec.getElem_xor] <;>
    cases A[i] <;> cases B[i] <;> cases poly[i] <;> rfl

theorem lfsr_zero (poly : BitVec w) : lfsr w poly 0#w = 0#w := by
  unfold lfsr; simp

theorem lfsrN_xor (poly : BitVec w) (k : Nat) (a b : BitVec w) :
    lfsrN w poly k (a ^^^ b) = lfsrN w poly k a ^^^ lfsrN w poly k b := by
  induction k generalizing a b with
  | zero => rfl
  | succ k ih => simp only [lfsrN, lfsr_xor, ih]

theorem lfsrN_zero (poly : BitVec w) (k : Nat) : lfsrN w poly k 0#w = 0#w := by
  induction k with
  | zero => rfl
  | succ k ih => simp only [lfsrN, lfsr_zero, ih]

theorem feedBit_eq (poly c : BitVec w) (d : Bool) :
    feedBit poly c d = lfsr w poly c ^^^ (if d then poly else 0#w) := by
  unfold feedBit lfsr
  cases c.msb <;> cases d <;> simp [BitVec.xor_assoc]

/-- Main induction: feeding `k` data bits one at a time = xoring the byte into the
top of the register first and shifting `k` times, up to the not-yet-consumed bits. -/
theorem lfsrN_emb (poly : BitVec w)
    (base : ∀ b : BitVec 8, lfsr w poly (emb w b) = (if b.msb then poly else 0#w) ^^^ emb w (b <<< 1))
    (k : Nat) (c : BitVec w) (b : BitVec 8) :
    lfsrN w poly k (c ^^^ emb w b) = feed poly k c b ^^^ emb w (b <<< k) := by
  induction k generalizing c b with
  | zero => simp [lfsrN, feed]
  | succ k ih =>
    simp only [lfsrN, feed]
    rw [lfsr_xor, base b, ← BitVec.xor_assoc, ← feedBit_eq, ih]
    congr 2
    rw [← BitVec.shiftLeft_add, Nat.add_comm]

theorem emb_zero : emb w 0#8 = 0#w := by simp [emb]

theorem feed8_eq (poly : BitVec w)
    (base : ∀ b : BitVec 8, lfsr w poly (emb w b) = (if b.msb then poly else 0#w) ^^^ emb w (b <<< 1))
    (c : BitVec w) (b : BitVec 8) :
    feed poly 8 c b = lfsrN w poly 8 (c ^^^ emb w b) := by
  rw [lfsrN_emb poly base]
  have : b <<< 8 = 0#8 := by
    ext i hi; simp
  rw [this, emb_zero]; simp

/-- If the top `k` bits are clear, `k` shifts of the LFSR are a plain shift. -/
theorem lfsrN_low (poly : BitVec w) (k : Nat) (x : BitVec w) (hk : k ≤ w)
    (hx : x.toNat < 2 ^ (w - k)) : lfsrN w poly k x = x <<< k := by
  induction k generalizing x with
  | zero => simp [lfsrN]
  | succ k ih =>
    have hw : 0 < w := by omega
    have hmsb : x.msb = false := by
      rw [BitVec.msb_eq_false_iff_two_mul_lt]
      have : 2 ^ (w - (k+1)) * 2 ≤ 2 ^ w := by
        rw [← Nat.pow_succ]; exact Nat.pow_le_pow_right (by omega) (by omega)
      omega
    have hl : lfsr w poly x = x <<< 1 := by simp [lfsr, hmsb]
    simp only [lfsrN, hl]
    rw [ih (x <<< 1) (by omega)]
    · rw [← BitVec.shiftLeft_add, Nat.add_comm]
    · rw [BitVec.toNat_shiftLeft]
      have h2 : 2 ^ (w - k) = 2 ^ (w - (k+1)) * 2 := by
        rw [← Nat.pow_succ]; congr 1; omega
      have : x.toNat <<< 1 = x.toNat * 2 := by simp [Nat.shiftLeft_eq]
      rw [this]
      exact Nat.lt_of_le_of_lt (Nat.mod_le _ _) (by omega)

end Ioflo.Crc

namespace Ioflo.Crc

/-- the register with its top byte cleared -/
def low (x : BitVec w) : BitVec w := (x <<< 8) >>> 8

theorem forall_byte (P : BitVec 8 → Prop) (h : ∀ n, n < 256 → P (BitVec.ofNat 8 n)) :
    ∀ b, P b := by
  intro b
  have := h b.toNat b.isLt
  simpa using this

theorem split16 (x : BitVec 16) : x = emb 16 (hi x) ^^^ low x := by
  ext i h
  simp [emb, hi, low, BitVec.getElem_xor]
  by_cases h8 : i < 8
  · have : 8 + i < 16 := by omega
    simp [h8, this, BitVec.getLsbD_eq_getElem h]
  · have h1 : ¬ (8 + i < 16) := by omega
    have h2 : i - 8 < 8 := by omega
    have h3 : 8 + (i - 8) = i := by omega
    simp [h8, h1, h2, h3, BitVec.getLsbD_eq_getElem h]

theorem split64 (x : BitVec 64) : x = emb 64 (hi x) ^^^ low x := by
  ext i h
  simp [emb, hi, low, BitVec.getElem_xor]
  by_cases h8 : i < 56
  · have : 8 + i < 64 := by omega
    simp [h8, this, BitVec.getLsbD_eq_getElem h]
  · have h1 : ¬ (8 + i < 64) := by omega
    have h2 : i - 56 < 8 := by omega
    have h3 : 56 + (i - 56) = i := by omega
    simp [h8, h1, h2, h3, BitVec.getLsbD_eq_getElem h]

theorem low_lt16 (x : BitVec 16) : (low x).toNat < 2 ^ (16 - 8) := by
  simp [low, BitVec.toNat_ushiftRight, BitVec.toNat_shiftLeft, Nat.shiftLeft_eq,
    Nat.shiftRight_eq_div_pow]; omega

theorem low_lt64 (x : BitVec 64) : (low x).toNat < 2 ^ (64 - 8) := by
  simp [low, BitVec.toNat_ushiftRight, BitVec.toNat_shiftLeft, Nat.shiftLeft_eq,
    Nat.shiftRight_eq_div_pow]; omega

theorem low_shl16 (x : BitVec 16) : low x <<< 8 = x <<< 8 := by
  ext i h; simp [low]
  by_cases h8 : i < 8
  · simp [h8]
  · have h1 : 8 + (i - 8) < 16 := by omega
    have h2 : ¬ (8 + (i - 8) < 8) := by omega
    have h3 : i - 8 < 16 := by omega
    simp [h8, h1, h2, BitVec.getLsbD_eq_getElem h3]

theorem low_shl64 (x : BitVec 64) : low x <<< 8 = x <<< 8 := by
  ext i h; simp [low]
  by_cases h8 : i < 8
  · simp [h8]
  · have h1 : 8 + (i - 8) < 64 := by omega
    have h2 : ¬ (8 + (i - 8) < 8) := by omega
    have h3 : i - 8 < 64 := by omega
    simp [h8, h1, h2, BitVec.getLsbD_eq_getElem h3]

/-- table step for one byte, generic in the facts that need a concrete width -/
theorem lfsrN8_table (poly : BitVec w) (hw : 8 ≤ w)
    (split : ∀ x : BitVec w, x = emb w (hi x) ^^^ low x)
    (lowlt : ∀ x : BitVec w, (low x).toNat < 2 ^ (w - 8))
    (lowshl : ∀ x : BitVec w, low x <<< 8 = x <<< 8)
    (x : BitVec w) :
    lfsrN w poly 8 x = (x <<< 8) ^^^ tableEntry w poly (hi x) := by
  conv => lhs; rw [split x]
  rw [lfsrN_xor, lfsrN_low poly 8 (low x) hw (lowlt x), lowshl, BitVec.xor_comm]
  rfl

end Ioflo.Crc
