import IofloModel.Model.Errno
/-! Specification predicates for C25 (written from the property text, not from the ladders) and the
membership lemmas that connect them with the tuples of the code. -/
namespace Ioflo.Errno

/-- the connection-loss errnos the property names: reset, network / host unreachable or down,
timed out, refused -/
def lossErrnos : List Nat :=
  [ECONNRESET, ENETRESET, ENETUNREACH, ENETDOWN, EHOSTUNREACH, EHOSTDOWN, ETIMEDOUT, ECONNREFUSED]

/-- exceptions as CPython builds them: the ssl subclasses carry their own OpenSSL code in `args[0]`,
a generic `ssl.SSLError` carries one of the remaining codes (OpenSSL's SSL_ERROR_* are ≤ 10) -/
def Err.wf (e : Err) : Bool :=
  match e.cls with
  | .sslWantRead => e.arg0 == SSL_ERROR_WANT_READ
  | .sslWantWrite => e.arg0 == SSL_ERROR_WANT_WRITE
  | .sslEof => e.arg0 == SSL_ERROR_EOF
  | .sslZeroReturn => e.arg0 == SSL_ERROR_ZERO_RETURN
  | .sslError => decide (e.arg0 ≤ 10) &&
                 !(e.arg0 == SSL_ERROR_WANT_READ || e.arg0 == SSL_ERROR_WANT_WRITE ||
                   e.arg0 == SSL_ERROR_EOF || e.arg0 == SSL_ERROR_ZERO_RETURN)
  | _ => true

/-- … and ssl exceptions only come out of TLS-wrapped sockets -/
def Err.wfAt (site : Site) (e : Err) : Bool := e.wf && (site.isTls || !e.cls.isSsl)

/-- "a connection-loss error (reset, network/host unreachable or down, timed out, refused, or TLS EOF)" -/
def isLoss (site : Site) (e : Err) : Bool :=
  (e.cls == .osError && lossErrnos.contains e.arg0) || (site.isTls && e.cls == .sslEof)

/-- "would-block": EAGAIN / EWOULDBLOCK on a plain socket, SSLWantRead / SSLWantWrite on a TLS one -/
def isBlock (site : Site) (e : Err) : Bool :=
  if site.isTls then e.cls == .sslWantRead || e.cls == .sslWantWrite
  else e.cls == .osError && (e.arg0 == EAGAIN || e.arg0 == EWOULDBLOCK)

/-- region of finding D26b: the TLS data ladders recognise would-block by the *number* in `args[0]`
(2, 3) whatever the class, so an `OSError` whose errno is 2 (ENOENT) or 3 (ESRCH) is swallowed -/
def tlsNumberClash (site : Site) (e : Err) : Bool :=
  site.isTls && site.isData && e.cls == .osError &&
    (e.arg0 == SSL_ERROR_WANT_READ || e.arg0 == SSL_ERROR_WANT_WRITE)

/-- region of finding D26c: a connection-loss error out of `do_handshake` -/
def handshakeLoss (site : Site) (e : Err) : Bool := site.isHandshake && isLoss site e

theorem inTuple_streamLoss (n : Nat) : inTuple n streamLoss = lossErrnos.contains n := by
  simp only [inTuple, streamLoss, lossErrnos, List.any_cons, List.any_nil, Item.eqInt,
    List.contains_cons, List.contains_nil, Bool.or_false]
  cases n == ECONNRESET <;> cases n == ENETRESET <;> cases n == ENETUNREACH <;>
    cases n == EHOSTUNREACH <;> cases n == ENETDOWN <;> cases n == EHOSTDOWN <;>
    cases n == ETIMEDOUT <;> cases n == ECONNREFUSED <;> rfl

theorem inTuple_plainBlock (n : Nat) : inTuple n plainBlock = (n == EAGAIN || n == EWOULDBLOCK) := by
  simp [inTuple, plainBlock, Item.eqInt]

theorem inTuple_tlsBlock (n : Nat) :
    inTuple n tlsBlock = (n == SSL_ERROR_WANT_READ || n == SSL_ERROR_WANT_WRITE) := by
  simp [inTuple, tlsBlock, Item.eqInt]

/-- every loss errno is in GramStack's transient tuple -/
theorem loss_sub_gramTransient : ∀ n ∈ lossErrnos, inTuple n gramTransient = true := by decide

/-- no loss errno is a would-block errno or an SSL want-read/want-write code -/
theorem loss_not_block : ∀ n ∈ lossErrnos, inTuple n plainBlock = false ∧ inTuple n tlsBlock = false := by
  decide

/-- OpenSSL error codes are below every loss errno -/
theorem small_not_loss : ∀ n, n ≤ 10 → lossErrnos.contains n = false := by decide

theorem mem_of_contains {l : List Nat} {n : Nat} (h : l.contains n = true) : n ∈ l := by
  simpa using h

end Ioflo.Errno
