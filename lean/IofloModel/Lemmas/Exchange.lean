import IofloModel.Model.Exchange
/-! Helper lemmas for C38: what `process` does, and the invariant of the running phase. -/
namespace Ioflo.Exchange

theorem iabs_of_pos {x : Int} (h : 0 < x) : iabs x = x := by
  unfold iabs; split <;> omega

theorem iabs_nonneg (x : Int) : 0 ≤ iabs x := by
  unfold iabs; split <;> omega

/-- the part of the timers' state that `process` relies on -/
def WFr (e : Exch) : Prop :=
  e.redoTimer.duration = iabs e.redoTimeout ∧ e.redoTimer.stop = e.redoTimer.start + e.redoTimer.duration ∧
  e.timer.duration = iabs e.timeout ∧ e.timer.stop = e.timer.start + e.timer.duration

theorem Timer.new_wf (s d : Int) : (Timer.new s d).duration = iabs d ∧
    (Timer.new s d).stop = (Timer.new s d).start + (Timer.new s d).duration ∧ (Timer.new s d).start = iabs s := by
  simp [Timer.new]

theorem create_wf {v k s t r tx rx e} (h : create v k s t r tx rx = .ok e) : WFr e := by
  cases v <;> cases r <;> cases t <;> simp [create] at h <;> subst h <;> simp [WFr, Timer.new]

/-- `process`, case by case -/
theorem process_timeout (t : Int) (e : Exch) (h : 0 < e.timeout ∧ e.timer.stop ≤ t) :
    process t e = (fail e, ⟨[], none⟩) := by
  unfold process
  simp [Timer.expired, h.1, h.2]

theorem process_redo (t : Int) (e : Exch) (hw : WFr e) (h : ¬ (0 < e.timeout ∧ e.timer.stop ≤ t))
    (hr : 0 < e.redoTimeout ∧ e.redoTimer.start + e.redoTimeout ≤ t) :
    process t e = ({ e with redoTimer := e.redoTimer.restart t }, ⟨e.tx.toList, none⟩) := by
  have hd : e.redoTimer.stop = e.redoTimer.start + e.redoTimeout := by
    rw [hw.2.1, hw.1, iabs_of_pos hr.1]
  have hx : e.redoTimer.stop ≤ t := by omega
  unfold process
  have h' : ¬ (e.timeout > 0 ∧ e.timer.expired t = true) := by
    simpa [Timer.expired] using h
  rw [if_neg h']
  have h'' : e.redoTimeout > 0 ∧ e.redoTimer.expired t = true := by
    simp [Timer.expired, hr.1, hx]
  rw [if_pos h'']
  cases htx : e.tx with
  | none => simp
  | some m => simp [send]

theorem process_idle (t : Int) (e : Exch) (hw : WFr e) (h : ¬ (0 < e.timeout ∧ e.timer.stop ≤ t))
    (hr : ¬ (0 < e.redoTimeout ∧ e.redoTimer.start + e.redoTimeout ≤ t)) :
    process t e = (e, ⟨[], none⟩) := by
  unfold process
  have h' : ¬ (e.timeout > 0 ∧ e.timer.expired t = true) := by
    simpa [Timer.expired] using h
  rw [if_neg h']
  have h'' : ¬ (e.redoTimeout > 0 ∧ e.redoTimer.expired t = true) := by
    intro ⟨hp, hx⟩
    have hd : e.redoTimer.stop = e.redoTimer.start + e.redoTimeout := by
      rw [hw.2.1, hw.1, iabs_of_pos hp]
    simp only [Timer.expired, decide_eq_true_eq] at hx
    exact hr ⟨hp, by omega⟩
  rw [if_neg h'']

/-- a `process` call in the history at which the overall timeout had elapsed -/
def timedOut (T stopT : Int) : List Rec → Bool
  | [] => false
  | r :: rs =>
    (match r.op with
     | .process => decide (0 < T ∧ stopT ≤ r.stamp)
     | _ => false) || timedOut T stopT rs

/-- **Reference statement of the schedule** of a running exchange, on the record of its calls.
`T`, `stopT`: overall timeout and the time it elapses; `R`: redo interval; `a`: time of the last
(re)start of the redo interval; `cur`: the latest message.  A `process` call
* at or after `stopT` (when `T > 0`) queues nothing (the exchange fails);
* otherwise, when `R > 0` and a full interval `R` has elapsed since `a`, queues exactly the latest
  message and the next interval starts at the time of this call;
* otherwise queues nothing.
A `send` / `transmit` / `message` of a new message queues it and makes it the latest. -/
def Sched (T stopT R : Int) : Int → Option Nat → List Rec → Prop
  | _, _, [] => True
  | a, cur, r :: rs =>
    match r.op with
    | .process =>
      if 0 < T ∧ stopT ≤ r.stamp then r.out = ⟨[], none⟩ ∧ Sched T stopT R a cur rs
      else if 0 < R ∧ a + R ≤ r.stamp then r.out = ⟨cur.toList, none⟩ ∧ Sched T stopT R r.stamp cur rs
      else r.out = ⟨[], none⟩ ∧ Sched T stopT R a cur rs
    | .send _ (some m) => r.out = ⟨[m], none⟩ ∧ Sched T stopT R a (some m) rs
    | _ => r.out = ⟨[], none⟩ ∧ Sched T stopT R a cur rs

theorem run_cons (v : Variant) (w : World) (op : Op) (ops : List Op) :
    run v w (op :: ops) = ((run v (step v w op).1 ops).1,
      ⟨op, w.stamp, (step v w op).2⟩ :: (run v (step v w op).1 ops).2) := rfl

/-- **Invariant of the running phase**: over any sequence of passive calls the record follows
`Sched`, the timeout settings and the overall timer are untouched, and `failed`/`done` are set
exactly by a `process` call at which the timeout had elapsed. -/
theorem run_passive (v : Variant) (ops : List Op) : ∀ (w : World) (e : Exch),
    w.ex = some e → WFr e → ops.all Op.passive = true →
    ∃ e', (run v w ops).1.ex = some e' ∧ WFr e' ∧ e'.timeout = e.timeout ∧ e'.timer = e.timer ∧
      e'.redoTimeout = e.redoTimeout ∧
      Sched e.timeout e.timer.stop e.redoTimeout e.redoTimer.start e.tx (run v w ops).2 ∧
      e'.failed = (e.failed || timedOut e.timeout e.timer.stop (run v w ops).2) ∧
      e'.done = (e.done || timedOut e.timeout e.timer.stop (run v w ops).2) := by
  induction ops with
  | nil => intro w e hw hwf _; exact ⟨e, by simpa [run] using hw, hwf, rfl, rfl, rfl, by simp [run, Sched], by simp [run, timedOut], by simp [run, timedOut]⟩
  | cons op ops ih =>
    intro w e hw hwf hp
    simp only [List.all_cons, Bool.and_eq_true] at hp
    rw [run_cons]
    cases op with
    | create k t r tx rx => simp [Op.passive] at hp
    | start arg => simp [Op.passive] at hp
    | finish => simp [Op.passive] at hp
    | fail => simp [Op.passive] at hp
    | run => simp [Op.passive] at hp
    | advance dt =>
      have hs : step v w (.advance dt) = ({ w with stamp := w.stamp + dt }, ⟨[], none⟩) := rfl
      obtain ⟨e', h1, h2, h3, h4, h5, h6, h7, h8⟩ := ih { w with stamp := w.stamp + dt } e hw hwf hp.2
      rw [hs]
      exact ⟨e', h1, h2, h3, h4, h5, by simp [Sched, h6], by simp [timedOut, h7], by simp [timedOut, h8]⟩
    | receive rx =>
      have hs : step v w (.receive rx) =
          ({ w with ex := some { e with rx := some rx }, queue := w.queue }, ⟨[], none⟩) := by
        simp [step, World.call, hw]
      obtain ⟨e', h1, h2, h3, h4, h5, h6, h7, h8⟩ :=
        ih { w with ex := some { e with rx := some rx }, queue := w.queue } { e with rx := some rx } rfl hwf hp.2
      rw [hs]
      exact ⟨e', h1, h2, h3, h4, h5, by simp [Sched]; exact h6, by simp [timedOut, h7], by simp [timedOut, h8]⟩
    | send via tx =>
      cases tx with
      | none => simp [Op.passive] at hp
      | some m =>
        have hs : step v w (.send via (some m)) =
            ({ w with ex := some { e with tx := some m }, queue := w.queue ++ [m] }, ⟨[m], none⟩) := by
          simp [step, World.call, hw, send]
        obtain ⟨e', h1, h2, h3, h4, h5, h6, h7, h8⟩ :=
          ih { w with ex := some { e with tx := some m }, queue := w.queue ++ [m] } { e with tx := some m } rfl hwf hp.2
        rw [hs]
        exact ⟨e', h1, h2, h3, h4, h5, by simp [Sched]; exact h6, by simp [timedOut, h7], by simp [timedOut, h8]⟩
    | process =>
      by_cases hT : 0 < e.timeout ∧ e.timer.stop ≤ w.stamp
      · -- timed out
        have hs : step v w .process = ({ w with ex := some (fail e), queue := w.queue }, ⟨[], none⟩) := by
          simp [step, World.call, hw, process_timeout w.stamp e hT]
        obtain ⟨e', h1, h2, h3, h4, h5, h6, h7, h8⟩ :=
          ih { w with ex := some (fail e), queue := w.queue } (fail e) rfl hwf hp.2
        rw [hs]
        refine ⟨e', h1, h2, h3, h4, h5, ?_, ?_, ?_⟩
        · simp only [Sched, hT, and_self, if_true, true_and]; exact h6
        · simp [timedOut, hT, h7, fail]
        · simp [timedOut, hT, h8, fail]
      · by_cases hR : 0 < e.redoTimeout ∧ e.redoTimer.start + e.redoTimeout ≤ w.stamp
        · have hs : step v w .process =
              ({ w with ex := some { e with redoTimer := e.redoTimer.restart w.stamp },
                        queue := w.queue ++ e.tx.toList }, ⟨e.tx.toList, none⟩) := by
            simp [step, World.call, hw, process_redo w.stamp e hwf hT hR]
          have hwf' : WFr { e with redoTimer := e.redoTimer.restart w.stamp } := by
            refine ⟨?_, ?_, hwf.2.2.1, hwf.2.2.2⟩
            · simpa [Timer.restart] using hwf.1
            · simp [Timer.restart]
          obtain ⟨e', h1, h2, h3, h4, h5, h6, h7, h8⟩ :=
            ih { w with ex := some { e with redoTimer := e.redoTimer.restart w.stamp },
                        queue := w.queue ++ e.tx.toList }
              { e with redoTimer := e.redoTimer.restart w.stamp } rfl hwf' hp.2
          rw [hs]
          refine ⟨e', h1, h2, h3, h4, h5, ?_, ?_, ?_⟩
          · simp only [Sched, hT, if_false, hR, and_self, if_true, true_and]
            simpa [Timer.restart] using h6
          · have : ¬ (0 < e.timeout ∧ e.timer.stop ≤ w.stamp) := hT
            simp only [timedOut, this, decide_false, Bool.false_or]
            exact h7
          · have : ¬ (0 < e.timeout ∧ e.timer.stop ≤ w.stamp) := hT
            simp only [timedOut, this, decide_false, Bool.false_or]
            exact h8
        · have hs : step v w .process = ({ w with ex := some e, queue := w.queue }, ⟨[], none⟩) := by
            simp [step, World.call, hw, process_idle w.stamp e hwf hT hR]
          obtain ⟨e', h1, h2, h3, h4, h5, h6, h7, h8⟩ :=
            ih { w with ex := some e, queue := w.queue } e rfl hwf hp.2
          rw [hs]
          refine ⟨e', h1, h2, h3, h4, h5, ?_, ?_, ?_⟩
          · simp only [Sched, hT, if_false, hR, true_and]; exact h6
          · have : ¬ (0 < e.timeout ∧ e.timer.stop ≤ w.stamp) := hT
            simp only [timedOut, this, decide_false, Bool.false_or]
            exact h7
          · have : ¬ (0 < e.timeout ∧ e.timer.stop ≤ w.stamp) := hT
            simp only [timedOut, this, decide_false, Bool.false_or]
            exact h8

theorem timedOut_iff (T stopT : Int) (rs : List Rec) :
    timedOut T stopT rs = true ↔ 0 < T ∧ ∃ r ∈ rs, r.op = .process ∧ stopT ≤ r.stamp := by
  induction rs with
  | nil => simp [timedOut]
  | cons r rs ih =>
    simp only [timedOut, Bool.or_eq_true, ih, List.mem_cons, exists_eq_or_imp]
    by_cases hop : r.op = .process
    · simp only [hop, decide_eq_true_eq, true_and]
      constructor
      · rintro (⟨h1, h2⟩ | ⟨h1, h2⟩)
        · exact ⟨h1, Or.inl h2⟩
        · exact ⟨h1, Or.inr h2⟩
      · rintro ⟨h1, h2 | h2⟩
        · exact Or.inl ⟨h1, h2⟩
        · exact Or.inr ⟨h1, h2⟩
    · have : (match r.op with | .process => decide (0 < T ∧ stopT ≤ r.stamp) | _ => false) = false := by
        cases h : r.op <;> simp_all
      simp only [Bool.false_eq_true, false_or, hop, false_and]

theorem Sched_quiet_after_timeout {T stopT R : Int} : ∀ (rs : List Rec) (a : Int) (cur : Option Nat),
    Sched T stopT R a cur rs → ∀ r ∈ rs, r.op = .process → 0 < T → stopT ≤ r.stamp → r.out.queued = [] := by
  intro rs
  induction rs with
  | nil => intro _ _ _ r hr; cases hr
  | cons x xs ih =>
    intro a cur hs r hr hop hT hst
    rcases List.mem_cons.mp hr with rfl | hr
    · simp only [Sched, hop] at hs
      rw [if_pos ⟨hT, hst⟩] at hs
      rw [hs.1]
    · unfold Sched at hs
      split at hs
      · split at hs
        · exact ih _ _ hs.2 r hr hop hT hst
        · split at hs
          · exact ih _ _ hs.2 r hr hop hT hst
          · exact ih _ _ hs.2 r hr hop hT hst
      · exact ih _ _ hs.2 r hr hop hT hst
      · exact ih _ _ hs.2 r hr hop hT hst

/-- consecutive retransmission times are at least one interval apart, the first at least one
interval after `a` -/
def Spaced (R : Int) : Int → List Int → Prop
  | _, [] => True
  | a, x :: xs => a + R ≤ x ∧ 0 < R ∧ Spaced R x xs

theorem redoStamps_cons_other (r : Rec) (rs : List Rec) (h : r.op ≠ .process) :
    redoStamps (r :: rs) = redoStamps rs := by
  conv => lhs; unfold redoStamps
  cases hop : r.op <;> simp_all

theorem redoStamps_cons_process (r : Rec) (rs : List Rec) (h : r.op = .process) :
    redoStamps (r :: rs) = if r.out.queued ≠ [] then r.stamp :: redoStamps rs else redoStamps rs := by
  conv => lhs; unfold redoStamps
  simp only [h]

theorem Sched_spaced {T stopT R : Int} : ∀ (rs : List Rec) (a : Int) (cur : Option Nat),
    Sched T stopT R a cur rs → ∀ b, b ≤ a → Spaced R b (redoStamps rs) := by
  intro rs
  induction rs with
  | nil => intro _ _ _ _ _; trivial
  | cons x xs ih =>
    intro a cur hs b hb
    by_cases hop : x.op = .process
    · rw [redoStamps_cons_process x xs hop]
      simp only [Sched, hop] at hs
      split at hs
      · rw [hs.1]; simp only [ne_eq, not_true_eq_false, if_false]; exact ih _ _ hs.2 b hb
      · split at hs
        · rename_i hR
          rw [hs.1]
          by_cases hq : cur.toList ≠ []
          · rw [if_pos hq]
            exact And.intro (by omega) (And.intro hR.1 (ih _ _ hs.2 _ (Int.le_refl _)))
          · rw [if_neg hq]
            exact ih _ _ hs.2 b (by omega)
        · rw [hs.1]; simp only [ne_eq, not_true_eq_false, if_false]; exact ih _ _ hs.2 b hb
    · rw [redoStamps_cons_other x xs hop]
      unfold Sched at hs
      split at hs
      · rename_i h; exact absurd h hop
      · exact ih _ _ hs.2 b hb
      · exact ih _ _ hs.2 b hb

theorem Spaced_nth {R : Int} : ∀ (l : List Int) (a : Int), Spaced R a l →
    ∀ (i : Nat) (h : i < l.length), a + R * ((i : Int) + 1) ≤ l[i] := by
  intro l
  induction l with
  | nil => intro a _ i h; cases h
  | cons x xs ih =>
    intro a hs i h
    cases i with
    | zero => simp only [List.getElem_cons_zero]; have := hs.1; simp; omega
    | succ j =>
      simp only [List.getElem_cons_succ]
      have h2 := ih x hs.2.2 j (by simpa using h)
      have h1 := hs.1
      have : R * ((↑(j + 1) : Int) + 1) = R * ((j : Int) + 1) + R := by
        rw [show ((↑(j + 1) : Int) + 1) = ((j : Int) + 1) + 1 by omega, Int.mul_add, Int.mul_one]
      omega


theorem emod_succ_lt (x R : Int) (hR : 0 < R) (h : x % R + 1 < R) : (x + 1) % R = x % R + 1 := by
  have h0 : 0 ≤ x % R := Int.emod_nonneg x (by omega)
  have hx : x + 1 = (x % R + 1) + R * (x / R) := by
    have := Int.emod_add_mul_ediv x R
    omega
  rw [hx, Int.add_mul_emod_self_left]
  exact Int.emod_eq_of_lt (by omega) h

theorem emod_succ_wrap (x R : Int) (_hR : 0 < R) (h : x % R + 1 = R) : (x + 1) % R = 0 := by
  have hx : x + 1 = R * (x / R + 1) := by
    have := Int.emod_add_mul_ediv x R
    rw [Int.mul_add, Int.mul_one]
    omega
  rw [hx, Int.mul_emod_right]

/-- `n` rounds of "one tick passes, then `process`" -/
def poll : Nat → List Op
  | 0 => []
  | n + 1 => .advance 1 :: .process :: poll n

/-- the stamps of those `process` calls -/
def pollStamps (t : Int) : Nat → List Int
  | 0 => []
  | n + 1 => (t + 1) :: pollStamps (t + 1) n


/-! ### the generic-time definitions at `Int` are the model -/

def toTimer (t : GTimer Int) : Timer := ⟨t.start, t.duration, t.stop⟩
def toExch (e : GExch Int) : Exch :=
  ⟨e.kind, e.timeout, toTimer e.timer, e.redoTimeout, toTimer e.redoTimer, e.tx, e.rx, e.done, e.failed, e.acked⟩
def toWorld (w : GWorld Int) : World := ⟨w.stamp, w.ex.map toExch, w.queue⟩
def toOp : GOp Int → Op
  | .create k t r tx rx => .create k t r tx rx
  | .start a => .start a
  | .advance dt => .advance dt
  | .process => .process
  | .send via tx => .send via tx
  | .receive rx => .receive rx
  | .finish => .finish
  | .fail => .fail
  | .run => .run

theorem gsend_int (e : GExch Int) (tx : Option Nat) :
    toExch (gsend e tx).1 = (send (toExch e) tx).1 ∧ (gsend e tx).2 = (send (toExch e) tx).2 := by
  unfold gsend send
  cases tx <;> cases h : e.tx <;> simp [toExch, h]

theorem gprocess_int (stamp : Int) (e : GExch Int) :
    toExch (gprocess stamp e).1 = (process stamp (toExch e)).1 ∧ (gprocess stamp e).2 = (process stamp (toExch e)).2 := by
  obtain ⟨k, T, ⟨ts, td, tp⟩, R, ⟨rs, rd, rp⟩, tx, rx, dn, fl, ak⟩ := e
  have he : toExch ⟨k, T, ⟨ts, td, tp⟩, R, ⟨rs, rd, rp⟩, tx, rx, dn, fl, ak⟩ = ⟨k, T, ⟨ts, td, tp⟩, R, ⟨rs, rd, rp⟩, tx, rx, dn, fl, ak⟩ := rfl
  rw [he]
  unfold gprocess process
  by_cases h1 : 0 < T ∧ tp ≤ stamp
  · simp [Tick.pos, Tick.le, GTimer.expired, Timer.expired, toExch, toTimer, h1.1, h1.2, gfail, fail]
  · have hc1 : ¬ (0 < T ∧ decide (tp ≤ stamp) = true) := by simpa using h1
    by_cases h2 : 0 < R ∧ rp ≤ stamp
    · have hc2 : (0 < R ∧ decide (rp ≤ stamp) = true) := by simpa using h2
      cases tx <;>
        simp [Tick.pos, Tick.le, Tick.add, GTimer.expired, Timer.expired, GTimer.restart, Timer.restart, toExch, toTimer,
          h1, h2.1, h2.2, gsend, send] <;> rw [if_neg hc1] <;> simp
    · have hc2 : ¬ (0 < R ∧ decide (rp ≤ stamp) = true) := by simpa using h2
      simp [Tick.pos, Tick.le, GTimer.expired, Timer.expired, toExch, toTimer, h1, h2]

theorem gstart_int (stamp : Int) (e : GExch Int) (arg : Option Nat) :
    toExch (gstart stamp e arg).1 = (start stamp (toExch e) arg).1 ∧ (gstart stamp e arg).2 = (start stamp (toExch e) arg).2 := by
  unfold gstart start
  cases hk : e.kind with
  | exchange => simp [toExch, hk, gprepStart, prepStart]
  | exchanger =>
    cases arg <;> cases htx : e.tx <;>
      simp [toExch, toTimer, hk, gprepStart, prepStart, gsend, send, GTimer.restart, Timer.restart, Tick.add, htx]
  | exchangent =>
    cases arg <;> cases hrx : e.rx <;>
      simp [toExch, toTimer, hk, gprepStart, prepStart, GTimer.restart, Timer.restart, Tick.add, hrx]

theorem gcreate_int (v : Variant) (k : Kind) (stamp : Int) (t r : Option Int) (tx rx : Option Nat) :
    (gcreate defsInt v k stamp t r tx rx).map toExch = create v k stamp t r tx rx := by
  cases v <;> cases t <;> cases r <;>
    simp [gcreate, create, defsInt, Except.map, toExch, toTimer, GTimer.new, Timer.new, Tick.abs, Tick.add]

/-- **the `Int` instantiation of the generic definitions is the model the theorems are about** -/
theorem gstep_int (v : Variant) (w : GWorld Int) (op : GOp Int) :
    toWorld (gstep defsInt v w op).1 = (step v (toWorld w) (toOp op)).1 ∧
    (gstep defsInt v w op).2 = (step v (toWorld w) (toOp op)).2 := by
  cases op with
  | create k t r tx rx =>
    have h := gcreate_int v k w.stamp t r tx rx
    simp only [gstep, step, toOp, toWorld]
    cases hg : gcreate defsInt v k w.stamp t r tx rx with
    | error err => rw [hg] at h; simp [Except.map] at h; simp [← h]
    | ok e => rw [hg] at h; simp [Except.map] at h; simp [← h]
  | advance dt => simp [gstep, step, toOp, toWorld, Tick.add]
  | start arg =>
    cases hex : w.ex with
    | none => simp [gstep, step, toOp, toWorld, GWorld.call, World.call, hex]
    | some e =>
      have := gstart_int w.stamp e arg
      simp [gstep, step, toOp, toWorld, GWorld.call, World.call, hex, this.1, this.2]
  | process =>
    cases hex : w.ex with
    | none => simp [gstep, step, toOp, toWorld, GWorld.call, World.call, hex]
    | some e =>
      have := gprocess_int w.stamp e
      simp [gstep, step, toOp, toWorld, GWorld.call, World.call, hex, this.1, this.2]
  | send via tx =>
    cases hex : w.ex with
    | none => simp [gstep, step, toOp, toWorld, GWorld.call, World.call, hex]
    | some e =>
      have := gsend_int e tx
      simp [gstep, step, toOp, toWorld, GWorld.call, World.call, hex, this.1, this.2]
  | receive rx => cases hex : w.ex <;> simp [gstep, step, toOp, toWorld, GWorld.call, World.call, hex, toExch]
  | finish => cases hex : w.ex <;> simp [gstep, step, toOp, toWorld, GWorld.call, World.call, hex, toExch]
  | fail => cases hex : w.ex <;> simp [gstep, step, toOp, toWorld, GWorld.call, World.call, hex, toExch, gfail, fail]
  | run => cases hex : w.ex <;> simp [gstep, step, toOp, toWorld, GWorld.call, World.call, hex, toExch]


theorem grun_int (v : Variant) (ops : List (GOp Int)) : ∀ (w : GWorld Int),
    toWorld (grun defsInt v w ops).1 = (run v (toWorld w) (ops.map toOp)).1 ∧
    (grun defsInt v w ops).2 = (run v (toWorld w) (ops.map toOp)).2.map (·.out) := by
  induction ops with
  | nil => intro w; exact ⟨rfl, rfl⟩
  | cons op ops ih =>
    intro w
    obtain ⟨h1, h2⟩ := gstep_int v w op
    obtain ⟨i1, i2⟩ := ih (gstep defsInt v w op).1
    simp only [grun, List.map_cons, run_cons]
    rw [← h1, ← h2]
    exact ⟨i1, by simp [i2]⟩

end Ioflo.Exchange
