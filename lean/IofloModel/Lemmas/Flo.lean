import IofloModel.Model.Flo
import IofloModel.Lemmas.Outline
/-!
Helper definitions and lemmas for the invariants of the framer model (`Model/Flo.lean`).

* `Running`, `FInv`            — the C05 invariant of one framer
* `WF`                         — static well-formedness of a program (what `Builder` + `Framer.resolve`
                                 establish for the generated programs; decidable on finite programs)
* `Child`, `Reach`             — the auxiliary tree
* `Mod`                        — frame condition: which framers an operation may touch
-/
namespace Ioflo.Flo
open Ioflo.Outline (Fid exEn)

variable {W : Type}

/-! ### ghost flags -/

def St.bad (s : St W) : Bool := s.overlap || s.reenter

/-! ### static structure -/

/-- `x` is a conditional auxiliary of frame `m` -/
def IsSusp (P : Prog) (m : Fid) (x : Frid) : Prop := x ∈ suspAuxes (P.frame m).preacts

/-- all auxiliaries referenced by a frame: plain, then conditional -/
def kids (P : Prog) (f : Fid) : List Frid := (P.frame f).auxes ++ suspAuxes (P.frame f).preacts

def Child (P : Prog) (i y : Frid) : Prop := ∃ f, (P.frame f).framer = i ∧ y ∈ kids P f

inductive Reach (P : Prog) : Frid → Frid → Prop
  | refl (i : Frid) : Reach P i i
  | step {i y j : Frid} : Child P i y → Reach P y j → Reach P i j

/-- a `done` act only names framer `k` -/
def DoneOnly (k : Frid) : Act → Prop
  | .done frs => ∀ j, j ∈ frs → j = k
  | _ => True

def PreactDoneOnly (k : Frid) : Preact → Prop
  | .act a => DoneOnly k a
  | .transit _ _ tracts => ∀ a, a ∈ tracts → DoneOnly k a
  | .suspend _ _ tracts => ∀ a, a ∈ tracts → DoneOnly k a

structure WF (P : Prog) (rank : Frid → Nat) : Prop where
  ranked : ∀ f y, y ∈ kids P f → rank y < rank (P.frame f).framer
  unique : ∀ f g y, y ∈ kids P f → y ∈ kids P g → f = g
  nodup : ∀ f, (kids P f).Nodup
  doneEn : ∀ f a, a ∈ (P.frame f).enacts → DoneOnly (P.frame f).framer a
  doneRen : ∀ f a, a ∈ (P.frame f).renacts → DoneOnly (P.frame f).framer a
  doneRe : ∀ f a, a ∈ (P.frame f).reacts → DoneOnly (P.frame f).framer a
  doneEx : ∀ f a, a ∈ (P.frame f).exacts → DoneOnly (P.frame f).framer a
  doneRex : ∀ f a, a ∈ (P.frame f).rexacts → DoneOnly (P.frame f).framer a
  donePre : ∀ f p, p ∈ (P.frame f).preacts → PreactDoneOnly (P.frame f).framer p
  headLast : ∀ m, (P.frame m).head.getLast? = some m
  outlineOwn : ∀ a f, f ∈ (P.frame a).outline → (P.frame f).framer = (P.frame a).framer
  headOwn : ∀ m f, f ∈ (P.frame m).head → (P.frame f).framer = (P.frame m).framer
  outlineSelf : ∀ a, a ∈ (P.frame a).outline
  firstOwn : ∀ i, (P.frame (P.framer i).first).framer = i
  farOwn : ∀ f needs far tr, Preact.transit needs far tr ∈ (P.frame f).preacts →
    (P.frame far).framer = (P.frame f).framer
  framesComplete : ∀ m, m ∈ P.frames (P.frame m).framer

/-! ### the invariant of one framer -/

/-- conditional auxiliary `x` of frame `m` is running (entered and not done) -/
def Running (P : Prog) (s : St W) (m : Fid) (x : Frid) : Prop :=
  IsSusp P m x ∧ (s.fr x).done = false

structure FInv (P : Prog) (i : Frid) (s : St W) : Prop where
  none_nil : (s.fr i).active = none → (s.fr i).actives = []
  own : ∀ a, (s.fr i).active = some a → (P.frame a).framer = i
  full : ∀ a, (s.fr i).active = some a →
    (∀ m x, (P.frame m).framer = i → ¬ Running P s m x) → (s.fr i).actives = (P.frame a).outline
  cut : ∀ m x, (P.frame m).framer = i → Running P s m x → (s.fr i).actives = (P.frame m).head
  single : ∀ m x m' x', (P.frame m).framer = i → (P.frame m').framer = i →
    Running P s m x → Running P s m' x' → x = x'

/-- the invariant for framer `i` and everything below it in the auxiliary tree -/
def InvR (P : Prog) (i : Frid) (s : St W) : Prop := ∀ j, Reach P i j → FInv P j s

/-- … for everything strictly below `i` -/
def Below (P : Prog) (i : Frid) (s : St W) : Prop := ∀ y, Child P i y → InvR P y s

/-! ### frame condition -/

/-- everything of a framer's state except `desire` -/
def FramerSt.core (x : FramerSt) : Status × Bool × Option Fid × List Fid × Option Fid × Nat × Nat × Nat :=
  (x.status, x.done, x.active, x.actives, x.main, x.stamp, x.elapsed, x.recurred)

/-- `s'` differs from `s` at most in framers in `D` (and in `desire`, world, trace, time); flags only rise -/
structure Mod (D : Frid → Prop) (s s' : St W) : Prop where
  same : ∀ j, ¬ D j → (s'.fr j).core = (s.fr j).core
  flags : s.bad = true → s'.bad = true

theorem Mod.refl (D : Frid → Prop) (s : St W) : Mod D s s := ⟨fun _ _ => rfl, id⟩

theorem Mod.trans {D : Frid → Prop} {s1 s2 s3 : St W} (h1 : Mod D s1 s2) (h2 : Mod D s2 s3) : Mod D s1 s3 :=
  ⟨fun j hj => (h2.same j hj).trans (h1.same j hj), fun h => h2.flags (h1.flags h)⟩

theorem Mod.mono {D D' : Frid → Prop} {s s' : St W} (h : Mod D s s') (hd : ∀ j, D j → D' j) : Mod D' s s' :=
  ⟨fun j hj => h.same j (fun hh => hj (hd j hh)), h.flags⟩

theorem Mod.bad_false {D : Frid → Prop} {s s' : St W} (h : Mod D s s') (hb : s'.bad = false) : s.bad = false := by
  cases hs : s.bad with
  | false => rfl
  | true => rw [h.flags hs] at hb; cases hb

theorem core_done {a b : FramerSt} (h : a.core = b.core) : a.done = b.done := by
  simp only [FramerSt.core, Prod.mk.injEq] at h; exact h.2.1
theorem core_active {a b : FramerSt} (h : a.core = b.core) : a.active = b.active := by
  simp only [FramerSt.core, Prod.mk.injEq] at h; exact h.2.2.1
theorem core_actives {a b : FramerSt} (h : a.core = b.core) : a.actives = b.actives := by
  simp only [FramerSt.core, Prod.mk.injEq] at h; exact h.2.2.2.1
theorem core_status {a b : FramerSt} (h : a.core = b.core) : a.status = b.status := by
  simp only [FramerSt.core, Prod.mk.injEq] at h; exact h.1
theorem core_main {a b : FramerSt} (h : a.core = b.core) : a.main = b.main := by
  simp only [FramerSt.core, Prod.mk.injEq] at h; exact h.2.2.2.2.1

/-! ### the auxiliary tree -/

section tree
variable {P : Prog} {rank : Frid → Nat} (wf : WF P rank)
include wf

theorem child_rank {i y : Frid} (h : Child P i y) : rank y < rank i := by
  obtain ⟨f, hf, hy⟩ := h
  have := wf.ranked f y hy
  rw [hf] at this; exact this

theorem reach_rank {i j : Frid} (h : Reach P i j) : rank j ≤ rank i := by
  induction h with
  | refl i => exact Nat.le_refl _
  | step hc _ ih => have := child_rank wf hc; omega

theorem parent_unique {i i' x : Frid} (h : Child P i x) (h' : Child P i' x) : i = i' := by
  obtain ⟨f, hf, hx⟩ := h
  obtain ⟨g, hg, hx'⟩ := h'
  have := wf.unique f g x hx hx'
  subst this
  rw [← hf, ← hg]

theorem not_reach_parent {i y : Frid} (h : Child P i y) : ¬ Reach P y i := by
  intro hr
  have h1 := child_rank wf h
  have h2 := reach_rank wf hr
  omega

omit wf in
theorem reach_trans {a b c : Frid} (h1 : Reach P a b) (h2 : Reach P b c) : Reach P a c := by
  induction h1 with
  | refl _ => exact h2
  | step hc _ ih => exact Reach.step hc (ih h2)

omit wf in
theorem reach_child {i y : Frid} (h : Child P i y) : Reach P i y := Reach.step h (Reach.refl y)

/-- the last edge of a path into `x` comes from the (unique) parent of `x` -/
theorem reach_child_cases {y x j : Frid} (hr : Reach P y x) (hc : Child P j x) : x = y ∨ Reach P y j := by
  induction hr with
  | refl _ => exact Or.inl rfl
  | step hyz _ ih =>
    rcases ih hc with h | h
    · subst h
      have := parent_unique wf hyz hc
      subst this
      exact Or.inr (Reach.refl _)
    · exact Or.inr (Reach.step hyz h)

/-- the ancestors of a framer are totally ordered -/
theorem reach_linear {a b j : Frid} (ha : Reach P a j) (hb : Reach P b j) : Reach P a b ∨ Reach P b a := by
  induction ha with
  | refl _ => exact Or.inr hb
  | step haz _ ih =>
    rcases ih hb with h | h
    · exact Or.inl (Reach.step haz h)
    · rcases reach_child_cases wf h haz with h' | h'
      · subst h'; exact Or.inl (reach_child haz)
      · exact Or.inr h'

/-- subtrees of different children of one framer are disjoint -/
theorem siblings_disjoint {i y y' j : Frid} (hy : Child P i y) (hy' : Child P i y') (hne : y ≠ y')
    (hr : Reach P y j) : ¬ Reach P y' j := by
  intro hr'
  rcases reach_linear wf hr hr' with h | h
  · rcases reach_child_cases wf h hy' with h' | h'
    · exact hne h'.symm
    · exact not_reach_parent wf hy h'
  · rcases reach_child_cases wf h hy with h' | h'
    · exact hne h'
    · exact not_reach_parent wf hy' h'

/-- a conditional kid of `j` that lies in the subtree of `y` is `y` itself, or `j` lies in that subtree -/
theorem kid_in_subtree {y j x : Frid} (hc : Child P j x) (hr : Reach P y x) : x = y ∨ Reach P y j :=
  reach_child_cases wf hr hc

end tree

/-! ### `FInv` only looks at the framer's `active`/`actives` and the `done` flags of its conditional kids -/

theorem susp_child {P : Prog} {m : Fid} {x : Frid} (h : IsSusp P m x) : Child P (P.frame m).framer x :=
  ⟨m, rfl, List.mem_append_right _ h⟩

theorem FInv.congr {P : Prog} {i : Frid} {s s' : St W} (h : FInv P i s)
    (ha : (s'.fr i).active = (s.fr i).active) (hl : (s'.fr i).actives = (s.fr i).actives)
    (hk : ∀ m x, (P.frame m).framer = i → IsSusp P m x → (s'.fr x).done = (s.fr x).done) : FInv P i s' := by
  have hrun : ∀ m x, (P.frame m).framer = i → (Running P s' m x ↔ Running P s m x) := by
    intro m x hm
    constructor
    · intro ⟨h1, h2⟩; exact ⟨h1, by rw [← hk m x hm h1]; exact h2⟩
    · intro ⟨h1, h2⟩; exact ⟨h1, by rw [hk m x hm h1]; exact h2⟩
  constructor
  · intro hn; rw [hl]; exact h.none_nil (by rw [← ha]; exact hn)
  · intro a hs; exact h.own a (by rw [← ha]; exact hs)
  · intro a hs hno
    rw [hl]
    exact h.full a (by rw [← ha]; exact hs) (fun m x hm hr => hno m x hm ((hrun m x hm).2 hr))
  · intro m x hm hr
    rw [hl]; exact h.cut m x hm ((hrun m x hm).1 hr)
  · intro m x m' x' hm hm' hr hr'
    exact h.single m x m' x' hm hm' ((hrun m x hm).1 hr) ((hrun m' x' hm').1 hr')

/-- an operation confined to the subtree of `y` keeps the invariant of every framer outside that subtree,
except possibly the parent of `y` -/
theorem FInv.of_mod {P : Prog} {rank : Frid → Nat} (wf : WF P rank) {y j : Frid} {s s' : St W}
    (hm : Mod (Reach P y) s s') (hj : ¬ Reach P y j) (hp : ¬ Child P j y) (h : FInv P j s) : FInv P j s' := by
  apply h.congr
  · exact core_active (hm.same j hj)
  · exact core_actives (hm.same j hj)
  · intro m x hmj hx
    have hc : Child P j x := by rw [← hmj]; exact susp_child hx
    apply core_done
    apply hm.same
    intro hr
    rcases kid_in_subtree wf hc hr with h' | h'
    · subst h'; exact hp hc
    · exact hj h'

/-! ### field access after the state primitives -/

@[simp] theorem fr_setFr (s : St W) (i j : Frid) (x : FramerSt) :
    (s.setFr i x).fr j = if j = i then x else s.fr j := rfl
@[simp] theorem fr_modFr (s : St W) (i j : Frid) (f : FramerSt → FramerSt) :
    (s.modFr i f).fr j = if j = i then f (s.fr i) else s.fr j := rfl
@[simp] theorem fr_emit (s : St W) (e : Event) (j : Frid) : (s.emit e).fr j = s.fr j := rfl
@[simp] theorem bad_setFr (s : St W) (i : Frid) (x : FramerSt) : (s.setFr i x).bad = s.bad := rfl
@[simp] theorem bad_modFr (s : St W) (i : Frid) (f : FramerSt → FramerSt) : (s.modFr i f).bad = s.bad := rfl
@[simp] theorem bad_emit (s : St W) (e : Event) : (s.emit e).bad = s.bad := rfl
@[simp] theorem fr_markOverlap (b : Bool) (s : St W) (j : Frid) : (markOverlap b s).fr j = s.fr j := rfl
@[simp] theorem fr_markReenter (b : Bool) (s : St W) (j : Frid) : (markReenter b s).fr j = s.fr j := rfl

theorem bad_markOverlap (b : Bool) (s : St W) : (markOverlap b s).bad = (s.bad || b) := by
  simp only [St.bad, markOverlap]
  cases s.overlap <;> cases s.reenter <;> cases b <;> rfl

theorem bad_markReenter (b : Bool) (s : St W) : (markReenter b s).bad = (s.bad || b) := by
  simp only [St.bad, markReenter]
  cases s.overlap <;> cases s.reenter <;> cases b <;> rfl

/-! ### local steps of an operation on framer `i` -/

/-- `x` is a conditional auxiliary of some frame of framer `i` -/
def CondKid (P : Prog) (i x : Frid) : Prop := ∃ m, (P.frame m).framer = i ∧ IsSusp P m x

theorem CondKid.child {P : Prog} {i x : Frid} (h : CondKid P i x) : Child P i x := by
  obtain ⟨m, hm, hx⟩ := h
  rw [← hm]; exact susp_child hx

/-- a step that, outside framer `i` itself, only writes `main` of framers below `i` (and `desire`) -/
structure Step (P : Prog) (i : Frid) (s s' : St W) : Prop where
  core : ∀ j, ¬ Reach P i j → (s'.fr j).core = (s.fr j).core
  done : ∀ j, j ≠ i → (s'.fr j).done = (s.fr j).done
  active : ∀ j, j ≠ i → (s'.fr j).active = (s.fr j).active
  actives : ∀ j, j ≠ i → (s'.fr j).actives = (s.fr j).actives
  flags : s.bad = true → s'.bad = true

theorem Step.refl (P : Prog) (i : Frid) (s : St W) : Step P i s s :=
  ⟨fun _ _ => rfl, fun _ _ => rfl, fun _ _ => rfl, fun _ _ => rfl, id⟩

theorem Step.trans {P : Prog} {i : Frid} {s1 s2 s3 : St W} (h1 : Step P i s1 s2) (h2 : Step P i s2 s3) :
    Step P i s1 s3 :=
  ⟨fun j hj => (h2.core j hj).trans (h1.core j hj), fun j hj => (h2.done j hj).trans (h1.done j hj),
   fun j hj => (h2.active j hj).trans (h1.active j hj), fun j hj => (h2.actives j hj).trans (h1.actives j hj),
   fun h => h2.flags (h1.flags h)⟩

/-- the framer's own `active` / `actives` are kept -/
def Keep (i : Frid) (s s' : St W) : Prop :=
  (s'.fr i).active = (s.fr i).active ∧ (s'.fr i).actives = (s.fr i).actives

theorem Keep.refl (i : Frid) (s : St W) : Keep i s s := ⟨rfl, rfl⟩
theorem Keep.trans {i : Frid} {s1 s2 s3 : St W} (h1 : Keep i s1 s2) (h2 : Keep i s2 s3) : Keep i s1 s3 :=
  ⟨h2.1.trans h1.1, h2.2.trans h1.2⟩

/-- what a part of an operation on framer `i` may do: touch the subtree of `i`, keep the invariant of
everything strictly below `i`, and change the `done` flag of `i`'s conditional kids only within `X` -/
structure Sub (P : Prog) (i : Frid) (X : Frid → Prop) (s s' : St W) : Prop where
  mod : Mod (Reach P i) s s'
  below : s'.bad = false → Below P i s → Below P i s'
  kids : ∀ x, CondKid P i x → ¬ X x → (s'.fr x).done = (s.fr x).done

theorem Sub.refl (P : Prog) (i : Frid) (X : Frid → Prop) (s : St W) : Sub P i X s s :=
  ⟨Mod.refl _ _, fun _ h => h, fun _ _ _ => rfl⟩

theorem Sub.trans {P : Prog} {i : Frid} {X : Frid → Prop} {s1 s2 s3 : St W}
    (h1 : Sub P i X s1 s2) (h2 : Sub P i X s2 s3) : Sub P i X s1 s3 :=
  ⟨h1.mod.trans h2.mod,
   fun hb hbl => h2.below hb (h1.below (h2.mod.bad_false hb) hbl),
   fun x hx hn => (h2.kids x hx hn).trans (h1.kids x hx hn)⟩

theorem Sub.mono {P : Prog} {i : Frid} {X Y : Frid → Prop} {s s' : St W} (h : Sub P i X s s')
    (hxy : ∀ x, X x → Y x) : Sub P i Y s s' :=
  ⟨h.mod, h.below, fun x hx hn => h.kids x hx (fun hh => hn (hxy x hh))⟩

section sub
variable {P : Prog} {rank : Frid → Nat} (wf : WF P rank)
include wf

/-- a local step is a `Sub` that changes no conditional kid -/
theorem Step.sub {i : Frid} {s s' : St W} (h : Step P i s s') (X : Frid → Prop) : Sub P i X s s' := by
  refine ⟨⟨h.core, h.flags⟩, ?_, ?_⟩
  · intro _ hbl y hy j hj
    have hji : j ≠ i := by
      intro e; subst e
      exact not_reach_parent wf hy hj
    apply (hbl y hy j hj).congr (h.active j hji) (h.actives j hji)
    intro m x hm hx
    apply h.done
    intro e; subst e
    have hc : Child P j x := by rw [← hm]; exact susp_child hx
    have h1 := child_rank wf hc
    have h2 := reach_rank wf (Reach.step hy hj)
    omega
  · intro x hx _
    apply h.done
    intro e; subst e
    have := child_rank wf hx.child
    omega

end sub

/-! ### primitive steps -/

theorem step_modFr (P : Prog) (i : Frid) (f : FramerSt → FramerSt) (s : St W) : Step P i s (s.modFr i f) := by
  refine ⟨?_, ?_, ?_, ?_, ?_⟩
  · intro j hj
    have : j ≠ i := fun e => hj (e ▸ Reach.refl j)
    simp [this]
  all_goals first | (intro j hj; simp [hj]) | (intro h; simpa using h)

theorem step_emit (P : Prog) (i : Frid) (e : Event) (s : St W) : Step P i s (s.emit e) :=
  ⟨fun _ _ => rfl, fun _ _ => rfl, fun _ _ => rfl, fun _ _ => rfl, id⟩

/-- writing only `main` (claim / release) of a framer below `i` -/
theorem step_main (P : Prog) (i y : Frid) (hy : Child P i y) (m : Option Fid) (s : St W) :
    Step P i s (s.modFr y (fun x => { x with main := m })) := by
  refine ⟨?_, ?_, ?_, ?_, ?_⟩
  · intro j hj
    have : j ≠ y := fun e => hj (e ▸ reach_child hy)
    simp [this]
  · intro j _; by_cases h : j = y <;> simp [h]
  · intro j _; by_cases h : j = y <;> simp [h]
  · intro j _; by_cases h : j = y <;> simp [h]
  · intro h; simpa using h

theorem step_markOverlap (P : Prog) (i : Frid) (b : Bool) (s : St W) : Step P i s (markOverlap b s) :=
  ⟨fun _ _ => rfl, fun _ _ => rfl, fun _ _ => rfl, fun _ _ => rfl,
   fun h => by rw [bad_markOverlap, h]; rfl⟩

theorem step_markReenter (P : Prog) (i : Frid) (b : Bool) (s : St W) : Step P i s (markReenter b s) :=
  ⟨fun _ _ => rfl, fun _ _ => rfl, fun _ _ => rfl, fun _ _ => rfl,
   fun h => by rw [bad_markReenter, h]; rfl⟩

/-! ### acts -/

theorem setDesire_core (c : Control) (frs : List Frid) (s : St W) (j : Frid) :
    ((setDesire c frs s).fr j).core = (s.fr j).core ∧ (setDesire c frs s).bad = s.bad := by
  induction frs generalizing s with
  | nil => exact ⟨rfl, rfl⟩
  | cons k ks ih =>
    simp only [setDesire, List.foldl_cons]
    have := ih (s.modFr k (fun x => { x with desire := c }))
    simp only [setDesire] at this
    refine ⟨this.1.trans ?_, this.2.trans (by simp)⟩
    by_cases h : j = k <;> simp [h, FramerSt.core]

theorem setDone_other (frs : List Frid) (i : Frid) (hfrs : ∀ j, j ∈ frs → j = i) (s : St W) (j : Frid)
    (hj : j ≠ i) : (setDone frs s).fr j = s.fr j := by
  induction frs generalizing s with
  | nil => rfl
  | cons k ks ih =>
    simp only [setDone, List.foldl_cons]
    have hk : k = i := hfrs k (by simp)
    have := ih (fun j hj => hfrs j (by simp [hj])) (s.modFr k (fun x => { x with done := true }))
    simp only [setDone] at this
    rw [this]
    simp [hk, hj]

theorem setDone_own (frs : List Frid) (i : Frid) (s : St W) :
    ((setDone frs s).fr i).active = (s.fr i).active ∧ ((setDone frs s).fr i).actives = (s.fr i).actives ∧
    (setDone frs s).bad = s.bad := by
  induction frs generalizing s with
  | nil => exact ⟨rfl, rfl, rfl⟩
  | cons k ks ih =>
    simp only [setDone, List.foldl_cons]
    have := ih (s.modFr k (fun x => { x with done := true }))
    simp only [setDone] at this
    refine ⟨this.1.trans ?_, this.2.1.trans ?_, this.2.2.trans (by simp)⟩ <;>
      by_cases h : i = k <;> simp [h]

theorem runAct_step (P : Prog) (sem : Sem W) (ctx : Ctx) (f : Fid) (i : Frid) (a : Act) (ha : DoneOnly i a)
    (s : St W) : Step P i s (runAct sem ctx f a s).1 ∧ Keep i s (runAct sem ctx f a s).1 := by
  cases a with
  | world aid => exact ⟨⟨fun _ _ => rfl, fun _ _ => rfl, fun _ _ => rfl, fun _ _ => rfl, fun h => h⟩, rfl, rfl⟩
  | done frs =>
    simp only [runAct]
    have hfrs : ∀ j, j ∈ frs → j = i := ha
    refine ⟨⟨?_, ?_, ?_, ?_, ?_⟩, ?_⟩
    · intro j hj
      have : j ≠ i := fun e => hj (e ▸ Reach.refl j)
      rw [setDone_other frs i hfrs s j this]
    · intro j hj; rw [setDone_other frs i hfrs s j hj]
    · intro j hj; rw [setDone_other frs i hfrs s j hj]
    · intro j hj; rw [setDone_other frs i hfrs s j hj]
    · intro h; rw [(setDone_own frs i s).2.2]; exact h
    · exact ⟨(setDone_own frs i s).1, (setDone_own frs i s).2.1⟩
  | bid c frs =>
    simp only [runAct]
    refine ⟨⟨?_, ?_, ?_, ?_, ?_⟩, ?_⟩
    · intro j _; exact (setDesire_core c frs s j).1
    · intro j _; exact core_done (setDesire_core c frs s j).1
    · intro j _; exact core_active (setDesire_core c frs s j).1
    · intro j _; exact core_actives (setDesire_core c frs s j).1
    · intro h; rw [(setDesire_core c frs s 0).2]; exact h
    · exact ⟨core_active (setDesire_core c frs s i).1, core_actives (setDesire_core c frs s i).1⟩

theorem runActs_step (P : Prog) (sem : Sem W) (ctx : Ctx) (f : Fid) (i : Frid) (acts : List Act)
    (ha : ∀ a, a ∈ acts → DoneOnly i a) (s : St W) :
    Step P i s (runActs sem ctx f acts s) ∧ Keep i s (runActs sem ctx f acts s) := by
  induction acts generalizing s with
  | nil => exact ⟨Step.refl _ _ _, Keep.refl _ _⟩
  | cons a as ih =>
    simp only [runActs, List.foldl_cons]
    have h1 := runAct_step P sem ctx f i a (ha a (by simp)) s
    have h2 := ih (fun b hb => ha b (by simp [hb])) (runAct sem ctx f a s).1
    simp only [runActs] at h2
    exact ⟨h1.1.trans h2.1, h1.2.trans h2.2⟩

/-! ### loops -/

theorem forEach_rel {α : Type} {R : St W → St W → Prop} (hrefl : ∀ s, R s s)
    (htrans : ∀ a b c, R a b → R b c → R a c) (f : α → St W → Except Err (St W)) (l : List α)
    (hf : ∀ x, x ∈ l → ∀ s s', f x s = .ok s' → R s s') : ∀ s s', forEach f l s = .ok s' → R s s' := by
  induction l with
  | nil => intro s s' h; simp only [forEach, Except.ok.injEq] at h; subst h; exact hrefl s
  | cons x xs ih =>
    intro s s' h
    simp only [forEach] at h
    cases hx : f x s with
    | error e => simp [hx] at h
    | ok s1 =>
      simp only [hx] at h
      exact htrans _ _ _ (hf x (by simp) s s1 hx) (ih (fun y hy => hf y (by simp [hy])) s1 s' h)

/-! ### what is assumed of the entry points of the level below -/

structure OpOK (P : Prog) (op : Frid → St W → Except Err (St W)) : Prop where
  mod : ∀ y s s', op y s = .ok s' → Mod (Reach P y) s s'
  inv : ∀ y s s', op y s = .ok s' → s'.bad = false → InvR P y s → InvR P y s'

structure LoSpec (P : Prog) (lo : Ops W) : Prop where
  enterAll : OpOK P lo.enterAll
  exitAll : OpOK P lo.exitAll
  recur : OpOK P lo.recur
  segue : OpOK P lo.segue
  exit_done : ∀ y s s', lo.exitAll y s = .ok s' → (s'.fr y).done = true

section level
variable {P : Prog} {rank : Frid → Nat} (wf : WF P rank)
include wf

omit wf in
theorem reach_sub {i y : Frid} (hy : Child P i y) : ∀ j, Reach P y j → Reach P i j :=
  fun _ hj => Reach.step hy hj

/-- an entry point of the level below, called on a kid `y` of `i` -/
theorem lo_sub {op : Frid → St W → Except Err (St W)} (hop : OpOK P op) {i y : Frid} (hy : Child P i y)
    {s s' : St W} (h : op y s = .ok s') : Sub P i (fun x => x = y) s s' ∧ Keep i s s' := by
  have hm := hop.mod y s s' h
  have hi : ¬ Reach P y i := not_reach_parent wf hy
  refine ⟨⟨hm.mono (reach_sub hy), ?_, ?_⟩, ?_⟩
  · intro hb hbl y' hy' j hj
    by_cases e : y' = y
    · subst e; exact hop.inv _ s s' h hb (hbl _ hy') j hj
    · have hnj : ¬ Reach P y j := siblings_disjoint wf hy' hy e hj
      have hji : j ≠ i := by
        intro e'; subst e'; exact not_reach_parent wf hy' hj
      have hp : ¬ Child P j y := fun hc => hji (parent_unique wf hc hy)
      exact (hbl y' hy' j hj).of_mod wf hm hnj hp
  · intro x hx hne
    apply core_done
    apply hm.same
    intro hr
    exact siblings_disjoint wf hx.child hy hne (Reach.refl x) hr
  · exact ⟨core_active (hm.same i hi), core_actives (hm.same i hi)⟩

/-- a plain auxiliary is not a conditional auxiliary -/
theorem plain_ne_cond {f : Fid} {y : Frid} (hy : y ∈ (P.frame f).auxes) {i x : Frid} (hx : CondKid P i x) : x ≠ y := by
  intro e; subst e
  obtain ⟨m, _, hm⟩ := hx
  have hf : x ∈ kids P f := List.mem_append_left _ hy
  have hm' : x ∈ kids P m := List.mem_append_right _ hm
  have := wf.unique f m x hf hm'
  subst this
  have hnd := wf.nodup f
  simp only [kids] at hnd
  exact (List.nodup_append.1 hnd).2.2 x hy x hm rfl

omit wf in
theorem plain_child {f : Fid} {y : Frid} (hy : y ∈ (P.frame f).auxes) : Child P (P.frame f).framer y :=
  ⟨f, rfl, List.mem_append_left _ hy⟩

theorem lo_sub_plain {op : Frid → St W → Except Err (St W)} (hop : OpOK P op) {f : Fid} {y : Frid}
    (hy : y ∈ (P.frame f).auxes) {s s' : St W} (h : op y s = .ok s') :
    Sub P (P.frame f).framer (fun _ => False) s s' ∧ Keep (P.frame f).framer s s' := by
  have := lo_sub wf hop (plain_child hy) h
  refine ⟨⟨this.1.mod, this.1.below, ?_⟩, this.2⟩
  intro x hx _
  exact this.1.kids x hx (plain_ne_cond wf hy hx)

theorem child_ne {i y : Frid} (hy : Child P i y) : y ≠ i := by
  intro e; subst e
  have := child_rank wf hy
  omega

theorem keep_of_step_other {i y : Frid} (hy : Child P i y) (f : FramerSt → FramerSt) (s : St W) :
    Keep i s (s.modFr y f) := by
  have : i ≠ y := fun e => child_ne wf hy e.symm
  simp [Keep, this]

theorem claim_step {i y : Frid} (hy : Child P i y) (m : Fid) (s : St W) :
    Step P i s (claim P y m s) ∧ Keep i s (claim P y m s) := by
  unfold claim
  split
  · exact ⟨step_main P i y hy _ s, keep_of_step_other wf hy _ s⟩
  · exact ⟨Step.refl _ _ _, Keep.refl _ _⟩

theorem release_step {i y : Frid} (hy : Child P i y) (s : St W) :
    Step P i s (release P y s) ∧ Keep i s (release P y s) := by
  unfold release
  split
  · exact ⟨step_main P i y hy _ s, keep_of_step_other wf hy _ s⟩
  · exact ⟨Step.refl _ _ _, Keep.refl _ _⟩

/-- `Sub ∧ Keep` as one relation (for `forEach_rel`) -/
def SK (P : Prog) (i : Frid) (X : Frid → Prop) (s s' : St W) : Prop := Sub P i X s s' ∧ Keep i s s'

omit wf in
theorem SK.refl (i : Frid) (X : Frid → Prop) (s : St W) : SK P i X s s := ⟨Sub.refl _ _ _ _, Keep.refl _ _⟩
omit wf in
theorem SK.trans {i : Frid} {X : Frid → Prop} {a b c : St W} (h1 : SK P i X a b) (h2 : SK P i X b c) : SK P i X a c :=
  ⟨h1.1.trans h2.1, h1.2.trans h2.2⟩

theorem SK.of_step {i : Frid} {s s' : St W} (h : Step P i s s' ∧ Keep i s s') (X : Frid → Prop) : SK P i X s s' :=
  ⟨h.1.sub wf X, h.2⟩

variable {sem : Sem W} {lo : Ops W} (hlo : LoSpec P lo)
include hlo

theorem frameEnter_sk {f : Fid} {s s' : St W} (h : frameEnter P sem lo f s = .ok s') :
    SK P (P.frame f).framer (fun _ => False) s s' := by
  unfold frameEnter at h
  have h1 : SK P (P.frame f).framer (fun _ => False) s
      (runActs sem .enter f (P.frame f).enacts (s.emit (.enter f))) :=
    SK.trans (SK.of_step wf ⟨step_emit P _ _ s, Keep.refl _ _⟩ _)
      (SK.of_step wf (runActs_step P sem .enter f _ _ (wf.doneEn f) _) _)
  refine SK.trans h1 ?_
  refine forEach_rel (R := SK P (P.frame f).framer (fun _ => False)) (SK.refl _ _) (fun _ _ _ => SK.trans) _ _ ?_ _ _ h
  intro y hy s1 s2 h2
  have hc := plain_child (P := P) hy
  exact SK.trans (SK.of_step wf (claim_step wf hc f s1) _) (lo_sub_plain wf hlo.enterAll hy h2)

omit wf hlo in
theorem restartClocks_step (i : Frid) (s : St W) :
    Step P i s (restartClocks i s) ∧ Keep i s (restartClocks i s) :=
  ⟨step_modFr P i _ s, by simp [Keep, restartClocks]⟩

theorem enter_sk {i : Frid} {enters : List Fid} (hown : ∀ f, f ∈ enters → (P.frame f).framer = i)
    {s s' : St W} (h : enter P sem lo i enters s = .ok s') : SK P i (fun _ => False) s s' := by
  unfold enter at h
  have h0 : SK P i (fun _ => False) s (if enters.isEmpty then s else restartClocks i s) := by
    split
    · exact SK.refl _ _ _
    · exact SK.of_step wf (restartClocks_step i s) _
  refine SK.trans h0 ?_
  refine forEach_rel (R := SK P i (fun _ => False)) (SK.refl _ _) (fun _ _ _ => SK.trans) _ _ ?_ _ _ h
  intro f hf s1 s2 h2
  have := frameEnter_sk wf hlo h2
  rw [hown f hf] at this
  exact this

omit wf hlo in
theorem invR_iff (i : Frid) (s : St W) : InvR P i s ↔ FInv P i s ∧ Below P i s := by
  constructor
  · intro h
    exact ⟨h i (Reach.refl i), fun y hy j hj => h j (Reach.step hy hj)⟩
  · intro ⟨h1, h2⟩ j hj
    cases hj with
    | refl => exact h1
    | step hc hr => exact h2 _ hc j hr

omit wf hlo in
/-- `FInv i` is kept by a part of an operation that keeps `active`/`actives` and all conditional kids -/
theorem FInv.of_sk {i : Frid} {s s' : St W} (h : FInv P i s) (hsk : SK P i (fun _ => False) s s') : FInv P i s' :=
  h.congr hsk.2.1 hsk.2.2 (fun m x hm hx => hsk.1.kids x ⟨m, hm, hx⟩ (fun hf => hf))

omit hlo in
theorem head_mem (m : Fid) : m ∈ (P.frame m).head :=
  List.mem_of_getLast? (wf.headLast m)

omit hlo in
/-- an inactive framer has no running conditional auxiliary -/
theorem FInv.no_running_of_inactive {i : Frid} {s : St W} (h : FInv P i s) (hn : (s.fr i).active = none)
    (m : Fid) (x : Frid) (hm : (P.frame m).framer = i) : ¬ Running P s m x := by
  intro hr
  have h1 := h.cut m x hm hr
  have h2 := h.none_nil hn
  have h3 := head_mem wf m
  rw [← h1, h2] at h3
  cases h3

/-- `Framer.enterAll` -/
theorem enterAll_spec {i : Frid} {s s' : St W} (h : enterAll P sem lo i s = .ok s') :
    Mod (Reach P i) s s' ∧ (s'.bad = false → InvR P i s → InvR P i s') := by
  unfold enterAll at h
  -- name the intermediate states
  obtain ⟨s0, hs0⟩ : ∃ x, x = markReenter (s.fr i).active.isSome s := ⟨_, rfl⟩
  obtain ⟨s1, hs1⟩ : ∃ x, x = s0.modFr i (fun x => { x with done := false }) := ⟨_, rfl⟩
  obtain ⟨s2, hs2⟩ : ∃ x, x = activate P i (P.framer i).first s1 := ⟨_, rfl⟩
  replace h : enter P sem lo i (s2.fr i).actives s2 = .ok s' := by subst hs2 hs1 hs0; exact h
  have st0 : Step P i s s0 := hs0 ▸ step_markReenter P i _ s
  have st1 : Step P i s0 s1 := hs1 ▸ step_modFr P i _ s0
  have st2 : Step P i s1 s2 := by
    rw [hs2]; unfold activate
    exact (step_modFr P i _ s1).trans (step_emit P i _ _)
  have hact : (s2.fr i).active = some (P.framer i).first ∧
      (s2.fr i).actives = (P.frame (P.framer i).first).outline := by
    rw [hs2]; simp [activate]
  have hown : ∀ f, f ∈ (s2.fr i).actives → (P.frame f).framer = i := by
    intro f hf
    rw [hact.2] at hf
    rw [wf.outlineOwn _ f hf, wf.firstOwn i]
  have hsk := enter_sk wf hlo hown h
  have st02 : Step P i s s2 := (st0.trans st1).trans st2
  have hsub : Sub P i (fun _ => False) s s' := (st02.sub wf _).trans hsk.1
  refine ⟨hsub.mod, ?_⟩
  intro hb hinv
  rw [invR_iff] at hinv ⊢
  refine ⟨?_, hsub.below hb hinv.2⟩
  -- the framer was inactive, otherwise the re-entry flag is up
  have hnone : (s.fr i).active = none := by
    cases ha : (s.fr i).active with
    | none => rfl
    | some a =>
      exfalso
      have : s0.bad = true := by
        rw [hs0, bad_markReenter, ha]; simp
      have := hsk.1.mod.flags (st2.flags (st1.flags this))
      rw [this] at hb; cases hb
  have hnr := hinv.1.no_running_of_inactive wf hnone
  have hkid : ∀ m x, (P.frame m).framer = i → IsSusp P m x → (s'.fr x).done = (s.fr x).done :=
    fun m x hm hx => hsub.kids x ⟨m, hm, hx⟩ (fun hf => hf)
  have hnr' : ∀ m x, (P.frame m).framer = i → ¬ Running P s' m x := by
    intro m x hm ⟨h1, h2⟩
    exact hnr m x hm ⟨h1, by rw [← hkid m x hm h1]; exact h2⟩
  have ha' : (s'.fr i).active = some (P.framer i).first := hsk.2.1.trans hact.1
  have hl' : (s'.fr i).actives = (P.frame (P.framer i).first).outline := hsk.2.2.trans hact.2
  constructor
  · intro hn; rw [ha'] at hn; cases hn
  · intro a hs; rw [ha'] at hs; cases hs; exact wf.firstOwn i
  · intro a hs _; rw [ha'] at hs; cases hs; exact hl'
  · intro m x hm hr; exact absurd hr (hnr' m x hm)
  · intro m x m' x' hm _ hr _; exact absurd hr (hnr' m x hm)

/-! #### exit -/

omit wf hlo in
theorem susp_condkid {f : Fid} {x : Frid} (hx : IsSusp P f x) : CondKid P (P.frame f).framer x := ⟨f, rfl, hx⟩

/-- `Suspender.deactivate(aux)` on a conditional kid -/
theorem deactivateAux_sk {i x : Frid} (hx : CondKid P i x) {s s' : St W}
    (h : deactivateAux P lo x s = .ok s') : SK P i (fun z => z = x) s s' ∧ (s'.fr x).done = true := by
  unfold deactivateAux at h
  cases h1 : lo.exitAll x s with
  | error e => simp [h1] at h
  | ok s1 =>
    simp only [h1, Except.ok.injEq] at h
    subst h
    have hr := release_step wf hx.child s1
    refine ⟨SK.trans (lo_sub wf hlo.exitAll hx.child h1) (SK.of_step wf hr _), ?_⟩
    have : (release P x s1).fr x |>.done = (s1.fr x).done := by
      unfold release; split <;> simp
    rw [this]; exact hlo.exit_done x s s1 h1

theorem deactivize_sk {i x : Frid} (hx : CondKid P i x) {s s' : St W}
    (h : deactivize P lo x s = .ok s') : SK P i (fun z => z = x) s s' ∧ (s'.fr x).done = true := by
  unfold deactivize at h
  split at h
  · rename_i hd
    simp only [Except.ok.injEq] at h; subst h
    exact ⟨SK.refl _ _ _, hd⟩
  · exact deactivateAux_sk wf hlo hx h

/-- the `deactivize` side acts of one frame -/
theorem deactivize_all {i : Frid} (l : List Frid) (hl : ∀ x, x ∈ l → CondKid P i x) (X : Frid → Prop)
    (hX : ∀ x, x ∈ l → X x) : ∀ s s', forEach (deactivize P lo) l s = .ok s' →
      SK P i X s s' ∧ (∀ x, x ∈ l → (s'.fr x).done = true) ∧
      (∀ z, CondKid P i z → (s.fr z).done = true → (s'.fr z).done = true) := by
  induction l with
  | nil =>
    intro s s' h; simp only [forEach, Except.ok.injEq] at h; subst h
    exact ⟨SK.refl _ _ _, fun _ hx => by cases hx, fun _ _ h => h⟩
  | cons x xs ih =>
    intro s s' h
    simp only [forEach] at h
    cases h1 : deactivize P lo x s with
    | error e => simp [h1] at h
    | ok s1 =>
      simp only [h1] at h
      have hx := hl x (by simp)
      have d1 := deactivize_sk wf hlo hx h1
      have d2 := ih (fun y hy => hl y (by simp [hy])) (fun y hy => hX y (by simp [hy])) s1 s' h
      have mono1 : ∀ z, CondKid P i z → (s.fr z).done = true → (s1.fr z).done = true := by
        intro z hz hd
        by_cases e : z = x
        · subst e; exact d1.2
        · rw [d1.1.1.kids z hz e]; exact hd
      refine ⟨SK.trans ⟨d1.1.1.mono (fun z hz => hz ▸ hX x (by simp)), d1.1.2⟩ d2.1, ?_, ?_⟩
      · intro y hy
        rcases List.mem_cons.1 hy with e | hy'
        · subst e; exact d2.2.2 y hx d1.2
        · exact d2.2.1 y hy'
      · intro z hz hd; exact d2.2.2 z hz (mono1 z hz hd)

/-- `Frame.exit()` of a frame of framer `i` -/
theorem frameExit_sk {f : Fid} {s s' : St W} (h : frameExit P sem lo f s = .ok s') :
    SK P (P.frame f).framer (fun x => IsSusp P f x) s s' ∧ (∀ x, IsSusp P f x → (s'.fr x).done = true) ∧
    (∀ z, CondKid P (P.frame f).framer z → (s.fr z).done = true → (s'.fr z).done = true) := by
  unfold frameExit at h
  cases h1 : forEach (fun aux s => match lo.exitAll aux s with
                              | .error e => .error e
                              | .ok s' => .ok (release P aux s')) (P.frame f).auxes (s.emit (.exit f)) with
  | error e => simp [h1] at h
  | ok s1 =>
    simp only [h1] at h
    have a1 : SK P (P.frame f).framer (fun _ => False) s s1 := by
      refine SK.trans (SK.of_step wf ⟨step_emit P _ _ s, Keep.refl _ _⟩ _) ?_
      refine forEach_rel (R := SK P (P.frame f).framer (fun _ => False)) (SK.refl _ _)
        (fun _ _ _ => SK.trans) _ _ ?_ _ _ h1
      intro y hy t t' ht
      cases h2 : lo.exitAll y t with
      | error e => simp [h2] at ht
      | ok t1 =>
        simp only [h2, Except.ok.injEq] at ht
        subst ht
        exact SK.trans (lo_sub_plain wf hlo.exitAll hy h2) (SK.of_step wf (release_step wf (plain_child hy) t1) _)
    have a2 : SK P (P.frame f).framer (fun _ => False) s1 (runActs sem .exit f (P.frame f).exacts s1) :=
      SK.of_step wf (runActs_step P sem .exit f _ _ (wf.doneEx f) s1) _
    have a3 := deactivize_all wf hlo (suspAuxes (P.frame f).preacts) (fun x hx => susp_condkid hx)
      (fun x => IsSusp P f x) (fun x hx => hx) _ _ h
    have a12 : SK P (P.frame f).framer (fun x => IsSusp P f x) s (runActs sem .exit f (P.frame f).exacts s1) :=
      ⟨(a1.1.trans a2.1).mono (fun _ hf => hf.elim), a1.2.trans a2.2⟩
    refine ⟨SK.trans a12 a3.1, a3.2.1, ?_⟩
    intro z hz hd
    apply a3.2.2 z hz
    rw [(a1.1.trans a2.1).kids z hz (fun hf => hf)]; exact hd

/-- `Framer.exit(exits)` -/
theorem exit_sk {i : Frid} (l : List Fid) (hown : ∀ f, f ∈ l → (P.frame f).framer = i) :
    ∀ s s', forEach (frameExit P sem lo) l s = .ok s' →
      SK P i (fun x => ∃ f, f ∈ l ∧ IsSusp P f x) s s' ∧
      (∀ f x, f ∈ l → IsSusp P f x → (s'.fr x).done = true) ∧
      (∀ z, CondKid P i z → (s.fr z).done = true → (s'.fr z).done = true) := by
  induction l with
  | nil =>
    intro s s' h; simp only [forEach, Except.ok.injEq] at h; subst h
    exact ⟨SK.refl _ _ _, fun _ _ hf => by cases hf, fun _ _ h => h⟩
  | cons g gs ih =>
    intro s s' h
    simp only [forEach] at h
    cases h1 : frameExit P sem lo g s with
    | error e => simp [h1] at h
    | ok s1 =>
      simp only [h1] at h
      have hg := hown g (by simp)
      have d1 := frameExit_sk wf hlo h1
      rw [hg] at d1
      have d2 := ih (fun f hf => hown f (by simp [hf])) s1 s' h
      refine ⟨SK.trans ⟨d1.1.1.mono (fun x hx => ⟨g, by simp, hx⟩), d1.1.2⟩
          ⟨d2.1.1.mono (fun x ⟨f, hf, hx⟩ => ⟨f, by simp [hf], hx⟩), d2.1.2⟩, ?_, ?_⟩
      · intro f x hf hx
        rcases List.mem_cons.1 hf with e | hf'
        · subst e
          exact d2.2.2 x ⟨f, hg, hx⟩ (d1.2.1 x hx)
        · exact d2.2.1 f x hf' hx
      · intro z hz hd; exact d2.2.2 z hz (d1.2.2 z hz hd)

/-- `Framer.exitAll(abort)` -/
theorem exitAll_spec {i : Frid} {abort : Bool} {s s' : St W} (hinv0 : FInv P i s ∨ True)
    (h : exitAll P sem lo abort i s = .ok s') :
    Mod (Reach P i) s s' ∧ (s'.bad = false → InvR P i s → InvR P i s') ∧
    ((s'.fr i).active = none ∧ (s'.fr i).actives = []) ∧ (abort = false → (s'.fr i).done = true) ∧
    (InvR P i s → ∀ j, j ≠ i → (s'.fr j).status = (s.fr j).status) ∧
    (s'.fr i).status = (s.fr i).status := by
  sorry

end level

end Ioflo.Flo
